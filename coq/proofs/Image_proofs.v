(** Proofs about model/Image.v (C15).  The statements of the main lemmas (those listed
    in props/C15.v) are fixed; everything else is auxiliary. *)
From Coq Require Import QArith Qround Qabs Qpower Lia Lqa Permutation.
From V.lib Require Import Prelude.
From V.model Require Import PackUri Image.
From V.proofs Require Import Prelude_proofs PackUri_proofs.
Local Open Scope Z_scope.

(* ================================================================== decimal text *)

Definition dstep (acc c : N) : N := (acc * 10 + (c - 48))%N.

Lemma dec_value_fold s : dec_value s = fold_left dstep s 0%N.
Proof. reflexivity. Qed.

Lemma dec_digits_spec : forall f n acc, (n < 2 ^ N.of_nat f)%N ->
  exists pre, dec_digits_fuel (S f) n acc = pre ++ acc /\ pre <> [] /\
    forallb is_digit pre = true /\
    forall a, fold_left dstep pre a = (a * 10 ^ N.of_nat (length pre) + n)%N.
Proof.
  induction f as [|f IH]; intros n acc Hn.
  - assert (n = 0%N) by (simpl in Hn; lia). subst n.
    exists [48%N]. split; [reflexivity|]. split; [discriminate|]. split; [reflexivity|].
    intros a. simpl. unfold dstep. lia.
  - cbn [dec_digits_fuel]. destruct (n <? 10)%N eqn:E.
    + apply N.ltb_lt in E. exists [(48 + n mod 10)%N].
      rewrite N.mod_small by lia. split; [reflexivity|]. split; [discriminate|]. split.
      * cbn [forallb]. unfold is_digit. rewrite andb_true_r. apply andb_true_iff; split; apply N.leb_le; lia.
      * intros a. cbn [fold_left length]. unfold dstep. change (N.of_nat 1) with 1%N. lia.
    + apply N.ltb_ge in E.
      assert (Hq : (n / 10 < 2 ^ N.of_nat f)%N).
      { apply N.div_lt_upper_bound; [lia|].
        replace (N.of_nat (S f)) with (N.succ (N.of_nat f)) in Hn by lia.
        rewrite N.pow_succ_r' in Hn. lia. }
      destruct (IH (n / 10)%N ((48 + n mod 10)%N :: acc) Hq) as [pre [E1 [E2 [E3 E4]]]].
      exists (pre ++ [(48 + n mod 10)%N]). rewrite <- app_assoc. cbn [app]. split; [exact E1|].
      split; [destruct pre; discriminate|]. split.
      * rewrite forallb_app, E3. cbn [forallb andb]. unfold is_digit. rewrite andb_true_r.
        assert (n mod 10 < 10)%N by (apply N.mod_lt; lia).
        clear -H. set (m := (n mod 10)%N) in *. apply andb_true_iff; split; apply N.leb_le; lia.
      * intros a. rewrite fold_left_app, E4. cbn [fold_left]. unfold dstep.
        rewrite app_length. cbn [length].
        replace (N.of_nat (length pre + 1)) with (N.succ (N.of_nat (length pre))) by lia.
        rewrite N.pow_succ_r'.
        pose proof (N.div_mod n 10) as Hdm. clear -Hdm.
        set (m := (n mod 10)%N) in *. set (q := (n / 10)%N) in *.
        set (P := (10 ^ N.of_nat (length pre))%N). 
        replace (48 + m - 48)%N with m by lia. lia.
Qed.

Lemma dec_of_N_spec n :
  dec_of_N n <> [] /\ forallb is_digit (dec_of_N n) = true /\ dec_value (dec_of_N n) = n.
Proof.
  unfold dec_of_N.
  assert (Hn : (n < 2 ^ N.of_nat (N.to_nat (N.size n)))%N).
  { rewrite N2Nat.id. destruct n as [|p]; [simpl; lia|].
    apply N.size_gt. }
  destruct (dec_digits_spec _ n [] Hn) as [pre [E1 [E2 [E3 E4]]]].
  rewrite E1, app_nil_r. split; [exact E2|]. split; [exact E3|].
  rewrite dec_value_fold, E4. lia.
Qed.

(* ================================================================== sorting, first free index *)

Lemma insertN_In x y l : In y (insertN x l) <-> y = x \/ In y l.
Proof.
  induction l as [|z l IH]; simpl.
  - split; intros [H|H]; auto; try contradiction.
  - destruct (x <=? z)%N; simpl.
    + split; intros H; intuition.
    + rewrite IH. split; intros H; intuition.
Qed.

Lemma sortN_In y l : In y (sortN l) <-> In y l.
Proof.
  induction l as [|x l IH]; simpl; [tauto|].
  rewrite insertN_In, IH. split; intros [H|H]; auto.
Qed.

Inductive sortedN : list N -> Prop :=
  | sortedN_nil : sortedN []
  | sortedN_cons x l : (forall y, In y l -> (x <= y)%N) -> sortedN l -> sortedN (x :: l).

Lemma insertN_sorted x l : sortedN l -> sortedN (insertN x l).
Proof.
  induction 1 as [|z l Hz Hs IH]; simpl.
  - constructor; [intros y []|constructor].
  - destruct (x <=? z)%N eqn:E.
    + apply N.leb_le in E. constructor.
      * intros y [->|Hy]; auto. specialize (Hz y Hy). lia.
      * constructor; auto.
    + apply N.leb_gt in E. constructor; auto.
      intros y Hy. apply insertN_In in Hy as [->|Hy]; [lia|auto].
Qed.

Lemma sortN_sorted l : sortedN (sortN l).
Proof. induction l; simpl; [constructor|apply insertN_sorted; auto]. Qed.

Lemma first_below_ge l : forall i, (i <= first_below i l)%N.
Proof.
  induction l as [|x l IH]; intros i; simpl; [lia|].
  destruct (i <? x)%N; [lia|]. specialize (IH (i + 1)%N). lia.
Qed.

Lemma first_below_fresh l : sortedN l -> forall i, ~ In (first_below i l) l.
Proof.
  induction 1 as [|x l Hx Hs IH]; intros i; simpl; [tauto|].
  destruct (i <? x)%N eqn:E.
  - apply N.ltb_lt in E. intros [->|Hin]; [lia|]. specialize (Hx _ Hin). lia.
  - apply N.ltb_ge in E. intros [Heq|Hin].
    + pose proof (first_below_ge l (i + 1)%N). lia.
    + exact (IH _ Hin).
Qed.

Lemma opt_somes_In {A} (a : A) l : In a (opt_somes l) <-> In (Some a) l.
Proof.
  induction l as [|[b|] l IH]; simpl; [tauto| |].
  - rewrite IH. split; intros [H|H]; auto; left; congruence.
  - rewrite IH. split; [auto|]. intros [H|H]; [discriminate|auto].
Qed.

Lemma next_image_idx_fresh names :
  ~ In (Some (next_image_idx names)) (map image_idx_of names).
Proof.
  unfold next_image_idx. intros Hin. apply opt_somes_In in Hin.
  apply sortN_In in Hin. revert Hin. apply first_below_fresh. apply sortN_sorted.
Qed.

(* ================================================================== the new part name *)

Definition ext_ok (e : str) : bool := no_dot e && forallb not_slash e.

Lemma starts_with_app p s : starts_with p (p ++ s) = true.
Proof. induction p as [|x p IH]; simpl; auto. rewrite N.eqb_refl. exact IH. Qed.

Definition s_ppt : str := [112; 112; 116]%N.
Definition s_media : str := [109; 101; 100; 105; 97]%N.
Definition s_image : str := [105; 109; 97; 103; 101]%N.

Lemma image_partname_render n e :
  image_partname n e = render ([s_ppt; s_media] ++ [s_image ++ dec_of_N n ++ [] ++ c_dot :: e]).
Proof. reflexivity. Qed.

Lemma image_idx_of_partname n e : ext_ok e = true -> image_idx_of (image_partname n e) = Some n.
Proof.
  intros He. apply andb_true_iff in He as [He1 He2].
  destruct (dec_of_N_spec n) as [D1 [D2 D3]].
  unfold image_idx_of.
  assert (S1 : starts_with s_img_prefix (image_partname n e) = true)
    by (unfold image_partname; apply starts_with_app).
  rewrite S1, image_partname_render.
  rewrite (idx_some [s_ppt; s_media] s_image (dec_of_N n) [] e); auto.
  - rewrite D3. reflexivity.
  - repeat constructor.
  - discriminate.
  - rewrite app_nil_r. unfold no_dot. rewrite forallb_app. apply andb_true_iff. split; [reflexivity|].
    clear -D2. induction (dec_of_N n) as [|c l IH]; simpl in *; auto.
    apply andb_true_iff in D2 as [Hc Hl]. rewrite IH by auto. rewrite andb_true_r.
    unfold is_digit in Hc. apply andb_true_iff in Hc as [H1 H2]. apply N.leb_le in H1, H2.
    unfold is_dot, c_dot. apply negb_true_iff. apply N.eqb_neq. lia.
Qed.

Lemma next_image_partname_ok names e :
  next_image_partname names e = Ok (image_partname (next_image_idx names) e).
Proof. reflexivity. Qed.

Lemma next_image_partname_fresh names e nm : ext_ok e = true ->
  next_image_partname names e = Ok nm -> ~ In nm names.
Proof.
  intros He Hn Hin. rewrite next_image_partname_ok in Hn. injection Hn as <-. apply (next_image_idx_fresh names).
  rewrite <- (image_idx_of_partname _ e He). apply in_map. exact Hin.
Qed.


Lemma digits_not_slash l : forallb is_digit l = true -> forallb not_slash l = true.
Proof. apply forallb_impl. exact digit_not_slash. Qed.

Lemma ext_image_partname n e : ext_ok e = true -> ext (image_partname n e) = e.
Proof.
  intros He. apply andb_true_iff in He as [He1 He2].
  destruct (dec_of_N_spec n) as [D1 [D2 D3]].
  change (image_partname n e) with (render ([s_ppt; s_media] ++ [(s_image ++ dec_of_N n) ++ c_dot :: e])).
  apply ext_render; auto.
  - repeat constructor.
  - unfold wf_segb.
    assert (Hns : forallb not_slash ((s_image ++ dec_of_N n) ++ c_dot :: e) = true).
    { rewrite !forallb_app. cbn [forallb]. rewrite (digits_not_slash _ D2), He2. reflexivity. }
    rewrite Hns. reflexivity.
Qed.

(* ================================================================== tables used by the store *)

Lemma assoc_In k v l : assoc k l = Some v -> In (k, v) l.
Proof.
  induction l as [|[a b] l IH]; simpl; [discriminate|].
  destruct (str_eqb_spec k a) as [->|Hn]; cbn iota.
  - intros E; inversion E; subst; auto.
  - intros E. right. auto.
Qed.

(** every extension Image.ext can return: the values of the format map and those of the
    header rules *)
Definition all_exts : list str := map snd ext_map ++ map snd ext_special.

Definition ext_row_ok (e : str) : bool :=
  ext_ok e &&
  match assoc e image_content_types with
  | Some ct => ct_is_imagepart ct
  | None => false
  end.

Lemma all_exts_ok : forallb ext_row_ok all_exts = true.
Proof. vm_compute. reflexivity. Qed.

Lemma special_ext_In f b rules e : special_ext f b rules = Some e -> In e (map snd rules).
Proof.
  induction rules as [|[[[g off] magic] e'] r IH]; simpl; [discriminate|].
  destruct (str_eqb f g && str_eqb (slice b off (length magic)) magic).
  - intros Q; inversion Q; auto.
  - intros Q; right; auto.
Qed.

Lemma image_ext_In b m e : image_ext b m = Ok e -> In e all_exts.
Proof.
  destruct m as [|[f|] w h d x]; cbn [image_ext]; try discriminate.
  unfold all_exts. rewrite in_app_iff.
  destruct (special_ext f b ext_special) as [e'|] eqn:S.
  - intros Q; inversion Q; subst e'. right. eapply special_ext_In; eauto.
  - destruct (assoc f ext_map) as [e'|] eqn:E; try discriminate.
    intros Q; inversion Q; subst e'. left. apply assoc_In in E.
    change e with (snd (f, e)). apply in_map. exact E.
Qed.

Lemma image_ext_ok b m e : image_ext b m = Ok e ->
  ext_ok e = true /\ exists ct, ext_content_type e = Ok ct /\ ct_is_imagepart ct = true.
Proof.
  intros E. apply image_ext_In in E.
  pose proof (proj1 (forallb_forall _ _) all_exts_ok _ E) as R.
  unfold ext_row_ok in R. apply andb_true_iff in R as [R1 R2].
  split; [exact R1|]. unfold ext_content_type.
  destruct (assoc e image_content_types) as [ct|]; [|discriminate].
  exists ct. auto.
Qed.

(* ================================================================== the store *)

Lemma nodup_snoc {A} (l : list A) x : NoDup l -> ~ In x l -> NoDup (l ++ [x]).
Proof.
  induction 1 as [|y l Hy Hl IH]; simpl; intros Hx.
  - constructor; [tauto|constructor].
  - constructor.
    + rewrite in_app_iff. simpl. intros [H1|[H1|[]]]; [tauto|]. subst. tauto.
    + apply IH. tauto.
Qed.

Lemma find_snoc {A} (f : A -> bool) l x :
  find f (l ++ [x]) = match find f l with Some y => Some y | None => if f x then Some x else None end.
Proof. induction l as [|y l IH]; simpl; [reflexivity|]. destruct (f y); auto. Qed.

Lemma nodup_map_inj {A B} (f : A -> B) l : NoDup (map f l) ->
  forall a b, In a l -> In b l -> f a = f b -> a = b.
Proof.
  induction l as [|x l IH]; simpl; intros Hn a b Ha Hb E; [contradiction|].
  inversion Hn as [|? ? Hx Hl]; subst.
  destruct Ha as [->|Ha], Hb as [->|Hb]; auto.
  - exfalso. apply Hx. rewrite E. apply in_map. exact Hb.
  - exfalso. apply Hx. rewrite <- E. apply in_map. exact Ha.
Qed.

Lemma nth_set_nth {A} (l : list A) : forall s x y,
  nth_error l s = Some y -> nth_error (set_nth s x l) s = Some x.
Proof.
  induction l as [|z l IH]; intros [|s] x y N; simpl in *; try discriminate; auto.
  eapply IH; eauto.
Qed.

Lemma set_nth_In {A} (l : list A) : forall s x z, In z (set_nth s x l) -> z = x \/ In z l.
Proof.
  induction l as [|y l IH]; intros [|s] x z; simpl; try tauto.
  - intros [E|Hin]; auto.
  - intros [E|Hin]; auto. destruct (IH _ _ _ Hin); auto.
Qed.

Lemma set_nth_keeps {A} (l : list A) : forall s x y z,
  nth_error l s = Some y -> In z l -> z = y \/ In z (set_nth s x l).
Proof.
  induction l as [|w l IH]; intros [|s] x y z N Hin; simpl in *; try discriminate.
  - injection N as ->. destruct Hin as [->|Hin]; auto.
  - destruct Hin as [->|Hin]; auto. destruct (IH _ x _ _ N Hin); auto.
Qed.

Lemma remove_nth_In {A} (l : list A) : forall s z, In z (remove_nth s l) -> In z l.
Proof.
  induction l as [|y l IH]; intros [|s] z; simpl; try tauto.
  intros [E|Hin]; auto. right. eapply IH; eauto.
Qed.

(** uniqueness under a map survives narrowing the filter *)
Lemma nodup_map_filter_sub {A B} (g : A -> B) (f f' : A -> bool) l :
  (forall a, In a l -> f' a = true -> f a = true) ->
  NoDup (map g (filter f l)) -> NoDup (map g (filter f' l)).
Proof.
  induction l as [|a l IH]; simpl; intros Hs Hn; [constructor|].
  assert (Hs' : forall b, In b l -> f' b = true -> f b = true) by (intros b Hb; apply Hs; auto).
  destruct (f' a) eqn:E'.
  - rewrite (Hs a (or_introl eq_refl) E') in Hn. simpl in *.
    inversion Hn as [|? ? Hx Hl]; subst. constructor; [|apply IH; auto].
    intros Hin. apply Hx. apply in_map_iff in Hin as [b [Eb Hb]].
    apply filter_In in Hb as [Hb1 Hb2]. apply in_map_iff. exists b. split; auto.
    apply filter_In. split; auto.
  - apply IH; auto. destruct (f a); simpl in Hn; [inversion Hn; auto|auto].
Qed.

Lemma nodup_map_filter {A B} (g : A -> B) (f : A -> bool) l :
  NoDup (map g l) -> NoDup (map g (filter f l)).
Proof.
  induction l as [|a l IH]; simpl; intros Hn; [constructor|].
  inversion Hn as [|? ? Hx Hl]; subst. destruct (f a); simpl; [|auto].
  constructor; auto. intros Hin. apply Hx. apply in_map_iff in Hin as [b [Eb Hb]].
  apply filter_In in Hb as [Hb _]. apply in_map_iff. eauto.
Qed.

Lemma filter_filter_imp {A} (f g : A -> bool) l :
  (forall a, In a l -> f a = true -> g a = true) -> filter f (filter g l) = filter f l.
Proof.
  induction l as [|a l IH]; simpl; intros Hs; [reflexivity|].
  assert (Hs' : forall b, In b l -> f b = true -> g b = true) by (intros b Hb; apply Hs; auto).
  destruct (g a) eqn:G; simpl.
  - rewrite IH; auto.
  - destruct (f a) eqn:F; [|apply IH; auto].
    rewrite (Hs a (or_introl eq_refl) F) in G. discriminate.
Qed.

Lemma find_filter_imp {A} (f g : A -> bool) l :
  (forall a, In a l -> f a = true -> g a = true) -> find f (filter g l) = find f l.
Proof.
  induction l as [|a l IH]; simpl; intros Hs; [reflexivity|].
  assert (Hs' : forall b, In b l -> f b = true -> g b = true) by (intros b Hb; apply Hs; auto).
  destruct (g a) eqn:G; simpl.
  - destruct (f a); auto.
  - destruct (f a) eqn:F; [|apply IH; auto].
    rewrite (Hs a (or_introl eq_refl) F) in G. discriminate.
Qed.

Lemma find_ext_in {A} (f g : A -> bool) l :
  (forall a, In a l -> f a = g a) -> find f l = find g l.
Proof.
  induction l as [|a l IH]; simpl; intros Hs; [reflexivity|].
  rewrite <- (Hs a (or_introl eq_refl)). destruct (f a); auto.
Qed.

Lemma memN_In c l : memN c l = true <-> In c l.
Proof.
  unfold memN. rewrite existsb_exists. split.
  - intros [x [Hx E]]. apply N.eqb_eq in E. subst. exact Hx.
  - intros Hin. exists c. split; auto. apply N.eqb_refl.
Qed.

(* ---- what the relationships of the slides lead to ---- *)
Lemma img_targets_In rs i : In i (img_targets rs) <-> exists k, In (k, Some i) rs.
Proof.
  unfold img_targets. rewrite opt_somes_In, in_map_iff. split.
  - intros [[k t] [E Hin]]. simpl in E. subst. eauto.
  - intros [k Hin]. exists (k, Some i). auto.
Qed.

Lemma targets_In sl i : In i (targets sl) <-> exists rs, In rs sl /\ In i (img_targets rs).
Proof. unfold targets. apply in_flat_map. Qed.

Lemma targets_nth sl s rs i : nth_error sl s = Some rs -> In i (img_targets rs) -> In i (targets sl).
Proof. intros N Hin. apply targets_In. exists rs. split; auto. eapply nth_error_In; eauto. Qed.

Lemma targets_set_nth_upper sl s rs' i :
  In i (targets (set_nth s rs' sl)) -> In i (targets sl) \/ In i (img_targets rs').
Proof.
  intros Hin. apply targets_In in Hin as [rs [A B]].
  destruct (set_nth_In _ _ _ _ A) as [->|A']; auto.
  left. apply targets_In. eauto.
Qed.

Lemma targets_set_nth_new sl s rs rs' i : nth_error sl s = Some rs ->
  In i (img_targets rs') -> In i (targets (set_nth s rs' sl)).
Proof.
  intros N Hin. apply targets_In. exists rs'. split; auto.
  eapply nth_error_In. eapply nth_set_nth; eauto.
Qed.

Lemma targets_set_nth_lower sl s rs rs' i : nth_error sl s = Some rs ->
  (forall j, In j (img_targets rs) -> In j (img_targets rs')) ->
  In i (targets sl) -> In i (targets (set_nth s rs' sl)).
Proof.
  intros N Hsub Hin. apply targets_In in Hin as [rs0 [A B]].
  destruct (set_nth_keeps _ s rs' _ _ N A) as [->|A'].
  - eapply targets_set_nth_new; eauto.
  - apply targets_In. eauto.
Qed.

Lemma targets_remove_nth sl s i : In i (targets (remove_nth s sl)) -> In i (targets sl).
Proof.
  intros Hin. apply targets_In in Hin as [rs [A B]]. apply targets_In. exists rs. split; auto.
  eapply remove_nth_In; eauto.
Qed.

Lemma targets_snoc_plain sl i : In i (targets (sl ++ [[(1%N, None)]])) <-> In i (targets sl).
Proof. unfold targets. rewrite flat_map_app. simpl. rewrite in_app_iff. simpl. tauto. Qed.

(* ---- relationships of one slide ---- *)
Lemma relate_spec i rs rs' k : relate i rs = Ok (rs', k) ->
  In (k, Some i) rs' /\ (forall j, In j (img_targets rs') <-> In j (img_targets rs) \/ j = i).
Proof.
  unfold relate. destruct (find (rel_targets i) rs) as [r|] eqn:F.
  - intros Q; injection Q as <- <-. apply find_some in F as [F1 F2].
    unfold rel_targets in F2. destruct r as [k [t|]]; simpl in *; [|discriminate].
    apply N.eqb_eq in F2. subst. split; auto.
    intros j. split; auto. intros [Hj| ->]; auto. apply img_targets_In. eauto.
  - destruct (next_rid (map fst rs)) as [k'|]; [|discriminate].
    intros Q; injection Q as <- <-. split.
    + apply in_or_app; right; left; reflexivity.
    + intros j. rewrite !img_targets_In. split.
      * intros [n Hin]. apply in_app_or in Hin as [Hin|[E|[]]]; [left; eauto|].
        injection E as _ ->. auto.
      * intros [[n Hin]| ->]; [exists n; apply in_or_app; auto|].
        exists k'. apply in_or_app; right; left; reflexivity.
Qed.

Lemma occupy_spec k : forall rs rs', occupy k rs = Ok rs' ->
  forall j, In j (img_targets rs') <-> In j (img_targets rs).
Proof.
  induction k as [|k IH]; simpl; intros rs rs' E j.
  - injection E as <-. tauto.
  - destruct (next_rid (map fst rs)) as [r|]; [|discriminate].
    rewrite (IH _ _ E j). rewrite !img_targets_In. split.
    + intros [n Hin]. apply in_app_or in Hin as [Hin|[Q|[]]]; [eauto|discriminate].
    + intros [n Hin]. exists n. apply in_or_app; auto.
Qed.

Lemma drop_rel_spec k rs rs' : drop_rel k rs = Ok rs' ->
  forall j, In j (img_targets rs') -> In j (img_targets rs).
Proof.
  unfold drop_rel. destruct (existsb (has_key k) rs); [|discriminate].
  intros Q; injection Q as <-. intros j. rewrite !img_targets_In.
  intros [n Hin]. apply filter_In in Hin as [Hin _]. eauto.
Qed.

Section StoreProofs.
  Variable H : blob -> str.
  Variable fl : Q -> Q.

  Definition ids (hp : list part) : list N := map p_id hp.
  Definition names (ps : list part) : list str := map p_name ps.
  Definition cls_by_ct (p : part) : Prop := p_cls p = ct_is_imagepart (p_ct p).

  (** the state invariant: object identities are unique and below the counter; among the
      parts the package REACHES names are unique; among the image parts the look-up
      iterates digests are unique; the class of each part is the one its content type
      selects; every image relationship of a slide leads to an existing object *)
  Record Inv (st : state) : Prop := mkInv {
    inv_ids : NoDup (ids (st_heap st));
    inv_next : Forall (fun p => (p_id p < st_next st)%N) (st_heap st);
    inv_names : NoDup (names (store st));
    inv_digests : NoDup (map (digest H) (index st));
    inv_cls : Forall cls_by_ct (st_heap st);
    inv_closed : forall i, In i (targets (st_slides st)) -> In i (ids (st_heap st)) }.

  Lemma indexed_reachable sl p : indexed sl p = true -> reachable sl p = true.
  Proof.
    unfold indexed, reachable. intros E. apply andb_true_iff in E as [_ E]. rewrite E.
    apply orb_true_r.
  Qed.

  Lemma index_In st p : In p (index st) <-> In p (st_heap st) /\ indexed (st_slides st) p = true.
  Proof. unfold index. apply filter_In. Qed.

  Lemma store_In st p : In p (store st) <-> In p (st_heap st) /\ reachable (st_slides st) p = true.
  Proof. unfold store. apply filter_In. Qed.

  Lemma index_store st p : In p (index st) -> In p (store st).
  Proof. rewrite index_In, store_In. intros [A B]. split; auto. apply indexed_reachable; auto. Qed.

  (** the look-up answers with a part the relationships lead to, or with none *)
  Lemma find_by_digest_some d st p : find_by_digest H d st = Some p ->
    In p (index st) /\ In p (store st) /\ digest H p = d.
  Proof.
    unfold find_by_digest. intros E. apply find_some in E as [E1 E2].
    apply andb_true_iff in E2 as [E2 E3]. apply str_eqb_eq in E3.
    assert (In p (index st)) by (apply index_In; auto).
    split; auto. split; auto. apply index_store; auto.
  Qed.

  Lemma find_by_digest_none d st : find_by_digest H d st = None ->
    forall p, In p (index st) -> digest H p <> d.
  Proof.
    unfold find_by_digest. intros E p Hp Hd. apply index_In in Hp as [Hp Hv].
    pose proof (find_none _ _ E p Hp) as F. simpl in F.
    rewrite Hv, Hd, str_eqb_refl in F. discriminate.
  Qed.

  (** with unique digests there is at most one indexed part per digest *)
  Lemma digest_unique st p q : NoDup (map (digest H) (index st)) ->
    In p (index st) -> In q (index st) -> digest H p = digest H q -> p = q.
  Proof. intros Hn Hp Hq E. apply (nodup_map_inj (digest H) (index st) Hn); auto. Qed.

  Lemma find_by_digest_is st p : Inv st -> In p (index st) ->
    find_by_digest H (digest H p) st = Some p.
  Proof.
    intros I Hp. destruct (find_by_digest H (digest H p) st) as [q|] eqn:F.
    - destruct (find_by_digest_some _ _ _ F) as [A [_ B]].
      f_equal. apply (digest_unique st); auto. apply (inv_digests st I).
    - exfalso. exact (find_by_digest_none _ _ F p Hp eq_refl).
  Qed.

  Lemma new_image_part_spec st im p : new_image_part st im = Ok p ->
    p_id p = st_next st /\ p_blob p = i_blob im /\ p_meta p = i_meta im /\ p_cls p = true /\
    p_fix p = false /\ p_rel p = false /\ cls_by_ct p /\
    ~ In (p_name p) (names (store st)) /\
    exists e, image_ext (i_blob im) (i_meta im) = Ok e /\
              p_name p = image_partname (next_image_idx (names (store st))) e /\
              ext (p_name p) = e /\ ext_content_type e = Ok (p_ct p).
  Proof.
    unfold new_image_part. destruct (image_ext (i_blob im) (i_meta im)) as [e|] eqn:E; cbn [bind]; [|discriminate].
    destruct (image_ext_ok _ _ _ E) as [He [ct [Hct Hcls]]].
    fold (names (store st)). rewrite next_image_partname_ok. cbn [bind]. rewrite Hct. cbn [bind].
    intros Q; injection Q as <-. cbn [p_id p_blob p_meta p_name p_ct p_cls p_rel p_fix].
    repeat split; auto.
    - unfold cls_by_ct. simpl. auto.
    - apply (next_image_partname_fresh (names (store st)) e); auto.
    - exists e. repeat split; auto. apply ext_image_partname; auto.
  Qed.

  (** the package-level lookup: either the indexed part with that digest, or a new object
      appended under a name no REACHABLE part has, holding exactly the bytes given *)
  Lemma get_or_add_spec st im hp' p : get_or_add H st im = Ok (hp', p) ->
    (hp' = st_heap st /\ find_by_digest H (H (i_blob im)) st = Some p) \/
    (hp' = st_heap st ++ [p] /\ find_by_digest H (H (i_blob im)) st = None /\ new_image_part st im = Ok p).
  Proof.
    unfold get_or_add. destruct (find_by_digest H (H (i_blob im)) st) as [q|] eqn:F.
    - intros Q; injection Q as <- <-. left; auto.
    - destruct (new_image_part st im) as [q|] eqn:N; simpl; [|discriminate].
      intros Q; injection Q as <- <-. right; auto.
  Qed.

  Lemma reload_part_id p : cls_by_ct p -> reload_part p = p.
  Proof. destruct p; unfold cls_by_ct, reload_part; simpl. intros <-. reflexivity. Qed.

  Lemma reload_parts_id ps : Forall cls_by_ct ps -> map reload_part ps = ps.
  Proof. induction 1 as [|p ps Hp _ IH]; simpl; [reflexivity|]. rewrite reload_part_id, IH; auto. Qed.

  (* ---- the effect of one step on objects and relationships ---- *)
  Definition T (st : state) : list N := targets (st_slides st).

  Lemma step_effect st o st' r : Inv st -> step H fl st o = (st', r) ->
    (st_next st <= st_next st')%N /\
    ( (st_heap st' = st_heap st /\ removal o = false /\ exists extra,
         (forall i, In i (T st') <-> In i (T st) \/ In i extra) /\
         (forall i, In i extra -> exists p0, In p0 (index st) /\ p_id p0 = i))
   \/ (exists im p, new_image_part st im = Ok p /\ find_by_digest H (H (i_blob im)) st = None /\
         removal o = false /\ st_heap st' = st_heap st ++ [p] /\ st_next st' = N.succ (st_next st) /\
         (forall i, In i (T st') <-> In i (T st) \/ i = p_id p))
   \/ (st_heap st' = st_heap st /\ removal o = true /\ forall i, In i (T st') -> In i (T st))
   \/ (st_heap st' = store st /\ st_slides st' = st_slides st /\ o = OReload)).
  Proof.
    intros I. unfold T.
    assert (Same : (st_next st <= st_next st)%N /\
      ((st_heap st = st_heap st /\ false = false /\ exists extra : list N,
         (forall i, In i (targets (st_slides st)) <-> In i (targets (st_slides st)) \/ In i extra) /\
         (forall i, In i extra -> exists p0, In p0 (index st) /\ p_id p0 = i)))).
    { split; [lia|]. split; auto. split; auto. exists []. split; [intros; simpl; tauto|intros i []]. }
    destruct o as [|s k|s im u|s|s k|]; simpl.
    - intros Q; injection Q as <- <-. simpl. split; [lia|]. left. split; auto. split; auto.
      exists []. split; [|intros i []]. intros i. rewrite targets_snoc_plain. simpl. tauto.
    - destruct (nth_error (st_slides st) s) as [rs|] eqn:N.
      2:{ intros Q; injection Q as <- <-. destruct Same as [S1 S2]. split; auto. }
      destruct (occupy k rs) as [rs'|] eqn:O.
      2:{ intros Q; injection Q as <- <-. destruct Same as [S1 S2]. split; auto. }
      intros Q; injection Q as <- <-. simpl. split; [lia|]. left. split; auto. split; auto.
      exists []. split; [|intros i []]. intros i. simpl. split.
      + intros Hin. left. destruct (targets_set_nth_upper _ _ _ _ Hin) as [A|A]; auto.
        apply (occupy_spec _ _ _ O) in A. eapply targets_nth; eauto.
      + intros [Hin|[]]. eapply targets_set_nth_lower; eauto.
        intros j Hj. apply (occupy_spec _ _ _ O). exact Hj.
    - destruct (nth_error (st_slides st) s) as [rs|] eqn:N.
      2:{ intros Q; injection Q as <- <-. destruct Same as [S1 S2]. split; auto. }
      destruct (get_or_add H st im) as [[hp' p]|] eqn:G.
      2:{ intros Q; injection Q as <- <-. destruct Same as [S1 S2]. split; auto. }
      destruct (relate (p_id p) rs) as [[rs' rid]|] eqn:R.
      2:{ intros Q; injection Q as <- <-. destruct Same as [S1 S2]. split; auto. }
      intros Q; injection Q as <- <-. simpl. split; [lia|].
      destruct (relate_spec _ _ _ _ R) as [R1 R2].
      assert (TT : forall i, In i (targets (set_nth s rs' (st_slides st))) <->
                             In i (targets (st_slides st)) \/ i = p_id p).
      { intros i. split.
        - intros Hin. destruct (targets_set_nth_upper _ _ _ _ Hin) as [A|A]; auto.
          apply R2 in A as [A| ->]; auto. left. eapply targets_nth; eauto.
        - intros [Hin| ->].
          + eapply targets_set_nth_lower; eauto. intros j Hj. apply R2. auto.
          + eapply targets_set_nth_new; eauto. apply R2. auto. }
      destruct (get_or_add_spec _ _ _ _ G) as [[-> F]|[-> [F Nw]]].
      + left. split; auto. split; auto. exists [p_id p]. split.
        * intros i. rewrite TT. simpl. intuition.
        * intros i [<-|[]]. exists p. split; auto. apply (find_by_digest_some _ _ _ F).
      + right; left. exists im, p. repeat split; auto; try (apply TT; auto).
        pose proof (proj1 (new_image_part_spec _ _ _ Nw)) as Pid. lia.
    - destruct (nth_error (st_slides st) s) as [rs|] eqn:N.
      2:{ intros Q; injection Q as <- <-. split; [lia|]. right; right; left. auto. }
      intros Q; injection Q as <- <-. simpl. split; [lia|]. right; right; left.
      split; auto. split; auto. intros i. apply targets_remove_nth.
    - destruct (nth_error (st_slides st) s) as [rs|] eqn:N.
      2:{ intros Q; injection Q as <- <-. split; [lia|]. right; right; left. auto. }
      destruct (drop_rel k rs) as [rs'|] eqn:D.
      2:{ intros Q; injection Q as <- <-. split; [lia|]. right; right; left. auto. }
      intros Q; injection Q as <- <-. simpl. split; [lia|]. right; right; left.
      split; auto. split; auto. intros i Hin.
      destruct (targets_set_nth_upper _ _ _ _ Hin) as [A|A]; auto.
      apply (drop_rel_spec _ _ _ D) in A. eapply targets_nth; eauto.
    - intros Q; injection Q as <- <-. simpl. split; [lia|]. right; right; right.
      split; auto. apply reload_parts_id.
      apply Forall_forall. intros p Hp. apply store_In in Hp as [Hp _].
      exact (proj1 (Forall_forall _ _) (inv_cls st I) p Hp).
  Qed.

  Lemma imgrel_iff sl p : imgrel sl p = true <-> p_rel p = true \/ In (p_id p) (targets sl).
  Proof. unfold imgrel, targeted. rewrite orb_true_iff, memN_In. tauto. Qed.

  Lemma id_in_heap st p q : Inv st -> In p (st_heap st) -> In q (st_heap st) -> p_id p = p_id q -> p = q.
  Proof. intros I. apply (nodup_map_inj p_id (st_heap st)). apply (inv_ids st I). Qed.

  (** the same effect in terms of what the package reaches and what the look-up iterates *)
  Lemma step_store st o st' r : Inv st -> step H fl st o = (st', r) ->
    (st_next st <= st_next st')%N /\
    ( (st_heap st' = st_heap st /\ removal o = false /\ store st' = store st /\ index st' = index st /\
       (forall q, In q (st_heap st) -> imgrel (st_slides st') q = imgrel (st_slides st) q) /\
       (forall i, In i (T st') -> In i (ids (st_heap st))))
   \/ (exists im p, new_image_part st im = Ok p /\ find_by_digest H (H (i_blob im)) st = None /\
         removal o = false /\ st_heap st' = st_heap st ++ [p] /\ st_next st' = N.succ (st_next st) /\
         store st' = store st ++ [p] /\ index st' = index st ++ [p] /\
         (forall q, In q (st_heap st) -> imgrel (st_slides st') q = imgrel (st_slides st) q) /\
         imgrel (st_slides st') p = true /\
         (forall i, In i (T st') -> In i (ids (st_heap st)) \/ i = p_id p))
   \/ (st_heap st' = st_heap st /\ removal o = true /\
       (forall q, imgrel (st_slides st') q = true -> imgrel (st_slides st) q = true) /\
       (forall i, In i (T st') -> In i (T st)))
   \/ (st_heap st' = store st /\ st_slides st' = st_slides st /\ o = OReload)).
  Proof.
    intros I S. destruct (step_effect _ _ _ _ I S) as [Nx Eff]. split; auto.
    destruct Eff as [[Hh [Rm [extra [TT Ex]]]]|[[im [p [Nw [F [Rm [Hh [Nxt TT]]]]]]]|[[Hh [Rm TT]]|Re]]].
    - left.
      assert (Q : forall q, In q (st_heap st) -> imgrel (st_slides st') q = imgrel (st_slides st) q).
      { intros q Hq. apply Bool.eq_iff_eq_true. rewrite !imgrel_iff. fold (T st') (T st). rewrite TT.
        split; [|tauto]. intros [A|[A|A]]; auto.
        destruct (Ex _ A) as [p0 [P1 P2]]. apply index_In in P1 as [P1 P3].
        assert (p0 = q) by (apply (id_in_heap st); auto). subst p0.
        apply imgrel_iff. unfold indexed in P3. apply andb_true_iff in P3. tauto. }
      repeat split; auto.
      + unfold store. rewrite Hh. apply filter_ext_in. intros q Hq. unfold reachable. rewrite Q; auto.
      + unfold index. rewrite Hh. apply filter_ext_in. intros q Hq. unfold indexed. rewrite Q; auto.
      + intros i Hi. apply TT in Hi as [Hi|Hi]; [apply (inv_closed st I); auto|].
        destruct (Ex _ Hi) as [p0 [P1 P2]]. apply index_In in P1 as [P1 _].
        subst i. apply in_map. exact P1.
    - right; left. exists im, p.
      destruct (new_image_part_spec _ _ _ Nw) as [Pid [_ [_ [Pc [Pf [Pr _]]]]]].
      assert (Fresh : forall q, In q (st_heap st) -> p_id q <> p_id p).
      { intros q Hq E. pose proof (proj1 (Forall_forall _ _) (inv_next st I) q Hq) as L. simpl in L. lia. }
      assert (Q : forall q, In q (st_heap st) -> imgrel (st_slides st') q = imgrel (st_slides st) q).
      { intros q Hq. apply Bool.eq_iff_eq_true. rewrite !imgrel_iff. fold (T st') (T st). rewrite TT.
        split; [|tauto]. intros [A|[A|A]]; auto. exfalso. exact (Fresh q Hq A). }
      assert (P : imgrel (st_slides st') p = true).
      { apply imgrel_iff. right. fold (T st'). apply TT. auto. }
      repeat split; auto.
      + unfold store. rewrite Hh, filter_app. simpl. unfold reachable at 2. rewrite P, orb_true_r.
        f_equal. apply filter_ext_in. intros q Hq. unfold reachable. rewrite Q; auto.
      + unfold index. rewrite Hh, filter_app. simpl. unfold indexed at 2. rewrite P, Pc. simpl.
        f_equal. apply filter_ext_in. intros q Hq. unfold indexed. rewrite Q; auto.
      + intros i Hi. apply TT in Hi as [Hi|Hi]; auto. left. apply (inv_closed st I); auto.
    - right; right; left. repeat split; auto.
      intros q. rewrite !imgrel_iff. intros [A|A]; auto.
    - right; right; right. exact Re.
  Qed.

  Lemma reload_store st st' : st_heap st' = store st -> st_slides st' = st_slides st ->
    store st' = store st /\ index st' = index st.
  Proof.
    intros Hh Hs. unfold store, index. rewrite Hh, Hs. split.
    - unfold store. apply filter_filter_imp. auto.
    - unfold store. apply filter_filter_imp. intros a _. apply indexed_reachable.
  Qed.

  Lemma step_inv st o st' r : Inv st -> step H fl st o = (st', r) -> Inv st'.
  Proof.
    intros I S. destruct (step_store _ _ _ _ I S) as [Nx Eff].
    assert (NX : forall hp, Forall (fun p => (p_id p < st_next st)%N) hp ->
                            Forall (fun p => (p_id p < st_next st')%N) hp).
    { intros hp. apply Forall_impl. intros p L. lia. }
    destruct I as [I1 I2 I3 I4 I5 I6].
    destruct Eff as [[Hh [_ [Hs [Hi [_ Cl]]]]]|[[im [p [Nw [F [_ [Hh [Nxt [Hs [Hi [_ [_ Cl]]]]]]]]]]]|[[Hh [_ [Q TT]]]|[Hh [Hsl _]]]]].
    - constructor; rewrite ?Hh, ?Hs, ?Hi; auto.
    - destruct (new_image_part_spec _ _ _ Nw) as [Pid [Pb [_ [Pc [_ [_ [Pcls [Pn _]]]]]]]].
      constructor; rewrite ?Hh, ?Hs, ?Hi.
      + unfold ids. rewrite map_app. apply nodup_snoc; auto. simpl.
        intros Hin. apply in_map_iff in Hin as [q [E Hq]].
        pose proof (proj1 (Forall_forall _ _) I2 q Hq) as L. simpl in L. lia.
      + apply Forall_app. split; [apply NX; auto|]. constructor; [|constructor].
        lia.
      + unfold names. rewrite map_app. apply nodup_snoc; auto.
      + rewrite map_app. apply nodup_snoc; auto. simpl. intros Hin.
        apply in_map_iff in Hin as [q [E Hq]].
        apply (find_by_digest_none _ _ F q Hq). rewrite E. unfold digest. rewrite Pb. reflexivity.
      + apply Forall_app. split; auto.
      + intros i Hin. unfold ids. rewrite map_app. apply in_or_app. simpl.
        destruct (Cl _ Hin) as [A| ->]; auto.
    - constructor; rewrite ?Hh; auto.
      + unfold names, store. rewrite Hh.
        apply (nodup_map_filter_sub p_name (reachable (st_slides st))); auto.
        intros a _. unfold reachable. rewrite !orb_true_iff. intros [A|A]; auto.
      + unfold index. rewrite Hh.
        apply (nodup_map_filter_sub (digest H) (indexed (st_slides st))); auto.
        intros a _. unfold indexed. rewrite !andb_true_iff. intros [A B]; auto.
    - destruct (reload_store st st' Hh Hsl) as [Hs Hi].
      assert (Sub : forall q, In q (store st) -> In q (st_heap st)) by (intros q Hq; apply store_In in Hq; tauto).
      constructor; rewrite ?Hs, ?Hi, ?Hh, ?Hsl; auto.
      + unfold ids, store. apply nodup_map_filter. auto.
      + apply Forall_forall. intros q Hq. apply Sub in Hq.
        pose proof (proj1 (Forall_forall _ _) I2 q Hq) as L. simpl in L. lia.
      + apply Forall_forall. intros q Hq. apply (proj1 (Forall_forall _ _) I5 q). auto.
      + intros i Hin. pose proof (I6 i Hin) as Hid. apply in_map_iff in Hid as [q [E Hq]].
        apply in_map_iff. exists q. split; auto. apply store_In. split; auto.
        unfold reachable. apply orb_true_iff. right. apply imgrel_iff. right. rewrite E. exact Hin.
  Qed.

  (** an object keeps its identity: whatever carries the identity of [p] in the heap is [p],
      and no later object gets that identity *)
  Definition owns (st : state) (p : part) : Prop :=
    (p_id p < st_next st)%N /\ forall q, In q (st_heap st) -> p_id q = p_id p -> q = p.

  Lemma owns_member st p : Inv st -> In p (st_heap st) -> owns st p.
  Proof.
    intros I Hp. split.
    - exact (proj1 (Forall_forall _ _) (inv_next st I) p Hp).
    - intros q Hq E. apply (id_in_heap st); auto.
  Qed.

  Lemma step_heap st o st' r q : Inv st -> step H fl st o = (st', r) ->
    In q (st_heap st') -> In q (st_heap st) \/ p_id q = st_next st.
  Proof.
    intros I S Hq. destruct (step_store _ _ _ _ I S) as [_ Eff].
    destruct Eff as [[Hh _]|[[im [p [Nw [_ [_ [Hh _]]]]]]|[[Hh _]|[Hh _]]]]; rewrite Hh in Hq; auto.
    - apply in_app_or in Hq as [Hq|[<-|[]]]; auto.
      right. exact (proj1 (new_image_part_spec _ _ _ Nw)).
    - left. apply store_In in Hq. tauto.
  Qed.

  Lemma step_owns st o st' r p : Inv st -> step H fl st o = (st', r) -> owns st p -> owns st' p.
  Proof.
    intros I S [L O]. pose proof (proj1 (step_store _ _ _ _ I S)) as Nx. split; [lia|].
    intros q Hq E. destruct (step_heap _ _ _ _ _ I S Hq) as [A|A]; [auto|]. lia.
  Qed.

  (** reachability of an existing object never grows: an object no relationship leads to
      is never handed out again *)
  Lemma step_reach_mono st o st' r q : Inv st -> step H fl st o = (st', r) ->
    In q (st_heap st) -> reachable (st_slides st') q = true -> reachable (st_slides st) q = true.
  Proof.
    intros I S Hq. destruct (step_store _ _ _ _ I S) as [_ Eff]. unfold reachable.
    destruct Eff as [[_ [_ [_ [_ [Q _]]]]]|[[im [p [_ [_ [_ [_ [_ [_ [_ [Q _]]]]]]]]]]|[[_ [_ [Q _]]]|[_ [Hs _]]]]].
    - rewrite Q; auto.
    - rewrite Q; auto.
    - rewrite !orb_true_iff. intros [A|A]; auto.
    - rewrite Hs. auto.
  Qed.

  (** without a removal nothing the package reaches is lost *)
  Lemma step_keeps st o st' r q : Inv st -> step H fl st o = (st', r) -> removal o = false ->
    In q (store st) -> In q (store st').
  Proof.
    intros I S Rm Hq. destruct (step_store _ _ _ _ I S) as [_ Eff].
    destruct Eff as [[_ [_ [Hs _]]]|[[im [p [_ [_ [_ [_ [_ [Hs _]]]]]]]]|[[_ [R _]]|[Hh [Hsl _]]]]].
    - rewrite Hs; auto.
    - rewrite Hs. apply in_or_app; auto.
    - congruence.
    - rewrite (proj1 (reload_store st st' Hh Hsl)). auto.
  Qed.

  (** what a successful image step reports *)
  Lemma step_image st s im u st' pid name rid e ct a b :
    step H fl st (OImage s im u) = (st', Ok (OutImg pid name rid e ct a b)) ->
    exists p rs rs', get_or_add H st im = Ok (st_heap st', p) /\
      pid = p_id p /\ name = p_name p /\ ct = p_ct p /\ e = ext name /\
      nth_error (st_slides st) s = Some rs /\ relate pid rs = Ok (rs', rid) /\
      st_slides st' = set_nth s rs' (st_slides st) /\
      apply_use fl p u = Ok (a, b).
  Proof.
    simpl. destruct (nth_error (st_slides st) s) as [rs|]; [|intros Q; discriminate].
    destruct (get_or_add H st im) as [[hp' p]|] eqn:G; [|intros Q; discriminate].
    destruct (relate (p_id p) rs) as [[rs' k]|] eqn:R; [|intros Q; discriminate].
    destruct (apply_use fl p u) as [[a' b']|] eqn:U; simpl; intros Q; [|discriminate].
    injection Q as <- <- <- <- <- <- <- <-. exists p, rs, rs'. simpl. repeat split; auto.
  Qed.

  (** ... and the object it reports: in the heap, of the ImagePart class, holding the digest
      asked for, and the target of the relationship the slide now has *)
  Lemma step_image_part st s im u st' pid name rid e ct a b : Inv st ->
    step H fl st (OImage s im u) = (st', Ok (OutImg pid name rid e ct a b)) ->
    exists p, In p (index st') /\ p_id p = pid /\ p_name p = name /\ p_ct p = ct /\ e = ext name /\
              digest H p = H (i_blob im) /\
              (find_by_digest H (H (i_blob im)) st = None -> p_blob p = i_blob im) /\
              exists rs', nth_error (st_slides st') s = Some rs' /\ In (rid, Some pid) rs'.
  Proof.
    intros I S. destruct (step_image _ _ _ _ _ _ _ _ _ _ _ _ S) as [p [rs [rs' [G [E1 [E2 [E3 [E4 [N [R [Sl _]]]]]]]]]]].
    destruct (relate_spec _ _ _ _ R) as [R1 R2].
    assert (Tg : In pid (targets (st_slides st'))).
    { rewrite Sl. eapply targets_set_nth_new; eauto. apply R2. auto. }
    assert (Hp : In p (st_heap st') /\ p_cls p = true /\ digest H p = H (i_blob im) /\
                 (find_by_digest H (H (i_blob im)) st = None -> p_blob p = i_blob im)).
    { destruct (get_or_add_spec _ _ _ _ G) as [[Hh F]|[Hh [F Nw]]].
      - destruct (find_by_digest_some _ _ _ F) as [A [_ B]]. apply index_In in A as [A1 A2].
        rewrite Hh. repeat split; auto.
        + unfold indexed in A2. apply andb_true_iff in A2. tauto.
        + congruence.
      - destruct (new_image_part_spec _ _ _ Nw) as [_ [Pb [_ [Pc _]]]]. rewrite Hh. repeat split; auto.
        + apply in_or_app; right; left; reflexivity.
        + unfold digest. rewrite Pb. reflexivity. }
    destruct Hp as [P1 [P2 [P3 P4]]].
    exists p. repeat split; auto.
    - apply index_In. split; auto. unfold indexed. rewrite P2. simpl. apply imgrel_iff. right. congruence.
    - exists rs'. rewrite Sl. split; [apply (nth_set_nth _ _ _ _ N)|exact R1].
  Qed.

  (* ---- histories ---- *)
  Lemma run_cons st o r :
    run H fl st (o :: r) =
    (fst (run H fl (fst (step H fl st o)) r), snd (step H fl st o) :: snd (run H fl (fst (step H fl st o)) r)).
  Proof. simpl. destruct (step H fl st o) as [st1 x]. simpl. destruct (run H fl st1 r). reflexivity. Qed.

  Lemma final_cons st o r : final H fl st (o :: r) = final H fl (fst (step H fl st o)) r.
  Proof. unfold final. rewrite run_cons. reflexivity. Qed.

  Lemma run_inv ops : forall st, Inv st -> Inv (final H fl st ops).
  Proof.
    induction ops as [|o r IH]; intros st I; [exact I|].
    rewrite final_cons. apply IH. destruct (step H fl st o) as [st1 x] eqn:S. eapply step_inv; eauto.
  Qed.

  Lemma run_owns ops : forall st p, Inv st -> owns st p -> owns (final H fl st ops) p.
  Proof.
    induction ops as [|o r IH]; intros st p I O; [exact O|].
    rewrite final_cons. destruct (step H fl st o) as [st1 x] eqn:S. simpl.
    apply IH; [eapply step_inv; eauto | eapply step_owns; eauto].
  Qed.

  Lemma run_keeps ops : forall st q, Inv st -> forallb (fun o => negb (removal o)) ops = true ->
    In q (store st) -> In q (store (final H fl st ops)).
  Proof.
    induction ops as [|o r IH]; intros st q I Rm F; [exact F|].
    simpl in Rm. apply andb_true_iff in Rm as [Rm1 Rm2]. apply negb_true_iff in Rm1.
    rewrite final_cons. destruct (step H fl st o) as [st1 x] eqn:S. simpl.
    apply IH; auto; [eapply step_inv; eauto | eapply step_keeps; eauto].
  Qed.

  (** an object the package does not reach stays unreached for the rest of the history *)
  Lemma run_orphan ops : forall st p, Inv st -> owns st p ->
    (forall q, In q (st_heap st) -> p_id q = p_id p -> reachable (st_slides st) q = false) ->
    forall q, In q (st_heap (final H fl st ops)) -> p_id q = p_id p ->
              reachable (st_slides (final H fl st ops)) q = false.
  Proof.
    induction ops as [|o r IH]; intros st p I O D; [exact D|].
    rewrite final_cons. destruct (step H fl st o) as [st1 x] eqn:S. simpl.
    apply (IH st1 p); [eapply step_inv; eauto | eapply step_owns; eauto |].
    intros q Hq E. destruct (step_heap _ _ _ _ _ I S Hq) as [A|A].
    - destruct (reachable (st_slides st1) q) eqn:R; auto.
      rewrite <- (D q A E). symmetry. eapply step_reach_mono; eauto.
    - destruct O as [L _]. lia.
  Qed.

  (** the i-th operation stored an image and reported the object pid under (name, ext, ct):
      that object has those attributes and that digest, and to the end of the history the
      identity pid means that object and no other *)
  Lemma run_stored ops : forall st i s im u pid name rid e ct a b, Inv st ->
    nth_error ops i = Some (OImage s im u) ->
    nth_error (snd (run H fl st ops)) i = Some (Ok (OutImg pid name rid e ct a b)) ->
    exists p, p_id p = pid /\ p_name p = name /\ p_ct p = ct /\ e = ext name /\ p_cls p = true /\
              digest H p = H (i_blob im) /\ owns (final H fl st ops) p.
  Proof.
    induction ops as [|o r IH]; intros st i s im u pid name rid e ct a b I N1 N2.
    - destruct i; discriminate.
    - rewrite run_cons in N2. rewrite final_cons.
      destruct (step H fl st o) as [st1 x] eqn:S. simpl in *.
      assert (I1 : Inv st1) by (eapply step_inv; eauto).
      destruct i as [|i]; simpl in *.
      + injection N1 as ->. injection N2 as ->.
        destruct (step_image_part _ _ _ _ _ _ _ _ _ _ _ _ I S) as [p [P1 [P2 [P3 [P4 [P5 [P6 _]]]]]]].
        apply index_In in P1 as [P1 P7].
        exists p. repeat split; auto.
        * unfold indexed in P7. apply andb_true_iff in P7. tauto.
        * apply run_owns; auto. apply owns_member; auto.
        * apply run_owns; auto. apply owns_member; auto.
      + eapply IH; eauto.
  Qed.
End StoreProofs.

(* ================================================================== statements of props/C15.v: the store *)
Section StoreTheorems.
  Variable H : blob -> str.
  Variable fl : Q -> Q.

  (** the i-th operation of the history is an image addition that succeeded and answered
      with the part object pid *)
  Definition stored_at (st : state) (ops : list op) (i : nat) (im : image) (pid : N) (name e ct : str) : Prop :=
    exists s u rid a b,
      nth_error ops i = Some (OImage s im u) /\
      nth_error (snd (run H fl st ops)) i = Some (Ok (OutImg pid name rid e ct a b)).

  (** some image relationship of a slide still leads to the object at the end *)
  Definition still_related (st : state) (ops : list op) (pid : N) : Prop :=
    In pid (targets (st_slides (final H fl st ops))).

  Lemma once st ops i im pid name e ct : Inv H st -> stored_at st ops i im pid name e ct ->
    still_related st ops pid ->
    let fin := final H fl st ops in
    exists p, In p (index fin) /\ In p (store fin) /\
              p_id p = pid /\ p_name p = name /\ p_ct p = ct /\ ext (p_name p) = e /\
              digest H p = H (i_blob im) /\
              (forall q, In q (index fin) -> digest H q = H (i_blob im) -> q = p) /\
              (forall q, In q (store fin) -> p_name q = name -> q = p).
  Proof.
    intros I [s [u [rid [a [b [N1 N2]]]]]] L fin.
    destruct (run_stored H fl ops st i s im u pid name rid e ct a b I N1 N2) as [p [E1 [E2 [E3 [E4 [E5 [E6 O]]]]]]].
    pose proof (run_inv H fl ops st I) as If. fold fin in If, O.
    unfold still_related in L. fold fin in L.
    pose proof (inv_closed H fin If pid L) as Hid. apply in_map_iff in Hid as [q [Eq Hq]].
    assert (q = p) by (apply (proj2 O); auto; congruence). subst q.
    assert (Ix : In p (index fin)).
    { apply index_In. split; auto. unfold indexed. rewrite E5. simpl. apply imgrel_iff. right. congruence. }
    exists p. subst. repeat split; auto.
    - apply index_store; auto.
    - intros q Hq' Dq. apply (digest_unique H fin); auto; try congruence. apply (inv_digests H fin If).
    - intros q Hq' Nq. apply (nodup_map_inj p_name (store fin)); auto; try congruence.
      + apply (inv_names H fin If).
      + apply index_store; auto.
  Qed.

  (** whether or not anything still leads to it: the object is never altered, and its
      identity is never given to another object *)
  Lemma immutable st ops i im pid name e ct : Inv H st -> stored_at st ops i im pid name e ct ->
    forall q, In q (st_heap (final H fl st ops)) -> p_id q = pid ->
      p_name q = name /\ p_ct q = ct /\ ext (p_name q) = e /\ p_cls q = true /\ digest H q = H (i_blob im).
  Proof.
    intros I [s [u [rid [a [b [N1 N2]]]]]] q Hq Eq.
    destruct (run_stored H fl ops st i s im u pid name rid e ct a b I N1 N2) as [p [E1 [E2 [E3 [E4 [E5 [E6 O]]]]]]].
    assert (q = p) by (apply (proj2 O); auto; congruence). subst q. subst. auto.
  Qed.

  Lemma same_part st ops i j im im' pid pid' name e ct name' e' ct' : Inv H st ->
    stored_at st ops i im pid name e ct -> stored_at st ops j im' pid' name' e' ct' ->
    still_related st ops pid -> still_related st ops pid' ->
    H (i_blob im) = H (i_blob im') -> pid = pid' /\ name = name' /\ e = e' /\ ct = ct'.
  Proof.
    intros I S1 S2 L1 L2 E.
    destruct (once _ _ _ _ _ _ _ _ I S1 L1) as [p [P1 [P2 [P3 [P4 [P5 [P6 [P7 [P8 P9]]]]]]]]].
    destruct (once _ _ _ _ _ _ _ _ I S2 L2) as [q [Q1 [Q2 [Q3 [Q4 [Q5 [Q6 [Q7 [Q8 Q9]]]]]]]]].
    assert (q = p) by (apply P8; auto; congruence). subst q.
    repeat split; congruence.
  Qed.

  Lemma distinct st ops i j im im' pid pid' name e ct name' e' ct' : Inv H st ->
    stored_at st ops i im pid name e ct -> stored_at st ops j im' pid' name' e' ct' ->
    still_related st ops pid -> still_related st ops pid' ->
    H (i_blob im) <> H (i_blob im') -> pid <> pid' /\ name <> name'.
  Proof.
    intros I S1 S2 L1 L2 E.
    destruct (once _ _ _ _ _ _ _ _ I S1 L1) as [p [P1 [P2 [P3 [P4 [P5 [P6 [P7 [P8 P9]]]]]]]]].
    destruct (once _ _ _ _ _ _ _ _ I S2 L2) as [q [Q1 [Q2 [Q3 [Q4 [Q5 [Q6 [Q7 [Q8 Q9]]]]]]]]].
    assert (D : p <> q) by (intros ->; congruence).
    split.
    - intros Hn. apply D. apply (id_in_heap H (final H fl st ops)).
      + apply run_inv; auto.
      + apply store_In in P2. tauto.
      + apply store_In in Q2. tauto.
      + congruence.
    - intros Hn. apply D. symmetry. apply P9; auto. congruence.
  Qed.

  Lemma bytes st ops i im pid name e ct : Inv H st -> stored_at st ops i im pid name e ct ->
    still_related st ops pid ->
    (forall b, H b = H (i_blob im) -> b = i_blob im) ->
    exists p, In p (store (final H fl st ops)) /\ p_id p = pid /\ p_name p = name /\ p_blob p = i_blob im.
  Proof.
    intros I S L Hsep.
    destruct (once _ _ _ _ _ _ _ _ I S L) as [p [P1 [P2 [P3 [P4 [P5 [P6 [P7 _]]]]]]]].
    exists p. repeat split; auto.
  Qed.

  (** a history without removals loses nothing the package reached *)
  Lemma preserved st ops q : Inv H st -> forallb (fun o => negb (removal o)) ops = true ->
    In q (store st) -> In q (store (final H fl st ops)).
  Proof. intros I Rm Hq. apply run_keeps; auto. Qed.

  (** the look-up answers with a part the relationships lead to, or with none *)
  Lemma lookup_reachable st d :
    match find_by_digest H d st with
    | Some p => In p (index st) /\ In p (store st) /\ digest H p = d
    | None => forall p, In p (index st) -> digest H p <> d
    end.
  Proof.
    destruct (find_by_digest H d st) as [p|] eqn:F.
    - apply find_by_digest_some; auto.
    - apply find_by_digest_none; auto.
  Qed.

  (** an object nothing leads to is out of the game: no later step of any history makes
      the package reach it again, so it is never the answer of a look-up and never saved *)
  Lemma orphan_stays st ops p : Inv H st -> In p (st_heap st) -> reachable (st_slides st) p = false ->
    forall q, In q (st_heap (final H fl st ops)) -> p_id q = p_id p ->
              reachable (st_slides (final H fl st ops)) q = false.
  Proof.
    intros I Hp R. apply (run_orphan H fl ops st p I).
    - apply (owns_member H); auto.
    - intros q Hq E. assert (q = p) by (apply (id_in_heap H st); auto). subst q. exact R.
  Qed.

  (** adding bytes with the same digest again right away changes nothing and gives the
      same object *)
  Lemma once_step st s im u st1 pid name rid e ct a b : Inv H st ->
    step H fl st (OImage s im u) = (st1, Ok (OutImg pid name rid e ct a b)) ->
    exists p, p_id p = pid /\ find_by_digest H (H (i_blob im)) st1 = Some p /\
      forall im', H (i_blob im') = H (i_blob im) -> get_or_add H st1 im' = Ok (st_heap st1, p).
  Proof.
    intros I S. assert (I1 : Inv H st1) by (eapply step_inv; eauto).
    destruct (step_image_part H fl _ _ _ _ _ _ _ _ _ _ _ _ I S) as [p [P1 [P2 [_ [_ [_ [P6 _]]]]]]].
    assert (F : find_by_digest H (H (i_blob im)) st1 = Some p).
    { rewrite <- P6. apply find_by_digest_is; auto. }
    exists p. repeat split; auto. intros im' E. unfold get_or_add. rewrite E, F. reflexivity.
  Qed.

  (** save and re-open: the objects nothing leads to are gone; what the package reaches
      and what the look-up iterates are unchanged, so the digest index rebuilt from the
      loaded parts answers every query as before *)
  Lemma reopen st : Inv H st ->
    let st' := fst (step H fl st OReload) in
    st_heap st' = store st /\ st_slides st' = st_slides st /\
    store st' = store st /\ index st' = index st /\
    forall d, find_by_digest H d st' = find_by_digest H d st.
  Proof.
    intros I st'. assert (E : map reload_part (store st) = store st).
    { apply reload_parts_id. apply Forall_forall. intros p Hp. apply store_In in Hp as [Hp _].
      exact (proj1 (Forall_forall _ _) (inv_cls H st I) p Hp). }
    assert (Hh : st_heap st' = store st) by exact E.
    assert (Hs : st_slides st' = st_slides st) by reflexivity.
    destruct (reload_store st st' Hh Hs) as [A B].
    repeat split; auto.
    intros d. unfold find_by_digest. rewrite Hh, Hs. unfold store. apply find_filter_imp.
    intros p _ F. apply andb_true_iff in F as [F _]. apply indexed_reachable; auto.
  Qed.

  (** a part created by get_or_add survives re-opening as an indexed image part even
      without the invariant on the rest of the store *)
  Lemma reopen_new st im p : new_image_part st im = Ok p -> reload_part p = p.
  Proof.
    intros N. destruct (new_image_part_spec st im p N) as [_ [_ [_ [_ [_ [_ [C _]]]]]]].
    apply reload_part_id. exact C.
  Qed.

  Lemma new_part_type st im hp' p : get_or_add H st im = Ok (hp', p) ->
    find_by_digest H (H (i_blob im)) st = None ->
    p_blob p = i_blob im /\ ~ In (p_name p) (map p_name (store st)) /\
    exists e, image_ext (i_blob im) (i_meta im) = Ok e /\ ext (p_name p) = e /\
              p_name p = image_partname (next_image_idx (map p_name (store st))) e /\
              assoc e image_content_types = Some (p_ct p).
  Proof.
    intros G F. destruct (get_or_add_spec H _ _ _ _ G) as [[_ F']|[_ [_ N]]]; [congruence|].
    destruct (new_image_part_spec st im p N) as [_ [A [_ [_ [_ [_ [_ [D [e [E1 [E2 [E3 E4]]]]]]]]]]]].
    repeat split; auto. exists e. repeat split; auto.
    unfold ext_content_type in E4. destruct (assoc e image_content_types); [|discriminate].
    injection E4 as ->. reflexivity.
  Qed.

  (** the relationship used by the picture targets the stored object *)
  Lemma rel_targets_part st s im u st' pid name rid e ct a b : Inv H st ->
    step H fl st (OImage s im u) = (st', Ok (OutImg pid name rid e ct a b)) ->
    (exists rs', nth_error (st_slides st') s = Some rs' /\ In (rid, Some pid) rs') /\
    exists p, In p (index st') /\ p_id p = pid /\ p_name p = name.
  Proof.
    intros I S. destruct (step_image_part H fl _ _ _ _ _ _ _ _ _ _ _ _ I S) as [p [P1 [P2 [P3 [_ [_ [_ [_ R]]]]]]]].
    split; auto. exists p. auto.
  Qed.

  (** a removal takes nothing but relationships away: the heap is untouched, what the
      package reaches can only shrink, and the names it reports are the ones left *)
  Lemma removal_effect st o st' r : Inv H st -> step H fl st o = (st', r) -> removal o = true ->
    st_heap st' = st_heap st /\
    (forall q, In q (store st') -> In q (store st)) /\
    (forall q, In q (index st') -> In q (index st)).
  Proof.
    intros I S Rm. destruct (step_store H fl _ _ _ _ I S) as [_ Eff].
    destruct Eff as [[_ [R _]]|[[im [p [_ [_ [R _]]]]]|[[Hh [_ [Q _]]]|[_ [_ E]]]]]; try congruence.
    - split; auto. split; intros q; rewrite ?store_In, ?index_In, Hh; intros [A B]; split; auto.
      + unfold reachable in *. apply orb_true_iff in B as [B|B]; [rewrite B; auto|].
        rewrite (Q q B). apply orb_true_r.
      + unfold indexed in *. apply andb_true_iff in B as [B1 B2]. rewrite B1, (Q q B2). reflexivity.
    - subst o. discriminate.
  Qed.
End StoreTheorems.


(* ================================================================== numbers *)
Section Numbers.
Local Open Scope Q_scope.

Lemma rhe_near q : Qabs (inject_Z (rhe q) - q) <= 1 # 2.
Proof.
  unfold rhe. set (f := Qfloor q).
  assert (L : inject_Z f <= q) by apply Qfloor_le.
  assert (U : q < inject_Z (f + 1)) by apply Qlt_floor.
  rewrite inject_Z_plus in U. change (inject_Z 1) with 1 in U.
  destruct (Qcompare_spec (q - inject_Z f) (1 # 2)) as [E|E|E].
  - destruct (Z.even f).
    + apply Qabs_Qle_condition. split; lra.
    + rewrite inject_Z_plus. change (inject_Z 1) with 1. apply Qabs_Qle_condition; split; lra.
  - apply Qabs_Qle_condition; split; lra.
  - rewrite inject_Z_plus. change (inject_Z 1) with 1. apply Qabs_Qle_condition; split; lra.
Qed.

Lemma rhe_proper p q : p == q -> rhe p = rhe q.
Proof.
  intros E. unfold rhe.
  assert (F : Qfloor p = Qfloor q) by (apply Qfloor_comp; exact E).
  rewrite F. set (f := Qfloor q).
  destruct (Qcompare_spec (p - inject_Z f) (1 # 2)); destruct (Qcompare_spec (q - inject_Z f) (1 # 2));
    try reflexivity; exfalso; lra.
Qed.

Lemma rhe_int z : rhe (inject_Z z) = z.
Proof.
  unfold rhe. rewrite Qfloor_Z.
  destruct (Qcompare_spec (inject_Z z - inject_Z z) (1 # 2)); try reflexivity; exfalso; lra.
Qed.

Lemma mul_mono (a b c : Q) : 0 <= c -> a <= b -> a * c <= b * c.
Proof. intros. nra. Qed.

Lemma bound_core (Ab Ac Ar D1 Af1 D2 D3 T eps : Q) :
  0 <= Ab -> 0 <= Ac -> 0 <= Ar -> 0 <= D1 -> 0 <= D2 -> 0 <= D3 -> 0 <= eps -> eps <= 1 ->
  D1 <= Ar * eps -> Af1 <= Ar + D1 -> 0 <= Af1 -> D2 <= Ab * Af1 * eps -> D3 <= 1#2 ->
  T <= Ab * D1 * Ac + D2 * Ac + D3 * Ac ->
  T <= Ac * (1#2) + (Ar * Ac * Ab) * (3 * eps).
Proof.
  intros.
  assert (P1 : 0 <= Ab * Ac) by nra.
  assert (E1 : D1 * (Ab * Ac) <= (Ar * eps) * (Ab * Ac)) by (apply mul_mono; auto).
  assert (E2 : Af1 <= 2 * Ar) by nra.
  assert (P2 : 0 <= Ab * eps) by nra.
  assert (E3 : Af1 * (Ab * eps) <= (2 * Ar) * (Ab * eps)) by (apply mul_mono; auto).
  assert (E3' : D2 <= (2 * Ar) * (Ab * eps)) by nra.
  assert (E4 : D2 * Ac <= (2 * Ar) * (Ab * eps) * Ac) by (apply mul_mono; auto).
  assert (E5 : D3 * Ac <= (1#2) * Ac) by (apply mul_mono; auto).
  nra.
Qed.

(** 2^-53, the unit roundoff of binary64 *)
Definition eps53 : Q := 1 # 9007199254740992.

Definition small (z : Z) : Prop := (Z.abs z <= 9007199254740992)%Z.

Section ScaleProofs.
  Variable fl : Q -> Q.
  Hypothesis fl_proper : forall p q, p == q -> fl p == fl q.
  Hypothesis fl_err : forall q, Qabs (fl q - q) <= Qabs q * eps53.
  Hypothesis fl_int : forall z, small z -> fl (inject_Z z) == inject_Z z.

  (** the computed dimension times the native one differs from the exact cross product by
      at most half a native unit plus three roundings *)
  Lemma scaled_bound a c b : small a -> small c -> small b -> c <> 0%Z ->
    Qabs (inject_Z (scaled fl a c b) * inject_Z c - inject_Z a * inject_Z b)
    <= Qabs (inject_Z c) * (1 # 2) + Qabs (inject_Z a * inject_Z b) * (3 * eps53).
  Proof.
    intros Ha Hc Hb Hc0.
    set (A := inject_Z a). set (C := inject_Z c). set (B := inject_Z b).
    assert (C0 : ~ C == 0).
    { unfold C, Qeq. simpl. lia. }
    assert (E1 : fl A / fl C == A / C).
    { unfold A, C. rewrite (fl_int a Ha), (fl_int c Hc). reflexivity. }
    assert (E2 : fl (fl A / fl C) == fl (A / C)) by (apply fl_proper; exact E1).
    assert (E3 : fl B * fl (fl A / fl C) == B * fl (A / C)).
    { rewrite E2. unfold B. rewrite (fl_int b Hb). reflexivity. }
    assert (E4 : fl (fl B * fl (fl A / fl C)) == fl (B * fl (A / C))) by (apply fl_proper; exact E3).
    unfold scaled. fold A B C. rewrite (rhe_proper _ _ E4).
    set (r := A / C). set (f1 := fl r). set (X := fl (B * f1)). set (cy := inject_Z (rhe X)).
    assert (RC : r * C == A) by (unfold r; field; exact C0).
    pose proof (fl_err r) as F1. fold f1 in F1.
    pose proof (fl_err (B * f1)) as F2. fold X in F2. rewrite Qabs_Qmult in F2.
    pose proof (rhe_near X) as F3. fold cy in F3.
    assert (T1 : Qabs f1 <= Qabs r + Qabs (f1 - r)).
    { assert (Ef : f1 == r + (f1 - r)) by ring. rewrite Ef at 1. apply Qabs_triangle. }
    assert (Dec : cy * C - A * B == B * (f1 - r) * C + ((X - B * f1) * C + (cy - X) * C)).
    { rewrite <- RC. ring. }
    assert (T2 : Qabs (cy * C - A * B)
                 <= Qabs B * Qabs (f1 - r) * Qabs C + Qabs (X - B * f1) * Qabs C + Qabs (cy - X) * Qabs C).
    { rewrite Dec.
      eapply Qle_trans; [apply Qabs_triangle|].
      rewrite !Qabs_Qmult.
      assert (T3 : Qabs ((X - B * f1) * C + (cy - X) * C)
                   <= Qabs (X - B * f1) * Qabs C + Qabs (cy - X) * Qabs C).
      { eapply Qle_trans; [apply Qabs_triangle|]. rewrite !Qabs_Qmult. apply Qle_refl. }
      lra. }
    assert (AB : Qabs (A * B) == Qabs r * Qabs C * Qabs B).
    { rewrite <- RC. rewrite !Qabs_Qmult. reflexivity. }
    rewrite AB.
    apply (bound_core (Qabs B) (Qabs C) (Qabs r) (Qabs (f1 - r)) (Qabs f1) (Qabs (X - B * f1))
                      (Qabs (cy - X)) _ eps53); auto using Qabs_nonneg.
    - unfold eps53. lra.
    - unfold eps53. lra.
  Qed.

  Lemma scale_none icx icy : scale fl icx icy None None = Ok (icx, icy).
  Proof. reflexivity. Qed.

  Lemma scale_falsy icx icy cx cy : truthy cx = false -> truthy cy = false ->
    scale fl icx icy cx cy = Ok (icx, icy).
  Proof. unfold scale. intros -> ->. reflexivity. Qed.

  Lemma scale_both icx icy x y : x <> 0%Z -> y <> 0%Z ->
    scale fl icx icy (Some x) (Some y) = Ok (x, y).
  Proof.
    intros Hx Hy. unfold scale, truthy.
    destruct (Z.eqb_spec x 0); [contradiction|]. destruct (Z.eqb_spec y 0); [contradiction|]. reflexivity.
  Qed.

  (** a zero argument is treated exactly as an absent one *)
  Lemma scale_zero_is_none icx icy o :
    scale fl icx icy (Some 0%Z) o = scale fl icx icy None o /\
    scale fl icx icy o (Some 0%Z) = scale fl icx icy o None.
  Proof. unfold scale. simpl. destruct (truthy o); auto. Qed.

  Lemma scale_width_given icx icy x cy : x <> 0%Z -> truthy cy = false -> icx <> 0%Z ->
    small x -> small icx -> small icy ->
    exists y, scale fl icx icy (Some x) cy = Ok (x, y) /\
      Qabs (inject_Z y * inject_Z icx - inject_Z x * inject_Z icy)
      <= Qabs (inject_Z icx) * (1 # 2) + Qabs (inject_Z x * inject_Z icy) * (3 * eps53).
  Proof.
    intros Hx Hcy Hi Sx Si Sy. unfold scale. rewrite Hcy. unfold truthy.
    destruct (Z.eqb_spec x 0); [contradiction|]. simpl.
    destruct (Z.eqb_spec icx 0); [contradiction|].
    eexists; split; [reflexivity|]. apply scaled_bound; auto.
  Qed.

  Lemma scale_height_given icx icy cx y : y <> 0%Z -> truthy cx = false -> icy <> 0%Z ->
    small y -> small icx -> small icy ->
    exists x, scale fl icx icy cx (Some y) = Ok (x, y) /\
      Qabs (inject_Z x * inject_Z icy - inject_Z y * inject_Z icx)
      <= Qabs (inject_Z icy) * (1 # 2) + Qabs (inject_Z y * inject_Z icx) * (3 * eps53).
  Proof.
    intros Hy Hcx Hi Sy Si Sj. unfold scale. rewrite Hcx. unfold truthy.
    destruct (Z.eqb_spec y 0); [contradiction|]. simpl.
    destruct (Z.eqb_spec icy 0); [contradiction|].
    eexists; split; [reflexivity|]. apply scaled_bound; auto.
  Qed.

  Lemma scale_zero_native x cy : x <> 0%Z -> truthy cy = false -> forall icy,
    scale fl 0 icy (Some x) cy = Err OtherErr.
  Proof.
    intros Hx Hcy icy. unfold scale. rewrite Hcy. unfold truthy.
    destruct (Z.eqb_spec x 0); [contradiction|]. reflexivity.
  Qed.
End ScaleProofs.

(** the hypotheses on fl are satisfiable (exact arithmetic meets them) *)
Lemma fl_hyps_consistent :
  (forall p q, p == q -> (fun x => x) p == (fun x => x) q) /\
  (forall q, Qabs ((fun x => x) q - q) <= Qabs q * eps53) /\
  (forall z, small z -> (fun x : Q => x) (inject_Z z) == inject_Z z).
Proof.
  split; [auto|]. split; [|intros; reflexivity].
  intros q. assert (E : q - q == 0) by ring. rewrite E. simpl.
  assert (0 <= Qabs q) by apply Qabs_nonneg. unfold eps53. nra.
Qed.
End Numbers.

(* ================================================================== dpi, native size *)

Lemma int_dpi_range d n : int_dpi d = Ok n -> 1 <= n <= 2048.
Proof.
  destruct d as [q| | |]; simpl; try discriminate; try (intros Q; injection Q as <-; lia).
  destruct (Z.ltb_spec (rhe q) 1); destruct (Z.ltb_spec 2048 (rhe q)); simpl;
    intros Q; injection Q as <-; lia.
Qed.

Lemma int_dpi_total d : d <> DInf -> exists n, int_dpi d = Ok n.
Proof. destruct d; simpl; eauto. congruence. Qed.

Lemma int_dpi_value q : 1 <= rhe q <= 2048 ->
  int_dpi (DQ q) = Ok (rhe q) /\ (Qabs (inject_Z (rhe q) - q) <= 1 # 2)%Q.
Proof.
  intros Hr. split; [|apply rhe_near]. simpl.
  destruct (Z.ltb_spec (rhe q) 1); [lia|]. destruct (Z.ltb_spec 2048 (rhe q)); [lia|]. reflexivity.
Qed.

Lemma int_dpi_default q : (rhe q < 1 \/ 2048 < rhe q) -> int_dpi (DQ q) = Ok 72.
Proof.
  intros Hr. simpl.
  destruct (Z.ltb_spec (rhe q) 1); [reflexivity|]. destruct (Z.ltb_spec 2048 (rhe q)); [reflexivity|]. lia.
Qed.

Lemma normalize_range d a b : normalize_pil_dpi d = Ok (a, b) -> 1 <= a <= 2048 /\ 1 <= b <= 2048.
Proof.
  destruct d as [|x y]; simpl.
  - intros Q; injection Q as <- <-. lia.
  - destruct (int_dpi x) as [a'|] eqn:E1; simpl; [|discriminate].
    destruct (int_dpi y) as [b'|] eqn:E2; simpl; [|discriminate].
    intros Q; injection Q as <- <-. split; eapply int_dpi_range; eauto.
Qed.

Lemma native_dim_spec px dpi : 0 <= px -> 1 <= dpi ->
  native_dim px dpi * dpi <= 914400 * px < (native_dim px dpi + 1) * dpi.
Proof.
  intros Hp Hd. unfold native_dim. rewrite Z.quot_div_nonneg by lia.
  pose proof (Z.div_mod (914400 * px) dpi ltac:(lia)) as DM.
  pose proof (Z.mod_pos_bound (914400 * px) dpi ltac:(lia)) as MB.
  set (qq := (914400 * px) / dpi) in *. set (mm := (914400 * px) mod dpi) in *. nia.
Qed.

Lemma native_size_spec f w h d x : 0 <= w -> 0 <= h ->
  forall cx cy, native_size (Meta f w h d x) = Ok (cx, cy) ->
  exists hd vd, normalize_pil_dpi (eff_dpi f d x) = Ok (hd, vd) /\ 1 <= hd <= 2048 /\ 1 <= vd <= 2048 /\
    cx * hd <= 914400 * w < (cx + 1) * hd /\ cy * vd <= 914400 * h < (cy + 1) * vd.
Proof.
  intros Hw Hh cx cy. unfold native_size. cbn [meta_dpi meta_px].
  destruct (normalize_pil_dpi (eff_dpi f d x)) as [[hd vd]|] eqn:E; cbn [bind fst snd]; [|discriminate].
  intros Q; injection Q as <- <-.
  destruct (normalize_range _ _ _ E) as [R1 R2].
  exists hd, vd. repeat split; auto; try lia; apply native_dim_spec; lia.
Qed.

Lemma native_size_nodpi f w h d x : eff_dpi f d x = PNoTuple ->
  native_size (Meta f w h d x) = Ok (12700 * w, 12700 * h).
Proof.
  intros E. unfold native_size, native_dim. cbn [meta_dpi meta_px]. rewrite E.
  cbn [normalize_pil_dpi bind fst snd].
  replace (914400 * w) with (12700 * w * 72) by lia.
  replace (914400 * h) with (12700 * h * 72) by lia.
  rewrite !Z.quot_mul by lia. reflexivity.
Qed.

(** no dpi entry: 72 dpi, that is 12700 EMU per pixel *)
Lemma native_size_default f w h x : native_size (Meta f w h PNoTuple x) = Ok (12700 * w, 12700 * h).
Proof. apply native_size_nodpi. unfold eff_dpi. destruct (existsb _ _); reflexivity. Qed.

(** a TIFF for which Pillow read no XResolution tag: whatever dpi entry Pillow made up is
    dropped, so the image is sized at 72 dpi *)
Lemma native_size_tiff_nores w h d :
  native_size (Meta (Some [84; 73; 70; 70]%N) w h d false) = Ok (12700 * w, 12700 * h).
Proof. apply native_size_nodpi. reflexivity. Qed.

(** in every other case the dpi entry Pillow reports is the one used *)
Lemma eff_dpi_kept f d x : x = true \/ fmt_is f [84; 73; 70; 70]%N = false -> eff_dpi f d x = d.
Proof.
  intros [->|E]; unfold eff_dpi, dpi_drop_rules; cbn [existsb fst snd].
  - rewrite andb_false_r. reflexivity.
  - rewrite E. reflexivity.
Qed.

(* ================================================================== table obligations (generic part) *)

Definition pair_mem (k v : str) (l : list (str * str)) : bool :=
  existsb (fun r => str_eqb (fst r) k && str_eqb (snd r) v) l.
Definition key_functional (k v : str) (l : list (str * str)) : bool :=
  forallb (fun r => negb (str_eqb (fst r) k) || str_eqb (snd r) v) l.

(** every extension in the list has a content type, that pair is a Default row of the
    content-types writer and the only row for that extension, and the content type is one
    the part factory maps to ImagePart *)
Definition tables_ok (exts : list str) (ict dct : list (str * str)) (ipc : list str) : bool :=
  forallb (fun e =>
    match assoc e ict with
    | Some ct => pair_mem e ct dct && key_functional e ct dct && mem_str ct ipc
    | None => false
    end) exts.

Lemma tables_ok_sound exts ict dct ipc : tables_ok exts ict dct ipc = true ->
  forall e, In e exts ->
  exists ct, assoc e ict = Some ct /\ In (e, ct) dct /\
             (forall ct', In (e, ct') dct -> ct' = ct) /\ In ct ipc.
Proof.
  intros T e A.
  pose proof (proj1 (forallb_forall _ _) T _ A) as R. cbn beta in R.
  destruct (assoc e ict) as [ct|]; [|discriminate].
  apply andb_true_iff in R as [R R3]. apply andb_true_iff in R as [R1 R2].
  exists ct. split; [reflexivity|]. split; [|split].
  - unfold pair_mem in R1. apply existsb_exists in R1 as [[k v] [Hin Hkv]]. cbn [fst snd] in Hkv.
    apply andb_true_iff in Hkv as [K V]. apply str_eqb_eq in K, V. subst. exact Hin.
  - intros ct' Hin. unfold key_functional in R2.
    pose proof (proj1 (forallb_forall _ _) R2 _ Hin) as F. cbn [fst snd] in F.
    rewrite str_eqb_refl in F. simpl in F. apply str_eqb_eq in F. exact F.
  - apply mem_str_In. exact R3.
Qed.

Definition opt_str_eqb (a b : option str) : bool :=
  match a, b with
  | Some x, Some y => str_eqb x y
  | None, None => true
  | _, _ => false
  end.

Lemma opt_str_eqb_eq a b : opt_str_eqb a b = true -> a = b.
Proof.
  destruct a, b; simpl; try discriminate; auto. intros E. apply str_eqb_eq in E. congruence.
Qed.

(** the two association lists define the same lookup function (order-insensitive) *)
Definition assoc_equiv (a b : list (str * str)) : bool :=
  forallb (fun kv => opt_str_eqb (assoc (fst kv) a) (assoc (fst kv) b)) (a ++ b).

Lemma assoc_equiv_sound a b : assoc_equiv a b = true -> forall k, assoc k a = assoc k b.
Proof.
  intros E k. unfold assoc_equiv in E. rewrite forallb_forall in E.
  destruct (assoc k a) as [v|] eqn:A.
  - pose proof (E (k, v) (in_or_app _ _ _ (or_introl (assoc_In _ _ _ A)))) as F.
    cbn [fst] in F. rewrite A in F. apply opt_str_eqb_eq in F. auto.
  - destruct (assoc k b) as [v|] eqn:B; [|reflexivity].
    pose proof (E (k, v) (in_or_app _ _ _ (or_intror (assoc_In _ _ _ B)))) as F.
    cbn [fst] in F. rewrite A, B in F. discriminate.
Qed.

Definition set_equiv (a b : list str) : bool :=
  forallb (fun x => mem_str x b) a && forallb (fun x => mem_str x a) b.

Lemma set_equiv_sound a b : set_equiv a b = true -> forall x, mem_str x a = mem_str x b.
Proof.
  intros E x. apply andb_true_iff in E as [E1 E2]. rewrite forallb_forall in E1, E2.
  destruct (mem_str x a) eqn:A.
  - apply mem_str_In in A. symmetry. apply E1. exact A.
  - destruct (mem_str x b) eqn:B; [|reflexivity].
    apply mem_str_In in B. rewrite (E2 _ B) in A. discriminate.
Qed.

(** the regenerated tables are the ones the model computes with *)
Definition tables_match (em ict : list (str * str)) (ipc : list str) : bool :=
  assoc_equiv em ext_map && assoc_equiv ict image_content_types && set_equiv ipc imagepart_cts.

Lemma tables_match_sound em ict ipc : tables_match em ict ipc = true ->
  (forall k, assoc k em = assoc k ext_map) /\
  (forall k, assoc k ict = assoc k image_content_types) /\
  (forall ct, mem_str ct ipc = ct_is_imagepart ct).
Proof.
  intros T. apply andb_true_iff in T as [T T3]. apply andb_true_iff in T as [T1 T2].
  split; [apply assoc_equiv_sound; auto|]. split; [apply assoc_equiv_sound; auto|].
  intros ct. unfold ct_is_imagepart. apply set_equiv_sound. exact T3.
Qed.

(* ================================================================== packaging for props/C15.v *)

Lemma inv_meaning H st :
  Inv H st <->
  NoDup (map p_id (st_heap st)) /\
  Forall (fun p => (p_id p < st_next st)%N) (st_heap st) /\
  NoDup (map p_name (store st)) /\
  NoDup (map (digest H) (index st)) /\
  Forall (fun p => p_cls p = ct_is_imagepart (p_ct p)) (st_heap st) /\
  (forall i, In i (targets (st_slides st)) -> In i (map p_id (st_heap st))).
Proof.
  split.
  - intros [A B C D E F]. auto 10.
  - intros [A [B [C [D [E F]]]]]. constructor; auto.
Qed.

Lemma inv_empty H : Inv H empty_state.
Proof. constructor; simpl; try constructor. intros i []. Qed.

Lemma scale_one_given : forall fl : Q -> Q,
  (forall p q, (p == q)%Q -> (fl p == fl q)%Q) ->
  (forall q, (Qabs (fl q - q) <= Qabs q * eps53)%Q) ->
  (forall z, small z -> (fl (inject_Z z) == inject_Z z)%Q) ->
  forall icx icy, small icx -> small icy ->
  (forall x cy, x <> 0 -> truthy cy = false -> icx <> 0 -> small x ->
     exists y, scale fl icx icy (Some x) cy = Ok (x, y) /\
       (Qabs (inject_Z y * inject_Z icx - inject_Z x * inject_Z icy)
        <= Qabs (inject_Z icx) * (1 # 2) + Qabs (inject_Z x * inject_Z icy) * (3 * eps53))%Q) /\
  (forall y cx, y <> 0 -> truthy cx = false -> icy <> 0 -> small y ->
     exists x, scale fl icx icy cx (Some y) = Ok (x, y) /\
       (Qabs (inject_Z x * inject_Z icy - inject_Z y * inject_Z icx)
        <= Qabs (inject_Z icy) * (1 # 2) + Qabs (inject_Z y * inject_Z icx) * (3 * eps53))%Q).
Proof.
  intros fl P E I icx icy Sx Sy. split.
  - intros x cy Hx Hcy Hi Sx'. apply (scale_width_given fl P E I); auto.
  - intros y cx Hy Hcx Hi Sy'. apply (scale_height_given fl P E I); auto.
Qed.

(* ================================================================== fl64 meets the premises of the scale bound *)
Section Fl64.
Local Open Scope Q_scope.

Lemma pow2Q_power e : pow2Q e == 2 ^ e.
Proof.
  unfold pow2Q. destruct (Z.leb_spec 0 e) as [He|He].
  - rewrite Zpower_Qpower by lia. reflexivity.
  - assert (E : (e = - (- e))%Z) by lia. rewrite E at 2. rewrite Qpower_opp.
    rewrite <- (Zpower_Qpower 2 (- e)) by lia.
    assert (P : (0 < 2 ^ (- e))%Z) by (apply Z.pow_pos_nonneg; lia).
    destruct (2 ^ (- e))%Z as [|p|p] eqn:Ep; try lia.
    simpl. unfold Qinv, inject_Z. simpl. reflexivity.
Qed.

Lemma pow2Q_pos e : 0 < pow2Q e.
Proof. rewrite pow2Q_power. apply Qpower_0_lt. lra. Qed.

Lemma pow2Q_add a b : pow2Q (a + b) == pow2Q a * pow2Q b.
Proof. rewrite !pow2Q_power. apply Qpower_plus. lra. Qed.

Lemma pow2Q_nonneg_inj e : (0 <= e)%Z -> pow2Q e = inject_Z (2 ^ e).
Proof. intros He. unfold pow2Q. destruct (Z.leb_spec 0 e); [reflexivity|lia]. Qed.

Lemma pow2Q_1 : pow2Q 1 == 2. Proof. reflexivity. Qed.
Lemma pow2Q_0 : pow2Q 0 == 1. Proof. reflexivity. Qed.

(** scaledQ a d e is (a/d) / 2^e *)
Lemma scaledQ_spec a d e : (0 < d)%Z -> scaledQ a d e * pow2Q e == inject_Z a / inject_Z d.
Proof.
  intros Hd. unfold scaledQ.
  assert (D0 : ~ inject_Z d == 0) by (unfold Qeq; simpl; lia).
  destruct (Z.leb_spec 0 e) as [He|He].
  - rewrite pow2Q_nonneg_inj by lia.
    assert (P : (0 < 2 ^ e)%Z) by (apply Z.pow_pos_nonneg; lia).
    assert (P2 : (0 < d * 2 ^ e)%Z) by nia.
    assert (E0 : ~ inject_Z (2 ^ e) == 0) by (unfold Qeq; simpl; lia).
    setoid_replace (a # Z.to_pos (d * 2 ^ e)) with (inject_Z a / (inject_Z d * inject_Z (2 ^ e))).
    + field. split; auto.
    + rewrite <- inject_Z_mult. unfold Qeq, Qdiv, Qmult, Qinv, inject_Z. simpl.
      destruct (d * 2 ^ e)%Z as [|p|p] eqn:Ep; try lia. simpl. lia.
  - unfold pow2Q. destruct (Z.leb_spec 0 e); [lia|].
    assert (P : (0 < 2 ^ (- e))%Z) by (apply Z.pow_pos_nonneg; lia).
    unfold Qeq, Qdiv, Qmult, Qinv, inject_Z. simpl.
    destruct d as [|p|p]; try lia. simpl.
    destruct (2 ^ (- e))%Z as [|p2|p2] eqn:Ep; try lia. simpl. lia.
Qed.


Lemma pow2Q_mono a b : (a <= b)%Z -> pow2Q a <= pow2Q b.
Proof.
  intros H. replace b with (a + (b - a))%Z by lia. rewrite pow2Q_add.
  assert (P : 0 < pow2Q a) by apply pow2Q_pos.
  assert (O : 1 <= pow2Q (b - a)).
  { rewrite pow2Q_nonneg_inj by lia.
    assert (0 < 2 ^ (b - a))%Z by (apply Z.pow_pos_nonneg; lia).
    change 1 with (inject_Z 1). rewrite <- Zle_Qle. lia. }
  nra.
Qed.

Lemma pow2Q_neg_inv k : pow2Q (- k) * pow2Q k == 1.
Proof. rewrite <- pow2Q_add. replace (- k + k)%Z with 0%Z by lia. reflexivity. Qed.

Definition gek (a d k : Z) : bool :=
  if (0 <=? k)%Z then (d * 2 ^ k <=? a)%Z else (d <=? a * 2 ^ (- k))%Z.

Lemma gek_spec a d k : gek a d k = true <-> inject_Z d * pow2Q k <= inject_Z a.
Proof.
  unfold gek. destruct (Z.leb_spec 0 k) as [Hk|Hk].
  - rewrite pow2Q_nonneg_inj by lia. rewrite <- inject_Z_mult, <- Zle_Qle. apply Z.leb_le.
  - rewrite Z.leb_le, Zle_Qle, inject_Z_mult. rewrite <- (pow2Q_nonneg_inj (- k)) by lia.
    pose proof (pow2Q_pos k) as P. pose proof (pow2Q_pos (- k)) as P'. pose proof (pow2Q_neg_inv k) as I.
    split; intros H.
    + assert (inject_Z d * pow2Q k <= inject_Z a * pow2Q (- k) * pow2Q k) by nra.
      assert (E : inject_Z a * pow2Q (- k) * pow2Q k == inject_Z a) by (rewrite <- Qmult_assoc, I; ring).
      rewrite E in H0. exact H0.
    + assert (inject_Z d * pow2Q k * pow2Q (- k) <= inject_Z a * pow2Q (- k)) by nra.
      assert (E : inject_Z d * pow2Q k * pow2Q (- k) == inject_Z d).
      { rewrite <- Qmult_assoc, (Qmult_comm (pow2Q k)), I. ring. }
      rewrite E in H0. exact H0.
Qed.

Lemma log2_bounds a : (0 < a)%Z -> pow2Q (Z.log2 a) <= inject_Z a < pow2Q (Z.log2 a + 1).
Proof.
  intros Ha. destruct (Z.log2_spec a Ha) as [L U].
  pose proof (Z.log2_nonneg a).
  rewrite !pow2Q_nonneg_inj by lia. rewrite <- Zle_Qle, <- Zlt_Qlt. split; [exact L|].
  replace (Z.log2 a + 1)%Z with (Z.succ (Z.log2 a)) by lia. exact U.
Qed.

Lemma flog2_spec a d : (0 < a)%Z -> (0 < d)%Z ->
  inject_Z d * pow2Q (flog2 a d) <= inject_Z a < inject_Z d * pow2Q (flog2 a d + 1).
Proof.
  intros Ha Hd.
  destruct (log2_bounds a Ha) as [La Ua]. destruct (log2_bounds d Hd) as [Ld Ud].
  set (la := Z.log2 a) in *. set (ld := Z.log2 d) in *.
  set (k0 := (la - ld)%Z).
  assert (Up : inject_Z a < inject_Z d * pow2Q (k0 + 1)).
  { assert (E : pow2Q (la + 1) == pow2Q (k0 + 1) * pow2Q ld).
    { rewrite <- pow2Q_add. unfold k0. replace (la - ld + 1 + ld)%Z with (la + 1)%Z by lia. reflexivity. }
    rewrite E in Ua. pose proof (pow2Q_pos (k0 + 1)). nra. }
  assert (Lo : inject_Z d * pow2Q (k0 - 1) <= inject_Z a).
  { assert (E : pow2Q la == pow2Q (k0 - 1) * pow2Q (ld + 1)).
    { rewrite <- pow2Q_add. unfold k0. replace (la - ld - 1 + (ld + 1))%Z with la by lia. reflexivity. }
    rewrite E in La. pose proof (pow2Q_pos (k0 - 1)). nra. }
  unfold flog2. fold la ld k0. change (if (0 <=? k0)%Z then (d * 2 ^ k0 <=? a)%Z else (d <=? a * 2 ^ (- k0))%Z) with (gek a d k0).
  destruct (gek a d k0) eqn:G.
  - apply gek_spec in G. split; auto.
  - replace (k0 - 1 + 1)%Z with k0 by lia. split; auto.
    apply Qnot_le_lt. intros C. apply gek_spec in C. congruence.
Qed.

Lemma eps53_pow : pow2Q (-52) * (1 # 2) == eps53.
Proof. reflexivity. Qed.

Lemma Qdiv_mul_cancel a d : ~ d == 0 -> (a / d) * d == a.
Proof. intros. field. auto. Qed.

Lemma fl_pos_err a d : (0 < a)%Z -> (0 < d)%Z ->
  Qabs (fl_pos a d - inject_Z a / inject_Z d) <= (inject_Z a / inject_Z d) * eps53.
Proof.
  intros Ha Hd. unfold fl_pos.
  set (k := flog2 a d). set (e := (k - 52)%Z). set (s := scaledQ a d e).
  set (x := inject_Z a / inject_Z d).
  assert (Dp : 0 < inject_Z d) by (change 0 with (inject_Z 0); rewrite <- Zlt_Qlt; lia).
  assert (D0 : ~ inject_Z d == 0) by lra.
  assert (S : s * pow2Q e == x) by (apply scaledQ_spec; auto).
  pose proof (rhe_near s) as N. apply Qabs_Qle_condition in N as [N1 N2].
  destruct (flog2_spec a d Ha Hd) as [K1 _]. fold k in K1.
  assert (XD : x * inject_Z d == inject_Z a) by (apply Qdiv_mul_cancel; auto).
  assert (Kx : pow2Q k <= x) by (rewrite <- XD in K1; nra).
  assert (E : pow2Q e == pow2Q k * pow2Q (-52)).
  { rewrite <- pow2Q_add. unfold e. replace (k + -52)%Z with (k - 52)%Z by lia. reflexivity. }
  pose proof (pow2Q_pos e) as Pe. pose proof (pow2Q_pos k) as Pk.
  assert (E2 : pow2Q e * (1 # 2) == pow2Q k * eps53) by (rewrite E, <- eps53_pow; ring).
  assert (Pm : 0 < eps53) by (unfold eps53; lra).
  apply Qabs_Qle_condition. rewrite <- S. split; nra.
Qed.

Lemma fl64_err q : Qabs (fl64 q - q) <= Qabs q * eps53.
Proof.
  destruct q as [n d]. unfold fl64. cbn [Qnum Qden]. destruct n as [|a|a].
  - assert (E : 0 - (0 # d) == 0) by (unfold Qeq; simpl; lia). rewrite E. simpl.
    assert (0 <= Qabs (0 # d)) by apply Qabs_nonneg. unfold eps53. nra.
  - assert (Q : (Z.pos a # d) == inject_Z (Z.pos a) / inject_Z (Z.pos d)) by apply Qmake_Qdiv.
    assert (P : 0 < Z.pos a # d) by (unfold Qlt; simpl; lia).
    rewrite (Qabs_pos (Z.pos a # d)) by lra.
    rewrite Q. apply fl_pos_err; lia.
  - assert (Q : (Z.neg a # d) == - (inject_Z (Z.pos a) / inject_Z (Z.pos d))).
    { rewrite <- Qmake_Qdiv. unfold Qeq, Qopp. simpl. reflexivity. }
    assert (P : Z.neg a # d < 0) by (unfold Qlt; simpl; lia).
    rewrite (Qabs_neg (Z.neg a # d)) by lra. rewrite Q.
    pose proof (fl_pos_err (Z.pos a) (Z.pos d) ltac:(lia) ltac:(lia)) as F.
    set (x := inject_Z (Z.pos a) / inject_Z (Z.pos d)) in *. set (v := fl_pos (Z.pos a) (Z.pos d)) in *.
    assert (E : - v - - x == - (v - x)) by ring. rewrite E, Qabs_opp.
    assert (E2 : - - x == x) by ring. rewrite E2. exact F.
Qed.

(** the exponent is determined by the value *)
Lemma flog2_unique x k1 k2 : pow2Q k1 <= x < pow2Q (k1 + 1) -> pow2Q k2 <= x < pow2Q (k2 + 1) -> k1 = k2.
Proof.
  intros [A1 B1] [A2 B2].
  destruct (Z.lt_trichotomy k1 k2) as [L|[E|L]]; auto; exfalso.
  - pose proof (pow2Q_mono (k1 + 1) k2 ltac:(lia)). lra.
  - pose proof (pow2Q_mono (k2 + 1) k1 ltac:(lia)). lra.
Qed.

Lemma flog2_value a d : (0 < a)%Z -> (0 < d)%Z ->
  pow2Q (flog2 a d) <= inject_Z a / inject_Z d < pow2Q (flog2 a d + 1).
Proof.
  intros Ha Hd. destruct (flog2_spec a d Ha Hd) as [K1 K2].
  assert (Dp : 0 < inject_Z d) by (change 0 with (inject_Z 0); rewrite <- Zlt_Qlt; lia).
  assert (XD : (inject_Z a / inject_Z d) * inject_Z d == inject_Z a) by (apply Qdiv_mul_cancel; lra).
  set (x := inject_Z a / inject_Z d) in *. rewrite <- XD in K1, K2.
  pose proof (pow2Q_pos (flog2 a d)). pose proof (pow2Q_pos (flog2 a d + 1)).
  split; nra.
Qed.

Lemma fl_pos_proper a d a' d' : (0 < a)%Z -> (0 < d)%Z -> (0 < a')%Z -> (0 < d')%Z ->
  inject_Z a / inject_Z d == inject_Z a' / inject_Z d' -> fl_pos a d == fl_pos a' d'.
Proof.
  intros Ha Hd Ha' Hd' E. unfold fl_pos.
  pose proof (flog2_value a d Ha Hd) as V. pose proof (flog2_value a' d' Ha' Hd') as V'.
  rewrite E in V. rewrite (flog2_unique _ _ _ V V').
  set (e := (flog2 a' d' - 52)%Z).
  assert (S : scaledQ a d e == scaledQ a' d' e).
  { pose proof (scaledQ_spec a d e Hd) as S1. pose proof (scaledQ_spec a' d' e Hd') as S2.
    rewrite E in S1. pose proof (pow2Q_pos e) as P.
    assert (scaledQ a d e * pow2Q e == scaledQ a' d' e * pow2Q e) by (rewrite S1, S2; reflexivity).
    apply (Qmult_inj_r _ _ (pow2Q e)); [lra|auto]. }
  rewrite (rhe_proper _ _ S). reflexivity.
Qed.

Lemma fl64_proper p q : p == q -> fl64 p == fl64 q.
Proof.
  destruct p as [n d], q as [n' d']. intros E. unfold fl64. cbn [Qnum Qden].
  unfold Qeq in E. cbn [Qnum Qden] in E.
  destruct n as [|a|a], n' as [|a'|a']; try lia; try reflexivity.
  - apply fl_pos_proper; try lia. rewrite <- !Qmake_Qdiv. unfold Qeq. simpl. lia.
  - apply Qopp_comp. apply fl_pos_proper; try lia. rewrite <- !Qmake_Qdiv. unfold Qeq. simpl. lia.
Qed.

Lemma fl_pos_int z : (0 < z < 9007199254740992)%Z -> fl_pos z 1 == inject_Z z.
Proof.
  intros [Hz Hs]. unfold fl_pos.
  pose proof (flog2_value z 1 Hz ltac:(lia)) as [V1 V2].
  assert (X : inject_Z z / inject_Z 1 == inject_Z z) by (field).
  rewrite X in V1, V2.
  set (k := flog2 z 1) in *.
  assert (Hk : (k < 53)%Z).
  { destruct (Z.lt_ge_cases k 53) as [L|G]; auto. exfalso.
    pose proof (pow2Q_mono 53 k G) as M.
    assert (inject_Z z < pow2Q 53).
    { rewrite pow2Q_nonneg_inj by lia. rewrite <- Zlt_Qlt. exact Hs. }
    lra. }
  set (e := (k - 52)%Z).
  assert (He : (e <= 0)%Z) by (unfold e; lia).
  assert (S : scaledQ z 1 e == inject_Z (z * 2 ^ (- e))).
  { unfold scaledQ. destruct (Z.leb_spec 0 e) as [G|G].
    - assert (e = 0%Z) by lia. rewrite H. simpl. unfold Qeq, inject_Z. simpl. lia.
    - reflexivity. }
  rewrite (rhe_proper _ _ S), rhe_int. rewrite inject_Z_mult.
  rewrite <- (pow2Q_nonneg_inj (- e)) by lia.
  rewrite <- Qmult_assoc, pow2Q_neg_inv. ring.
Qed.

Lemma fl64_int z : small z -> fl64 (inject_Z z) == inject_Z z.
Proof.
  unfold small. intros Hs.
  destruct (Z.eq_dec (Z.abs z) 9007199254740992) as [E|E].
  - destruct z as [|p|p]; try discriminate.
    + simpl in E. injection E as ->. vm_compute. reflexivity.
    + simpl in E. injection E as ->. vm_compute. reflexivity.
  - unfold fl64, inject_Z. cbn [Qnum Qden]. destruct z as [|p|p].
    + reflexivity.
    + apply (fl_pos_int (Z.pos p)). lia.
    + change (Z.neg p # 1) with (- inject_Z (Z.pos p)). apply Qopp_comp.
      apply (fl_pos_int (Z.pos p)). lia.
Qed.

End Fl64.

Lemma scale_one_given_fl64 : forall icx icy, small icx -> small icy ->
  (forall x cy, x <> 0 -> truthy cy = false -> icx <> 0 -> small x ->
     exists y, scale fl64 icx icy (Some x) cy = Ok (x, y) /\
       (Qabs (inject_Z y * inject_Z icx - inject_Z x * inject_Z icy)
        <= Qabs (inject_Z icx) * (1 # 2) + Qabs (inject_Z x * inject_Z icy) * (3 * eps53))%Q) /\
  (forall y cx, y <> 0 -> truthy cx = false -> icy <> 0 -> small y ->
     exists x, scale fl64 icx icy cx (Some y) = Ok (x, y) /\
       (Qabs (inject_Z x * inject_Z icy - inject_Z y * inject_Z icx)
        <= Qabs (inject_Z icy) * (1 # 2) + Qabs (inject_Z y * inject_Z icx) * (3 * eps53))%Q).
Proof. exact (scale_one_given fl64 fl64_proper fl64_err fl64_int). Qed.

Lemma fl64_premises :
  (forall p q, (p == q)%Q -> (fl64 p == fl64 q)%Q) /\
  (forall q, (Qabs (fl64 q - q) <= Qabs q * eps53)%Q) /\
  (forall z, small z -> (fl64 (inject_Z z) == inject_Z z)%Q).
Proof. exact (conj fl64_proper (conj fl64_err fl64_int)). Qed.

(* ================================================================== the float quotient truncates to the exact floor *)
Section NativeFloat.
Local Open Scope Q_scope.

Lemma Qfloor_between q z : inject_Z z <= q -> q < inject_Z (z + 1) -> Qfloor q = z.
Proof.
  intros L U.
  assert (A : (z <= Qfloor q)%Z).
  { rewrite <- (Qfloor_Z z). apply Qfloor_resp_le. exact L. }
  assert (B : (Qfloor q < z + 1)%Z).
  { rewrite Zlt_Qlt. eapply Qle_lt_trans; [apply Qfloor_le|exact U]. }
  lia.
Qed.

(** int(a / b) for ints a, b computed in binary64 is the exact floor, in the range of
    native sizes: a = 914400 * px below 2^40 and 1 <= b <= 2048 *)
Lemma div_trunc_exact a b : (0 <= a < 1099511627776)%Z -> (1 <= b <= 2048)%Z ->
  Qfloor (fl64 (inject_Z a / inject_Z b)) = (a / b)%Z.
Proof.
  intros [Ha Ha2] [Hb Hb2].
  pose proof (Z.div_mod a b ltac:(lia)) as DM.
  pose proof (Z.mod_pos_bound a b ltac:(lia)) as MB.
  set (q := (a / b)%Z) in *. set (r := (a mod b)%Z) in *.
  assert (Hq : (0 <= q)%Z) by (apply Z.div_pos; lia).
  assert (Hqa : (q <= a)%Z) by nia.
  assert (Bp : 0 < inject_Z b) by (change 0 with (inject_Z 0); rewrite <- Zlt_Qlt; lia).
  assert (B2 : inject_Z b <= 2048) by (change 2048 with (inject_Z 2048); rewrite <- Zle_Qle; lia).
  set (x := inject_Z a / inject_Z b).
  assert (XB : x * inject_Z b == inject_Z a) by (unfold x; field; lra).
  assert (AQ : inject_Z a == inject_Z q * inject_Z b + inject_Z r).
  { rewrite <- inject_Z_mult, <- inject_Z_plus. rewrite DM at 1. rewrite Z.mul_comm. reflexivity. }
  destruct (Z.eq_dec r 0) as [R0|R0].
  - assert (X : x == inject_Z q).
    { rewrite R0 in AQ. change (inject_Z 0) with 0 in AQ.
      apply (Qmult_inj_r _ _ (inject_Z b)); [lra|]. rewrite XB, AQ. ring. }
    rewrite (Qfloor_comp _ _ (fl64_proper _ _ X)).
    rewrite (Qfloor_comp _ _ (fl64_int q ltac:(unfold small; lia))). apply Qfloor_Z.
  - assert (R1 : 1 <= inject_Z r) by (change 1 with (inject_Z 1); rewrite <- Zle_Qle; lia).
    assert (R2 : inject_Z r <= inject_Z b - 1).
    { assert (T : inject_Z r + 1 <= inject_Z b).
      { change 1 with (inject_Z 1). rewrite <- inject_Z_plus, <- Zle_Qle. lia. }
      lra. }
    assert (A2 : inject_Z a < 1099511627776) by (change 1099511627776 with (inject_Z 1099511627776); rewrite <- Zlt_Qlt; lia).
    assert (A0 : 0 <= inject_Z a) by (change 0 with (inject_Z 0); rewrite <- Zle_Qle; lia).
    assert (Q0 : 0 <= inject_Z q) by (change 0 with (inject_Z 0); rewrite <- Zle_Qle; lia).
    set (y := x - inject_Z q).
    assert (YB : y * inject_Z b == inject_Z r) by (unfold y; rewrite AQ in XB; nra).
    assert (Y1 : 1 # 2048 <= y) by nra.
    assert (Y2 : y <= 1 - (1 # 2048)) by nra.
    assert (X0 : 0 <= x) by nra.
    assert (X2 : x < 1099511627776) by nra.
    pose proof (fl64_err x) as F. rewrite (Qabs_pos x X0) in F.
    apply Qabs_Qle_condition in F as [F1 F2].
    assert (E53 : eps53 * 1099511627776 == 1 # 8192) by reflexivity.
    assert (Ep : 0 < eps53) by (unfold eps53; lra).
    apply Qfloor_between.
    + unfold y in *. nra.
    + rewrite inject_Z_plus. change (inject_Z 1) with 1. unfold y in *. nra.
Qed.

End NativeFloat.

(** int(914400 * px / dpi) evaluated in binary64 is the value the model computes on exact
    integers, for every normalised dpi and every pixel count up to 1202440 *)
Lemma native_float_exact px dpi : 0 <= px -> 914400 * px < 1099511627776 -> 1 <= dpi <= 2048 ->
  Qfloor (fl64 (inject_Z (914400 * px) / inject_Z dpi)) = native_dim px dpi.
Proof.
  intros Hp Hs Hd. unfold native_dim. rewrite Z.quot_div_nonneg by lia.
  apply div_trunc_exact; lia.
Qed.

(* ================================================================== instance helpers for the regenerated tables *)

Lemma tables_sound_gen em sp ict dct ipc :
  tables_ok (map snd em ++ map snd sp) ict dct ipc = true ->
  forall e, (exists fmt, assoc fmt em = Some e) \/ In e (map (@snd (str * nat * blob) str) sp) ->
  exists ct, assoc e ict = Some ct /\ In (e, ct) dct /\
             (forall ct', In (e, ct') dct -> ct' = ct) /\ In ct ipc.
Proof.
  intros T e He. apply (tables_ok_sound _ _ _ _ T). apply in_or_app.
  destruct He as [[fmt A]|A]; [left|right; exact A].
  apply assoc_In in A. change e with (snd (fmt, e)). apply in_map. exact A.
Qed.

Lemma emf_by_header b w h d x :
  image_ext b (Meta (Some [87; 77; 70]%N) w h d x) =
  Ok (if str_eqb (slice b 40 4) [32; 69; 77; 70]%N then [101; 109; 102]%N else [119; 109; 102]%N).
Proof.
  cbn [image_ext special_ext ext_special]. change (length [32; 69; 77; 70]%N) with 4%nat.
  change (str_eqb [87; 77; 70]%N [87; 77; 70]%N) with true. cbn [andb].
  destruct (str_eqb (slice b 40 4) [32; 69; 77; 70]%N); reflexivity.
Qed.
