From Coq Require Import Extraction ExtrOcamlBasic.
From V.model Require Import AccessRun.
Extraction Language OCaml.
Cd "extract".
Extraction "c12.ml" run_c12.
Cd "..".
