(** Runner entry point for the C02 correspondence.

    Case  consts            prints the constants of model/PkgOps.v (checked against the live
                            pptx.opc.constants by the check)
    Case  hist mode tokens  runs a history.  mode n: the code as it is (target_ref an ordinary
                            property), mode c: the former code (lazyproperty target_ref).
      tokens :=  ntab str*                          strings printed as an index (content types, relationship types)
                 ndef (ext ct)*  ninit (ext ct)*    default_content_types, initial defaults of _ContentTypesItem
                 pres  mflag [mrid]
                 nrel rel*                          package relationships
                 npart part*
                 nop op*
      rel    :=  id type mode(0 internal 1 external) target(part index | text)
      part   :=  name ct sha phs nslots  n idl*  n (kind rid)*  n rel*   (nslots: empty link slots, 1 for a loaded notes slide with a notes placeholder)
      op     :=  opcode args   (see parse_op)
    Output: records separated by code point 30; the first record is the initial state, then
    one record per operation.  Inside a record fields are separated by 31:
      outcome:invb:tables_okb | iter order (part indices, comma separated) | changed parts | package rels or = | caches | saved package
    Lower levels use the separators 29, 28, 27, 26, 25 (see the check for the reader). *)
From V.lib Require Import Prelude Wire.
From V.model Require Import PackUri PkgOps.
From V.model Require Ids Opc.

Definition sep1 : N := 30%N.
Definition sep2 : N := 31%N.
Definition sep3 : N := 29%N.
Definition sep4 : N := 28%N.
Definition sep5 : N := 27%N.
Definition sep6 : N := 26%N.
Definition sep7 : N := 25%N.
Definition joinc (c : N) (l : list str) : str := join_with [c] l.

(* ------------------------------------------------------------------------------ *)
(** * reading *)

Definition P (A : Type) := list str -> option (A * list str).
Definition p_ret {A} (a : A) : P A := fun fs => Some (a, fs).
Definition p_bind {A B} (p : P A) (f : A -> P B) : P B :=
  fun fs => match p fs with Some (a, r) => f a r | None => None end.
Notation "'rd' x <- m ;; k" := (p_bind m (fun x => k)) (at level 200, x name, m at level 100, k at level 200).

Definition p_str : P str := fun fs => match fs with f :: r => Some (f, r) | [] => None end.
Definition p_nat : P nat := fun fs =>
  match fs with f :: r => match parse_nat f with Some n => Some (n, r) | None => None end | [] => None end.
Definition p_N : P N := fun fs =>
  match fs with f :: r => match parse_N f with Some n => Some (n, r) | None => None end | [] => None end.

Fixpoint p_rep {A} (n : nat) (p : P A) : P (list A) :=
  match n with
  | O => p_ret []
  | S k => rd a <- p ;; rd l <- p_rep k p ;; p_ret (a :: l)
  end.
Definition p_list {A} (p : P A) : P (list A) := rd n <- p_nat ;; p_rep n p.
Definition p_pair : P (str * str) := rd a <- p_str ;; rd b <- p_str ;; p_ret (a, b).

Definition p_rel : P relr :=
  rd i <- p_str ;; rd t <- p_str ;; rd m <- p_str ;;
  match m with
  | [48%N] => rd q <- p_nat ;; p_ret (mkR i t (TInt q) None)
  | [49%N] => rd u <- p_str ;; p_ret (mkR i t (TExt u) None)
  | _ => fun _ => None
  end.

Definition p_part : P part :=
  rd name <- p_str ;; rd ct <- p_str ;; rd sha <- p_N ;; rd phs <- p_nat ;; rd nsl <- p_nat ;;
  rd idl <- p_list p_str ;; rd refs <- p_list p_pair ;; rd rels <- p_list p_rel ;;
  p_ret (mkP name (baseURI name) ct sha idl refs (repeat (None, None) nsl) phs false rels).

Definition p_blob : P blobd := rd sha <- p_N ;; rd e <- p_str ;; rd ct <- p_str ;; p_ret (mkB sha e ct).

Definition p_which : P which := rd w <- p_str ;;
  match w with [99%N] => p_ret WClick | [114%N] => p_ret WRun | _ => fun _ => None end.   (* c / r *)

Definition oc (a b : N) : str := [a; b].

Definition p_op : P op :=
  rd c <- p_str ;;
  if str_eqb c (oc 65 83) then p_ret AccessSlides                                   (* AS *)
  else if str_eqb c (oc 83 76) then rd l <- p_nat ;; p_ret (AddSlide l)             (* SL *)
  else if str_eqb c (oc 80 83) then rd i <- p_nat ;; p_ret (AddPlainShape i)        (* PS *)
  else if str_eqb c (oc 80 73) then rd i <- p_nat ;; rd b <- p_blob ;; p_ret (AddPicture i b)   (* PI *)
  else if str_eqb c (oc 80 66) then rd i <- p_nat ;; p_ret (AddPictureBad i)        (* PB *)
  else if str_eqb c (oc 73 80) then rd i <- p_nat ;; rd b <- p_blob ;; p_ret (InsertPicture i b) (* IP *)
  else if str_eqb c (oc 77 86) then                                                 (* MV *)
    rd i <- p_nat ;; rd v <- p_blob ;; rd t <- p_str ;;
    match t with
    | [100%N] => p_ret (AddMovie i v PDefault)                                       (* d *)
    | [105%N] => rd b <- p_blob ;; p_ret (AddMovie i v (PImg b))                     (* i *)
    | [98%N] => p_ret (AddMovie i v PBad)                                            (* b *)
    | _ => fun _ => None
    end
  else if str_eqb c (oc 67 72) then rd i <- p_nat ;; p_ret (AddChart i)             (* CH *)
  else if str_eqb c (oc 82 68) then rd i <- p_nat ;; rd j <- p_nat ;; p_ret (ReplaceData i j)  (* RD *)
  else if str_eqb c (oc 79 76) then                                                 (* OL *)
    rd i <- p_nat ;; rd k <- p_str ;;
    match k with
    | [120%N] => p_ret (AddOle i OXlsx) | [100%N] => p_ret (AddOle i ODocx)
    | [112%N] => p_ret (AddOle i OPptx) | [103%N] => p_ret (AddOle i OGeneric)
    | _ => fun _ => None
    end
  else if str_eqb c (oc 78 84) then rd i <- p_nat ;; p_ret (AccessNotes i)          (* NT *)
  else if str_eqb c (oc 76 75) then                                                 (* LK *)
    rd w <- p_which ;; rd i <- p_nat ;; rd j <- p_nat ;; rd u <- p_str ;; p_ret (SetLink w i j u)
  else if str_eqb c (oc 67 76) then                                                 (* CL *)
    rd w <- p_which ;; rd i <- p_nat ;; rd j <- p_nat ;; p_ret (ClearLink w i j)
  else if str_eqb c (oc 82 76) then                                                 (* RL *)
    rd w <- p_which ;; rd i <- p_nat ;; rd j <- p_nat ;; p_ret (ReadLink w i j)
  else if str_eqb c (oc 74 80) then                                                 (* JP *)
    rd i <- p_nat ;; rd j <- p_nat ;; rd k <- p_nat ;; p_ret (SetJump i j k)
  else if str_eqb c (oc 67 74) then rd i <- p_nat ;; rd j <- p_nat ;; p_ret (ClearJump i j)   (* CJ *)
  else if str_eqb c (oc 78 74) then rd i <- p_nat ;; rd k <- p_nat ;; p_ret (SetNotesJump i k) (* NJ *)
  else if str_eqb c (oc 67 78) then rd i <- p_nat ;; p_ret (ClearNotesJump i)       (* CN *)
  else if str_eqb c (oc 82 77) then rd l <- p_nat ;; p_ret (RemoveLayout l)         (* RM *)
  else if str_eqb c (oc 67 80) then p_ret AccessCoreProps                           (* CP *)
  else if str_eqb c (oc 83 86) then p_ret Save                                      (* SV *)
  else fun _ => None.

Record input := mkIn { in_tab : list str; in_T : tables; in_s : state; in_ops : list op }.

Definition p_input : P input :=
  rd tab <- p_list p_str ;;
  rd d <- p_list p_pair ;; rd i <- p_list p_pair ;;
  rd pres <- p_nat ;; rd mf <- p_nat ;;
  rd mrid <- (match mf with O => p_ret None | _ => rd r <- p_str ;; p_ret (Some r) end) ;;
  rd prels <- p_list p_rel ;;
  rd parts <- p_list p_part ;;
  rd ops <- p_list p_op ;;
  p_ret (mkIn tab (mkT d i) (mkS parts prels pres mrid false None None) ops).

(* ------------------------------------------------------------------------------ *)
(** * printing *)

Fixpoint index_of (s : str) (l : list str) (i : nat) : option nat :=
  match l with
  | [] => None
  | x :: r => if str_eqb x s then Some i else index_of s r (S i)
  end.

(** a table string prints as # and its index, any other as $ and its text *)
Definition sh_i (tab : list str) (s : str) : str :=
  match index_of s tab O with
  | Some i => 35%N :: show_nat i
  | None => 36%N :: s
  end.

Definition sh_opt (o : option str) : str := match o with Some r => 43%N :: r | None => [45%N] end.  (* +text / - *)

Definition sh_relr (tab : list str) (r : relr) : str :=
  joinc sep6 [rr_id r; sh_i tab (rr_type r);
              match rr_tgt r with TInt q => 48%N :: 58%N :: show_nat q | TExt u => 49%N :: 58%N :: u end;
              sh_opt (rr_ref r)].

Definition sh_part (tab : list str) (pid : nat) (x : part) : str :=
  joinc sep4 [show_nat pid; pt_name x; sh_i tab (pt_ct x); show_N (pt_sha x); show_nat (pt_phs x);
              show_bool (pt_notes x);
              joinc sep5 (pt_idl x);
              joinc sep5 (map (fun kr => joinc sep6 [fst kr; snd kr]) (pt_refs x));
              joinc sep5 (map (fun cr => joinc sep6 [sh_opt (fst cr); sh_opt (snd cr)]) (pt_slots x));
              joinc sep5 (map (sh_relr tab) (pt_rels x));
              pt_base x].

Definition sh_orel (tab : list str) (c : N) (r : Opc.rel) : str :=
  joinc c [Opc.r_id r; sh_i tab (Opc.r_type r); Opc.r_target r;
           match Opc.r_mode r with Opc.MInt => [48%N] | Opc.MExt => [49%N] | Opc.MOther => [50%N] end].

Definition sh_pairs (tab : list str) (l : list (str * str)) : str :=
  joinc sep4 (map (fun kv => joinc sep5 [fst kv; sh_i tab (snd kv)]) l).

Definition sh_phys (tab : list str) (s : state) (ph : physpkg) : str :=
  joinc sep3 [ map (fun b : bool => if b then 49%N else 48%N)
                   [c_names ph; c_types s ph; c_targets s ph; c_refs s ph; c_main s ph];
               sh_pairs tab (fst (ph_cts ph));
               sh_pairs tab (snd (ph_cts ph));
               joinc sep4 (map (sh_orel tab sep5) (ph_prels ph));
               joinc sep4 (map (fun m => joinc sep5 [show_nat (pm_pid m); pm_name m;
                                                     joinc sep6 (map (sh_orel tab sep7) (pm_rels m))])
                               (ph_members ph)) ].

(** ** equality of parts, to print only what an operation changed *)
Fixpoint list_eqb {A} (e : A -> A -> bool) (a b : list A) : bool :=
  match a, b with
  | [], [] => true
  | x :: a', y :: b' => e x y && list_eqb e a' b'
  | _, _ => false
  end.
Definition opt_eqb (a b : option str) : bool :=
  match a, b with Some x, Some y => str_eqb x y | None, None => true | _, _ => false end.
Definition relr_eqb (a b : relr) : bool :=
  str_eqb (rr_id a) (rr_id b) && str_eqb (rr_type a) (rr_type b) && tgt_eqb (rr_tgt a) (rr_tgt b)
  && opt_eqb (rr_ref a) (rr_ref b).
Definition part_eqb (a b : part) : bool :=
  str_eqb (pt_name a) (pt_name b) && str_eqb (pt_ct a) (pt_ct b) && N.eqb (pt_sha a) (pt_sha b)
  && list_eqb str_eqb (pt_idl a) (pt_idl b)
  && list_eqb (fun x y => str_eqb (fst x) (fst y) && str_eqb (snd x) (snd y)) (pt_refs a) (pt_refs b)
  && list_eqb (fun x y => opt_eqb (fst x) (fst y) && opt_eqb (snd x) (snd y)) (pt_slots a) (pt_slots b)
  && Nat.eqb (pt_phs a) (pt_phs b) && Bool.eqb (pt_notes a) (pt_notes b)
  && list_eqb relr_eqb (pt_rels a) (pt_rels b).

Fixpoint changed (tab : list str) (i : nat) (old new : list part) : list str :=
  match new with
  | [] => []
  | x :: new' =>
      match old with
      | y :: old' => (if part_eqb x y then [] else [sh_part tab i x]) ++ changed tab (S i) old' new'
      | [] => sh_part tab i x :: changed tab (S i) [] new'
      end
  end.

Definition sh_optn (o : option nat) : str := match o with Some n => show_nat n | None => [45%N] end.

Definition sh_outcome (o : outcome) : str :=
  match o with
  | Done => [68%N]                                   (* D *)
  | Refused e => 82%N :: 58%N :: show_err e          (* R:err *)
  | NA => [78%N]                                     (* N *)
  | Read v => 86%N :: 58%N :: sh_opt v               (* V:+text or V:- *)
  | Saved _ => [83%N]                                (* S *)
  end.

Definition sh_record (tab : list str) (T : tables) (old new : state) (o : outcome) : str :=
  joinc sep2 [ sh_outcome o ++ [58%N] ++ show_bool (invb T new) ++ [58%N] ++ show_bool (tables_okb T);
               join_with [44%N] (map show_nat (iter_pids new));
               joinc sep3 (changed tab O (st_parts old) (st_parts new));
               (if list_eqb relr_eqb (st_prels old) (st_prels new) then [61%N]
                else 58%N :: joinc sep5 (map (sh_relr tab) (st_prels new)));
               joinc sep6 [show_bool (st_slides new); sh_optn (st_nm new); sh_optn (st_core new)];
               match o with Saved ph => sh_phys tab new ph | _ => [] end ].

Fixpoint run_hist (lz : bool) (tab : list str) (T : tables) (s : state) (ops : list op) : list str :=
  match ops with
  | [] => []
  | o :: r =>
      let '(s1, out) := step lz T s o in
      sh_record tab T s s1 out :: run_hist lz tab T s1 r
  end.

Definition empty_state (s : state) : state := mkS [] [] (st_pres s) (st_mrid s) false None None.

Definition op_consts : str := [99; 111; 110; 115; 116; 115]%N.     (* consts *)
Definition op_hist : str := [104; 105; 115; 116]%N.                (* hist *)

Definition all_consts : list str :=
  [rt_slide; rt_image; rt_media; rt_video; rt_chart; rt_package; rt_ole; rt_hyperlink; rt_notes_slide;
   rt_notes_master; rt_theme; rt_slide_layout; rt_slide_master; rt_core; rt_office_document;
   ct_slide; ct_notes_slide; ct_notes_master; ct_theme; ct_chart; ct_xlsx; ct_docx; ct_pptx; ct_ole; ct_core;
   ct_png; ct_emf; ct_slide_master; ct_slide_layout; n_notes_master; n_core;
   fst tp_theme; snd tp_theme; fst tp_notes_slide; snd tp_notes_slide; fst tp_chart; snd tp_chart;
   fst tp_xlsx; snd tp_xlsx; fst tp_docx; snd tp_docx; fst tp_pptx; snd tp_pptx; fst tp_ole; snd tp_ole;
   k_id; k_embed; k_link; e_png; e_emf; Ids.s_slide_pre; Ids.s_xml_post].

Definition run_c02 (args : list str) : str :=
  match args with
  | [c] => if str_eqb c op_consts then joinc sep2 all_consts else w_badcase
  | c :: m :: toks =>
      if str_eqb c op_hist then
        match p_input toks with
        | Some (i, []) =>
            let lz := match m with [99%N] => true | _ => false end in
            let s0 := in_s i in
            joinc sep1 (sh_record (in_tab i) (in_T i) (empty_state s0) s0 Done
                        :: run_hist lz (in_tab i) (in_T i) s0 (in_ops i))
        | _ => w_badcase
        end
      else w_badcase
  | _ => w_badcase
  end.
