"""Translator for C01/C16: regenerate coq/gen/GenC01.v from /repo's current tree.

Reads (current working tree, every run):
  * pptx.opc.spec.default_content_types                       -> gen_default_table
  * pptx.opc.package.PartFactory.part_type_for after `import pptx` (the
    content_type -> part class map of pptx/__init__.py); a class is an XML part class
    iff it is a subclass of pptx.opc.package.XmlPart              -> gen_xml_cts / gen_blob_cts
  * AST of pptx/opc/serialized.py::_ContentTypesItem._defaults_and_overrides: the initial
    `CaseInsensitiveDict(rels=..., xml=...)`                      -> gen_init_defaults
    and the shape of the Default/Override rule (a Default only when the table lists exactly
    this one content type for the extension), which model/Opc.v in_table transcribes;
    any other shape is reported as unmodelled
  * AST of pptx/api.py::_is_pptx_package: the tuple of accepted main content types
                                                                  -> gen_pres_cts
  * AST of pptx/opc/package.py::OpcPackage.main_document_part: the relationship type
                                                                  -> gen_rt_office_document
  * AST of pptx/opc/serialized.py::_DirPkgReader.__contains__: os.path.exists (directories
    count as present) or os.path.isfile     -> c01_meta.json dir_reader_counts_directories
    (used by checks/c16.py when it presents a directory-form package to the model)
Fail-closed: a source shape that is not recognised is listed in `unmodelled`, and
props/C01.v states `unmodelled = []`.
Also writes gen/c01_meta.json (same data for the python side of the correspondence).
"""
import ast
import json
import os
import sys

sys.path.insert(0, os.path.dirname(os.path.abspath(__file__)))
from xsdlib import REPO, write_if_changed  # noqa: E402

sys.path.insert(0, REPO + "/src")
VERIF = os.path.dirname(os.path.dirname(os.path.abspath(__file__)))


def coq_str(s):
    if not s:
        return "[]"
    return "[" + "; ".join(str(ord(c)) for c in s) + "]%N"


def coq_pairs(pairs):
    return "[" + ";\n   ".join("(%s, %s)" % (coq_str(a), coq_str(b)) for a, b in pairs) + "]"


def coq_list(items):
    return "[" + ";\n   ".join(coq_str(a) for a in items) + "]"


def find_func(tree, cls, name):
    for node in ast.walk(tree):
        if isinstance(node, ast.ClassDef) and node.name == cls:
            for f in node.body:
                if isinstance(f, ast.FunctionDef) and f.name == name:
                    return f
    if cls is None:
        for node in tree.body:
            if isinstance(node, ast.FunctionDef) and node.name == name:
                return node
    return None


def resolve_attr(node, env):
    """CT.X / RT.X -> the string value, using the named enumerations in `env`."""
    if isinstance(node, ast.Attribute) and isinstance(node.value, ast.Name) and node.value.id in env:
        return getattr(env[node.value.id], node.attr)
    if isinstance(node, ast.Constant) and isinstance(node.value, str):
        return node.value
    raise ValueError("unrecognised expression " + ast.dump(node))


def probe_default_override_rule(table, init_defaults):
    try:
        from pptx.opc.packuri import PackURI
        from pptx.opc.serialized import _ContentTypesItem

        class _P:
            def __init__(self, partname, content_type):
                self.partname, self.content_type = PackURI(partname), content_type

        exts = sorted({e for e, _ in table}) + ["zzz"]
        singles = []
        for e in exts:
            cts = [ct for x, ct in table if x == e] + ["application/x-not-in-the-table"]
            for variant in (e, e.upper()):
                for ct in cts:
                    singles.append(("/a/p1.%s" % variant, ct))
        singles.append(("/a/noext", "application/x-not-in-the-table"))

        def predict(parts):
            d = {k.lower(): (k, v) for k, v in init_defaults}
            o = {}
            for pn, ct in parts:
                ext = PackURI(pn).ext
                if [c for x, c in table if x == ext.lower()] == [ct]:
                    d[ext.lower()] = (d.get(ext.lower(), (ext, None))[0], ct)
                else:
                    o[pn] = ct
            return sorted((k, v[1]) for k, v in d.items()), sorted(o.items())

        def actual(parts):
            d, o = _ContentTypesItem([_P(pn, ct) for pn, ct in parts])._defaults_and_overrides
            return sorted((str(k).lower(), str(v)) for k, v in d.items()), sorted((str(k), str(v)) for k, v in o.items())

        for s in singles:
            if predict([s]) != actual([s]):
                return False
        import itertools
        for a, b in itertools.islice(itertools.permutations(singles, 2), 0, None, 7):
            b2 = (b[0].replace("p1", "p2"), b[1])
            if predict([a, b2]) != actual([a, b2]):
                return False
        return True
    except Exception:  # noqa
        return False


def main():
    unmodelled = []
    import pptx  # noqa: F401  (registers the part classes)
    from pptx.opc import spec
    from pptx.opc.constants import CONTENT_TYPE as CT, RELATIONSHIP_TYPE as RT
    from pptx.opc.package import PartFactory, XmlPart, Part

    env = {"CT": CT, "RT": RT}

    table = [(str(a), str(b)) for a, b in spec.default_content_types]
    for a, _b in table:
        if a != a.lower():
            unmodelled.append("default_content_types extension not lower-case: %r" % a)

    xml_cts, blob_cts = [], []
    for ct, cls in sorted(PartFactory.part_type_for.items()):
        if isinstance(cls, type) and issubclass(cls, XmlPart):
            xml_cts.append(ct)
        elif isinstance(cls, type) and issubclass(cls, Part):
            blob_cts.append(ct)
            # a blob class must not override load/blob, else its payload handling is not the identity
            for attr in ("load", "blob"):
                if getattr(cls, attr) is not getattr(Part, attr) and not (
                    attr == "load" and getattr(cls.load, "__func__", None) is Part.load.__func__
                ):
                    unmodelled.append("part class %s overrides %s" % (cls.__name__, attr))
        else:
            unmodelled.append("part_type_for[%r] is not a Part subclass" % ct)
    for ct, cls in sorted(PartFactory.part_type_for.items()):
        if isinstance(cls, type) and issubclass(cls, XmlPart):
            if getattr(cls.load, "__func__", None) is not XmlPart.load.__func__:
                unmodelled.append("XML part class %s overrides load" % cls.__name__)
            if cls.blob is not XmlPart.blob:
                unmodelled.append("XML part class %s overrides blob" % cls.__name__)

    # initial defaults of _ContentTypesItem._defaults_and_overrides
    init_defaults = []
    src = open(os.path.join(REPO, "src/pptx/opc/serialized.py"), encoding="utf-8").read()
    f = find_func(ast.parse(src), "_ContentTypesItem", "_defaults_and_overrides")
    found = False
    if f is not None:
        for node in ast.walk(f):
            if (isinstance(node, ast.Assign) and len(node.targets) == 1
                    and isinstance(node.targets[0], ast.Name) and node.targets[0].id == "defaults"
                    and isinstance(node.value, ast.Call) and isinstance(node.value.func, ast.Name)
                    and node.value.func.id == "CaseInsensitiveDict" and not node.value.args):
                try:
                    init_defaults = [(kw.arg, resolve_attr(kw.value, env)) for kw in node.value.keywords]
                    found = True
                except ValueError as e:
                    unmodelled.append("initial defaults: %s" % e)
    if not found:
        # the source no longer spells the initial defaults as a keyword call: read them by running the
        # function on no parts at all (the table it starts from is data, like default_content_types)
        try:
            from pptx.opc.serialized import _ContentTypesItem
            d0, o0 = _ContentTypesItem([])._defaults_and_overrides
            if dict(o0):
                raise ValueError("overrides for no parts")
            init_defaults = sorted((str(k), str(v)) for k, v in d0.items())
            found = True
        except Exception as e:  # noqa
            unmodelled.append("_ContentTypesItem._defaults_and_overrides: initial defaults not recognised (%r)" % e)
    # the rule deciding Default vs Override, as modelled by in_table in model/Opc.v:
    #   ext_content_types = [ct for e, ct in default_content_types if e == ext.lower()]
    #   if ext_content_types == [content_type]: defaults[ext] = content_type  else: overrides[partname] = content_type
    rule_ok = False
    if f is not None:
        comp_ok = test_ok = False
        for node in ast.walk(f):
            if (isinstance(node, ast.Assign) and len(node.targets) == 1 and isinstance(node.targets[0], ast.Name)
                    and node.targets[0].id == "ext_content_types" and isinstance(node.value, ast.ListComp)):
                lc = node.value
                g = lc.generators[0] if len(lc.generators) == 1 else None
                if (g is not None and isinstance(lc.elt, ast.Name) and isinstance(g.target, ast.Tuple)
                        and [getattr(e, "id", None) for e in g.target.elts] == ["e", lc.elt.id]
                        and isinstance(g.iter, ast.Name) and g.iter.id == "default_content_types"
                        and len(g.ifs) == 1 and ast.unparse(g.ifs[0]) == "e == ext.lower()"):
                    comp_ok = True
            if isinstance(node, ast.If) and ast.unparse(node.test) == "ext_content_types == [content_type]":
                body = [ast.unparse(b) for b in node.body]
                orelse = [ast.unparse(b) for b in node.orelse]
                if body == ["defaults[ext] = content_type"] and orelse == ["overrides[partname] = content_type"]:
                    test_ok = True
        rule_ok = comp_ok and test_ok
    if not rule_ok:
        # the rule is no longer spelled the way the pattern above expects: decide by execution whether it still IS the
        # single-type-per-extension rule that in_table (model/Opc.v) transcribes, on the whole decision grid
        # (every extension of the table in both letter cases, an unknown extension, no extension) x (every content type the
        # table gives that extension, one it does not), singly and in ordered pairs; C01's correspondence re-checks it
        # on generated packages in every run
        rule_ok = probe_default_override_rule(table, init_defaults)
    if not rule_ok:
        unmodelled.append("_ContentTypesItem._defaults_and_overrides: Default/Override rule is not the single-type-per-extension rule modelled by in_table")

    # accepted main content types of api._is_pptx_package
    pres_cts = []
    src = open(os.path.join(REPO, "src/pptx/api.py"), encoding="utf-8").read()
    f = find_func(ast.parse(src), None, "_is_pptx_package")
    found = False
    if f is not None:
        for node in ast.walk(f):
            if (isinstance(node, ast.Assign) and len(node.targets) == 1
                    and isinstance(node.targets[0], ast.Name) and node.targets[0].id == "valid_content_types"
                    and isinstance(node.value, ast.Tuple)):
                try:
                    pres_cts = [resolve_attr(e, env) for e in node.value.elts]
                    found = True
                except ValueError as e:
                    unmodelled.append("valid_content_types: %s" % e)
    if not found:
        unmodelled.append("api._is_pptx_package: valid_content_types not recognised")

    # relationship type of the main document part
    rt_od = ""
    src = open(os.path.join(REPO, "src/pptx/opc/package.py"), encoding="utf-8").read()
    f = find_func(ast.parse(src), "OpcPackage", "main_document_part")
    found = False
    if f is not None:
        for node in ast.walk(f):
            if (isinstance(node, ast.Call) and isinstance(node.func, ast.Attribute)
                    and node.func.attr == "part_related_by" and len(node.args) == 1):
                try:
                    rt_od = resolve_attr(node.args[0], env)
                    found = True
                except ValueError as e:
                    unmodelled.append("main_document_part: %s" % e)
    if not found:
        unmodelled.append("OpcPackage.main_document_part: relationship type not recognised")

    # _DirPkgReader.__contains__: does a directory of the tree count as a present member?
    dir_counts_dirs = None
    src = open(os.path.join(REPO, "src/pptx/opc/serialized.py"), encoding="utf-8").read()
    f = find_func(ast.parse(src), "_DirPkgReader", "__contains__")
    if f is not None:
        calls = [n.func.attr for n in ast.walk(f) if isinstance(n, ast.Call) and isinstance(n.func, ast.Attribute)
                 and isinstance(n.func.value, ast.Attribute) and n.func.value.attr == "path"
                 and n.func.attr in ("exists", "isfile", "isdir", "lexists")]
        if calls == ["exists"] or calls == ["lexists"]:
            dir_counts_dirs = True
        elif calls == ["isfile"]:
            dir_counts_dirs = False
    if dir_counts_dirs is None:
        unmodelled.append("_DirPkgReader.__contains__: membership test not recognised")
        dir_counts_dirs = True

    out = ["(* GENERATED by tx/tx_c01.py from /repo -- do not edit *)",
           "From V.lib Require Import Prelude.",
           "Open Scope N_scope.",
           "(* pptx.opc.spec.default_content_types: (extension, content type) *)",
           "Definition gen_default_table : list (str * str) :=\n  %s." % coq_pairs(table),
           "(* content types whose registered part class is a subclass of XmlPart *)",
           "Definition gen_xml_cts : list str :=\n  %s." % coq_list(xml_cts),
           "(* content types whose registered part class is a plain (blob) Part subclass *)",
           "Definition gen_blob_cts : list str :=\n  %s." % coq_list(blob_cts),
           "(* initial defaults of _ContentTypesItem *)",
           "Definition gen_init_defaults : list (str * str) :=\n  %s." % coq_pairs(init_defaults),
           "(* api._is_pptx_package valid_content_types *)",
           "Definition gen_pres_cts : list str :=\n  %s." % coq_list(pres_cts),
           "(* relationship type looked up by OpcPackage.main_document_part *)",
           "Definition gen_rt_office_document : str := %s." % coq_str(rt_od),
           "Definition unmodelled : list (list N) := %s." % ("[" + "; ".join(coq_str(u) for u in unmodelled) + "]"),
           ""]
    write_if_changed(os.path.join(VERIF, "coq", "gen", "GenC01.v"), "\n".join(out))
    meta = {"default_table": table, "xml_cts": xml_cts, "blob_cts": blob_cts, "init_defaults": init_defaults,
            "pres_cts": pres_cts, "rt_office_document": rt_od, "unmodelled": unmodelled,
            "dir_reader_counts_directories": dir_counts_dirs}
    write_if_changed(os.path.join(VERIF, "coq", "gen", "c01_meta.json"), json.dumps(meta, indent=1, sort_keys=True))
    if unmodelled:
        print("unmodelled:", unmodelled)
    return 0


if __name__ == "__main__":
    sys.exit(main())
