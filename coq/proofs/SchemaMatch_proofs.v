(** Correctness of the derivative matcher of model/SchemaMatch.v against the
    declarative language of content models of model/Schema.v:
    for well-formed c,  cm_match c w = true <-> lang c w.
    Nothing is assumed about the body of a repetition (it may be nullable). *)
From V.lib Require Import Prelude.
From V.model Require Import Schema SchemaMatch.
From V.proofs Require Import Schema_proofs.

(** * Unfolding lemmas for the nested fixpoints *)

Lemma nullable_Seq_nil : nullable (Seq []) = true.
Proof. reflexivity. Qed.
Lemma nullable_Seq_cons c l : nullable (Seq (c :: l)) = nullable c && nullable (Seq l).
Proof. reflexivity. Qed.
Lemma nullable_Alt_nil : nullable (Alt []) = false.
Proof. reflexivity. Qed.
Lemma nullable_Alt_cons c l : nullable (Alt (c :: l)) = nullable c || nullable (Alt l).
Proof. reflexivity. Qed.
Lemma nullable_Rep mn mx c : nullable (Rep mn mx c) = Nat.eqb mn 0 || nullable c.
Proof. reflexivity. Qed.

Lemma wf_Seq_cons c l : wf_cm (Seq (c :: l)) = wf_cm c && wf_cm (Seq l).
Proof. reflexivity. Qed.
Lemma wf_Alt_cons c l : wf_cm (Alt (c :: l)) = wf_cm c && wf_cm (Alt l).
Proof. reflexivity. Qed.

(** the side condition of [wf_cm] on occurrence bounds, as a proposition *)
Definition bounds_ok (mn : nat) (mx : option nat) : Prop :=
  match mx with Some m => mn <= m /\ 0 < m | None => True end.

Lemma wf_Rep mn mx c :
  wf_cm (Rep mn mx c) = true <-> wf_cm c = true /\ bounds_ok mn mx.
Proof.
  cbn [wf_cm]. rewrite andb_true_iff. destruct mx as [m|]; cbn [bounds_ok].
  - rewrite andb_true_iff, Nat.leb_le, Nat.ltb_lt. tauto.
  - tauto.
Qed.

Lemma deriv_Elt a t : deriv a (Elt t) = if N.eqb a t then cm_eps else cm_empty.
Proof. reflexivity. Qed.
Lemma deriv_Seq_nil a : deriv a (Seq []) = cm_empty.
Proof. reflexivity. Qed.
Lemma deriv_Seq_cons a c l :
  deriv a (Seq (c :: l)) =
  Alt [Seq (deriv a c :: l); if nullable c then deriv a (Seq l) else cm_empty].
Proof. reflexivity. Qed.
Lemma deriv_Rep a mn mx c : deriv a (Rep mn mx c) = Seq [deriv a c; rep_rest mn mx c].
Proof. reflexivity. Qed.

Definition alt_body (c : cm) : list cm := match c with Alt l => l | _ => [] end.
Lemma deriv_Alt_cons a c l :
  deriv a (Alt (c :: l)) = Alt (deriv a c :: alt_body (deriv a (Alt l))).
Proof. reflexivity. Qed.
Lemma deriv_Alt a l : deriv a (Alt l) = Alt (map (deriv a) l).
Proof.
  induction l as [|c l IH]; [reflexivity|].
  rewrite deriv_Alt_cons, IH; reflexivity.
Qed.

Lemma cm_match_nil c : cm_match c [] = nullable c.
Proof. reflexivity. Qed.
Lemma cm_match_cons c a w : cm_match c (a :: w) = cm_match (deriv a c) w.
Proof. reflexivity. Qed.

(** * Inversion lemmas for the language *)

Lemma lang_Elt t w : lang (Elt t) w <-> w = [t].
Proof. split; [intros H; inversion H; reflexivity|intros ->; constructor]. Qed.

Lemma lang_Seq l w : lang (Seq l) w <-> lang_seq l w.
Proof. split; [intros H; inversion H; assumption|apply L_seq]. Qed.

Lemma lang_seq_nil w : lang_seq [] w <-> w = [].
Proof. split; [intros H; inversion H; reflexivity|intros ->; constructor]. Qed.

Lemma lang_seq_cons c l w :
  lang_seq (c :: l) w <-> exists w1 w2, w = w1 ++ w2 /\ lang c w1 /\ lang_seq l w2.
Proof.
  split.
  - intros H; inversion H; subst; eauto.
  - intros (w1 & w2 & -> & H1 & H2); constructor; auto.
Qed.

Lemma lang_Seq_nil w : lang (Seq []) w <-> w = [].
Proof. rewrite lang_Seq; apply lang_seq_nil. Qed.

Lemma lang_Seq_cons c l w :
  lang (Seq (c :: l)) w <-> exists w1 w2, w = w1 ++ w2 /\ lang c w1 /\ lang (Seq l) w2.
Proof.
  rewrite lang_Seq, lang_seq_cons. split; intros (w1 & w2 & E & H1 & H2);
    exists w1, w2; repeat split; auto; apply lang_Seq; auto.
Qed.

Lemma lang_Alt l w : lang (Alt l) w <-> exists c, In c l /\ lang c w.
Proof.
  split.
  - intros H; inversion H; subst; eauto.
  - intros (c & Hc & Hl); eapply L_alt; eauto.
Qed.

Lemma lang_Alt_nil w : lang (Alt []) w <-> False.
Proof. rewrite lang_Alt; split; [intros (c & [] & _)|tauto]. Qed.

Lemma lang_Alt_cons c l w : lang (Alt (c :: l)) w <-> lang c w \/ lang (Alt l) w.
Proof.
  rewrite !lang_Alt; split.
  - intros (d & [<-|Hd] & Hl); [left; auto|right; eauto].
  - intros [H|(d & Hd & Hl)]; [exists c; split; [left; reflexivity|auto]|].
    exists d; split; [right; auto|auto].
Qed.

Lemma lang_Rep mn mx c w :
  lang (Rep mn mx c) w <->
  exists n, lang_rep c n w /\ mn <= n /\ match mx with Some m => n <= m | None => True end.
Proof.
  split.
  - intros H; inversion H; subst; eauto.
  - intros (n & Hr & Hmn & Hmx); eapply L_rep; eauto.
Qed.

Lemma lang_rep_0 c w : lang_rep c 0 w <-> w = [].
Proof. split; [intros H; inversion H; reflexivity|intros ->; constructor]. Qed.

Lemma lang_rep_S c n w :
  lang_rep c (S n) w <-> exists w1 w2, w = w1 ++ w2 /\ lang c w1 /\ lang_rep c n w2.
Proof.
  split.
  - intros H; inversion H; subst; eauto.
  - intros (w1 & w2 & -> & H1 & H2); constructor; auto.
Qed.

(** * Facts on repetitions *)

Lemma lang_rep_eps c n : lang c [] -> lang_rep c n [].
Proof.
  intros He; induction n as [|n IH]; [constructor|].
  apply lang_rep_S; exists [], []; auto.
Qed.

(** with a nullable body, empty iterations can be added at will *)
Lemma lang_rep_pad c n n' w : lang c [] -> lang_rep c n w -> n <= n' -> lang_rep c n' w.
Proof.
  intros He Hr Hle; induction Hle as [|m _ IH]; [exact Hr|].
  apply lang_rep_S; exists [], w; auto.
Qed.

(** a non-empty word of a repetition: skip the leading empty iterations (there are
    some only when the body is nullable), split the first non-empty one *)
Lemma lang_rep_cons_inv c a n : forall w, lang_rep c n (a :: w) ->
  exists k w1 w2, w = w1 ++ w2 /\ lang c (a :: w1) /\ lang_rep c k w2 /\
                  (S k = n \/ (S k < n /\ lang c [])).
Proof.
  induction n as [|n IH]; intros w H.
  - apply lang_rep_0 in H; discriminate.
  - apply lang_rep_S in H; destruct H as (u1 & u2 & E & H1 & H2).
    destruct u1 as [|b u1]; cbn [app] in E.
    + subst u2. destruct (IH _ H2) as (k & w1 & w2 & E & Hc & Hk & Hd).
      exists k, w1, w2; repeat split; auto. right; split; [lia|exact H1].
    + inversion E; subst. exists n, u1, u2; repeat split; auto.
Qed.

Lemma lang_rep_rest mn mx c w : bounds_ok mn mx ->
  (lang (rep_rest mn mx c) w <->
   exists n, lang_rep c n w /\ pred mn <= n /\
             match mx with Some m => S n <= m | None => True end).
Proof.
  intros Hb. destruct mx as [m|]; cbn [bounds_ok] in Hb.
  - destruct m as [|[|m]]; [lia| |].
    + (* max 1: nothing more *)
      change (rep_rest mn (Some 1) c) with cm_eps. unfold cm_eps. rewrite lang_Seq_nil.
      split.
      * intros ->; exists 0; split; [constructor|lia].
      * intros (n & Hr & _ & Hm). assert (n = 0) by lia; subst n.
        apply lang_rep_0 in Hr; exact Hr.
    + change (rep_rest mn (Some (S (S m))) c) with (Rep (pred mn) (Some (S m)) c).
      rewrite lang_Rep. split; intros (n & Hr & Hmn & Hm); exists n; repeat split; auto; lia.
  - change (rep_rest mn None c) with (Rep (pred mn) None c).
    rewrite lang_Rep. split; intros (n & Hr & Hmn & Hm); exists n; repeat split; auto.
Qed.

Lemma wf_rep_rest mn mx c :
  wf_cm c = true -> bounds_ok mn mx -> wf_cm (rep_rest mn mx c) = true.
Proof.
  intros Hc Hb. destruct mx as [m|]; cbn [bounds_ok] in Hb.
  - destruct m as [|[|m]]; [lia|reflexivity|].
    change (rep_rest mn (Some (S (S m))) c) with (Rep (pred mn) (Some (S m)) c).
    apply wf_Rep; split; [exact Hc|cbn [bounds_ok]; lia].
  - change (rep_rest mn None c) with (Rep (pred mn) None c).
    apply wf_Rep; split; [exact Hc|exact I].
Qed.

(** * nullable *)

Theorem nullable_correct c : wf_cm c = true -> (nullable c = true <-> lang c []).
Proof.
  induction c as [t|l IH|l IH|mn mx c IH] using cm_ind'; intros Hwf.
  - cbn [nullable]. rewrite lang_Elt. split; discriminate.
  - revert Hwf; induction IH as [|c l Hc _ IHl]; intros Hwf.
    + rewrite nullable_Seq_nil, lang_Seq_nil. tauto.
    + rewrite wf_Seq_cons in Hwf; apply andb_true_iff in Hwf; destruct Hwf as [W1 W2].
      rewrite nullable_Seq_cons, andb_true_iff, (Hc W1), (IHl W2), lang_Seq_cons.
      split.
      * intros [H1 H2]; exists [], []; auto.
      * intros (w1 & w2 & E & H1 & H2). symmetry in E; apply app_eq_nil in E.
        destruct E; subst; auto.
  - revert Hwf; induction IH as [|c l Hc _ IHl]; intros Hwf.
    + rewrite nullable_Alt_nil, lang_Alt_nil. split; [discriminate|tauto].
    + rewrite wf_Alt_cons in Hwf; apply andb_true_iff in Hwf; destruct Hwf as [W1 W2].
      rewrite nullable_Alt_cons, orb_true_iff, (Hc W1), (IHl W2), lang_Alt_cons. tauto.
  - apply wf_Rep in Hwf; destruct Hwf as [W1 Wb].
    rewrite nullable_Rep, orb_true_iff, Nat.eqb_eq, (IH W1), lang_Rep.
    split.
    + intros [->|He].
      * exists 0; split; [constructor|]. split; [lia|].
        destruct mx as [m|]; [lia|exact I].
      * exists mn; split; [apply lang_rep_eps; exact He|]. split; [lia|].
        destruct mx as [m|]; [cbn [bounds_ok] in Wb; lia|exact I].
    + intros (n & Hr & Hmn & _). destruct mn as [|mn]; [left; reflexivity|right].
      destruct n as [|n]; [lia|].
      apply lang_rep_S in Hr; destruct Hr as (w1 & w2 & E & H1 & _).
      symmetry in E; apply app_eq_nil in E; destruct E; subst; exact H1.
Qed.

(** * deriv *)

Theorem deriv_correct a c w :
  wf_cm c = true -> (lang (deriv a c) w <-> lang c (a :: w)).
Proof.
  revert w; induction c as [t|l IH|l IH|mn mx c IH] using cm_ind'; intros w Hwf.
  - rewrite deriv_Elt, lang_Elt. destruct (N.eqb_spec a t) as [->|Hn].
    + unfold cm_eps; rewrite lang_Seq_nil.
      split; [intros ->; reflexivity|intros E; inversion E; reflexivity].
    + unfold cm_empty; rewrite lang_Alt_nil.
      split; [tauto|intros E; inversion E; congruence].
  - revert w Hwf; induction IH as [|c l Hc _ IHl]; intros w Hwf.
    + rewrite deriv_Seq_nil; unfold cm_empty; rewrite lang_Alt_nil, lang_Seq_nil.
      split; [tauto|discriminate].
    + rewrite wf_Seq_cons in Hwf; apply andb_true_iff in Hwf; destruct Hwf as [W1 W2].
      rewrite deriv_Seq_cons, !lang_Alt_cons, lang_Alt_nil.
      split.
      * intros [H|[H|[]]].
        -- apply lang_Seq_cons in H; destruct H as (w1 & w2 & -> & H1 & H2).
           apply (Hc _ W1) in H1. apply lang_Seq_cons.
           exists (a :: w1), w2; repeat split; auto.
        -- destruct (nullable c) eqn:En.
           ++ apply (IHl _ W2) in H. apply lang_Seq_cons.
              exists [], (a :: w); repeat split; auto.
              apply nullable_correct; auto.
           ++ apply lang_Alt_nil in H; tauto.
      * intros H; apply lang_Seq_cons in H; destruct H as (w1 & w2 & E & H1 & H2).
        destruct w1 as [|b w1]; cbn [app] in E.
        -- subst w2. right; left.
           rewrite (proj2 (nullable_correct c W1) H1). apply (IHl _ W2); exact H2.
        -- inversion E; subst. left. apply lang_Seq_cons.
           exists w1, w2; repeat split; auto. apply (Hc _ W1); exact H1.
  - rewrite deriv_Alt. revert w Hwf; induction IH as [|c l Hc _ IHl]; intros w Hwf.
    + cbn [map]. rewrite !lang_Alt_nil. tauto.
    + rewrite wf_Alt_cons in Hwf; apply andb_true_iff in Hwf; destruct Hwf as [W1 W2].
      cbn [map]. rewrite !lang_Alt_cons, (Hc _ W1), (IHl _ W2). tauto.
  - apply wf_Rep in Hwf; destruct Hwf as [W1 Wb].
    rewrite deriv_Rep, lang_Seq_cons. split.
    + intros (w1 & w' & -> & H1 & H2).
      apply lang_Seq_cons in H2; destruct H2 as (w2 & w3 & -> & H2 & H3).
      apply lang_Seq_nil in H3; subst w3. rewrite app_nil_r.
      apply (IH _ W1) in H1. apply (lang_rep_rest _ _ _ _ Wb) in H2.
      destruct H2 as (n & Hr & Hmn & Hmx).
      apply lang_Rep. exists (S n). split.
      * apply lang_rep_S. exists (a :: w1), w2; repeat split; auto.
      * split; [lia|]. destruct mx as [m|]; [lia|exact I].
    + intros H; apply lang_Rep in H; destruct H as (n & Hr & Hmn & Hmx).
      apply lang_rep_cons_inv in Hr.
      destruct Hr as (k & w1 & w2 & -> & H1 & Hk & Hd).
      exists w1, w2. split; [reflexivity|]. split; [apply (IH _ W1); exact H1|].
      apply lang_Seq_cons. exists w2, []. split; [rewrite app_nil_r; reflexivity|].
      split; [|apply lang_Seq_nil; reflexivity].
      apply (lang_rep_rest _ _ _ _ Wb). destruct Hd as [<-|[Hlt He]].
      * exists k. split; [exact Hk|]. split; [lia|].
        destruct mx as [m|]; [lia|exact I].
      * exists (Nat.max k (pred mn)). split; [apply lang_rep_pad with k; auto; lia|].
        split; [lia|]. destruct mx as [m|]; [cbn [bounds_ok] in Wb; lia|exact I].
Qed.

Theorem deriv_wf a c : wf_cm c = true -> wf_cm (deriv a c) = true.
Proof.
  induction c as [t|l IH|l IH|mn mx c IH] using cm_ind'; intros Hwf.
  - rewrite deriv_Elt; destruct (N.eqb a t); reflexivity.
  - revert Hwf; induction IH as [|c l Hc _ IHl]; intros Hwf.
    + reflexivity.
    + rewrite wf_Seq_cons in Hwf; apply andb_true_iff in Hwf; destruct Hwf as [W1 W2].
      rewrite deriv_Seq_cons, !wf_Alt_cons, wf_Seq_cons, (Hc W1), W2.
      destruct (nullable c); [rewrite (IHl W2)|]; reflexivity.
  - rewrite deriv_Alt. revert Hwf; induction IH as [|c l Hc _ IHl]; intros Hwf.
    + reflexivity.
    + rewrite wf_Alt_cons in Hwf; apply andb_true_iff in Hwf; destruct Hwf as [W1 W2].
      cbn [map]. rewrite wf_Alt_cons, (Hc W1), (IHl W2); reflexivity.
  - apply wf_Rep in Hwf; destruct Hwf as [W1 Wb].
    rewrite deriv_Rep, !wf_Seq_cons, (IH W1), (wf_rep_rest _ _ _ W1 Wb); reflexivity.
Qed.

(** * The matcher *)

Theorem cm_match_correct c w : wf_cm c = true -> (cm_match c w = true <-> lang c w).
Proof.
  revert c; induction w as [|a w IH]; intros c Hwf.
  - rewrite cm_match_nil; apply nullable_correct; exact Hwf.
  - rewrite cm_match_cons, (IH _ (deriv_wf a c Hwf)). apply deriv_correct; exact Hwf.
Qed.

Corollary cm_match_false c w : wf_cm c = true -> cm_match c w = false -> ~ lang c w.
Proof.
  intros Hwf Hf Hl. apply (cm_match_correct c w Hwf) in Hl. congruence.
Qed.

(** * Non-vacuity: a well-formed content model with an optional particle, a repeated
      choice, a bounded repetition, and a bounded repetition of a nullable body *)

Definition sm_ex_cm : cm :=
  Seq [Elt 1%N;
       Rep 0 (Some 1) (Elt 2%N);
       Rep 0 None (Alt [Elt 3%N; Elt 4%N]);
       Rep 2 (Some 3) (Elt 5%N);
       Rep 2 (Some 2) (Rep 0 (Some 1) (Elt 6%N))].

Definition sm_ex_yes : list tag := [1; 3; 4; 3; 5; 5; 6]%N.
Definition sm_ex_yes2 : list tag := [1; 2; 5; 5; 5; 6; 6]%N.
Definition sm_ex_no_few : list tag := [1; 2; 5]%N.           (* one 5 where 2..3 are needed *)
Definition sm_ex_no_many : list tag := [1; 5; 5; 5; 5]%N.    (* four 5 *)
Definition sm_ex_no_twice : list tag := [1; 2; 2; 5; 5]%N.   (* the optional 2 twice *)
Definition sm_ex_no_order : list tag := [1; 5; 5; 3]%N.      (* choice after its place *)
Definition sm_ex_no_six : list tag := [1; 5; 5; 6; 6; 6]%N.  (* three 6, at most two *)

Example sm_ex_wf : wf_cm sm_ex_cm = true.
Proof. vm_compute; reflexivity. Qed.

Example sm_ex_match_yes : cm_match sm_ex_cm sm_ex_yes = true.
Proof. vm_compute; reflexivity. Qed.
Example sm_ex_lang_yes : lang sm_ex_cm sm_ex_yes.
Proof. exact (proj1 (cm_match_correct _ _ sm_ex_wf) sm_ex_match_yes). Qed.

Example sm_ex_match_yes2 : cm_match sm_ex_cm sm_ex_yes2 = true.
Proof. vm_compute; reflexivity. Qed.
Example sm_ex_lang_yes2 : lang sm_ex_cm sm_ex_yes2.
Proof. exact (proj1 (cm_match_correct _ _ sm_ex_wf) sm_ex_match_yes2). Qed.

Example sm_ex_match_no_few : cm_match sm_ex_cm sm_ex_no_few = false.
Proof. vm_compute; reflexivity. Qed.
Example sm_ex_lang_no_few : ~ lang sm_ex_cm sm_ex_no_few.
Proof. exact (cm_match_false _ _ sm_ex_wf sm_ex_match_no_few). Qed.

Example sm_ex_match_no_many : cm_match sm_ex_cm sm_ex_no_many = false.
Proof. vm_compute; reflexivity. Qed.
Example sm_ex_lang_no_many : ~ lang sm_ex_cm sm_ex_no_many.
Proof. exact (cm_match_false _ _ sm_ex_wf sm_ex_match_no_many). Qed.

Example sm_ex_match_no_twice : cm_match sm_ex_cm sm_ex_no_twice = false.
Proof. vm_compute; reflexivity. Qed.
Example sm_ex_lang_no_twice : ~ lang sm_ex_cm sm_ex_no_twice.
Proof. exact (cm_match_false _ _ sm_ex_wf sm_ex_match_no_twice). Qed.

Example sm_ex_match_no_order : cm_match sm_ex_cm sm_ex_no_order = false.
Proof. vm_compute; reflexivity. Qed.
Example sm_ex_lang_no_order : ~ lang sm_ex_cm sm_ex_no_order.
Proof. exact (cm_match_false _ _ sm_ex_wf sm_ex_match_no_order). Qed.

Example sm_ex_match_no_six : cm_match sm_ex_cm sm_ex_no_six = false.
Proof. vm_compute; reflexivity. Qed.
Example sm_ex_lang_no_six : ~ lang sm_ex_cm sm_ex_no_six.
Proof. exact (cm_match_false _ _ sm_ex_wf sm_ex_match_no_six). Qed.

(** the matcher agrees with the hand-built derivation of Schema_proofs *)
Example sm_ex_schema : wf_cm ex_cm = true /\ cm_match ex_cm ex_w = true.
Proof. vm_compute; auto. Qed.

(** the hypothesis is needed: maxOccurs 0 breaks nullable (so wf_cm rejects it) *)
Example sm_ex_not_wf :
  wf_cm (Rep 1 (Some 0) (Seq [])) = false /\
  nullable (Rep 1 (Some 0) (Seq [])) = true /\ ~ lang (Rep 1 (Some 0) (Seq [])) [].
Proof.
  split; [reflexivity|]. split; [reflexivity|].
  intros H; apply lang_Rep in H; destruct H as (n & _ & H1 & H2); lia.
Qed.

Print Assumptions nullable_correct.
Print Assumptions deriv_correct.
Print Assumptions deriv_wf.
Print Assumptions cm_match_correct.
