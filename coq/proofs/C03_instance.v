(** Instance obligations of C03 over the data regenerated from /repo (gen/GenC03.v):
    schema tables from the XSDs, templates the library ships or builds from constants,
    child and attribute declarations of the live element classes. *)
From V.lib Require Import Prelude PyFloat PyVal.
From V.model Require Import Schema SchemaMatch Xmlchemy SimpleTypeLib XmlValid.
From V.proofs Require Import Schema_proofs Xmlchemy_proofs SchemaMatch_proofs SimpleTypeLib_proofs XmlValid_proofs.
From V.gen Require Import GenC03.

Lemma no_unmodelled : n_unmodelled = 0.
Proof. vm_compute. reflexivity. Qed.

(** every content model of the schema table is well formed, so cm_match decides lang *)
Lemma schema_wf_b : forallb (fun p => wf_cm (ct_cm (snd p))) (sc_types schema0) = true.
Proof. vm_compute. reflexivity. Qed.

Lemma assocN_In {A} k (l : list (N * A)) v : assocN k l = Some v -> In (k, v) l.
Proof.
  induction l as [|[k' v'] l IH]; cbn [assocN]; [discriminate|].
  destruct (N.eqb_spec k k') as [->|]; [intros [= ->]; left; reflexivity|right; auto].
Qed.

Lemma schema_wf ty T : lookup_type schema0 ty = Some T -> wf_cm (ct_cm T) = true.
Proof.
  intros H. apply assocN_In in H.
  exact (proj1 (forallb_forall _ _) schema_wf_b (ty, T) H).
Qed.

(** TEMPLATES *)
Definition tpl_ok (t : tpl) : bool := negb (tp_complete t) || valid_node schema0 exempt (tp_ty t) (tp_node t).

(** the templates the validator rejects, COMPUTED from the data (the closed obligation
    [tpl_failing = []] is stated in props/C03.v, last, so that a deviation in the library
    does not hide the obligations that still hold) *)
Notation tpl_failing := (map tp_id (filter (fun t => negb (tpl_ok t)) templates)) (only parsing).

Lemma memN_In c l : memN c l = true <-> In c l.
Proof.
  unfold memN. rewrite existsb_exists. split.
  - intros [x [Hx He]]. apply N.eqb_eq in He. subst; auto.
  - intros H. exists c. split; auto. apply N.eqb_refl.
Qed.

(* generic: a row whose id is not among the computed failing ids passes *)
Lemma not_failing_ok {A} (id : A -> N) (ok : A -> bool) (l : list A) (x : A) :
  In x l -> memN (id x) (map id (filter (fun t => negb (ok t)) l)) = false -> ok x = true.
Proof.
  intros Hin Hnf. destruct (ok x) eqn:E; auto.
  assert (H : In (id x) (map id (filter (fun t => negb (ok t)) l))).
  { apply in_map. apply filter_In. split; auto. rewrite E. reflexivity. }
  apply memN_In in H. rewrite H in Hnf. discriminate.
Qed.

Lemma templates_valid : forall t, In t templates -> tp_complete t = true ->
  memN (tp_id t) tpl_failing = false ->
  valid_node schema0 exempt (tp_ty t) (tp_node t) = true.
Proof.
  intros t Hin Hc Hnf.
  apply (not_failing_ok tp_id tpl_ok templates t Hin) in Hnf.
  unfold tpl_ok in Hnf. rewrite Hc in Hnf. exact Hnf.
Qed.

(** the top level of every accepted template, spelled out *)
Lemma templates_top_level : forall t tg a ks T, In t templates -> tp_complete t = true ->
  memN (tp_id t) tpl_failing = false ->
  tp_node t = Elem tg a ks -> lookup_type schema0 (tp_ty t) = Some T ->
  lang (ct_cm T) (map (norm_tag (ct_cm T)) (kept exempt tg (ktags ks)))
  /\ (forall d, In d (ct_attrs T) -> ad_req d = true -> has_attr (ad_name d) a = true).
Proof.
  intros t tg a ks T Hin Hc Hnf Hn HT. pose proof (templates_valid t Hin Hc Hnf) as H. rewrite Hn in H.
  destruct (valid_node_children_in_language _ _ _ _ _ _ _ HT (schema_wf _ _ HT) H) as (H1 & _ & H3 & _). auto.
Qed.

(** recorded deviations are real: without its exemption some complete template is rejected *)
Definition without (e : tag * aname) : list (tag * aname) :=
  filter (fun q => negb (N.eqb (fst e) (fst q) && N.eqb (snd e) (snd q))) exempt.
Definition exempt_real (e : tag * aname) : bool :=
  existsb (fun t => tp_complete t && negb (valid_node schema0 (without e) (tp_ty t) (tp_node t))) templates.

(** the templates are in order as well (base case of the operation theorem) *)
Definition tpl_ord (t : tpl) : bool := order_valid schema0 (tp_ty t) (tp_node t).
Definition tpl_ord_ok (t : tpl) : bool := negb (tp_complete t) || tpl_ord t.

(** DECLARATIONS: every declared child of every registered class against every XSD type
    of its tags passes decl_ok on THIS schema table *)
Definition decl_ok_row (r : decl) : bool := memN (dc_id r) known_decl || decl_row_ok schema0 r.
Notation decl_failing := (map dc_id (filter (fun r => negb (decl_ok_row r)) decls)) (only parsing).

Lemma decls_admissible : forall r, In r decls -> memN (dc_id r) known_decl = false ->
  memN (dc_id r) decl_failing = false ->
  exists T, lookup_type schema0 (dc_ty r) = Some T /\
  (order_checked T = true -> decl_ok (flatten (ct_cm T)) (dc_child r) (dc_succ r) = true).
Proof.
  intros r Hin Hk Hnf.
  apply (not_failing_ok dc_id decl_ok_row decls r Hin) in Hnf. rename Hnf into H.
  unfold decl_ok_row in H. rewrite Hk in H. cbn [orb] in H. unfold decl_row_ok in H.
  destruct (lookup_type schema0 (dc_ty r)) as [T|]; [|discriminate]. exists T. split; auto.
  intros Hoc. rewrite Hoc in H. exact H.
Qed.

(** hence: inserting a declared child (subtree in order, no exclusive sibling in the way)
    at ANY element of that type, anywhere in ANY tree in order, keeps the tree in order *)
Lemma declared_insert_preserves : forall r, In r decls -> memN (dc_id r) known_decl = false ->
  memN (dc_id r) decl_failing = false ->
  forall T, lookup_type schema0 (dc_ty r) = Some T -> order_checked T = true ->
  forall x n, tag_of x = dc_child r -> child_ok schema0 T x = true ->
  addable (flatten (ct_cm T)) (dc_child r) (ktags (kids_of n)) = true ->
  order_valid schema0 (dc_ty r) n = true ->
  order_valid schema0 (dc_ty r) (apply_lop (InsertChild x (dc_succ r)) n) = true
  /\ order_valid schema0 (dc_ty r) (apply_lop (GetOrAdd x (dc_succ r)) n) = true.
Proof.
  intros r Hin Hk Hnf T HT Hoc x n Hx Hc Ha Hov.
  destruct (decls_admissible r Hin Hk Hnf) as (T' & HT' & Hd). rewrite HT in HT'. injection HT' as <-.
  specialize (Hd Hoc).
  split.
  - apply (apply_lop_preserves schema0 (dc_ty r) T (InsertChild x (dc_succ r)) n HT); [|exact Hov].
    unfold adm_lop. rewrite Hx, Hoc, Hd, Ha, Hc. reflexivity.
  - apply (apply_lop_preserves schema0 (dc_ty r) T (GetOrAdd x (dc_succ r)) n HT); [|exact Hov].
    unfold adm_lop. rewrite Hx, Hoc, Hd, Ha, Hc. reflexivity.
Qed.

(** ATTRIBUTES: no declared attribute whose simple-type class has a canonical descriptor
    can write outside the lexical space of its schema type *)
(* a class registered for a tag with several XSD types (c:grouping: CT_Grouping and
   CT_BarGrouping) is judged as in C11: the written value must be valid for SOME type the
   tag can have; the templates decide which one, and they are validated above *)
Definition attr_ok_row (r : attrdecl) : bool :=
  memN (at_id r) known_attr || negb (N.eqb (attr_row_verdict schema0 r) 1)
  || existsb (fun r' => N.eqb (at_grp r') (at_grp r) && N.eqb (attr_row_verdict schema0 r') 0) adecls.
Notation attr_failing := (map at_id (filter (fun r => negb (attr_ok_row r)) adecls)) (only parsing).

Lemma attrs_admissible : forall r, In r adecls -> memN (at_id r) known_attr = false ->
  attr_row_verdict schema0 r = 0%N ->
  forall T ad, lookup_type schema0 (at_ty r) = Some T -> find_adecl (at_name r) (ct_attrs T) = Some ad ->
  forall v s, desc_to_xml (at_desc r) v = Ok (PStr s) -> lex_ok (ad_lex ad) s = true.
Proof.
  intros r _ _ Hv T ad HT Had v s Hw. unfold attr_row_verdict in Hv. rewrite HT, Had in Hv.
  destruct (is_custom_w (at_desc r)); [discriminate|].
  destruct (write_ok (at_desc r) (ad_lex ad)) eqn:Ew.
  - eapply write_ok_sound; eauto.
  - destruct (has_unknown (ad_lex ad)); discriminate.
Qed.

Lemma attr_rows_judged_nonempty : (0 < length (filter (fun r => N.eqb (attr_row_verdict schema0 r) 0) adecls))%nat.
Proof. vm_compute. lia. Qed.

(** every complete template that needs no exemption is in order (base of the invariant) *)
Definition tpl_in_order (t : tpl) : bool :=
  negb (tp_complete t) || negb (valid_node schema0 [] (tp_ty t) (tp_node t)) || order_valid schema0 (tp_ty t) (tp_node t).
Lemma templates_in_order : forallb tpl_in_order templates = true ->
  forall t, In t templates -> tp_complete t = true ->
  valid_node schema0 [] (tp_ty t) (tp_node t) = true -> order_valid schema0 (tp_ty t) (tp_node t) = true.
Proof.
  intros Hall t Hin Hc Hv. pose proof (proj1 (forallb_forall _ _) Hall t Hin) as H.
  unfold tpl_in_order in H. rewrite Hc, Hv in H. exact H.
Qed.

(** worked example: the textbox template, get_or_add a:ln under p:spPr, rename, remove a:xfrm *)
Lemma example_admissible : order_valid schema0 ex_ty ex_tree = true /\ all_adm schema0 ex_ty ex_tree ex_ops.
Proof. split; [vm_compute; reflexivity|]. cbn [all_adm ex_ops]. repeat split; vm_compute; reflexivity. Qed.

Lemma example_result :
  order_valid schema0 ex_ty (run_ops ex_tree ex_ops) = true
  /\ run_ops ex_tree ex_ops <> ex_tree
  /\ valid_node schema0 [] ex_ty ex_tree = true
  /\ valid_node schema0 [] ex_ty (run_ops ex_tree ex_ops) = true.
Proof.
  split; [|split; [|split]].
  - apply ops_preserve_order; apply example_admissible.
  - vm_compute. discriminate.
  - vm_compute. reflexivity.
  - vm_compute. reflexivity.
Qed.

Lemma example_refused : apply_op ex_tree ex_refused = ex_tree.
Proof. eapply (rejected_noop _ _ _ TypeErr). vm_compute. reflexivity. Qed.
