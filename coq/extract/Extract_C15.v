From Coq Require Import Extraction ExtrOcamlBasic.
From V.model Require Import ImageRun.
Extraction Language OCaml.
Cd "extract".
Extraction "c15.ml" run_c15.
Cd "..".
