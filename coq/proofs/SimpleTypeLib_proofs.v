(** Generic C11 theorems: a descriptor accepted by [write_ok] only writes strings of the
    attribute's lexical space; rejections are TypeError / ValueError; what [read_ok]
    accepts can read every string of the lexical space; written forms read back. *)
From V.lib Require Import Prelude PyFloat PyVal.
From V.model Require Import SimpleTypeLib.
From V.proofs Require Import PyFloat_proofs.

Section LexInd.
Variable P : lexspec -> Prop.
Hypothesis Hint_ : forall lo hi, P (LInt lo hi).
Hypothesis Henum : forall toks, P (LEnum toks).
Hypothesis Hstr : P LString.
Hypothesis Hbool : P LBool.
Hypothesis Hdbl : P LDouble.
Hypothesis Hhex : forall n, P (LHexBin n).
Hypothesis Hpct : forall b, P (LPercent b).
Hypothesis Hum : forall b, P (LUnivMeasure b).
Hypothesis Hunion : forall l, Forall P l -> P (LUnion l).
Hypothesis Hunk : P LUnknown.
Fixpoint lexspec_ind' (t : lexspec) : P t :=
  match t with
  | LInt lo hi => Hint_ lo hi
  | LEnum toks => Henum toks
  | LString => Hstr
  | LBool => Hbool
  | LDouble => Hdbl
  | LHexBin n => Hhex n
  | LPercent b => Hpct b
  | LUnivMeasure b => Hum b
  | LUnion l => Hunion l ((fix go (l : list lexspec) : Forall P l :=
                             match l with
                             | [] => Forall_nil P
                             | t :: l' => Forall_cons t (lexspec_ind' t) (go l')
                             end) l)
  | LUnknown => Hunk
  end.
End LexInd.

Lemma lex_ok_union l s : lex_ok (LUnion l) s = existsb (fun t => lex_ok t s) l.
Proof. induction l as [|t l IH]; [reflexivity|]. change (lex_ok (LUnion (t :: l)) s) with (lex_ok t s || lex_ok (LUnion l) s). rewrite IH. reflexivity. Qed.
Lemma covers_int_union l lo hi : covers_int (LUnion l) lo hi = existsb (fun t => covers_int t lo hi) l.
Proof. induction l as [|t l IH]; [reflexivity|]. change (covers_int (LUnion (t :: l)) lo hi) with (covers_int t lo hi || covers_int (LUnion l) lo hi). rewrite IH. reflexivity. Qed.
Lemma covers_str_union l ms : covers_str (LUnion l) ms = existsb (fun t => covers_str t ms) l.
Proof. induction l as [|t l IH]; [reflexivity|]. change (covers_str (LUnion (t :: l)) ms) with (covers_str t ms || covers_str (LUnion l) ms). rewrite IH. reflexivity. Qed.

Lemma covers_int_ok t : forall lo hi z, covers_int t lo hi = true -> (lo <= z <= hi)%Z ->
  lex_ok t (str_of_Z z) = true.
Proof.
  induction t using lexspec_ind'; intros lo' hi' z Hc Hz; try discriminate Hc.
  - simpl in Hc. simpl. rewrite lex_integer_str_of_Z. apply andb_true_iff in Hc as [H1 H2].
    apply Z.leb_le in H1, H2. apply andb_true_iff; split; apply Z.leb_le; lia.
  - rewrite covers_int_union in Hc. rewrite lex_ok_union.
    apply existsb_exists in Hc as [t [Ht Hc]]. apply existsb_exists. exists t; split; auto.
    rewrite Forall_forall in H. eapply H; eauto.
Qed.

Lemma covers_str_ok t : forall ms s, covers_str t ms = true -> mem_str s ms = true -> lex_ok t s = true.
Proof.
  induction t using lexspec_ind'; intros ms s Hc Hm; try discriminate Hc; try reflexivity.
  - simpl in *. rewrite forallb_forall in Hc. apply mem_str_In in Hm. apply Hc; auto.
  - rewrite covers_str_union in Hc. rewrite lex_ok_union.
    apply existsb_exists in Hc as [t [Ht Hc]]. apply existsb_exists. exists t; split; auto.
    rewrite Forall_forall in H. eapply H; eauto.
Qed.

Lemma in_range_spec lo hi z : in_range lo hi z = true <-> (lo <= z <= hi)%Z.
Proof. unfold in_range. rewrite negb_true_iff, orb_false_iff, !Z.ltb_ge. lia. Qed.

(** W *)
Theorem write_ok_sound d t : write_ok d t = true ->
  forall v s, desc_to_xml d v = Ok (PStr s) -> lex_ok t s = true.
Proof.
  intros Hw v s Hv. destruct d; simpl in Hw, Hv; try discriminate Hw.
  - (* DCharsetUpper *) destruct t; try discriminate Hw. apply andb_true_iff in Hw as [Hn Hh].
    apply Z.eqb_eq in Hn. unfold charset_upper_to_xml in Hv. destruct v; try discriminate.
    destruct (Z.compare (Z.of_nat (length s0)) n) eqn:El; try discriminate.
    destruct (forallb (fun c => memN c allowed) s0) eqn:Ea; [|discriminate]. injection Hv as <-.
    apply Z.compare_eq in El. rewrite Hn in El. apply Nat2Z.inj in El.
    cbn [lex_ok]. rewrite map_length, El, Nat.eqb_refl. cbn [andb].
    rewrite forallb_forall in Hh, Ea. apply forallb_forall. intros c Hc.
    apply in_map_iff in Hc as [c0 [<- Hc0]]. apply Hh. apply in_map.
    specialize (Ea c0 Hc0). unfold memN in Ea. apply existsb_exists in Ea as [x [Hx Hex]].
    apply N.eqb_eq in Hex; subst; auto.
  - (* DBool *) destruct t; try discriminate Hw. unfold bool_to_xml in Hv.
    destruct (py_eqb v (PBool true)); [injection Hv as <-; reflexivity|].
    destruct (py_eqb v (PBool false)); [injection Hv as <-; reflexivity|discriminate].
  - (* DEnumTokens *) unfold enum_tokens_to_xml in Hv. destruct v; try discriminate.
    destruct (mem_str s0 toks) eqn:E; [|discriminate]. injection Hv as <-. eapply covers_str_ok; eauto.
  - (* DIntRange *) apply andb_true_iff in Hw as [Hw Hnb]. apply andb_true_iff in Hw as [_ Hc].
    unfold no_bool in Hnb. apply andb_true_iff in Hnb as [H0 H1]. apply negb_true_iff in H0, H1.
    unfold int_range_to_xml in Hv. destruct v; try discriminate.
    + destruct (in_range lo hi z) eqn:E; [|discriminate]. injection Hv as <-.
      eapply covers_int_ok; eauto. apply in_range_spec; auto.
    + destruct b; [rewrite H1 in Hv|rewrite H0 in Hv]; discriminate.
  - (* DIntRangeB *) apply andb_true_iff in Hw as [_ Hc].
    unfold int_range_to_xml_b in Hv. destruct v; try discriminate.
    + destruct (in_range lo hi z) eqn:E; [|discriminate]. injection Hv as <-.
      eapply covers_int_ok; eauto. apply in_range_spec; auto.
    + destruct (in_range lo hi (if b then 1 else 0)%Z) eqn:E; [|discriminate]. injection Hv as <-.
      eapply covers_int_ok; eauto. apply in_range_spec; auto.
  - (* DStrAny *) destruct t; try discriminate Hw. reflexivity.
  - (* DStrEnum *) unfold str_enum_to_xml in Hv. destruct v; try discriminate.
    destruct (mem_str s0 members) eqn:E; [|discriminate]. injection Hv as <-. eapply covers_str_ok; eauto.
Qed.

(** Rej: anything a non-custom descriptor refuses is refused with TypeError or ValueError,
    and (to_xml being validate-then-convert) nothing is written *)
Theorem desc_rejects_type_or_value d : is_custom_w d = false ->
  forall v e, desc_to_xml d v = Err e -> e = TypeErr \/ e = ValueErr.
Proof.
  intros Hc v e H. destruct d; try discriminate Hc; simpl in H.
  - unfold charset_upper_to_xml in H. destruct v; try (injection H as <-; auto).
    destruct (Z.compare (Z.of_nat (length s)) n); try (injection H as <-; auto).
    destruct (forallb _ s); [discriminate|injection H as <-; auto].
  - unfold bool_to_xml in H. destruct (py_eqb v (PBool true)); [discriminate|].
    destruct (py_eqb v (PBool false)); [discriminate|]. injection H as <-; auto.
  - unfold enum_tokens_to_xml in H. destruct v; try (injection H as <-; auto).
    destruct (mem_str s toks); [discriminate|injection H as <-; auto].
  - unfold int_range_to_xml in H. destruct v; try (injection H as <-; auto).
    + destruct (in_range lo hi z); [discriminate|injection H as <-; auto].
    + destruct (in_range lo hi _); [discriminate|injection H as <-; auto].
  - unfold int_range_to_xml_b in H. destruct v; try (injection H as <-; auto).
    + destruct (in_range lo hi z); [discriminate|injection H as <-; auto].
    + destruct (in_range lo hi _); [discriminate|injection H as <-; auto].
  - unfold int_any_to_xml in H. destruct v; try discriminate; injection H as <-; auto.
  - unfold int_any_to_xml_b in H. destruct v; try discriminate; injection H as <-; auto.
  - unfold str_any_to_xml in H. destruct v; try discriminate; injection H as <-; auto.
  - unfold str_enum_to_xml in H. destruct v; try (injection H as <-; auto).
    destruct (mem_str s members); [discriminate|injection H as <-; auto].
Qed.

(** R *)
Lemma read_ok_union r l : read_ok r (LUnion l) = forallb (read_ok r) l.
Proof.
  induction l as [|t l IH]; [destruct r; reflexivity|].
  assert (E : read_ok r (LUnion (t :: l)) = read_ok r t && read_ok r (LUnion l)) by (destruct r; reflexivity).
  rewrite E, IH. reflexivity.
Qed.

Theorem read_ok_sound r t : read_ok r t = true ->
  forall s, lex_ok t s = true -> (N.of_nat (length s) <= int_max_str_digits)%N ->
  exists v, rdesc_from_xml r (PStr s) = Ok v.
Proof.
  induction t using lexspec_ind'; intros Hr s Hl Hlen.
  - (* LInt *) destruct r; try discriminate Hr; simpl.
    + cbn [lex_ok] in Hl. destruct (lex_integer s) as [z|] eqn:E; [|discriminate].
      rewrite (int_of_str_lex_len s z E Hlen). simpl. eauto.
    + eauto.
  - (* LEnum *) destruct r; try discriminate Hr; simpl; eauto.
    cbn [read_ok lex_ok] in Hr, Hl. rewrite forallb_forall in Hr. apply mem_str_In in Hl.
    unfold enum_tokens_to_xml. rewrite (Hr s Hl). eauto.
  - destruct r; try discriminate Hr; simpl; eauto.
  - (* LBool *) destruct r; try discriminate Hr; cbn [rdesc_from_xml]; eauto.
    cbn [lex_ok] in Hl. unfold bool_from_xml.
    assert (E : mem_str s [[49]; [48]; [116; 114; 117; 101]; [102; 97; 108; 115; 101]]%N = true).
    { apply mem_str_In. apply mem_str_In in Hl. simpl in *. intuition. }
    rewrite E. eauto.
  - destruct r; try discriminate Hr; simpl; eauto.
  - destruct r; try discriminate Hr; simpl; eauto.
  - destruct r; try discriminate Hr; simpl; eauto.
  - destruct r; try discriminate Hr; simpl; eauto.
  - (* LUnion *) rewrite read_ok_union in Hr. rewrite lex_ok_union in Hl.
    apply existsb_exists in Hl as [t [Ht Hl]]. rewrite forallb_forall in Hr.
    rewrite Forall_forall in H. eapply H; eauto.
  - discriminate Hl.
Qed.

(** RT: what is written reads back as an equal value *)
Definition big : Z := 1000000000000000000000000000000%Z.   (* 10^30 *)
Definition rt_ok (d : desc) (r : rdesc) : bool :=
  match d, r with
  | DIntRange lo hi, RInt => (- big <? lo)%Z && (hi <? big)%Z && no_bool lo hi
  | DIntRangeB lo hi, RInt => (- big <? lo)%Z && (hi <? big)%Z
  | (DStrAny | DStrEnum _), RStr => true
  | DBool, RBool => true
  | DEnumTokens a, REnumTokens b => forallb (fun x => mem_str x b) a
  | _, _ => false
  end.

Lemma big_small z : (- big < z < big)%Z -> (Z.abs z < 10 ^ Z.of_N int_max_str_digits)%Z.
Proof.
  intros H. assert (big = 10 ^ 30)%Z by reflexivity.
  assert (10 ^ 30 < 10 ^ Z.of_N int_max_str_digits)%Z.
  { apply Z.pow_lt_mono_r; try lia. unfold int_max_str_digits. lia. }
  lia.
Qed.

Lemma py_eqb_int z : py_eqb (PInt z) (PInt z) = true.
Proof. simpl. rewrite Z.compare_refl. reflexivity. Qed.

Lemma f_cmp_eq_sym a b : f_cmp a b = Some Eq -> f_cmp b a = Some Eq.
Proof.
  destruct a as [m1 e1| | |], b as [m2 e2| | |]; simpl; try discriminate; auto.
  intros H. injection H as H. apply Z.compare_eq in H. rewrite (Z.min_comm e2 e1), H, Z.compare_refl. reflexivity.
Qed.

Lemma py_eqb_bool_sym v c : py_eqb v (PBool c) = true -> py_eqb (PBool c) v = true.
Proof.
  destruct v; cbn [py_eqb as_num cmp_num]; auto.
  - destruct (z ?= _)%Z eqn:C; try discriminate. apply Z.compare_eq in C. rewrite <- C, Z.compare_refl; auto.
  - destruct b, c; auto.
  - destruct (f_cmp f _) as [[]|] eqn:C; try discriminate. rewrite (f_cmp_eq_sym _ _ C). auto.
Qed.
Definition py_eqb_true v := py_eqb_bool_sym v true.
Definition py_eqb_false v := py_eqb_bool_sym v false.

Theorem roundtrip d r : rt_ok d r = true ->
  forall v s, desc_to_xml d v = Ok (PStr s) ->
  exists v', rdesc_from_xml r (PStr s) = Ok v' /\ py_eqb v' v = true.
Proof.
  intros Hrt v s Hv. destruct d, r; try discriminate Hrt; cbn [desc_to_xml rt_ok] in Hv, Hrt.
  - (* DBool / RBool *) unfold bool_to_xml in Hv. cbn [rdesc_from_xml].
    destruct (py_eqb v (PBool true)) eqn:E1.
    + injection Hv as <-. exists (PBool true). split; [reflexivity|apply py_eqb_true; auto].
    + destruct (py_eqb v (PBool false)) eqn:E0; [|discriminate].
      injection Hv as <-. exists (PBool false). split; [reflexivity|apply py_eqb_false; auto].
  - (* DEnumTokens *) unfold enum_tokens_to_xml in Hv. destruct v; try discriminate.
    destruct (mem_str s0 toks) eqn:E; [|discriminate]. injection Hv as <-. cbn [rdesc_from_xml].
    rewrite forallb_forall in Hrt. apply mem_str_In in E. unfold enum_tokens_to_xml.
    rewrite (Hrt _ E). eexists; split; [reflexivity|]. simpl. apply str_eqb_refl.
  - (* DIntRange *) apply andb_true_iff in Hrt as [Hrt Hnb]. apply andb_true_iff in Hrt as [H1 H2].
    apply Z.ltb_lt in H1, H2. unfold no_bool in Hnb. apply andb_true_iff in Hnb as [N0 N1].
    apply negb_true_iff in N0, N1.
    unfold int_range_to_xml in Hv. destruct v; try discriminate.
    + destruct (in_range lo hi z) eqn:E; [|discriminate]. injection Hv as <-.
      apply in_range_spec in E. cbn [rdesc_from_xml py_int]. rewrite int_of_str_of_Z by (apply big_small; lia).
      cbn [bind]. eexists; split; [reflexivity|apply py_eqb_int].
    + destruct b; [rewrite N1 in Hv|rewrite N0 in Hv]; discriminate.
  - (* DIntRangeB *) apply andb_true_iff in Hrt as [H1 H2]. apply Z.ltb_lt in H1, H2.
    unfold int_range_to_xml_b in Hv. destruct v; try discriminate.
    + destruct (in_range lo hi z) eqn:E; [|discriminate]. injection Hv as <-.
      apply in_range_spec in E. cbn [rdesc_from_xml py_int]. rewrite int_of_str_of_Z by (apply big_small; lia).
      cbn [bind]. eexists; split; [reflexivity|apply py_eqb_int].
    + destruct (in_range lo hi (if b then 1 else 0)%Z) eqn:E; [|discriminate]. injection Hv as <-.
      destruct b; vm_compute; eexists; split; reflexivity.
  - (* DStrAny *) unfold str_any_to_xml in Hv. destruct v; try discriminate. injection Hv as <-.
    cbn [rdesc_from_xml]. eexists; split; [reflexivity|]. simpl. apply str_eqb_refl.
  - (* DStrEnum *) unfold str_enum_to_xml in Hv. destruct v; try discriminate.
    destruct (mem_str s0 members); [|discriminate]. injection Hv as <-.
    cbn [rdesc_from_xml]. eexists; split; [reflexivity|]. simpl. apply str_eqb_refl.
Qed.
