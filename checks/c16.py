"""C16 — recoverable irregular packages open intact; non-packages are refused cleanly.

translate (tx/tx_c01.py) -> prove (props/C16.v over model/Opc.v, shared with C01)
-> correspond: every irregularity of the property's list injected at every applicable
   location of corpus decks (singly; in sampled pairs in the thorough tier), delivered as
   stream / zip path / directory / missing path; outcome of pptx.Presentation (exception
   class, or loaded graph + slide renaming) against the extracted model's classification
   (coq/extract/run_c16, operation pres)
-> oracle: the property's statement by an independent reading of the package
   (checks/opc_common.py: logical, expected_open): recoverable irregularities must open
   with exactly the still-reachable parts, types, payloads and relationships; non-packages
   must be refused with PackageNotFoundError (path) / BadZipFile (stream) / KeyError
   (missing mandatory member) / ValueError (non-presentation main part).
"""
import glob
import io
import json
import os
import shutil
import tempfile
import warnings
import zipfile

from checks import opc_common as oc
from corr.harness import COQ, REPO, VERIF, _run, coq_build, exc_name, run_model

TB = [
    "tx/tx_c01.py (tables of the writer and the accepted main content types, re-extracted each run)",
    "zipfile.is_zipfile / ZipFile / os.path.isdir map bytes and paths to the three reader outcomes (not found | not a zip | members): observed by the check with the same calls, not proved",
    "lxml decoding of [Content_Types].xml and rels items (structural model; tied by this correspondence)",
    "checks/opc_common.py: fault injectors, independent reading of OPC used by the oracle",
]
ASSUME = [
    "str.lower is modelled on ASCII; case flips touch ASCII letters only",
    "the directory form is presented to the model as the files below the directory plus its sub-directories as (empty) members, because _DirPkgReader.__contains__ is os.path.exists",
    "corrupting bytes in the middle of a zip (CRC / zlib errors) is not in the property's list and is not injected; truncation removes the end-of-central-directory record",
    "access to prs.slides after opening is compared with the model (rename_slide_parts) but is not part of the oracle: the property speaks about opening",
]
QUICK_DECKS = ["src/pptx/templates/default.pptx", "tests/test_files/missing_rels_item.pptx",
               "tests/test_files/no-core-props.pptx", "tests/test_files/test_slides.pptx",
               "features/steps/test_files/sld-slides.pptx", "features/steps/test_files/ext-rels.pptx",
               "features/steps/test_files/sld-notes.pptx", "features/steps/test_files/txt-font-props.pptx"]
NONZIP = [b"", b"this is not a zip file", b"\x89PNG\r\n\x1a\n" + b"\x00" * 40, b"PK\x03\x04" + b"\x00" * 30]


def corpus():
    out = []
    for d in ("src/pptx/templates", "tests/test_files", "features/steps/test_files"):
        out += sorted(glob.glob(os.path.join(REPO, d, "*.pptx")))
    return out


def outcome_name(e):
    from pptx.exc import PackageNotFoundError

    if isinstance(e, PackageNotFoundError):
        return "notfound"
    if isinstance(e, zipfile.BadZipFile):
        return "badzip"
    return "err:" + exc_name(e)


DIR_COUNTS_DIRS = [True]     # set from gen/c01_meta.json in run()


def materialise(members, zip_fault, form, tmp):
    """-> (argument for Presentation, reader outcome kind for the model, members the reader sees)"""
    if form == "nopath":
        return os.path.join(tmp, "does-not-exist.pptx"), "f", None
    if form == "dir":
        root = os.path.join(tmp, "d")
        shutil.rmtree(root, ignore_errors=True)
        os.makedirs(root)
        oc.write_dir(members, root)
        # _DirPkgReader.__contains__ is os.path.exists: directories of the tree count as present
        return root, "m", members + ([(dname, b"") for dname in oc.dir_entries(members)] if DIR_COUNTS_DIRS[0] else [])
    data = oc.zip_bytes(members)
    if zip_fault is not None:
        if zip_fault[0] == "truncate":
            data = data[: max(0, int(len(data) * zip_fault[1]))] if zip_fault[1] < 1 else data[: len(data) - int(zip_fault[1])]
        else:
            data = NONZIP[zip_fault[1]]
    # what zipfile makes of these bytes (trusted base): members, or not a zip
    seen = None
    try:
        if zipfile.is_zipfile(io.BytesIO(data)):
            seen = oc.read_zip(data)
    except Exception:  # noqa
        seen = None
    if form == "path":
        path = os.path.join(tmp, "p.pptx")
        with open(path, "wb") as f:
            f.write(data)
        if seen is None:
            return path, "f", None
        return path, "m", seen
    if seen is None:
        return io.BytesIO(data), "z", None
    return io.BytesIO(data), "m", seen


def impl_open(arg):
    """-> 'notfound' | 'badzip' | 'err:X' | ('ok', main, graph, renamed)"""
    from pptx import Presentation

    with warnings.catch_warnings():
        warnings.simplefilter("ignore")
        try:
            prs = Presentation(arg)
        except Exception as e:  # noqa
            return outcome_name(e), "%s: %s" % (type(e).__name__, str(e)[:160])
        pkg = prs.part.package
        main = str(prs.part.partname)
        graph = oc.impl_graph(pkg, None)
        try:
            slides = prs.slides
            len(slides)
            renamed = ("ok", [str(p.partname) for p in pkg.iter_parts()])
        except Exception as e:  # noqa
            renamed = ("err:" + exc_name(e),)
    return ("ok", main, graph, renamed), ""


def compare(model, r, pay):
    if model[0] != "ok" or r[0] != "ok":
        a = model[0]
        b = r if isinstance(r, str) else r[0]
        return [] if a == b else ["outcome: model %s impl %s" % (a, b)]
    d = []
    if model[1] != r[1]:
        d.append("main part: model %s impl %s" % (model[1], r[1]))
    d += oc.diff_graph(model[2], r[2], pay)
    if tuple(model[3]) != tuple(r[3]):
        d.append("after prs.slides: model %r impl %r" % (model[3], r[3]))
    return d


def oracle(ck, members, zip_fault, form, faults, r, detail, meta, rec):
    exp = oc.expected_open(members, zip_fault, form, meta["pres_cts"])
    if exp is None:
        return
    got = r if isinstance(r, str) else r[0]
    if isinstance(exp, str):
        if got != exp:
            # two refusal causes at once: either of their classes is a clean refusal
            causes = {f[0] for f in faults}
            if got in oc.REFUSALS and len(causes & {"wrong-main", "del-member", "truncate", "nonzip"}) >= 2:
                return
            ck.violation("refusal-class", "expected %s, Presentation() gave %s (%s) for faults %r as %s" % (exp, got, detail, faults, form), rec)
        return
    if got != "ok":
        sig = "recoverable-not-opened"
        if form == "dir":
            dirs = {"/" + x for x in oc.dir_entries(members)}
            d = oc.as_dict(members)
            for name, data in members:
                src = oc.source_of_rels(name)
                rl = oc.decode_rels(data) if src is not None else None
                if rl and any(m != "External" and oc.resolve_ref(oc.base_dir(src), t) in dirs for _i, _t, t, m in rl):
                    sig = "dir-form-target-names-directory"
        ck.violation(sig, "a recoverable irregular package was refused: %s (%s), faults %r as %s%s" % (
            got, detail, faults, form,
            " (an internal relationship target resolves to a directory of the tree; _DirPkgReader.__contains__ uses os.path.exists)" if sig != "recoverable-not-opened" else ""), rec)
        return
    krels, parts = exp[1]
    _main, (ik, ip), _ren = r[1], r[2], r[3]
    if sorted(ik) != sorted(krels):
        ck.violation("package-rels", "package relationships: expected %r, loaded %r (faults %r)" % (sorted(krels), sorted(ik), faults), rec)
        return
    got_parts = {n: (ct, blob, rels) for n, ct, blob, rels in ip}
    if set(got_parts) != set(parts):
        ck.violation("reachable-parts", "loaded parts differ from the still-reachable ones: missing %r, extra %r (faults %r)" % (
            sorted(set(parts) - set(got_parts)), sorted(set(got_parts) - set(parts)), faults), rec)
        return
    for n, (ct, blob, rels) in parts.items():
        gct, gblob, grels = got_parts[n]
        if gct != ct:
            ck.violation("content-type", "content type of %s: declared %r, loaded %r (faults %r)" % (n, ct, gct, faults), rec)
            return
        if sorted(grels) != sorted(rels):
            ck.violation("part-rels", "relationships of %s: expected %r, loaded %r (faults %r)" % (n, sorted(rels), sorted(grels), faults), rec)
            return
        if gblob != blob:
            ok = oc.well_formed(blob) and oc.well_formed(gblob) and oc.canon(blob) == oc.canon(gblob)
            if not ok:
                ck.violation("payload", "payload of %s changed on load (faults %r)" % (n, faults), rec)
                return
    # slide parts renamed on first access: contiguous, in presentation order
    if any(f[0] == "rename-slides" for f in faults) and r[3][0] == "ok":
        rids = oc.slide_rids(members)
        main_rels = {x[0]: x[3] for x in parts[r[1]][2] if not x[2]} if r[1] in parts else {}
        if all(rid in main_rels for rid in rids):
            before = [n for n, _c, _b, _r in ip]
            after = r[3][1]
            want = {main_rels[rid]: "/ppt/slides/slide%d.xml" % (i + 1) for i, rid in enumerate(rids)}
            for b, a in zip(before, after):
                if b in want and a != want[b]:
                    ck.violation("slide-rename", "slide part %s should be renamed %s on first access of prs.slides, is %s" % (b, want[b], a), rec)
                    return


def same_loaded(a, b):
    """Two implementation observations ('ok', main, graph, renamed) describe the same loaded
    package: same package relationships, same parts (as a set) with equal type, payload, rels."""
    if a[1] != b[1] or sorted(a[2][0]) != sorted(b[2][0]):
        return "main part or package relationships differ"
    pa = {n: (ct, blob, sorted(rels)) for n, ct, blob, rels in a[2][1]}
    pb = {n: (ct, blob, sorted(rels)) for n, ct, blob, rels in b[2][1]}
    if set(pa) != set(pb):
        return "parts differ: only irregular %r, only regularised %r" % (sorted(set(pa) - set(pb)), sorted(set(pb) - set(pa)))
    for n in pa:
        if pa[n] != pb[n]:
            return "part %s differs" % n
    return None


def rec_for(deck, faults, zip_fault, form):
    return {"entry_point": "pptx.Presentation", "input": {"deck": deck, "faults": [list(f) for f in faults],
                                                          "zip_fault": list(zip_fault) if zip_fault else None, "form": form}}


def build_case(deck_members, faults):
    m = deck_members
    for f in faults:
        m = oc.apply_fault(m, tuple(f))
    return m


def gen_cases(tier, rng, decks):
    """[(deck relpath, base members, faults, zip_fault, form)]"""
    cases = []
    for path in decks:
        rel = os.path.relpath(path, REPO)
        base = oc.read_zip(open(path, "rb").read())
        cases.append((rel, base, [], None, "stream"))
        cases.append((rel, base, [], None, "path"))
        if oc.dir_safe(base):
            cases.append((rel, base, [], None, "dir"))
        cases.append((rel, base, [], None, "nopath"))
        singles = oc.list_faults(base)
        for i, f in enumerate(singles):
            form = ("stream", "path", "dir")[i % 3]
            cases.append((rel, base, [f], None, form))
        for frac in (0.1, 0.5, 0.9, 1, 21):
            for form in ("stream", "path"):
                cases.append((rel, base, [], ("truncate", frac), form))
        for v in range(len(NONZIP)):
            for form in ("stream", "path"):
                cases.append((rel, base, [], ("nonzip", v), form))
        if tier == "thorough":
            for _ in range(120):
                f1 = rng.choice(singles)
                m1 = oc.apply_fault(base, f1)
                f2 = rng.choice(oc.list_faults(m1))
                zf = None
                form = rng.choice(["stream", "path", "dir"])
                if rng.random() < 0.1:
                    zf = rng.choice([("truncate", 0.5), ("nonzip", 1)])
                    form = rng.choice(["stream", "path"])
                cases.append((rel, base, [f1, f2], zf, form))
    return cases


def run_one(case, tmp, pay):
    rel, base, faults, zip_fault, form = case
    members = build_case(base, faults)
    if form == "dir" and not oc.dir_safe(members):
        form = "stream"
    arg, kind, seen = materialise(members, zip_fault, form, tmp)
    r, detail = impl_open(arg)
    if zip_fault is not None and kind == "m":
        # zipfile still reads the damaged bytes as a zip (e.g. a truncated deck that ends inside an
        # embedded workbook whose own end-of-central-directory record survives): the reader hands
        # over those members, and the property is judged on them
        members, zip_fault = seen, None
    if kind == "m":
        seen_d = list(oc.as_dict(seen).items())
        rids = oc.slide_rids(seen_d)
        pkg_fields = oc.wire_package(seen_d, pay)
        wire = ["pres", "m"] + pkg_fields + [str(len(rids))] + rids
    else:
        pkg_fields = None
        wire = ["pres", kind]
    return members, form, r, detail, wire, pkg_fields, zip_fault


def run(ck, tier, rng):
    rc, out = _run(["/venv/bin/python", os.path.join(VERIF, "tx", "tx_c01.py")], cwd=VERIF)
    if rc != 0:
        ck.violation("translator", "tx_c01 failed on the current tree: " + out[-600:],
                     {"theorem_or_correspondence": "translator tx_c01 (model regeneration)"}, concrete=False)
    ck.build = coq_build("C16", extra_targets=["gen/GenC01.vo"])
    meta = json.load(open(os.path.join(COQ, "gen", "c01_meta.json")))
    DIR_COUNTS_DIRS[0] = bool(meta.get("dir_reader_counts_directories", True))
    decks = corpus()
    if tier == "quick":
        pref = [os.path.join(REPO, d) for d in QUICK_DECKS if os.path.exists(os.path.join(REPO, d))]
        decks = pref if len(pref) >= 4 else decks[::max(1, len(decks) // 8)][:8]
    cases = gen_cases(tier, rng, decks)
    tmp = tempfile.mkdtemp(prefix="c16-")
    # a deck whose main part is declared with either standard presentation type (.pptx / macro-enabled .pptm) opens: judged
    # against the literal types, not against the table translated from the tree (which a change of a constant would follow)
    for t in (oc.STD_PPTX_MAIN, oc.STD_MACRO_MAIN):
        base0 = oc.read_zip(open(decks[0], "rb").read())
        r0, detail0 = impl_open(materialise(build_case(base0, [("wrong-main", t)]), None, "stream", tmp)[0])
        ck.count(("standard-main-type", t), True, "standard-main-type")
        if (r0 if isinstance(r0, str) else r0[0]) != "ok":
            ck.violation("standard-main-type-refused", "a deck whose main part is declared %s is refused: %s (%s)" % (t, r0, detail0),
                         rec_for(os.path.relpath(decks[0], REPO), [("wrong-main", t)], None, "stream"))
        if t not in meta.get("pres_cts", [t]):
            ck.notes.append("the tree's table of presentation main types lacks the standard type %s" % t)
    pay = oc.Payloads()
    results, wires, pkgs = [], [], []
    try:
        for case in cases:
            members, form, r, detail, wire, pkg_fields, eff_zip_fault = run_one(case, tmp, pay)
            rel, _base, faults, zip_fault, _f = case
            results.append((members, form, r, detail))
            pkgs.append(pkg_fields)
            wires.append(wire)
            klass = "+".join([f[0] for f in faults] + ([zip_fault[0]] if zip_fault else [])) or "regular"
            ck.count((rel, faults, zip_fault, form), bool(faults or zip_fault or form in ("dir", "nopath")), klass if len(faults) < 2 else "pair")
            ck.dist["form:" + form] = ck.dist.get("form:" + form, 0) + 1
            out_k = r if isinstance(r, str) else "ok"
            ck.dist["outcome:" + out_k] = ck.dist.get("outcome:" + out_k, 0) + 1
            if len(ck.samples) < 8 and faults and len(ck.samples) < 8 and (len(results) % 97 == 0):
                ck.sample({"deck": rel, "faults": [list(f) for f in faults], "form": form, "outcome": out_k})
            if eff_zip_fault is None and zip_fault is not None:
                ck.dist["damaged-bytes-still-a-zip"] = ck.dist.get("damaged-bytes-still-a-zip", 0) + 1
            oracle(ck, members, eff_zip_fault, form, faults, r, detail, meta, rec_for(rel, faults, zip_fault, form))
        concrete_before = len(ck.violations)
        diffs, first = 0, None
        slide_access_errors = 0
        reg_checked = reg_diffs = 0
        if ck.build.ok:
            # C16_regularise on the implementation: opening the irregular package and opening its
            # regularised form (computed by the model) give the same loaded package
            reg_idx = [i for i, (pf, res) in enumerate(zip(pkgs, results)) if pf is not None and not isinstance(res[2], str)]
            reg_out = run_model("C16", [["reg"] + pkgs[i] for i in reg_idx])
            for i, line in zip(reg_idx, reg_out):
                try:
                    regm = oc.members_from_model(oc.parse_reg(line), pay)
                except Exception:  # noqa
                    continue
                r2, _d = impl_open(io.BytesIO(oc.zip_bytes(regm)))
                reg_checked += 1
                why = "regularised form refused: %s" % r2 if isinstance(r2, str) else same_loaded(results[i][2], r2)
                if why:
                    reg_diffs += 1
                    if reg_diffs <= 3:
                        ck.notes.append("regularise: %s %r: %s" % (cases[i][0], cases[i][2], why))
            if reg_diffs:
                ck.violation("regularise", "opening an irregular package and opening its regularised form (model/Opc.v regularise) differ on %d of %d packages" % (reg_diffs, reg_checked),
                             {"theorem_or_correspondence": "C16_regularise replayed on the implementation", "notes": ck.notes[-3:]}, concrete=False)
            model_out = run_model("C16", wires)
            for case, (members, form, r, detail), line in zip(cases, results, model_out):
                pm = oc.parse_pres(line)
                d = compare(pm, r, pay)
                if not isinstance(r, str) and r[3][0] != "ok":
                    slide_access_errors += 1
                if d:
                    diffs += 1
                    if first is None:
                        first = (case, form, d[:3])
                    if diffs <= 5:
                        ck.notes.append("diff %s %r %s: %s" % (case[0], case[2], form, d[:2]))
            if diffs:
                ck.violation("correspondence",
                             "model/Opc.v (open_presentation, rename_slides) and pptx disagree on %d cases, e.g. %s faults %r as %s: %s" % (
                                 diffs, first[0][0], first[0][2], first[1], first[2]),
                             dict(rec_for(first[0][0], first[0][2], first[0][3], first[1]),
                                  theorem_or_correspondence="correspondence Opc.v ~ api.Presentation / opc.package loader (theorems C16_* are about the model only)"),
                             concrete=False)
        ck.broken_build(oracle_found_concrete=any(v["concrete"] for v in ck.violations))
    finally:
        shutil.rmtree(tmp, ignore_errors=True)
    return ck.finish(
        rule="%d corpus decks; every single irregularity at every applicable location (dangling target per internal relationship, first internal Target emptied per rels item, deleted rels item per source, case-flipped Default/Override per entry, unknown content type per Override, 4 kinds of extra members (one of them explicit directory entries), slide parts renamed with gaps / reversed, removed core properties, wrong main content type x3, each mandatory member deleted), 5 truncations and 4 non-zip byte strings as stream and as path, missing path, stream / path / directory forms%s; non-trivial = anything but the unmodified deck as zip" % (
            len(decks), "; 120 sampled pairs per deck" if tier == "thorough" else ""),
        trusted_base=TB, assumptions=ASSUME,
        extra={"correspondence_diffs": diffs, "exhaustive": False, "unmodelled": meta.get("unmodelled", []),
               "opened_but_prs_slides_raises": slide_access_errors,
               "regularise_replayed_on_impl": reg_checked, "regularise_diffs": reg_diffs},
    )


def replay(rec):
    inp = rec["input"]
    path = os.path.join(REPO, inp["deck"])
    base = oc.read_zip(open(path, "rb").read())
    faults = [tuple(f) for f in inp["faults"]]
    zf = tuple(inp["zip_fault"]) if inp.get("zip_fault") else None
    tmp = tempfile.mkdtemp(prefix="c16-replay-")
    try:
        DIR_COUNTS_DIRS[0] = bool(json.load(open(os.path.join(COQ, "gen", "c01_meta.json"))).get("dir_reader_counts_directories", True))
    except Exception:  # noqa
        pass
    pay = oc.Payloads()
    try:
        members, form, r, detail, wire, _pf, _zf = run_one((inp["deck"], base, faults, zf, inp["form"]), tmp, pay)
    finally:
        shutil.rmtree(tmp, ignore_errors=True)
    line = run_model("C16", [wire])[0]
    pm = oc.parse_pres(line)
    print("deck", inp["deck"], "faults", faults, "zip fault", zf, "form", form)
    print("impl :", r if isinstance(r, str) else ("ok main=%s parts=%d after prs.slides: %r" % (r[1], len(r[2][1]), r[3][:1])), detail)
    print("model:", pm[0] if pm[0] != "ok" else ("ok main=%s parts=%d after prs.slides: %r" % (pm[1], len(pm[2][1]), pm[3][:1])))
    d = compare(pm, r, pay)
    print("model/impl differences:", d)
    return 0 if not d else 1


CLAIM = {
    "tech": "Coq proof over the same Gallina model of the OPC loader as C01 with well-formedness dropped (classification of every outcome of Presentation(), case-insensitive lookup, regularisation, slide renaming) + fault injection at every applicable location of corpus decks run on the implementation and on the extracted model + independent oracle of the property's statement",
    "text": "12 theorems closed under the global context: opening yields only PackageNotFoundError / BadZipFile (reader outcomes), KeyError, ValueError, an lxml parse error, or a loaded package, and each refusal is characterised by decidable causes on the physical package (no content types item, untyped reached member, no / several / external officeDocument relationship, non-presentation main part, undecodable item); a loaded package is closed (dangling internal relationships were dropped); the content type lookup depends on Default extensions, Override names and the part name only through lower-casing; when the regularised form (dangling relationships, unreferenced members and rels items of absent parts removed, empty rels items supplied) is well-formed, the irregular package opens with the same package relationships and the same parts as its regularised form, which by C01 are exactly the still-reachable ones; rename_slide_parts names the j-th listed slide slide(j+1).xml and fails only with KeyError / ValueError. Tied to the implementation by about 950 (quick, 8 decks) / 15,000 (thorough, 67 decks, singles and 120 sampled pairs per deck) injected cases as stream, zip path, directory and missing path, comparing exception class or loaded graph and slide renaming with the model, and by replaying regularise on the implementation.",
    "note": "what zipfile / os.path make of bytes and paths is observed with the same calls, not proved (a truncated deck ending inside an embedded workbook is read as that workbook and refused with ValueError); whether directories count as members of a directory-form package is re-read from _DirPkgReader.__contains__ each run; access to prs.slides after opening (KeyError when a slide relationship was dropped as dangling) is compared with the model but is not part of the oracle; equality of the saved bytes of an irregular package and of its regularised form is proved (C16_save, C16_save_on) and exercised.",
    "ref": "6/C16",
}
