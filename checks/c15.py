"""C15 -- images are stored once, byte-exact, with the type and size of the actual image.

Proof: props/C15.v over model/Image.v (get_or_add over a digest index, part-name and
relationship allocation, dpi normalisation, native size, scale) + instance obligations over
the tables regenerated from the source on this run (tx/tx_c15.py -> gen/GenC15.v).
Tie: (a) unit level -- the real Image.dpi, ImagePart._native_size, ImagePart.scale,
CT_Picture.crop_to_fit and Package.next_image_partname are driven with generated values
(Pillow's report is injected, the code under test is untouched) and compared with the
extracted model, together with a bit-exact validation of the model's binary64 rounding
against CPython floats; (b) history level -- generated PNG/JPEG/GIF/BMP/TIFF files of
small sizes and many DPI settings are added to real decks through add_picture (path,
stream, misleading file names), PicturePlaceholder.insert_picture, add_movie poster frames
and add_ole_object icons, repeated and interleaved across slides with save/re-open in
between; path-based additions go through a small pool of working files shared by the whole
process and overwritten before every use, and most histories contain a twin pair (two
different images of exactly the same byte length: other pixel values in uncompressed
BMP/TIFF, another comment of the same length in PNG/JPEG/GIF) added one after the other
from the same path, before and after a re-open; part names, rIds, extension, content type, sizes and the final media store are
compared with the model.  The histories also REMOVE: a slide is deleted by the usual recipe (p:sldId removed,
prs.part.drop_rel(rId); first / last / any slide), an image-bearing shape (picture, placeholder picture, movie,
OLE frame; also the ones a corpus deck already has) is deleted together with every relationship nothing in the
slide refers to any more (slide.part.drop_rel) or as an element only, and 40% of the histories contain a
remove-then-re-add pattern (an image gets several users, all of them are removed, other images are added, the
first one is used again).  The model keeps every part OBJECT and computes what the package reaches from the
relationships of the slides at every look-up, so an image whose last user went is unreachable, its number is free
for the next new part and the image is stored anew when it is added again; after a removal the model answers
with the names the image relationships still lead to and that is compared as well.
ORACLE: after every step and after every save + re-open, directly on the implementation: every picture gives back
exactly the bytes it was added with (deck pictures: the bytes they had), no two parts the package reaches share a
name, no byte string is held by two reachable image parts, every zip member name is unique; and
the property statement itself, evaluated on the saved zip and the live objects
with an independent reading of the image file headers (format by magic bytes, pixel size
and resolution from PNG IHDR/pHYs, JFIF APP0/SOF, GIF screen descriptor, BMP header, TIFF
tags): one media member per distinct input, bytes identical, extension and content type of
the actual format, picture.image.blob equal to the input, default size = pixels at the
file's own DPI (72 when absent or implausible), aspect preserved within rounding.
"""
import io
import os
import random
import shutil
import struct
import tempfile
import warnings
import zipfile
from fractions import Fraction

from corr.harness import coq_build, run_model, exc_name, _run, VERIF, REPO

TB = [
    "Pillow (format sniffing, pixel size, the dpi entry of Image.info, whether tag 282 is in tag_v2) is outside the model: "
    "what it reports for each byte string is an input of the model (the check obtains it by calling PIL.Image.open itself); "
    "the EMF header test of Image.ext is computed by the model on the bytes",
    "hashlib.sha1 is not modelled: the digest is a parameter H of the model; the runner instantiates it with the identity "
    "(same digest iff same bytes), so the correspondence also checks that the implementation deduplicates exactly by byte equality",
    "model/Image.v fl64 (round to nearest even, 53-bit significand, unbounded exponent) stands for one CPython binary64 "
    "operation (int/int true division, float*float, float/float, float(int)); its error bound, exactness on integers up to "
    "2^53 and extensionality are proved (C15_fl64_premises); that CPython computes this function is validated bit-exactly on "
    "random quotients and products in every run, not proved",
    "tx/tx_c15.py (translator: Image.ext by AST -- dict literal, header rules before the lookup, membership test, lookup -- and "
    "Image._pil_props by AST -- straight-line code plus dpi-drop rules --, any other statement lands in unmodelled; "
    "image_content_types, default_content_types, the ImagePart rows of PartFactory.part_type_for by import)",
    "PackUri.idx / PackUri.ext of model/PackUri.v (C19) are reused for partname.idx and partname.ext; dict, sorted, enumerate, "
    "%d formatting and Python truthiness of None/0 are transcribed",
    "save followed by load is taken to return every reachable part with the same name, bytes and content type (that is C01) "
    "and no other part; the class of a loaded part is chosen from its content type (PartFactory), as modelled by reload_part",
    "the harness performs the removals itself with the documented calls (p:sldId removed + prs.part.drop_rel; element removed "
    "+ slide.part.drop_rel for each rId no attribute of the slide in the relationships namespace mentions any more); the model's "
    "ODropRel is issued exactly for the relationships it dropped",
    "blobs longer than 12000 bytes (corpus images, the bundled EMF icons) travel to the model as a stand-in (first 64 bytes + "
    "length + SHA-256 computed by the harness): the model only compares blobs for equality, reads bytes 40..44 and hands them back",
]
ASSUME = [
    "int(914400 * px / dpi) is modelled as truncation of the exact quotient; C15_native_float proves the binary64 quotient "
    "(fl64) truncates to the same integer for 1 <= dpi <= 2048 and 914400*px < 2^40 (px <= 1202440); larger images are outside",
    "C15_scale holds for any rounding operator with relative error <= 2^-53 that is exact on integers up to 2^53 and "
    "C15_scale_fl64 for fl64; arguments and native sizes are assumed below 2^53 in magnitude (EMU values are); overflow and "
    "subnormals of binary64 are outside",
    "C15_distinct / C15_bytes assume H separates the blobs involved (SHA-1 collision freedom on the inputs used)",
    "the model store lists reachable parts in the order _find_by_sha1 meets them at load time followed by creation order; "
    "the implementation iterates in depth-first relationship order; the two agree on _find_by_sha1 whenever no two indexed "
    "parts hold the same bytes (C15_invariant_kept: every history preserves that); on a package loaded with duplicate media "
    "the first of each class stays first as long as it keeps a user; once removals take its last user away the walk order of "
    "the implementation and the load order of the model could prefer different survivors (no corpus deck holds duplicate media)",
    "relationship collections are abstracted to (number n of rIdn, identity of the image target) pairs; what the package "
    "reaches is: the parts reached without following the relationships of a slide (a flag of the start state, computed by the "
    "harness on the real graph; they stay reachable whatever happens to slides) plus the targets of the image relationships of "
    "the listed slides; image relationships of a part below a slide (notes slide, chart, the legacy VML drawing of an OLE "
    "object) are not representable: the histories on such a deck (one of the 15 corpus decks, shp-access-ole-object.pptx) are "
    "judged by the oracle alone, the model is not compared; parts a slide reaches through other relationship "
    "types are taken not to be named /ppt/media/image*",
    "the oracle reads DPI from PNG pHYs, JFIF APP0, BMP header and TIFF tags 282/283/296 only; for the generated files that is "
    "all the resolution information there is (no EXIF); sizes of corpus images are compared with the model only",
]

EMU = 914400


# ============================================================================ images
def _pixels(w, h, seed):
    r = random.Random(seed)
    return bytes(r.randrange(256) for _ in range(w * h * 3))


EMF_ICONS = ["generic-icon.emf", "docx-icon.emf", "pptx-icon.emf", "xlsx-icon.emf"]


def make_blob(spec):
    """spec: dict(fmt, w, h, seed, dpi=None|[x,y], patch=None|str, mode)"""
    from PIL import Image as PI

    fmt = spec["fmt"]
    if fmt == "RAW":
        return bytes(spec["bytes"])
    if fmt == "EMF":  # the enhanced metafiles shipped with python-pptx, made distinct by trailing bytes
        with open(os.path.join(REPO, "src", "pptx", "templates", EMF_ICONS[spec["seed"] % len(EMF_ICONS)]), "rb") as f:
            return f.read() + bytes([spec["seed"] % 251]) * (spec["seed"] % 3)
    if fmt == "WMF":  # a placeable Windows metafile header (all Pillow needs to identify it)
        w, h = spec["w"], spec["h"]
        return (b"\xd7\xcd\xc6\x9a\x00\x00" + struct.pack("<hhhhH", 0, 0, w * 20, h * 20, 1440) + b"\x00" * 4 + b"\x00\x00"
                + b"\x01\x00\x09\x00\x00\x03" + struct.pack("<I", 30 + spec["seed"] % 7) + b"\x00" * 12
                + bytes([spec["seed"] % 256]) * 8)
    w, h = spec["w"], spec["h"]
    im = PI.frombytes("RGB", (w, h), _pixels(w, h, spec["seed"]))
    if fmt == "GIF":
        im = im.convert("P")
    kw = {}
    if spec.get("dpi") is not None:
        kw["dpi"] = tuple(spec["dpi"])
    b = io.BytesIO()
    with warnings.catch_warnings():
        warnings.simplefilter("ignore")
        im.save(b, fmt, **kw)
    blob = b.getvalue()
    p = spec.get("patch")
    if p:
        blob = _patch(blob, fmt, p)
    return blob


def _patch(blob, fmt, p):
    bb = bytearray(blob)
    if fmt == "BMP" and p.startswith("ppm:"):
        x, y = [int(t) for t in p[4:].split(",")]
        bb[38:46] = struct.pack("<ii", x, y)
    elif fmt == "TIFF" and p.startswith("rat:"):
        # rat:xn/xd,yn/yd[,unit]
        parts = p[4:].split(",")
        (xn, xd), (yn, yd) = [[int(t) for t in q.split("/")] for q in parts[:2]]
        off = struct.unpack("<I", blob[4:8])[0]
        n = struct.unpack("<H", blob[off:off + 2])[0]
        for i in range(n):
            e = off + 2 + 12 * i
            tag, typ, cnt, val = struct.unpack("<HHII", blob[e:e + 12])
            if tag == 282:
                bb[val:val + 8] = struct.pack("<II", xn, xd)
            elif tag == 283:
                bb[val:val + 8] = struct.pack("<II", yn, yd)
            elif tag == 296 and len(parts) > 2:
                bb[e + 8:e + 10] = struct.pack("<H", int(parts[2]))
    elif fmt == "PNG" and p.startswith("phys:"):
        # phys:x,y,unit  -- rewrite the pHYs chunk (must exist) and its CRC
        import zlib
        x, y, u = [int(t) for t in p[5:].split(",")]
        i = blob.find(b"pHYs")
        if i > 0:
            data = struct.pack(">IIB", x, y, u)
            bb[i + 4:i + 13] = data
            bb[i + 13:i + 17] = struct.pack(">I", zlib.crc32(b"pHYs" + data) & 0xFFFFFFFF)
    elif p == "trunc":
        bb = bb[: max(4, len(bb) // 3)]
    if p.startswith("text:"):
        # a comment of fixed length: files that differ only here have identical byte length
        t = p[5:].encode("ascii")
        if fmt == "PNG":
            import zlib
            data = b"Comment\0" + t
            chunk = struct.pack(">I", len(data)) + b"tEXt" + data + struct.pack(">I", zlib.crc32(b"tEXt" + data) & 0xFFFFFFFF)
            bb = bb[:33] + chunk + bb[33:]          # right after IHDR
        elif fmt == "JPEG":
            bb = bb[:2] + b"\xff\xfe" + struct.pack(">H", len(t) + 2) + t + bb[2:]   # COM segment after SOI
        elif fmt == "GIF":
            pos = 13 + (3 * 2 ** ((bb[10] & 7) + 1) if bb[10] & 0x80 else 0)
            bb = bb[:pos] + b"\x21\xfe" + bytes([len(t)]) + t + b"\x00" + bb[pos:]  # comment extension
    return bytes(bb)


def dv(x):
    """the model's view of one dpi component: the exact value of float(x)"""
    try:
        f = float(x)
    except (TypeError, ValueError):
        return "non"
    except OverflowError:
        return "inf"
    if f != f:
        return "nan"
    if f in (float("inf"), float("-inf")):
        return "inf"
    n, d = f.as_integer_ratio()
    return "q%d/%d" % (n, d)


def meta_text(fmt, size, dpi, xres=True):
    """xres: tag 282 (XResolution) is among the tags Pillow read (tag_v2)"""
    f = fmt if fmt is not None else "~"
    if isinstance(dpi, tuple) and len(dpi) == 2:
        return "M;%s;%d;%d;%d;t;%s;%s" % (f, size[0], size[1], xres, dv(dpi[0]), dv(dpi[1]))
    return "M;%s;%d;%d;%d;n" % (f, size[0], size[1], xres)


def pil_meta(blob):
    """What Pillow reports for these bytes (input of the model)."""
    from PIL import Image as PI

    try:
        with warnings.catch_warnings():
            warnings.simplefilter("ignore")
            im = PI.open(io.BytesIO(blob))
            return meta_text(im.format, im.size, im.info.get("dpi"), 282 in getattr(im, "tag_v2", {}))
    except Exception:  # noqa
        return "U"


# ---------------------------------------------------------------- independent header reader (oracle)
CT_OF = {"png": "image/png", "jpg": "image/jpeg", "gif": "image/gif", "bmp": "image/bmp", "tiff": "image/tiff",
         "emf": "image/x-emf", "wmf": "image/x-wmf"}
EXT_ALIASES = {"png": {"png"}, "jpg": {"jpg", "jpeg", "jpe"}, "gif": {"gif"}, "bmp": {"bmp"}, "tiff": {"tiff", "tif"},
               "emf": {"emf"}, "wmf": {"wmf"}}


def sniff(blob):
    """(kind, (w, h), (xdpi, ydpi) as Fractions or None) read from the file header only."""
    try:
        if blob[:8] == b"\x89PNG\r\n\x1a\n":
            w, h = struct.unpack(">II", blob[16:24])
            dpi = None
            pos = 8
            while pos + 8 <= len(blob):
                ln, typ = struct.unpack(">I4s", blob[pos:pos + 8])
                if typ == b"pHYs":
                    x, y, u = struct.unpack(">IIB", blob[pos + 8:pos + 17])
                    if u == 1:
                        dpi = (Fraction(x) * Fraction(254, 10000), Fraction(y) * Fraction(254, 10000))
                if typ in (b"IDAT", b"IEND"):
                    break
                pos += 12 + ln
            return "png", (w, h), dpi
        if blob[:3] == b"\xff\xd8\xff":
            dpi = None
            size = None
            pos = 2
            while pos + 4 <= len(blob):
                if blob[pos] != 0xFF:
                    pos += 1
                    continue
                m = blob[pos + 1]
                if m in (0xD8, 0x01) or 0xD0 <= m <= 0xD7:
                    pos += 2
                    continue
                ln = struct.unpack(">H", blob[pos + 2:pos + 4])[0]
                seg = blob[pos + 4:pos + 2 + ln]
                if m == 0xE0 and seg[:5] == b"JFIF\0":
                    unit, xd, yd = struct.unpack(">BHH", seg[7:12])
                    if unit == 1:
                        dpi = (Fraction(xd), Fraction(yd))
                    elif unit == 2:
                        dpi = (Fraction(xd) * Fraction(254, 100), Fraction(yd) * Fraction(254, 100))
                if m in (0xC0, 0xC1, 0xC2):
                    h, w = struct.unpack(">HH", seg[1:5])
                    size = (w, h)
                    break
                if m == 0xDA:
                    break
                pos += 2 + ln
            return "jpg", size, dpi
        if blob[:6] in (b"GIF87a", b"GIF89a"):
            w, h = struct.unpack("<HH", blob[6:10])
            return "gif", (w, h), None
        if blob[:2] == b"BM":
            w, h = struct.unpack("<ii", blob[18:26])
            x, y = struct.unpack("<ii", blob[38:46])
            return "bmp", (w, abs(h)), (Fraction(x) * Fraction(254, 10000), Fraction(y) * Fraction(254, 10000))
        if blob[:4] in (b"II*\0", b"MM\0*"):
            e = "<" if blob[:2] == b"II" else ">"
            off = struct.unpack(e + "I", blob[4:8])[0]
            n = struct.unpack(e + "H", blob[off:off + 2])[0]
            tags = {}
            for i in range(n):
                p = off + 2 + 12 * i
                tag, typ, cnt = struct.unpack(e + "HHI", blob[p:p + 8])
                raw = blob[p + 8:p + 12]
                if typ == 3:
                    tags[tag] = struct.unpack(e + "H", raw[:2])[0]
                elif typ == 4:
                    tags[tag] = struct.unpack(e + "I", raw)[0]
                elif typ == 5:
                    o = struct.unpack(e + "I", raw)[0]
                    tags[tag] = struct.unpack(e + "II", blob[o:o + 8])
            dpi = None
            unit = tags.get(296, 2)  # TIFF 6.0: ResolutionUnit defaults to inch
            if 282 in tags and 283 in tags and unit in (2, 3):
                (xn, xd), (yn, yd) = tags[282], tags[283]
                if xd and yd:
                    k = Fraction(1) if unit == 2 else Fraction(254, 100)
                    dpi = (Fraction(xn, xd) * k, Fraction(yn, yd) * k)
            return "tiff", (tags.get(256), tags.get(257)), dpi
        if blob[:4] == b"\x01\x00\x00\x00" and blob[40:44] == b" EMF":
            return "emf", None, None
        if blob[:4] == b"\xd7\xcd\xc6\x9a":
            return "wmf", None, None
    except Exception:  # noqa
        pass
    return None, None, None


def acceptable_dpis(d):
    """Integer DPI values that count as 'the image's DPI' for an exact value d (None = absent):
    the nearest integers (either one at a tie, small slack for the inch/metre constants),
    or 72 when the value is absent or outside 1..2048."""
    if d is None:
        return {72}
    out = set()
    slack = Fraction(1, 2) + abs(d) / 1000 + Fraction(1, 10 ** 6)
    lo = int(d) - 2
    for n in range(lo, lo + 6):
        if abs(Fraction(n) - d) <= slack:
            if 1 <= n <= 2048:
                out.add(n)
            else:
                out.add(72)
    if not out:
        out.add(72)
    return out


# ============================================================================ unit level
def show(s):
    return " ".join(str(ord(c)) for c in s)


def _stub_image(dpi_entry, size=(1, 1), fmt="PNG"):
    from pptx.parts.image import Image

    img = Image(b"", None)
    img.__dict__["_pil_props"] = (fmt, size, dpi_entry)
    return img


def _stub_classes():
    from pptx.parts.image import ImagePart

    class StubPil(ImagePart):  # only the two Pillow-touching accessors are replaced
        _dpi = property(lambda self: self._d)
        _px_size = property(lambda self: self._p)

    class StubNative(ImagePart):  # scale is the real code, the native size is given
        _native_size = property(lambda self: self._n)

    return StubPil, StubNative


def impl_unit(case):
    op = case[0]
    try:
        if op == "dpiv":  # real Image.dpi on an injected Pillow report; case[1] is a python value
            v = case[1]
            return "ok:%d" % _stub_image((v, 72)).dpi[0]
        if op == "natv":  # w, h, dpi entry
            StubPil, _ = _stub_classes()
            p = StubPil.__new__(StubPil)
            p._d = _stub_image(case[3], (case[1], case[2])).dpi
            p._p = (case[1], case[2])
            cx, cy = p._native_size
            if type(cx).__name__ != "Emu":
                return "err:Type"
            return "ok:%d;%d" % (cx, cy)
        if op == "scl":
            _, StubNative = _stub_classes()
            p = StubNative.__new__(StubNative)
            p._n = (case[1], case[2])
            cx, cy = p.scale(case[3], case[4])
            return "ok:%d;%d" % (cx, cy)
        if op == "crp":
            from pptx.oxml.shapes.picture import CT_Picture

            pic = CT_Picture.new_ph_pic(2, "n", "d", "rId2")
            pic.crop_to_fit((case[1], case[2]), (case[3], case[4]))
            sr = pic.blipFill.srcRect
            l = int(sr.get("l", "0")) if sr is not None else 0
            t = int(sr.get("t", "0")) if sr is not None else 0
            r = int(sr.get("r", "0")) if sr is not None else 0
            b = int(sr.get("b", "0")) if sr is not None else 0
            if (l, t) != (r, b):
                return "asym:%r" % ((l, t, r, b),)
            return "ok:%d;%d" % (l, t)
        if op == "pn":
            from pptx.opc.package import Part
            from pptx.opc.packuri import PackURI
            from pptx.package import Package

            pkg = Package(None)
            for i, nm in enumerate(case[2:]):
                pkg.relate_to(Part(PackURI(nm), "x/y", pkg, b""), "rt%d" % i)
            return "ok:" + show(pkg.next_image_partname(case[1]))
        if op == "fl":
            a, b, kind = case[1], case[2], case[3]
            v = (a / b) if kind == "div" else (a * b)
            f = Fraction(v)
            return "%d|%d" % (f.numerator, f.denominator)
    except Exception as e:  # noqa
        return "err:" + exc_name(e)
    return "badcase"


def model_unit(case):
    op = case[0]
    if op == "dpiv":
        return ("dpi", dv(case[1]))
    if op == "natv":
        return ("nat", meta_text("PNG", (case[1], case[2]), case[3]))
    if op == "scl":
        return ("scl", case[1], case[2], case[3], case[4])
    if op == "crp":
        return ("crp", case[1], case[2], case[3], case[4])
    if op == "pn":
        return ("pn",) + tuple(case[1:])
    if op == "fl":
        a, b, kind = case[1], case[2], case[3]
        q = (Fraction(a) / Fraction(b)) if kind == "div" else (Fraction(a) * Fraction(b))
        return ("fl", q.numerator, q.denominator)
    raise ValueError(op)


def gen_unit(tier, rng):
    from PIL.TiffImagePlugin import IFDRational

    big = tier != "quick"
    cases = []
    # ---- dpi values
    vals = [None, "abc", "96", True, False, 0, 1, 72, 2048, 2049, -5, 0.5, 1.5, 2.5, 0.49999999, 0.5000001, 2048.5,
            2048.4999, 2047.5, 1e300, -1e300, float("nan"), float("inf"), float("-inf"), 72.009, 95.9866, 10 ** 400,
            IFDRational(5, 2), IFDRational(1, 0), IFDRational(0, 0), IFDRational(300, 1), [72], b"72", 3 + 0j,
            Fraction(145, 2), 1e-320, 299.99999999999994, 300.49999999999994]
    for v in vals:
        cases.append(("dpiv", v))
    for _ in range(3000 if not big else 30000):
        k = rng.random()
        if k < 0.3:
            v = rng.randint(-3, 2100)
        elif k < 0.5:
            v = rng.randint(0, 4200) / 2.0
        elif k < 0.8:
            v = rng.uniform(0, 2100)
        elif k < 0.9:
            v = rng.randint(1, 2050) + rng.choice([-0.5, 0.5]) + rng.choice([0, 1e-13, -1e-13, 2e-16])
        else:
            v = IFDRational(rng.randint(0, 10 ** 6), rng.randint(0, 4000))
        cases.append(("dpiv", v))
    # ---- native size: every dpi with assorted pixel counts (validates the exact-quotient modelling)
    pxs = [1, 2, 3, 7, 48, 64, 100, 640, 1000, 1023, 4096, 65535, 10 ** 6]
    dpis = range(1, 2049) if big else list(range(1, 2049, 7)) + [2048]
    for d in dpis:
        for _ in range(3 if not big else 8):
            cases.append(("natv", rng.choice(pxs) if rng.random() < 0.5 else rng.randint(1, 70000),
                          rng.choice(pxs), (d, rng.randint(1, 2048))))
    for v in [None, (0, 0), (72.009, 300.5), (1e9, 0.2), ("x", 5), (float("nan"), 1), (float("inf"), 72), [72, 72], 96]:
        cases.append(("natv", 3, 2, v))
    # ---- scale
    dims = [0, 1, 2, 3, 5, 7, 446, 12700, 38100, 88900, 63500, 914400, 1280160, 9144000, 10 ** 9 + 7, 2 ** 53 + 1]
    opts = [None, 0, 1, -1, -10, 2, 3, 5, 7, 100, 914400, 653143, 1828800, 12192000, 10 ** 9, 10 ** 15 + 3]
    for _ in range(6000 if not big else 60000):
        icx = rng.choice(dims) if rng.random() < 0.5 else rng.randint(0, 10 ** rng.randint(1, 9))
        icy = rng.choice(dims) if rng.random() < 0.5 else rng.randint(0, 10 ** rng.randint(1, 9))
        cx = rng.choice(opts) if rng.random() < 0.6 else rng.randint(-5, 10 ** rng.randint(1, 9))
        cy = rng.choice(opts) if rng.random() < 0.6 else rng.randint(-5, 10 ** rng.randint(1, 9))
        if rng.random() < 0.5:
            if rng.random() < 0.5:
                cx = None
            else:
                cy = None
        cases.append(("scl", icx, icy, cx, cy))
    # ---- cropping
    for _ in range(1500 if not big else 15000):
        iw, ih = rng.randint(0, 70), rng.randint(0, 70)
        if rng.random() < 0.9:
            iw, ih = max(iw, 1), max(ih, 1)
        vw = rng.choice([0, 1, 3, 4800600, 5486400, 914400, rng.randint(0, 10 ** 7)])
        vh = rng.choice([0, 1, 2, 3600450, 4114800, 914400, rng.randint(0, 10 ** 7)])
        if rng.random() < 0.2:
            k = rng.randint(1, 100000)
            vw, vh = iw * k, ih * k
        cases.append(("crp", iw, ih, vw, vh))
    # ---- part names
    pool = ["/ppt/media/image1.png", "/ppt/media/image2.jpg", "/ppt/media/image3.gif", "/ppt/media/image5.png",
            "/ppt/media/image007.png", "/ppt/media/image.png", "/ppt/media/image1a.png", "/ppt/media/imagex2.png",
            "/ppt/media/image0.png", "/ppt/media/images/pic3.png", "/ppt/media/image4", "/ppt/media/image10.tiff",
            "/ppt/media/media1.mp4", "/ppt/slides/slide1.xml", "/ppt/media/Image2.png", "/ppt/media/image2.png.bak",
            "/ppt/media/image6.", "/ppt/embeddings/image9.bin", "/ppt/media/image٣.png", "/docProps/thumbnail.jpeg",
            "/ppt/media/image8.svg", "/ppt/media/image1.jpeg"]
    for _ in range(800 if not big else 6000):
        names = rng.sample(pool, rng.randint(0, 9))
        if rng.random() < 0.5:
            names += ["/ppt/media/image%d.%s" % (i, rng.choice(["png", "jpg"])) for i in range(1, rng.randint(1, 12))
                      if rng.random() < 0.8]
        names = list(dict.fromkeys(names))
        cases.append(("pn", rng.choice(["png", "jpg", "tiff", "", "x.y", "PNG"])) + tuple(names))
    # ---- binary64 validation
    for _ in range(8000 if not big else 80000):
        k = rng.random()
        if k < 0.4:
            a = rng.randint(-10 ** rng.randint(0, 18), 10 ** rng.randint(0, 18))
            b = rng.randint(1, 10 ** rng.randint(0, 18))
            cases.append(("fl", a, b, "div"))
        else:
            x = rng.uniform(-1, 1) * 10 ** rng.randint(-5, 12)
            y = rng.uniform(-1, 1) * 10 ** rng.randint(-5, 12) or 1.0
            cases.append(("fl", x, y, "div" if k < 0.7 else "mul"))
    return cases


def oracle_unit(ck, case, out):
    """property-level facts on the implementation's own numbers"""
    op = case[0]
    if op == "dpiv" and out.startswith("ok:"):
        n = int(out[3:])
        if not 1 <= n <= 2048:
            ck.violation("dpi-out-of-range", "Image.dpi gave %d for Pillow dpi %r" % (n, case[1]),
                         {"entry_point": "Image.dpi", "input": repr(case), "impl_outcome": out})
    elif op == "natv" and out.startswith("ok:"):
        cx, cy = [int(t) for t in out[3:].split(";")]
        d = case[3]
        if isinstance(d, tuple) and all(isinstance(t, int) and 1 <= t <= 2048 for t in d):
            if (cx, cy) != (EMU * case[1] // d[0], EMU * case[2] // d[1]):
                ck.violation("native-size", "native size of %dx%d px at %r dpi is %r" % (case[1], case[2], d, (cx, cy)),
                             {"entry_point": "ImagePart._native_size", "input": repr(case), "impl_outcome": out})
    elif op == "scl" and out.startswith("ok:"):
        cx, cy = [int(t) for t in out[3:].split(";")]
        W, Hn, a, b = case[1], case[2], case[3], case[4]
        if a and b:
            bad = (cx, cy) != (a, b)
        elif not a and not b:
            bad = (cx, cy) != (W, Hn)
        elif a:
            bad = cx != a or abs(Fraction(cy) * W - Fraction(a) * Hn) > Fraction(abs(W), 2) + abs(Fraction(a) * Hn) / 10 ** 15
        else:
            bad = cy != b or abs(Fraction(cx) * Hn - Fraction(b) * W) > Fraction(abs(Hn), 2) + abs(Fraction(b) * W) / 10 ** 15
        if bad:
            ck.violation("scale", "scale%r on native %r gave %r" % ((a, b), (W, Hn), (cx, cy)),
                         {"entry_point": "ImagePart.scale", "input": repr(case), "impl_outcome": out})


# ============================================================================ histories
FMTS = ["PNG", "JPEG", "GIF", "BMP", "TIFF"]
EXT_OF_FMT = {"PNG": "png", "JPEG": "jpg", "GIF": "gif", "BMP": "bmp", "TIFF": "tiff", "EMF": "emf", "WMF": "wmf"}
WRONG_EXT = ["jpg", "png", "gif", "bmp", "tif", "dat", "JPG", "jpeg", ""]
SIZES = [(1, 1), (2, 1), (1, 3), (3, 2), (4, 4), (5, 7), (8, 6), (16, 9), (13, 31), (32, 24), (48, 64), (64, 48)]
DPIS = [None, None, [72, 72], [72.009, 72.009], [0, 0], [300, 300], [96, 96], [300, 150], [150.5, 72], [100000, 3],
        [1, 1], [2048, 2048], [2049, 2049], [0.4, 0.6], [0.5, 1.5], [2.5, 3.5], [1e6, 1e6], [63.5, 63.5], [254, 127]]


def gen_image_spec(rng, seed):
    if rng.random() < 0.06:
        return {"fmt": rng.choice(["EMF", "WMF"]), "w": rng.randint(1, 40), "h": rng.randint(1, 40), "seed": seed,
                "dpi": None, "patch": None}
    fmt = rng.choice(FMTS)
    w, h = rng.choice(SIZES) if rng.random() < 0.8 else (rng.randint(1, 64), rng.randint(1, 48))
    spec = {"fmt": fmt, "w": w, "h": h, "seed": seed, "dpi": None, "patch": None}
    if fmt != "GIF":
        spec["dpi"] = rng.choice(DPIS)
    r = rng.random()
    if fmt == "BMP" and r < 0.3:
        spec["patch"] = "ppm:%d,%d" % rng.choice([(0, 0), (2835, 2835), (1, 100000), (-5, 3780), (2500, 7500), (80630, 80669)])
    elif fmt == "TIFF" and spec["dpi"] is not None and r < 0.4:
        spec["patch"] = "rat:" + rng.choice(["1/0,72/1", "0/0,0/0", "5/2,7/2", "2147483648/1,1/1", "300/1,300/1,3",
                                             "118/1,118/1,3", "72/1,72/1,1", "1/3,2049/1", "4097/2,4095/2"])
    elif fmt == "PNG" and spec["dpi"] is not None and r < 0.3:
        spec["patch"] = "phys:%d,%d,%d" % rng.choice([(2835, 2835, 1), (1, 1, 0), (2500, 7500, 1), (0, 0, 1),
                                                      (4, 3, 0), (80610, 80650, 1), (4294967295, 39, 1)])
    return spec


def gen_bad_spec(rng, seed):
    k = rng.random()
    if k < 0.25:
        return {"fmt": "RAW", "bytes": [rng.randrange(256) for _ in range(rng.randint(0, 40))]}
    if k < 0.4:
        return {"fmt": "RAW", "bytes": list(b"\x89PNG\r\n\x1a\n") + [rng.randrange(256) for _ in range(rng.randint(0, 20))]}
    if k < 0.6:
        return {"fmt": rng.choice(["PPM", "WEBP", "ICO", "PCX"]), "w": 3, "h": 2, "seed": seed, "dpi": None, "patch": None}
    s = gen_image_spec(rng, seed)
    s["patch"] = "trunc"
    return s


def make_twin(specs, rng):
    """Add a second image whose file has exactly the byte length of an existing one but other
    bytes (uncompressed BMP/TIFF: other pixel values; PNG/JPEG/GIF: another comment of the same
    length).  Returns (index of the original, index of the twin) or None."""
    cands = [i for i, sp in enumerate(specs)
             if (sp["fmt"] in ("BMP", "TIFF") and sp.get("patch") != "trunc")
             or (sp["fmt"] in ("PNG", "JPEG", "GIF") and not sp.get("patch"))]
    if not cands:
        return None
    i = rng.choice(cands)
    t = dict(specs[i])
    if t["fmt"] in ("BMP", "TIFF"):
        t["seed"] = specs[i]["seed"] + 7919
    else:
        specs[i]["patch"] = "text:" + "".join(rng.choice("ABCDEFGH") for _ in range(8))
        t["patch"] = "text:" + "".join(rng.choice("ijklmnop") for _ in range(8))
    specs.append(t)
    return i, len(specs) - 1


def twin_ops(rng, pair, nslides, ph_free):
    """the original and its twin added one after the other from the same working file"""
    out = []
    via = rng.choice(["path", "path", "misnamed"])
    order = list(pair) + [pair[0]]
    if rng.random() < 0.3:
        order = [pair[1], pair[0], pair[1]]
    for img in order:
        s = rng.randrange(nslides)
        use = rng.choice(["P", "P", "P", "M", "O", "H"])
        if use == "H":
            free = [i for i, f in enumerate(ph_free) if f]
            if free:
                s = rng.choice(free)
                ph_free[s] = False
            else:
                use = "P"
        out.append(["i", s, img, use, via, None, None])
    return out


def churn_ops(rng, specs, slides, ph_free):
    """Remove-then-re-add: an image gets two or three users, every one of them is removed again
    (the slide is deleted, or each shape is deleted together with its relationship), other
    images are added, and the first image is used again; sometimes with a save + re-open
    somewhere in between.  Appends to slides / ph_free as it adds slides."""
    out = []
    uses = ["P", "P", "P", "M", "O"]
    vias = ["path", "stream", "stream", "misnamed"]
    a_img = rng.randrange(len(specs))
    others = [i for i in range(len(specs)) if i != a_img] or [a_img]
    by_slide = rng.random() < 0.6
    if by_slide or not slides:
        out.append(["a", 6])
        slides.append(6)
        ph_free.append(False)
        s = len(slides) - 1
        if rng.random() < 0.5 and len(slides) > 1:      # not always the last slide: move another one behind it
            out.append(["a", 6])
            slides.append(6)
            ph_free.append(False)
    else:
        s = rng.randrange(len(slides))
    maybe_r = lambda: out.append(["r"]) if rng.random() < 0.12 else None
    for _ in range(rng.randint(2, 3)):
        out.append(["i", s, a_img, rng.choice(uses), rng.choice(vias), None, None])
    maybe_r()
    if by_slide:
        out.append(["x", s])
        del slides[s]
        del ph_free[s]
        if not slides:
            out.append(["a", 6])
            slides.append(6)
            ph_free.append(False)
    else:
        out.append(["D", s, rng.choice(["rel", "rel", "rel", "elem"])])
    maybe_r()
    for _ in range(rng.randint(1, 2)):
        out.append(["i", rng.randrange(len(slides)), rng.choice(others), rng.choice(uses), rng.choice(vias), None, None])
    maybe_r()
    out.append(["i", rng.randrange(len(slides)), a_img, rng.choice(uses), rng.choice(vias), None, None])
    if rng.random() < 0.5:
        out.append(["i", rng.randrange(len(slides)), rng.choice(others), "P", "stream", None, 914400])
    return out


def gen_history(rng, tier, hid):
    """A history: image specs + operations.  ops:
       ["a", layout]                      add slide (layout 6 blank / 8 picture placeholder)
       ["o", s, k]                        k hyperlink relationships on slide s
       ["i", s, img, use, via, a, b]      use P(cx,cy) / H / M(ovie poster) / O(le icon); via path|stream|misnamed
       ["r"]                              save and re-open
       ["x", s]                           delete slide s: its p:sldId removed and prs.part.drop_rel(rId)
       ["d", s, j, mode]                  delete the (j mod n)-th image-bearing shape of slide s; mode rel: every
                                          relationship nothing in the slide refers to any more is dropped
                                          (slide.part.drop_rel), mode elem: the element only
       ["D", s, mode]                     the same for every image-bearing shape of slide s """
    nimg = rng.randint(1, 5)
    specs = [gen_image_spec(rng, hid * 100 + i) for i in range(nimg)]
    if rng.random() < 0.25:
        specs.append(gen_bad_spec(rng, hid * 100 + 50))
    if rng.random() < 0.15 and nimg >= 1:  # same pixels, other container: different bytes
        s2 = dict(specs[0])
        s2["fmt"] = rng.choice([f for f in FMTS if f != specs[0]["fmt"]])
        if s2["fmt"] == "GIF":
            s2["dpi"] = None
        s2["patch"] = None
        specs.append(s2)
    pair = make_twin(specs, rng) if rng.random() < 0.6 else None
    ops = []
    slides = []  # layout per slide; placeholder free?
    ph_free = []
    n_ops = rng.randint(4, 14 if tier == "quick" else 24)
    ops.append(["a", rng.choice([6, 8])])
    slides.append(ops[-1][1])
    ph_free.append(ops[-1][1] == 8)
    dims = [None, None, None, 0, 914400, 1828800, 653143, 12700, 1, 3, -914400, 5000000, 10 ** 8]
    churn_at = rng.randint(2, n_ops) if rng.random() < 0.4 else None
    while len(ops) < n_ops:
        k = rng.random()
        if churn_at is not None and len(ops) >= churn_at:
            ops += churn_ops(rng, specs, slides, ph_free)
            churn_at = None
        elif not slides or (k < 0.14 and len(slides) < 5):
            ops.append(["a", rng.choice([6, 8])])
            slides.append(ops[-1][1])
            ph_free.append(ops[-1][1] == 8)
        elif k < 0.20:
            ops.append(["o", rng.randrange(len(slides)), rng.randint(1, 3)])
        elif k < 0.29:
            ops.append(["r"])
        elif k < 0.35:
            s = rng.choice([0, len(slides) - 1, rng.randrange(len(slides))])    # first / last / any
            if rng.random() < 0.04:
                s = len(slides) + 1                                           # out of range: refused
                ops.append(["x", s])
            else:
                ops.append(["x", s])
                del slides[s]
                del ph_free[s]
        elif k < 0.45:
            s = rng.randrange(len(slides))
            mode = rng.choice(["rel", "rel", "elem"])
            if rng.random() < 0.3:
                ops.append(["D", s, mode])
            else:
                ops.append(["d", s, rng.randrange(6), mode])
        else:
            s = rng.randrange(len(slides))
            img = rng.randrange(len(specs)) if rng.random() < 0.7 else 0
            via = rng.choice(["path", "stream", "stream", "misnamed"])
            u = rng.random()
            good = specs[img]["fmt"] in FMTS + ["EMF", "WMF"] and specs[img].get("patch") != "trunc"
            if u < 0.12 and any(ph_free) and good:
                s = rng.choice([i for i, f in enumerate(ph_free) if f])
                ops.append(["i", s, img, "H", via, None, None])
                ph_free[s] = False  # the placeholder is consumed
            elif u < 0.2:
                ops.append(["i", s, img, "M", via, None, None])
            elif u < 0.28:
                ops.append(["i", s, img, "O", via, None, None])
            else:
                cx, cy = rng.choice(dims), rng.choice(dims)
                if rng.random() < 0.4:
                    cx = cy = None
                ops.append(["i", s, img, "P", via, cx, cy])
    if not slides:
        ops.append(["a", 6])
        slides.append(6)
        ph_free.append(False)
    if pair:
        ops += twin_ops(rng, pair, len(slides), ph_free)
    if rng.random() < 0.6:
        ops.append(["r"])
        # after the re-open add something already stored, and something new
        s = rng.randrange(len(slides))
        ops.append(["i", s, 0, "P", "stream", None, None])
        ops.append(["i", s, len(specs) - 1, "P", "path", None, 914400])
        if pair and rng.random() < 0.5:
            ops += twin_ops(rng, pair, len(slides), ph_free)
    return {"specs": specs, "ops": ops, "slot": hid % 3}


R_NS = "http://schemas.openxmlformats.org/officeDocument/2006/relationships"


def static_reach(prs):
    """(ids of the parts the package reaches without following the relationships OF a slide, ids of the
    parts an image relationship met on that walk targets): what stays when every slide goes"""
    from pptx.opc.constants import RELATIONSHIP_TYPE as RT

    pkg = prs.part.package
    slide_parts = {id(sl.part) for sl in prs.slides}
    seen, img = set(), set()

    def walk(rels):
        for rel in rels.values():
            if rel.is_external:
                continue
            part = rel.target_part
            if rel.reltype == RT.IMAGE:
                img.add(id(part))
            if id(part) in seen:
                continue
            seen.add(id(part))
            if id(part) not in slide_parts:
                walk(part.rels)

    walk(pkg._rels)
    return seen, img


def slide_image_targets(prs):
    from pptx.opc.constants import RELATIONSHIP_TYPE as RT

    out = set()
    for sl in prs.slides:
        for rel in sl.part.rels.values():
            if not rel.is_external and rel.reltype == RT.IMAGE:
                out.add(id(rel.target_part))
    return out


def representable(prs):
    """every image part the look-up iterates is reached by an image relationship of an always-reachable
    part or directly by one of a slide, and no part below a slide (notes slide, chart, legacy VML
    drawing of an OLE object ...) has image relationships of its own: the model has no
    slide -> sub-part -> image paths"""
    from pptx.opc.constants import RELATIONSHIP_TYPE as RT

    reach, img = static_reach(prs)
    direct = slide_image_targets(prs)
    if not all(id(p) in img or id(p) in direct for p in prs.part.package._image_parts):
        return False
    seen = set()
    todo = [rel.target_part for sl in prs.slides for rel in sl.part.rels.values() if not rel.is_external]
    while todo:
        q = todo.pop()
        if id(q) in seen or id(q) in reach:     # always-reachable furniture and the slides themselves
            continue
        seen.add(id(q))
        for rel in q.rels.values():
            if rel.is_external:
                continue
            if rel.reltype == RT.IMAGE:
                return False
            todo.append(rel.target_part)
    return True


def corpus_decks():
    """decks under /repo that already contain image parts: (relative path, slides, image parts, representable in the model)"""
    import glob

    from pptx import Presentation

    out = []
    for f in sorted(glob.glob(os.path.join(REPO, "**", "*.pptx"), recursive=True)):
        try:
            with warnings.catch_warnings():
                warnings.simplefilter("ignore")
                prs = Presentation(f)
            n = len(list(prs.part.package._image_parts))
            if n:
                out.append((os.path.relpath(f, REPO), len(prs.slides), n, representable(prs)))
        except Exception:  # noqa
            continue
    return out


def gen_corpus_history(rng, deck, nslides, nparts, hid, representable=True):
    """on a deck that already holds images: add its own images again (must reuse the parts),
    add new ones (must take the first free number), delete a slide or the pictures of a slide (its own
    images may lose their last user: added again they must be stored anew), re-open, and again"""
    specs = [{"fmt": "PART", "index": j} for j in range(nparts)]
    specs.append(gen_image_spec(rng, 900000 + hid * 10))
    specs.append(gen_image_spec(rng, 900001 + hid * 10))
    pair = make_twin(specs, rng)
    ops = []
    ns = nslides
    if ns == 0 or rng.random() < 0.3:
        ops.append(["a", 6])
        ns += 1
    dims = [None, None, 914400, 0, 12700]
    for rnd in range(2):
        for _ in range(rng.randint(2, 5)):
            ops.append(["i", rng.randrange(ns), rng.randrange(len(specs)), rng.choice(["P", "P", "P", "M", "O"]),
                        rng.choice(["path", "stream", "misnamed"]), None, None])
            if ops[-1][3] == "P":
                ops[-1][5], ops[-1][6] = rng.choice(dims), rng.choice(dims)
        if pair:
            ops += twin_ops(rng, pair, ns, [])
        if True:
            r = rng.random()
            if r < 0.45:
                ops.append(["x", rng.choice([0, ns - 1, rng.randrange(ns)])])
                ns -= 1
                if ns == 0:
                    ops.append(["a", 6])
                    ns = 1
            elif r < 0.7:
                ops.append(["D", rng.randrange(ns), rng.choice(["rel", "rel", "elem"])])
            elif r < 0.9:
                ops.append(["d", rng.randrange(ns), rng.randrange(4), rng.choice(["rel", "rel", "elem"])])
            if r < 0.9:   # its own images and a new one after the removal
                for _ in range(rng.randint(1, 3)):
                    ops.append(["i", rng.randrange(ns), rng.randrange(len(specs)), rng.choice(["P", "P", "M", "O"]),
                                rng.choice(["path", "stream"]), None, None])
        if rnd == 0:
            ops.append(["r"])
            if rng.random() < 0.5:
                ops.append(["a", 6])
                ns += 1
    hist = {"deck": deck, "specs": specs, "ops": ops, "slot": hid % 3}
    if not representable:
        hist["oracle_only"] = True    # removals on a deck with slide -> sub-part -> image paths: judged by the oracle alone
    return hist


def _rid_num(rid):
    """n for a key of the form rIdn in canonical decimal, else 0"""
    t = rid[3:]
    return int(t) if rid.startswith("rId") and t.isdigit() and str(int(t)) == t else 0


def _r_attr_values(el):
    """the values of every attribute in the relationships namespace at or below el"""
    pre = "{%s}" % R_NS
    return [v for e in el.iter() if isinstance(e.tag, str) for k, v in e.attrib.items() if k.startswith(pre)]


def image_shapes(slide):
    """the top-level shapes of the slide that hold an embedded blip, in document order:
    [(element, shape id, [blip elements])]"""
    out = []
    for child in slide.shapes._spTree:
        if not isinstance(child.tag, str):
            continue
        blips = child.xpath(".//a:blip[@r:embed]")
        if blips:
            ids = child.xpath(".//p:cNvPr/@id")
            out.append((child, ids[0] if ids else "?", blips))
    return out


class Deck:
    """Runs a history on python-pptx and records what the property talks about."""

    def __init__(self, hist, tmp, pool=None):
        from pptx import Presentation

        self.hist = hist
        self.tmp = tmp
        self.pool = pool or tmp
        self.prs = Presentation(os.path.join(REPO, hist["deck"])) if hist.get("deck") else Presentation()
        pkg = self.prs.part.package
        self.init_image_parts = list(pkg._image_parts)
        self.init_other_parts = [p for p in pkg.iter_parts() if p not in self.init_image_parts]
        self.part_blobs = [p.blob for p in self.init_image_parts]
        self.blobs = [self.part_blobs[s["index"] % len(self.part_blobs)] if s["fmt"] == "PART" else make_blob(s)
                      for s in hist["specs"]]
        self.init_slides = self._slides_text()
        self.init_blob_count = {}
        for b in self.part_blobs:
            self.init_blob_count[b] = self.init_blob_count.get(b, 0) + 1
        # what every picture must give back: per slide (same order as prs.slides) {(shape id, n-th blip): bytes};
        # the pictures a deck already has are expected to keep the bytes they have now
        self.expect = []
        for sl in self.prs.slides:
            exp = {}
            for _, sid, blips in image_shapes(sl):
                for j, blip in enumerate(blips):
                    try:
                        blob = sl.part.related_part(blip.get("{%s}embed" % R_NS)).blob
                    except KeyError:
                        continue
                    exp[(sid, j)] = None if (sid, j) in exp else blob    # None: ambiguous key, not judged
            self.expect.append(exp)
        self.live_hits = []    # (signature, text) found by check_live
        self.drops = {}        # op index -> rId numbers dropped by a d / D operation
        self.first_removal = None
        self.nmovie = 0
        self.nlink = 0
        self.nfile = 0
        self.records = []      # per image op: dict for the oracle
        self.saved = []        # bytes of every save

    # -- initial state for the model
    def initial_parts(self):
        """image-related parts first, in the order _find_by_sha1 meets them, then the others"""
        from pptx.parts.image import ImagePart

        out = []
        n = len(self.hist["specs"])
        reach, img = static_reach(self.prs)
        for j, p in enumerate(self.init_image_parts):
            out.append("%s;%s;%d;%d;%d;%d" % (p.partname, p.content_type, n + j, isinstance(p, ImagePart),
                                              id(p) in img, id(p) in reach))
        for p in self.init_other_parts:   # furniture: only their names matter (taken to stay reachable)
            out.append("%s;%s;~;%d;0;1" % (p.partname, p.content_type, isinstance(p, ImagePart)))
        return out

    def _slides_text(self):
        from pptx.opc.constants import RELATIONSHIP_TYPE as RT

        out = []
        for sl in self.prs.slides:
            rows = []
            for rid, rel in sl.part.rels.items():
                num = _rid_num(rid)
                tgt = ""
                if not rel.is_external and rel.reltype == RT.IMAGE:
                    tgt = str(rel.target_part.partname)
                rows.append("%d=%s" % (num, tgt))
            out.append(";".join(rows))
        return out

    def _file_arg(self, img, via):
        blob = self.blobs[img]
        spec = self.hist["specs"][img]
        if via == "stream":
            return io.BytesIO(blob)
        # A small pool of working files, shared by all histories of the process and overwritten
        # before every use: the same path carries different images over time, often of the very
        # same byte length (twins), as when frames are written to a reused working file.
        self.nfile += 1
        slot = self.hist.get("slot", 0)
        ext = EXT_OF_FMT.get(spec["fmt"], "bin")
        if via == "misnamed":
            ext = WRONG_EXT[(slot + sorted(EXT_OF_FMT).index(spec["fmt"]) if spec["fmt"] in EXT_OF_FMT else slot) % len(WRONG_EXT)]
        path = os.path.join(self.pool, "w%d%s" % (slot, ("." + ext) if ext else ""))
        with open(path, "wb") as f:
            f.write(blob)
        return path

    def slide(self, s):
        return self.prs.slides[s]

    def run_op(self, op, opidx=-1):
        out = self._run_op(op, opidx)
        if op[0] in ("i", "x", "d", "D", "r"):
            try:
                self.check_live("after operation %d %r" % (opidx, op[:4]))
            except Exception as e:  # noqa
                self.live_hits.append(("deck-unusable", "the deck cannot be walked after operation %d %r: %s" % (opidx, op[:4], exc_name(e))))
        return out

    def _run_op(self, op, opidx=-1):
        from pptx.opc.constants import RELATIONSHIP_TYPE as RT

        self.opidx = opidx
        k = op[0]
        try:
            if k == "a":
                lays = self.prs.slide_layouts
                self.prs.slides.add_slide(lays[op[1] if op[1] < len(lays) else 0])
                self.expect.append({})
                return "ok:u"
            if k == "x":
                return self.delete_slide(op[1])
            if k in ("d", "D"):
                return self.delete_pictures(op)
            if k == "o":
                sp = self.slide(op[1]).part
                for _ in range(op[2]):
                    self.nlink += 1
                    sp.relate_to("http://example.com/%d" % self.nlink, RT.HYPERLINK, is_external=True)
                return "ok:u"
            if k == "r":
                b = io.BytesIO()
                self.prs.save(b)
                self.saved.append(b.getvalue())
                from pptx import Presentation

                self.prs = Presentation(io.BytesIO(b.getvalue()))
                return "ok:u"
            if k == "i":
                return self.image_op(op)
        except Exception as e:  # noqa
            return "err:" + exc_name(e)
        return "badcase"

    def store_names(self):
        """what _ImageParts yields now (the answer of the model to a removal)"""
        return "ok:" + ";".join(sorted(show(str(p.partname)) for p in self.prs.part.package._image_parts))

    def delete_slide(self, s):
        """the usual recipe: the presentation relationship is dropped and the p:sldId removed"""
        if self.first_removal is None:
            self.first_removal = self.opidx
        sldIdLst = self.prs.slides._sldIdLst
        sldId = sldIdLst.sldId_lst[s]
        self.prs.part.drop_rel(sldId.rId)
        sldIdLst.remove(sldId)
        del self.expect[s]
        return self.store_names()

    def delete_pictures(self, op):
        """remove image-bearing shapes of a slide; mode rel: afterwards every relationship the removed
        elements used and nothing in the slide refers to any more is dropped (slide.part.drop_rel),
        mode elem: the relationships stay (the parts stay reachable)"""
        if self.first_removal is None:
            self.first_removal = self.opidx
        s, mode = op[1], op[-1]
        sl = self.slide(s)
        shapes = image_shapes(sl)
        if op[0] == "d" and shapes:
            shapes = [shapes[op[2] % len(shapes)]]
        rids = []
        for el, sid, blips in shapes:
            for r in _r_attr_values(el):
                if r not in rids:
                    rids.append(r)
            el.getparent().remove(el)
            for key in [k_ for k_ in self.expect[s] if k_[0] == sid]:
                del self.expect[s][key]
        dropped = []
        if mode == "rel":
            left = set(_r_attr_values(sl.part._element))
            for r in rids:
                if r not in left and _rid_num(r) and r in sl.part.rels:
                    sl.part.drop_rel(r)
                    dropped.append(_rid_num(r))
        self.drops[self.opidx] = dropped
        return self.store_names() if dropped else "ok:u"

    def check_live(self, when):
        """The property on the object graph as it is now: every picture gives back the bytes it was made
        from; no two parts the package reaches share a name; no byte string is held by more image parts
        than the deck had of it when it was opened (one for anything added)."""
        from pptx.parts.image import ImagePart

        pkg = self.prs.part.package
        slides = list(self.prs.slides)
        hit = lambda sig, text: self.live_hits.append((sig, "%s (%s)" % (text, when)))
        if len(slides) != len(self.expect):
            hit("slide-count", "the deck has %d slides, %d expected" % (len(slides), len(self.expect)))
            return
        for si, sl in enumerate(slides):
            exp = self.expect[si]
            seen = set()
            for _, sid, blips in image_shapes(sl):
                for j, blip in enumerate(blips):
                    seen.add((sid, j))
                    want = exp.get((sid, j))
                    if want is None:
                        continue
                    rid = blip.get("{%s}embed" % R_NS)
                    try:
                        try:
                            got = sl.part.get_image(rid).blob      # what picture.image.blob returns
                        except AttributeError:
                            got = sl.part.related_part(rid).blob   # not an ImagePart (an image type without a class)
                    except KeyError:
                        hit("picture-relationship-missing", "slide %d shape %s refers to %s, which the slide does not have" % (si, sid, rid))
                        continue
                    if got != want:
                        hit("picture-bytes-changed", "slide %d shape %s no longer gives back the bytes it was made from (%d bytes, "
                            "now %d other bytes)" % (si, sid, len(want), len(got)))
            for key in exp:
                if key not in seen:
                    hit("picture-lost", "slide %d shape %s is gone" % (si, key[0]))
        names = [str(p.partname) for p in pkg.iter_parts()]
        dup = sorted({n for n in names if names.count(n) > 1})
        if dup:
            hit("two-parts-one-name", "the package reaches more than one part named %s" % ", ".join(dup))
        cnt = {}
        for p in pkg._image_parts:
            if isinstance(p, ImagePart):
                cnt[p.blob] = cnt.get(p.blob, 0) + 1
        for b, n in cnt.items():
            if n > max(1, self.init_blob_count.get(b, 0)):
                hit("same-bytes-two-parts", "%d reachable image parts hold the same %d bytes" % (n, len(b)))

    def finish(self):
        """final save, then the property once more on the re-opened file"""
        from pptx import Presentation

        self.store = self.final_store()
        b = io.BytesIO()
        self.prs.save(b)
        self.saved.append(b.getvalue())
        try:
            self.prs = Presentation(io.BytesIO(b.getvalue()))
        except Exception as e:  # noqa
            self.live_hits.append(("saved-file-unreadable", "the saved file cannot be opened again: %s" % exc_name(e)))
            return
        self.check_live("after the final save + re-open")

    def image_op(self, op):
        _, s, img, use, via, a, b = op
        sl = self.slide(s)
        arg = self._file_arg(img, via)
        rec = {"slide": s, "img": img, "use": use, "via": via, "a": a, "b": b, "ok": False, "opidx": self.opidx}
        self.records.append(rec)
        if use == "P":
            pic = sl.shapes.add_picture(arg, 0, 0, a, b)
            shp = pic
            rid = pic._pic.blip_rId
            dims = (int(pic.width), int(pic.height))
            rec["blob_back"] = pic.image.blob
            rec["image_ext"] = pic.image.ext
            rec["image_ct"] = pic.image.content_type
            rec["filename"] = pic.image.filename
        elif use == "H":
            ph = [p for p in sl.placeholders if p.placeholder_format.type == 18 and hasattr(p, "insert_picture")][0]
            rec["view"] = (int(ph.width), int(ph.height))
            pp = ph.insert_picture(arg)
            shp = pp
            rid = pp._pic.blip_rId
            sr = pp._pic.blipFill.srcRect
            g = (lambda n: int(sr.get(n, "0"))) if sr is not None else (lambda n: 0)
            dims = (g("l"), g("t"))
            rec["crop"] = (g("l"), g("t"), g("r"), g("b"))
            rec["blob_back"] = pp.image.blob
        elif use == "M":
            self.nmovie += 1
            mv = sl.shapes.add_movie(io.BytesIO(b"movie-%d" % self.nmovie), 0, 0, 914400, 914400,
                                     poster_frame_image=arg, mime_type="video/mp4")
            shp = mv
            rid = mv._element.blip_rId
            dims = (0, 0)
        else:
            from pptx.enum.shapes import PROG_ID

            self.nmovie += 1
            gf = sl.shapes.add_ole_object(io.BytesIO(b"ole-%d" % self.nmovie), PROG_ID.XLSX, 0, 0, icon_file=arg)
            shp = gf
            rid = gf._element.xpath(".//a:blip/@r:embed")[0]
            dims = (0, 0)
        self.expect[s][(str(shp.shape_id), 0)] = self.blobs[img]
        part = sl.part.related_part(rid)
        rec.update(ok=True, rid=rid, partname=str(part.partname), dims=dims)
        num = _rid_num(rid)
        return "ok:%s;%d;%s;%s;%d;%d" % (show(str(part.partname)), num, show(part.ext), show(part.content_type),
                                          dims[0], dims[1])

    def final_store(self):
        from pptx.parts.image import ImagePart

        pkg = self.prs.part.package
        rows = []
        for p in pkg._image_parts:
            rows.append("%s;%s;%s;%s" % (show(str(p.partname)), show(p.content_type),
                                         "True" if isinstance(p, ImagePart) else "False",
                                         " ".join(str(x) for x in surrogate(p.blob))))
        return ",".join(sorted(rows))


BIG = 12000


def surrogate(b):
    """The model only compares blobs for equality and returns them; a long blob travels as a
    short stand-in that determines it (length + SHA-256, computed by the harness)."""
    if len(b) <= BIG:
        return b
    import hashlib

    return b[:64] + b"\x00big:%d:" % len(b) + hashlib.sha256(b).digest()  # the header bytes Image.ext looks at stay


def model_case(hist, deck, initial, view_sizes):
    """wire fields of the history for the extracted model"""
    allb = deck.blobs + deck.part_blobs
    f = ["his", len(allb)]
    f += [surrogate(b).decode("latin-1") for b in allb]
    f += [pil_meta(b) for b in allb]
    f += [len(initial)] + initial
    f += [len(deck.init_slides)] + deck.init_slides
    for oi, op in enumerate(hist["ops"]):
        if op[0] == "a":
            f.append("a")
        elif op[0] == "r":
            f.append("r")
        elif op[0] == "o":
            f.append("o;%d;%d" % (op[1], op[2]))
        elif op[0] == "x":
            f.append("x;%d" % op[1])
        elif op[0] in ("d", "D"):
            ks = deck.drops.get(oi)
            if ks:
                f += ["d;%d;%d" % (op[1], k) for k in ks]
            else:
                f.append("o;%d;0" % op[1])     # nothing dropped: the relationships are as they were
        else:
            _, s, img, use, via, a, b = op
            if use == "P":
                f.append("i;%d;%d;P;%s;%s" % (s, img, a, b))
            elif use == "H":
                vw, vh = view_sizes.get(oi, (0, 0))
                f.append("i;%d;%d;H;%d;%d" % (s, img, vw, vh))
            elif use == "M":
                f.append("o;%d;2" % s)
                f.append("i;%d;%d;R" % (s, img))
            else:
                f.append("o;%d;1" % s)
                f.append("i;%d;%d;R" % (s, img))
    return f


def _sorted_names(o):
    """a removal answers with the names the image relationships still lead to: order is not compared"""
    if o.startswith("ok:") and o != "ok:u":
        return "ok:" + ";".join(sorted(o[3:].split(";")))
    return o


def fold_model_out(hist, line, drops=None):
    """drop the model's outcomes of the helper o-steps that precede a movie/OLE image step;
    when the image step fails the implementation created no relationship at all only if the
    failure precedes them -- see run_histories for how that case is handled; a d / D operation
    is as many model steps as relationships were dropped (the answer of the last one counts)"""
    parts = line.split("|")
    if len(parts) != 2:
        return None, line
    outs = parts[0].split(",") if parts[0] else []
    res = []
    i = 0
    for oi, op in enumerate(hist["ops"]):
        n = 1
        if op[0] == "i" and op[3] in ("M", "O"):
            n = 2
        elif op[0] in ("d", "D"):
            n = max(1, len((drops or {}).get(oi) or []))
        if i + n > len(outs):
            return None, line
        o = outs[i + n - 1]
        res.append(_sorted_names(o) if op[0] in ("x", "d", "D") else o)
        i += n
    return res, ",".join(sorted(parts[1].split(","))) if parts[1] else ""


def oracle_history(ck, hist, deck, outs):
    """The property statement on the saved zip and the live objects."""
    import re

    blobs = deck.blobs
    used = {}  # img index -> first successful record
    for rec in deck.records:
        if rec["ok"]:
            used.setdefault(rec["img"], rec)
    info = {"entry_point": "SlideShapes.add_picture / insert_picture / add_movie / add_ole_object",
            "input": hist}
    # -- after every step and after every save + re-open: each picture gives back its bytes, no two
    #    reachable parts share a name, no bytes are held twice (Deck.check_live)
    for sig, text in dict(deck.live_hits).items():
        ck.violation(sig, text, info)
    # -- picture.image.blob == input ; same bytes -> same part ; different bytes -> different part
    #    (over the whole history as long as nothing was removed: after a removal a name may be given
    #    again and an image whose last user went is stored anew -- the live clauses above judge those)
    upto = deck.first_removal if deck.first_removal is not None else len(hist["ops"])
    by_part = {}
    for rec in deck.records:
        if not rec["ok"]:
            continue
        if "blob_back" in rec and rec["blob_back"] != blobs[rec["img"]]:
            ck.violation("blob-differs", "picture.image.blob differs from the bytes given (image %d)" % rec["img"], info)
        if rec["opidx"] < upto:
            by_part.setdefault(rec["partname"], set()).add(blobs[rec["img"]])
    for pn, bs in by_part.items():
        if len(bs) > 1:
            ck.violation("two-blobs-one-part", "part %s is used for %d different byte strings" % (pn, len(bs)), info)
    names_of = {}
    for rec in deck.records:
        if rec["ok"] and rec["opidx"] < upto:
            names_of.setdefault(blobs[rec["img"]], set()).add(rec["partname"])
    for b, ns in names_of.items():
        if len(ns) > 1:
            ck.violation("same-bytes-two-parts", "the same bytes were stored under %s" % sorted(ns), info)
    # -- the saved zips
    zips = deck.saved
    live_blobs = {b for exp in deck.expect for b in exp.values() if b is not None}
    for zi, zb in enumerate(zips):
        z = zipfile.ZipFile(io.BytesIO(zb))
        allnames = z.namelist()
        twice = sorted({n for n in allnames if allnames.count(n) > 1})
        if twice:
            ck.violation("duplicate-zip-member", "save #%d holds more than one member named %s" % (zi, ", ".join(twice)), info)
        members = [n for n in allnames if n.startswith("ppt/media/image")]
        data = {n: z.read(n) for n in members}
        ctx = z.read("[Content_Types].xml").decode("utf-8")
        defaults = {m.group(1).lower(): m.group(2) for m in re.finditer(r'<Default Extension="([^"]*)" ContentType="([^"]*)"', ctx)}
        overrides = {m.group(1): m.group(2) for m in re.finditer(r'<Override PartName="([^"]*)" ContentType="([^"]*)"', ctx)}
        seen = {}
        for n, d in data.items():
            if d in seen:
                ck.violation("duplicate-media", "members %s and %s of save #%d hold the same bytes" % (seen[d], n, zi), info)
            seen[d] = n
            if d in deck.part_blobs:
                continue  # a part the deck already had: its name and type are the author's, not python-pptx's
            kind, size, dpi = sniff(d)
            ext = n.rsplit(".", 1)[-1] if "." in n.rsplit("/", 1)[-1] else ""
            ct = overrides.get("/" + n, defaults.get(ext.lower()))
            if kind is None:
                continue
            if kind == "emf" and (ext != "emf" or ct != CT_OF["emf"]):
                ck.violation("emf-stored-as-wmf", "an EMF image is stored as %s with content type %s" % (n, ct), info)
            elif ext not in EXT_ALIASES[kind] or ct != CT_OF[kind]:
                ck.violation("wrong-type:" + kind, "a %s image is stored as %s with content type %s" % (kind, n, ct), info)
        if zi == len(zips) - 1:
            for img, rec in used.items():
                if blobs[img] not in live_blobs:
                    continue      # every user of it was removed: it need not be stored (at most once: duplicate-media)
                cnt = sum(1 for d in data.values() if d == blobs[img])
                if cnt != 1:
                    ck.violation("stored-not-once", "image %d (used on slide %d) is stored %d times in the saved file" % (
                        img, rec["slide"], cnt), info)
                if deck.first_removal is None and "ppt/" + rec["partname"][5:] in data and data["ppt/" + rec["partname"][5:]] != blobs[img]:
                    ck.violation("stored-bytes-differ", "member %s differs from the bytes given" % rec["partname"], info)
    # -- sizes
    for rec in deck.records:
        if not rec["ok"] or rec["use"] != "P":
            continue
        spec = hist["specs"][rec["img"]]
        if spec["fmt"] not in FMTS:
            continue  # corpus images may carry EXIF or other resolution sources this reader does not parse
        kind, size, dpi = sniff(blobs[rec["img"]])
        if kind is None or size is None or None in size:
            continue
        cx, cy = rec["dims"]
        xs = acceptable_dpis(dpi[0] if dpi else None)
        ys = acceptable_dpis(dpi[1] if dpi else None)
        natx = {EMU * size[0] // n for n in xs}
        naty = {EMU * size[1] // n for n in ys}
        a, b2 = rec["a"], rec["b"]
        if not a and not b2:
            if cx not in natx or cy not in naty:
                sig = "tiff-without-resolution-sized-at-1dpi" if (kind == "tiff" and dpi is None and (cx, cy) == (EMU * size[0], EMU * size[1])) \
                    else "default-size:" + kind
                ck.violation(sig, "a %dx%d px %s with file DPI %s was given the default size %r EMU; expected width in %s and height in %s" % (
                    size[0], size[1], kind, None if dpi is None else (float(dpi[0]), float(dpi[1])), (cx, cy),
                    sorted(natx), sorted(naty)), dict(info, image=spec))
        elif a and b2:
            if (cx, cy) != (a, b2):
                ck.violation("size-both-given", "width and height %r given, picture has %r" % ((a, b2), (cx, cy)), info)
        elif a:
            ok = cx == a and any(abs(Fraction(cy) * W - Fraction(a) * Hh) <= Fraction(W, 2) + abs(Fraction(a) * Hh) / 10 ** 12
                                 for W in natx for Hh in naty)
            if not ok and not (kind == "tiff" and dpi is None):
                ck.violation("aspect", "width %d given for a %r px %s (native %s x %s): height %d" % (a, size, kind, sorted(natx), sorted(naty), cy), info)
        else:
            ok = cy == b2 and any(abs(Fraction(cx) * Hh - Fraction(b2) * W) <= Fraction(Hh, 2) + abs(Fraction(b2) * W) / 10 ** 12
                                  for W in natx for Hh in naty)
            if not ok and not (kind == "tiff" and dpi is None):
                ck.violation("aspect", "height %d given for a %r px %s (native %s x %s): width %d" % (b2, size, kind, sorted(natx), sorted(naty), cx), info)


def run_one_history(hist, tmp, pool=None):
    deck = Deck(hist, tmp, pool)
    initial = deck.initial_parts()
    outs = [deck.run_op(op, i) for i, op in enumerate(hist["ops"])]
    deck.finish()
    views = {rec["opidx"]: rec["view"] for rec in deck.records if rec["use"] == "H" and "view" in rec}
    return deck, initial, outs, views


def default_icon_case(ck):
    """add_ole_object without icon_file uses the bundled icon: property statement on the saved zip"""
    from pptx import Presentation
    from pptx.enum.shapes import PROG_ID

    hist = {"specs": [], "ops": [["a", 6], ["ole-default-icon", 0, "PROG_ID.XLSX"]]}
    prs = Presentation()
    s = prs.slides.add_slide(prs.slide_layouts[6])
    s.shapes.add_ole_object(io.BytesIO(b"x"), PROG_ID.XLSX, 0, 0)
    b = io.BytesIO()
    prs.save(b)
    z = zipfile.ZipFile(io.BytesIO(b.getvalue()))
    import re

    ctx = z.read("[Content_Types].xml").decode("utf-8")
    defaults = {m.group(1).lower(): m.group(2) for m in re.finditer(r'<Default Extension="([^"]*)" ContentType="([^"]*)"', ctx)}
    for n in z.namelist():
        if n.startswith("ppt/media/image"):
            kind, _, _ = sniff(z.read(n))
            ext = n.rsplit(".", 1)[-1]
            ct = defaults.get(ext.lower())
            ck.count(("ole-default-icon", n), True, "ole-default-icon")
            if kind == "emf" and (ext != "emf" or ct != CT_OF["emf"]):
                ck.violation("emf-stored-as-wmf", "the bundled OLE icon (an EMF file) is stored as %s with content type %s" % (n, ct),
                             {"entry_point": "SlideShapes.add_ole_object (default icon)", "input": hist})


def nontrivial_history(hist):
    imgs = [op for op in hist["ops"] if op[0] == "i"]
    return len(imgs) >= 2 and len({op[2] for op in imgs}) >= 1


# ============================================================================ run
def run(ck, tier, rng):
    warnings.simplefilter("ignore")
    rc, out = _run(["/venv/bin/python", os.path.join(VERIF, "tx", "tx_c15.py")], cwd=VERIF)
    if rc != 0:
        ck.violation("translator", "tx_c15 failed on the current tree: " + out[-600:],
                     {"theorem_or_correspondence": "translator tx_c15 (table regeneration)"}, concrete=False)
    ck.build = coq_build("C15", extra_targets=["gen/GenC15.vo"])
    diffs = 0
    first = None
    concrete_before = len(ck.violations)

    # ---- unit level
    ucases = gen_unit(tier, rng)
    uimpl = [impl_unit(c) for c in ucases]
    for c, o in zip(ucases, uimpl):
        nt = c[0] != "fl" and not o.startswith("err")
        ck.count(repr(c), nt, "unit:" + c[0])
        oracle_unit(ck, c, o)
    for c in ucases[:2] + [c for c in ucases if c[0] == "scl"][:2] + [c for c in ucases if c[0] == "pn"][:1]:
        ck.sample(repr(c), limit=12)
    if ck.build.ok:
        umodel = run_model("C15", [model_unit(c) for c in ucases])
        for c, mo, io_ in zip(ucases, umodel, uimpl):
            if mo != io_:
                diffs += 1
                if first is None:
                    first = (repr(c), mo, io_)
                if diffs <= 5:
                    ck.notes.append("diff %r model=%s impl=%s" % (c, mo, io_))

    # ---- history level
    nh = 600 if tier == "quick" else 5000
    tmp = tempfile.mkdtemp(prefix="c15-")
    pool = os.path.join(tmp, "pool")
    os.mkdir(pool)
    try:
        hists = [gen_history(rng, tier, i) for i in range(nh)]
        for rep in range(1 if tier == "quick" else 6):
            for j, (deck, nslides, nparts, repres) in enumerate(corpus_decks()):
                hists.append(gen_corpus_history(rng, deck, nslides, nparts, rep * 100 + j, repres))
        mcases = []
        keep = []
        for i, hist in enumerate(hists):
            sub = os.path.join(tmp, "h%d" % i)
            os.mkdir(sub)
            deck, initial, outs, views = run_one_history(hist, sub, pool)
            klass = ("corpus-oracle-only:" if hist.get("oracle_only") else "corpus:" if hist.get("deck") else "hist:") + "+".join(sorted({op[3] if op[0] == "i" else op[0] for op in hist["ops"]}))
            ck.count(repr(hist), nontrivial_history(hist), klass)
            for rec in deck.records:
                key = "img:%s:%s:%s" % (hist["specs"][rec["img"]]["fmt"], rec["use"], rec["via"])
                ck.dist[key] = ck.dist.get(key, 0) + 1
            oracle_history(ck, hist, deck, outs)
            mcases.append(model_case(hist, deck, initial, views))
            keep.append((hist, outs, deck.store, deck.drops))
            shutil.rmtree(sub, ignore_errors=True)
            if i < 3:
                ck.sample(hist, limit=12)
        default_icon_case(ck)
        if ck.build.ok:
            mout = run_model("C15", mcases)
            for (hist, outs, store, drops), line in zip(keep, mout):
                mres, mstore = fold_model_out(hist, line, drops)
                if hist.get("oracle_only"):
                    continue
                if mres != outs or mstore != store:
                    diffs += 1
                    if first is None:
                        first = (hist, "%r / %s" % (mres, mstore[:300]), "%r / %s" % (outs, store[:300]))
                    if diffs <= 5:
                        ck.notes.append("history diff: model=%r impl=%r ops=%r" % (mres, outs, hist["ops"]))
    finally:
        shutil.rmtree(tmp, ignore_errors=True)

    if diffs and len(ck.violations) == concrete_before:
        ck.violation("correspondence",
                     "model/Image.v and python-pptx disagree on %d cases, e.g. %r: model=%s impl=%s; the oracle found no input "
                     "on which the property itself fails" % (diffs, first[0], first[1], first[2]),
                     {"theorem_or_correspondence": "correspondence Image.v ~ parts/image.py, package.py (theorems C15_* are about the model only)",
                      "input": first[0], "model_outcome": first[1], "impl_outcome": first[2]}, concrete=False)
    ck.broken_build(oracle_found_concrete=len(ck.violations) > 0)
    return ck.finish(
        rule="unit level: Pillow dpi entries (ints, floats at and around .5 ties and the 1/2048 bounds, nan, inf, rationals, "
             "non-numbers), native sizes over the dpi range 1..2048, scale over None/0/negative/small/large arguments and native "
             "sizes including 0, placeholder cropping, part-name populations with gaps, duplicates and odd names; history level: "
             "%d decks of 4-%d operations over 1-7 generated images (PNG/JPEG/GIF/BMP/TIFF, 1x1..64x48, DPI absent/fractional/0/"
             "huge/non-square, patched headers, rejected files) added by path (a pool of 3 reused working files per extension, overwritten before each use; 60%% of the histories add a "
             "same-length twin pair from the same path) / stream / misleading file name as picture, "
             "placeholder picture, movie poster or OLE icon on up to 5 slides with save + re-open in between, slides deleted "
             "(first / last / any; out of range), image-bearing shapes deleted with their relationships or as elements only, "
             "40%% of the histories with a remove-then-re-add pattern; the corpus histories delete slides and pictures the decks "
             "already have; non-trivial = a unit "
             "case the implementation accepts (binary64 validation cases excluded), a history with at least two image additions"
             % (nh, 14 if tier == "quick" else 24),
        trusted_base=TB, assumptions=ASSUME,
        extra={"correspondence_diffs": diffs, "exhaustive": False},
    )


def replay(rec):
    hist = rec["input"]
    if isinstance(hist, str):
        from PIL.TiffImagePlugin import IFDRational

        case = eval(hist, {"__builtins__": {}}, {"nan": float("nan"), "inf": float("inf"), "IFDRational": IFDRational,
                                                 "Fraction": Fraction})
        io_ = impl_unit(case)
        mo = run_model("C15", [model_unit(case)])[0]

        class _Ck:
            hits = []

            def violation(self, sig, what, r, concrete=True):
                self.hits.append((sig, what))
        c = _Ck()
        oracle_unit(c, case, io_)
        print("case ", hist)
        print("impl ", io_)
        print("model", mo)
        for s, w in c.hits:
            print("oracle:", s, "--", w)
        return 0 if (io_ == mo and not c.hits) else 1
    if hist["ops"] and hist["ops"][-1][0] == "ole-default-icon":
        class _Ck:
            hits = []

            def count(self, *a):
                pass

            def violation(self, sig, what, r, concrete=True):
                self.hits.append((sig, what))
        c = _Ck()
        default_icon_case(c)
        for s, w in c.hits:
            print("oracle:", s, "--", w)
        return 1 if c.hits else 0
    tmp = tempfile.mkdtemp(prefix="c15-replay-")
    try:
        deck, initial, outs, views = run_one_history(hist, tmp)

        class _Ck:
            hits = []

            def violation(self, sig, what, r, concrete=True):
                self.hits.append((sig, what))
        c = _Ck()
        oracle_history(c, hist, deck, outs)
        line = run_model("C15", [model_case(hist, deck, initial, views)])[0]
        mres, mstore = fold_model_out(hist, line, deck.drops)
        print("ops  ", hist["ops"])
        print("impl ", outs)
        print("model", mres)
        print("store equal:", mstore == deck.store)
        for s, w in c.hits:
            print("oracle:", s, "--", w)
        return 0 if (mres == outs and mstore == deck.store and not c.hits) else 1
    finally:
        shutil.rmtree(tmp, ignore_errors=True)


CLAIM = {
    "tech": "Coq proof over a Gallina model of the image store (part objects with identity, reachability through the relationships of the slides recomputed at every look-up, digest index, part-name and rId allocation, Pillow-format/extension/content-type tables, dpi normalisation, native size, scale) over all operation histories of additions, removals and re-openings + tables and source rules regenerated by a translator each run + extracted-model correspondence on real decks + independent oracle on the live objects after every step and on every saved zip",
    "text": "35 theorems closed under the global context: for any history of additions, removals (slide deleted, relationship dropped) and re-openings from any state meeting the invariant (unique identities, unique names among the REACHABLE parts, unique digests among the indexed image parts, class by content type, relationships lead to existing objects: C15_invariant_kept) the look-up answers with a part the relationships lead to or with none (C15_lookup_reachable), an object nothing leads to is never reached again (C15_orphan_stays), a removal only takes relationships away (C15_removal), an added image some relationship still leads to is exactly one indexed part with the reported identity/name/extension/content type and the only reachable part of that name (C15_once, C15_same_part, C15_distinct, C15_bytes, C15_immutable, C15_once_step), a new part takes the first free number among the reachable parts (C15_new_part), removal-free histories lose nothing (C15_preserved), re-opening drops the unreachable objects and leaves store, index and every look-up as they were (C15_reopen), every extension Image.ext can return incl. emf has its content type as the unique Default row and maps to ImagePart (C15_tables over gen/GenC15.v, C15_tables_match, C15_rules_match, C15_emf_by_header), normalised dpi always in 1..2048 (C15_dpi), native size = floor(914400*px/dpi) also when evaluated in binary64 (C15_native, C15_native_float), a TIFF without XResolution sized at 72 dpi (C15_native_tiff_without_resolution), scale: none->native, both->unchanged, 0 is None, one given -> |cy*W-cx*H| <= |W|/2 + 3*2^-53*|cx*H| for any rounding with 2^-53 relative error and for the model's fl64 unconditionally (C15_scale, C15_fl64_premises, C15_scale_fl64). Tie: ~20k unit cases + 615 deck histories (quick) / ~210k + 5090 (thorough) of generated PNG/JPEG/GIF/BMP/TIFF/EMF/WMF images added as pictures, placeholder pictures, movie posters and OLE icons by path (reused, overwritten working files incl. same-byte-length twins)/stream/misleading name across slides with save/re-open, slide deletion, shape deletion with and without its relationships and remove-then-re-add patterns, plus 15 corpus decks, compared with the extracted model (0 diffs); oracle after every step and every save + re-open: each picture gives back its bytes, reachable part names and zip member names unique, no bytes held twice; on the saved zip: one member per distinct input in use, bytes identical, extension/content type of the sniffed format, default size from the file's own resolution, aspect within rounding.",
    "note": "Pillow's report for a byte string (format, size, dpi entry, presence of tag 282) and SHA-1 are inputs/parameters of the model; CPython binary64 = fl64 is validated bit-exactly each run, not proved; save/load as identity on (name, bytes, content type) of the reachable parts is C01; the removals are performed by the harness with the documented calls; a deck in which a part below a slide (notes slide, chart, VML drawing) has image relationships of its own is outside the model (one corpus deck: judged by the oracle alone); images beyond 1202440 px per side are outside C15_native_float. Two defects found by this check (TIFF without resolution sized at 1 dpi; EMF stored as .wmf/image/x-wmf) were fixed in parts/image.py and their oracle signatures stay active.",
    "ref": "6/C15",
}
