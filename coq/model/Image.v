(** C15 -- images are stored once, byte-exact, with the type and size of the actual image.

    Executable model of
      - parts/image.py   Image.ext (format map), Image.content_type, Image.dpi
                         (int_dpi / normalize_pil_dpi), ImagePart.new, ImagePart.scale,
                         ImagePart._native_size, ImagePart.sha1
      - package.py       Package.next_image_partname, _ImageParts.get_or_add_image_part,
                         _ImageParts._find_by_sha1 (iteration over image relationships)
      - parts/slide.py   SlidePart.get_or_add_image_part (package lookup, then relate_to)
      - opc/package.py   _Relationships.get_or_add / _next_rId / pop, Part.drop_rel,
                         OpcPackage.iter_rels / iter_parts: what the package reaches is found by
                         walking the relationships at every call, so the store of the model is
                         computed from the relationships of the slides, never remembered
      - removal          of a slide (p:sldId and the presentation relationship) and of one
                         relationship of a slide; a part nothing leads to any more stays an
                         object but is neither looked up, nor counted for names, nor saved
      - oxml/shapes/picture.py  CT_Picture._fill_cropping, ST_Percentage.convert_to_xml
    Definitions only; proofs live in proofs/Image_proofs.v.

    Outside the model (inputs of the model): what Pillow reports for a byte string
    (format name, pixel size, the dpi entry of its info dict) and SHA-1 (the digest
    function is a parameter [H]; theorems about distinct images assume it separates
    the blobs involved). *)
From Coq Require Import QArith Qround.
From V.lib Require Import Prelude.
From V.model Require Import PackUri.
Local Open Scope Z_scope.

Definition blob := list N.

(* ------------------------------------------------------------------ numbers *)

(** Python round of a float to an int: nearest integer, ties to even. *)
Definition rhe (q : Q) : Z :=
  let f := Qfloor q in
  match Qcompare (q - inject_Z f) (1 # 2) with
  | Lt => f
  | Gt => f + 1
  | Eq => if Z.even f then f else f + 1
  end.

Definition pow2Q (e : Z) : Q :=
  if 0 <=? e then inject_Z (2 ^ e) else 1 # Z.to_pos (2 ^ (- e)).

(** floor of log2 of a/d, for a, d > 0 *)
Definition flog2 (a d : Z) : Z :=
  let k0 := Z.log2 a - Z.log2 d in
  let ge := if 0 <=? k0 then d * 2 ^ k0 <=? a else d <=? a * 2 ^ (- k0) in
  if ge then k0 else k0 - 1.

(** (a/d) / 2^e, for a, d > 0 *)
Definition scaledQ (a d e : Z) : Q :=
  if 0 <=? e then a # Z.to_pos (d * 2 ^ e) else (a * 2 ^ (- e)) # Z.to_pos d.

(** rounding of a/d > 0 to a 53-bit significand: m * 2^e with 2^52 <= m <= 2^53 *)
Definition fl_pos (a d : Z) : Q :=
  let e := flog2 a d - 52 in
  (inject_Z (rhe (scaledQ a d e)) * pow2Q e)%Q.

(** binary64 rounding of an exact rational: nearest value with a 53-bit significand,
    ties to even; the exponent range is not bounded (no overflow, no subnormals). *)
Definition fl64 (q : Q) : Q :=
  match Qnum q with
  | Z0 => 0%Q
  | Zpos a => fl_pos (Zpos a) (Zpos (Qden q))
  | Zneg a => (- fl_pos (Zpos a) (Zpos (Qden q)))%Q
  end.

(* ------------------------------------------------------------------ tables *)
(** Hand transcription; props/C15.v proves these equal to the tables regenerated from
    the source on every run (gen/GenC15.v). *)

(** the dict literal in Image.ext: Pillow format name -> canonical extension *)
Definition ext_map : list (str * str) :=
  [ ([66; 77; 80]%N, [98; 109; 112]%N)               (* BMP -> bmp *);
    ([71; 73; 70]%N, [103; 105; 102]%N)              (* GIF -> gif *);
    ([74; 80; 69; 71]%N, [106; 112; 103]%N)          (* JPEG -> jpg *);
    ([80; 78; 71]%N, [112; 110; 103]%N)              (* PNG -> png *);
    ([84; 73; 70; 70]%N, [116; 105; 102; 102]%N)     (* TIFF -> tiff *);
    ([87; 77; 70]%N, [119; 109; 102]%N)              (* WMF -> wmf *) ].

(** opc/spec.py image_content_types: extension -> content type *)
Definition image_content_types : list (str * str) :=
  [ ([98; 109; 112]%N, [105; 109; 97; 103; 101; 47; 98; 109; 112]%N)  (* bmp -> image/bmp *);
    ([101; 109; 102]%N, [105; 109; 97; 103; 101; 47; 120; 45; 101; 109; 102]%N)  (* emf -> image/x-emf *);
    ([103; 105; 102]%N, [105; 109; 97; 103; 101; 47; 103; 105; 102]%N)  (* gif -> image/gif *);
    ([106; 112; 101]%N, [105; 109; 97; 103; 101; 47; 106; 112; 101; 103]%N)  (* jpe -> image/jpeg *);
    ([106; 112; 101; 103]%N, [105; 109; 97; 103; 101; 47; 106; 112; 101; 103]%N)  (* jpeg -> image/jpeg *);
    ([106; 112; 103]%N, [105; 109; 97; 103; 101; 47; 106; 112; 101; 103]%N)  (* jpg -> image/jpeg *);
    ([112; 110; 103]%N, [105; 109; 97; 103; 101; 47; 112; 110; 103]%N)  (* png -> image/png *);
    ([116; 105; 102]%N, [105; 109; 97; 103; 101; 47; 116; 105; 102; 102]%N)  (* tif -> image/tiff *);
    ([116; 105; 102; 102]%N, [105; 109; 97; 103; 101; 47; 116; 105; 102; 102]%N)  (* tiff -> image/tiff *);
    ([119; 100; 112]%N, [105; 109; 97; 103; 101; 47; 118; 110; 100; 46; 109; 115; 45; 112; 104; 111; 116; 111]%N)  (* wdp -> image/vnd.ms-photo *);
    ([119; 109; 102]%N, [105; 109; 97; 103; 101; 47; 120; 45; 119; 109; 102]%N)  (* wmf -> image/x-wmf *) ].

(** the content types pptx/__init__.py maps to ImagePart *)
Definition imagepart_cts : list str :=
  [ [105; 109; 97; 103; 101; 47; 98; 109; 112]%N                         (* image/bmp *);
    [105; 109; 97; 103; 101; 47; 103; 105; 102]%N                        (* image/gif *);
    [105; 109; 97; 103; 101; 47; 106; 112; 101; 103]%N                   (* image/jpeg *);
    [105; 109; 97; 103; 101; 47; 118; 110; 100; 46; 109; 115; 45; 112; 104; 111; 116; 111]%N  (* image/vnd.ms-photo *);
    [105; 109; 97; 103; 101; 47; 112; 110; 103]%N                        (* image/png *);
    [105; 109; 97; 103; 101; 47; 116; 105; 102; 102]%N                   (* image/tiff *);
    [105; 109; 97; 103; 101; 47; 120; 45; 101; 109; 102]%N               (* image/x-emf *);
    [105; 109; 97; 103; 101; 47; 120; 45; 119; 109; 102]%N               (* image/x-wmf *);
    [105; 109; 97; 103; 101; 47; 106; 112; 103]%N                        (* image/jpg *) ].

Fixpoint assoc (k : str) (l : list (str * str)) : option str :=
  match l with
  | [] => None
  | (a, b) :: r => if str_eqb k a then Some b else assoc k r
  end.

(** PartFactory: a loaded part is an ImagePart exactly when its content type is mapped *)
Definition ct_is_imagepart (ct : str) : bool := mem_str ct imagepart_cts.

(* ------------------------------------------------------------------ what Pillow reports *)

(** one component of the dpi entry, as float() sees it *)
Inductive dpival :=
  | DQ (q : Q)     (* a finite number; q is the exact value of float(x) *)
  | DNan           (* float(x) is nan: round raises ValueError, which is caught *)
  | DInf           (* float(x) is infinite: round raises OverflowError, not caught *)
  | DNonNum.       (* float(x) raises TypeError or ValueError, which is caught *)

Inductive pildpi :=
  | PNoTuple                       (* key absent, or the value is not a tuple *)
  | PTuple (x y : dpival).

Inductive pilmeta :=
  | Unidentified                                       (* PIL.Image.open raises *)
  | Meta (fmt : option str) (w h : Z) (dpi : pildpi)
         (xres : bool).     (* tag 282 (XResolution) is among the tags Pillow read (tag_v2) *)

Record image := mkImage { i_blob : blob; i_meta : pilmeta }.

(* ------------------------------------------------------------------ Image.dpi *)

Definition int_dpi (d : dpival) : res Z :=
  match d with
  | DQ q => let n := rhe q in Ok (if (n <? 1) || (2048 <? n) then 72 else n)
  | DNan => Ok 72
  | DInf => Err OverflowErr
  | DNonNum => Ok 72
  end.

Definition normalize_pil_dpi (d : pildpi) : res (Z * Z) :=
  match d with
  | PNoTuple => Ok (72, 72)
  | PTuple x y => bind (int_dpi x) (fun a => bind (int_dpi y) (fun b => Ok (a, b)))
  end.

(** Image._pil_props: for the listed (format, tag) pairs the dpi entry is dropped when the
    tag is absent -- a TIFF without XResolution, for which Pillow fills in (1, 1) *)
Definition dpi_drop_rules : list (str * N) :=
  [ ([84; 73; 70; 70]%N, 282%N) ].                  (* TIFF, 282 *)

Definition fmt_is (fmt : option str) (f : str) : bool :=
  match fmt with Some g => str_eqb g f | None => false end.

Definition eff_dpi (fmt : option str) (d : pildpi) (xres : bool) : pildpi :=
  if existsb (fun r => fmt_is fmt (fst r) && N.eqb (snd r) 282 && negb xres) dpi_drop_rules
  then PNoTuple else d.

Definition meta_dpi (m : pilmeta) : res (Z * Z) :=
  match m with
  | Unidentified => Err OtherErr
  | Meta f _ _ d x => normalize_pil_dpi (eff_dpi f d x)
  end.

Definition meta_px (m : pilmeta) : res (Z * Z) :=
  match m with
  | Unidentified => Err OtherErr
  | Meta _ w h _ _ => Ok (w, h)
  end.

(** Image.ext, the tests that precede the map lookup: (format, offset, bytes, extension) --
    when Pillow names the format and the blob carries those bytes at that offset the
    extension is decided by the header: an enhanced metafile, which Pillow calls WMF *)
Definition ext_special : list (str * nat * blob * str) :=
  [ ([87; 77; 70]%N, 40%nat, [32; 69; 77; 70]%N, [101; 109; 102]%N) ].   (* WMF, 40, ' EMF', emf *)

(** blob[off : off + len] *)
Definition slice (b : blob) (off len : nat) : blob := firstn len (skipn off b).

Fixpoint special_ext (f : str) (b : blob) (rules : list (str * nat * blob * str)) : option str :=
  match rules with
  | [] => None
  | (g, off, magic, e) :: r =>
      if str_eqb f g && str_eqb (slice b off (length magic)) magic then Some e
      else special_ext f b r
  end.

(** Image.ext: header rules first, then the format must be a key of the map, else ValueError *)
Definition image_ext (b : blob) (m : pilmeta) : res str :=
  match m with
  | Unidentified => Err OtherErr
  | Meta None _ _ _ _ => Err ValueErr
  | Meta (Some f) _ _ _ _ =>
      match special_ext f b ext_special with
      | Some e => Ok e
      | None => match assoc f ext_map with Some e => Ok e | None => Err ValueErr end
      end
  end.

(** Image.content_type: image_content_types[ext], KeyError when missing *)
Definition ext_content_type (e : str) : res str :=
  match assoc e image_content_types with Some ct => Ok ct | None => Err KeyErr end.

(* ------------------------------------------------------------------ native size, scale *)

(** int(914400 * px / dpi): true division of two ints then truncation.  Modelled on the
    exact quotient (see the assumption recorded in checks/c15.py: for the ranges
    involved the binary64 quotient truncates to the same integer). *)
Definition native_dim (px dpi : Z) : Z := Z.quot (914400 * px) dpi.

Definition native_size (m : pilmeta) : res (Z * Z) :=
  bind (meta_dpi m) (fun d =>
  bind (meta_px m) (fun p =>
  Ok (native_dim (fst p) (fst d), native_dim (snd p) (snd d)))).

(** Python truthiness of an optional int argument: None and 0 are both falsy *)
Definition truthy (o : option Z) : bool :=
  match o with Some z => negb (z =? 0) | None => false end.

Definition oz (o : option Z) : Z := match o with Some z => z | None => 0 end.

Section WithFl.
  Variable fl : Q -> Q.

  (** int(round(b * (float(a) / float(c)))) *)
  Definition scaled (a c b : Z) : Z :=
    rhe (fl (fl (inject_Z b) * fl (fl (inject_Z a) / fl (inject_Z c)))).

  (** ImagePart.scale on the native size (icx, icy); ZeroDivisionError -> Other *)
  Definition scale (icx icy : Z) (cx cy : option Z) : res (Z * Z) :=
    match truthy cx, truthy cy with
    | true, true => Ok (oz cx, oz cy)
    | true, false => if icx =? 0 then Err OtherErr else Ok (oz cx, scaled (oz cx) icx icy)
    | false, true => if icy =? 0 then Err OtherErr else Ok (scaled (oz cy) icy icx, oz cy)
    | false, false => Ok (icx, icy)
    end.

  (** CT_Picture._fill_cropping followed by ST_Percentage.convert_to_xml of the left and
      top values: (l, t) in 1/100000; r = l and b = t. *)
  Definition pct (v : Q) : Z := rhe (fl (v * 100000)).
  Definition fill_cropping (iw ih vw vh : Z) : res (Z * Z) :=
    if (vh =? 0) || (ih =? 0) then Err OtherErr else
    let ar_view := fl (inject_Z vw / inject_Z vh) in
    let ar_image := fl (inject_Z iw / inject_Z ih) in
    match Qcompare ar_view ar_image with
    | Lt => if Qeq_bool ar_image 0 then Err OtherErr
            else Ok (pct (fl (fl (1 - fl (ar_view / ar_image)) / 2)), 0)
    | Gt => if Qeq_bool ar_view 0 then Err OtherErr
            else Ok (0, pct (fl (fl (1 - fl (ar_image / ar_view)) / 2)))
    | Eq => Ok (0, 0)
    end.
End WithFl.

(* ------------------------------------------------------------------ part names *)

Definition s_img_prefix : str :=
  [47; 112; 112; 116; 47; 109; 101; 100; 105; 97; 47; 105; 109; 97; 103; 101]%N.  (* /ppt/media/image *)

Fixpoint insertN (x : N) (l : list N) : list N :=
  match l with
  | [] => [x]
  | y :: r => if (x <=? y)%N then x :: l else y :: insertN x r
  end.
Definition sortN (l : list N) : list N := fold_right insertN [] l.

(** for i, x in enumerate(sorted_idxs): idx = i + 1; if idx < x: return idx;
    return len + 1 -- [i] is the candidate, starting at 1 *)
Fixpoint first_below (i : N) (l : list N) : N :=
  match l with
  | [] => i
  | x :: r => if (i <? x)%N then i else first_below (i + 1)%N r
  end.

(** the index of a part name when it counts for image numbering *)
Definition image_idx_of (name : str) : option N :=
  if starts_with s_img_prefix name then idx name else None.

Fixpoint opt_somes {A} (l : list (option A)) : list A :=
  match l with
  | [] => []
  | Some a :: r => a :: opt_somes r
  | None :: r => opt_somes r
  end.

Definition next_image_idx (names : list str) : N :=
  first_below 1%N (sortN (opt_somes (map image_idx_of names))).

(** the text of the new part name; the extension plays no part in choosing the number *)
Definition image_partname (n : N) (ext : str) : str :=
  s_img_prefix ++ dec_of_N n ++ [c_dot] ++ ext.

Definition next_image_partname (names : list str) (ext : str) : res str :=
  packuri_new (image_partname (next_image_idx names) ext).

(* ------------------------------------------------------------------ relationships *)

(** one relationship of a slide: the number n of its key rIdn (0 when the key is not of
    that form) and, for an image relationship, the IDENTITY of the target part (a
    relationship holds a reference to the part object, not its name) *)
Definition rel := (N * option N)%type.

Fixpoint next_rid_from (n : nat) (keys : list N) : option N :=
  match n with
  | O => None
  | S m => if memN (N.of_nat n) keys then next_rid_from m keys else Some (N.of_nat n)
  end.
(** for n in range(len + 1, 0, -1): first candidate not in use *)
Definition next_rid (keys : list N) : option N := next_rid_from (S (length keys)) keys.

Definition rel_targets (i : N) (r : rel) : bool :=
  match snd r with Some t => N.eqb t i | None => false end.

(** _Relationships.get_or_add(RT.IMAGE, part): reuse a relationship to that very part *)
Definition relate (i : N) (rs : list rel) : res (list rel * N) :=
  match find (rel_targets i) rs with
  | Some r => Ok (rs, fst r)
  | None => match next_rid (map fst rs) with
            | Some k => Ok (rs ++ [(k, Some i)], k)
            | None => Err OtherErr
            end
  end.

Definition has_key (k : N) (r : rel) : bool := N.eqb (fst r) k.

(** part.drop_rel(rId) on a relationship nothing in the part refers to any more:
    _Relationships.pop, KeyError when there is no such key *)
Definition drop_rel (k : N) (rs : list rel) : res (list rel) :=
  if existsb (has_key k) rs then Ok (filter (fun r => negb (has_key k r)) rs) else Err KeyErr.

(* ------------------------------------------------------------------ the store *)

(** A part OBJECT, reachable or not.  [p_id]: its identity; [p_cls]: it is an ImagePart
    instance (has a sha1); [p_fix]: the package reaches it without passing through the
    relationships of a slide (presentation, masters, layouts, thumbnail and whatever those
    reach); [p_rel]: an image relationship of such an always-reachable part targets it. *)
Record part := mkPart {
  p_id : N; p_name : str; p_ct : str; p_blob : blob; p_cls : bool; p_fix : bool; p_rel : bool;
  p_meta : pilmeta }.

(** [st_heap]: every part object there is, in the order _find_by_sha1 met them at load time
    followed by creation order -- including the ones no relationship leads to any more;
    [st_slides]: the relationships of each slide the presentation lists; [st_next]: the
    identity the next new object gets (above every identity handed out so far). *)
Record state := mkState { st_heap : list part; st_slides : list (list rel); st_next : N }.

(** the parts the image relationships of the slides lead to *)
Definition img_targets (rs : list rel) : list N := opt_somes (map snd rs).
Definition targets (sl : list (list rel)) : list N := flat_map img_targets sl.

Definition targeted (sl : list (list rel)) (p : part) : bool := memN (p_id p) (targets sl).
(** _ImageParts.__iter__ yields it: some image relationship of a reachable part targets it *)
Definition imgrel (sl : list (list rel)) (p : part) : bool := p_rel p || targeted sl p.
(** ... and _find_by_sha1 looks at it *)
Definition indexed (sl : list (list rel)) (p : part) : bool := p_cls p && imgrel sl p.
(** Package.iter_parts yields it *)
Definition reachable (sl : list (list rel)) (p : part) : bool := p_fix p || imgrel sl p.

(** what walking the relationship graph finds, computed anew at every look-up *)
Definition store (st : state) : list part := filter (reachable (st_slides st)) (st_heap st).
Definition index (st : state) : list part := filter (indexed (st_slides st)) (st_heap st).

Inductive use :=
  | UPicture (cx cy : option Z)     (* shapes.add_picture(file, x, y, cx, cy) *)
  | UPlaceholder (vw vh : Z)        (* PicturePlaceholder.insert_picture into a vw x vh frame *)
  | URelOnly.                       (* movie poster frame, OLE icon: only the relationship *)

Inductive op :=
  | OAddSlide                       (* new slide; it has one relationship (its layout) *)
  | OOccupy (s : nat) (k : nat)     (* k other relationships added to slide s *)
  | OImage (s : nat) (im : image) (u : use)
  | ODelSlide (s : nat)             (* the p:sldId of slide s removed and prs.part.drop_rel(its rId) *)
  | ODropRel (s : nat) (k : N)      (* slide s: part.drop_rel(rIdk) after the last element using it went *)
  | OReload.                        (* save, then open the saved file *)

Definition removal (o : op) : bool :=
  match o with ODelSlide _ | ODropRel _ _ => true | _ => false end.

Inductive outcome :=
  | OutUnit
  | OutImg (pid : N) (name : str) (rid : N) (ext ct : str) (a b : Z)
  | OutStore (names : list str).    (* after a removal: the names _ImageParts still yields *)

Fixpoint set_nth {A} (n : nat) (x : A) (l : list A) : list A :=
  match l, n with
  | [], _ => []
  | _ :: r, O => x :: r
  | y :: r, S m => y :: set_nth m x r
  end.

Fixpoint remove_nth {A} (n : nat) (l : list A) : list A :=
  match l, n with
  | [], _ => []
  | _ :: r, O => r
  | y :: r, S m => y :: remove_nth m r
  end.

Fixpoint occupy (k : nat) (rs : list rel) : res (list rel) :=
  match k with
  | O => Ok rs
  | S m => match next_rid (map fst rs) with
           | Some r => occupy m (rs ++ [(r, None)])
           | None => Err OtherErr
           end
  end.

Section Store.
  Variable H : blob -> str.       (* hashlib.sha1(blob).hexdigest() *)
  Variable fl : Q -> Q.

  Definition digest (p : part) : str := H (p_blob p).

  (** _find_by_sha1: the first image part the walk over the relationships yields that has
      that digest -- a part no relationship leads to is never an answer *)
  Definition find_by_digest (d : str) (st : state) : option part :=
    find (fun p => indexed (st_slides st) p && str_eqb (digest p) d) (st_heap st).

  (** ImagePart.new: the name is the first free number among the parts the package
      reaches (iter_parts); the new object is not related to anything yet *)
  Definition new_image_part (st : state) (im : image) : res part :=
    bind (image_ext (i_blob im) (i_meta im)) (fun e =>
    bind (next_image_partname (map p_name (store st)) e) (fun nm =>
    bind (ext_content_type e) (fun ct =>
    Ok (mkPart (st_next st) nm ct (i_blob im) true false false (i_meta im))))).

  (** _ImageParts.get_or_add_image_part: the heap afterwards and the part *)
  Definition get_or_add (st : state) (im : image) : res (list part * part) :=
    match find_by_digest (H (i_blob im)) st with
    | Some p => Ok (st_heap st, p)
    | None => bind (new_image_part st im) (fun p => Ok (st_heap st ++ [p], p))
    end.

  Definition apply_use (p : part) (u : use) : res (Z * Z) :=
    match u with
    | UPicture cx cy =>
        bind (native_size (p_meta p)) (fun n => scale fl (fst n) (snd n) cx cy)
    | UPlaceholder vw vh =>
        bind (meta_px (p_meta p)) (fun s => fill_cropping fl (fst s) (snd s) vw vh)
    | URelOnly => Ok (0, 0)
    end.

  (** save then load: only the parts the package reaches are written; names, content
      types and bytes come back unchanged; the class of each part is chosen again from its
      content type *)
  Definition reload_part (p : part) : part :=
    mkPart (p_id p) (p_name p) (p_ct p) (p_blob p) (ct_is_imagepart (p_ct p)) (p_fix p) (p_rel p) (p_meta p).

  Definition image_names (hp : list part) (sl : list (list rel)) : list str :=
    map p_name (filter (imgrel sl) hp).

  Definition step (st : state) (o : op) : state * res outcome :=
    match o with
    | OAddSlide => (mkState (st_heap st) (st_slides st ++ [[(1%N, None)]]) (st_next st), Ok OutUnit)
    | OOccupy s k =>
        match nth_error (st_slides st) s with
        | None => (st, Err IndexErr)
        | Some rs => match occupy k rs with
                     | Ok rs' => (mkState (st_heap st) (set_nth s rs' (st_slides st)) (st_next st), Ok OutUnit)
                     | Err e => (st, Err e)
                     end
        end
    | OImage s im u =>
        match nth_error (st_slides st) s with
        | None => (st, Err IndexErr)
        | Some rs =>
            match get_or_add st im with
            | Err e => (st, Err e)
            | Ok (hp', p) =>
                match relate (p_id p) rs with
                | Err e => (st, Err e)
                | Ok (rs', rid) =>
                    let st' := mkState hp' (set_nth s rs' (st_slides st)) (N.max (st_next st) (N.succ (p_id p))) in
                    (st', bind (apply_use p u) (fun ab =>
                          Ok (OutImg (p_id p) (p_name p) rid (ext (p_name p)) (p_ct p) (fst ab) (snd ab))))
                end
            end
        end
    | ODelSlide s =>
        match nth_error (st_slides st) s with
        | None => (st, Err IndexErr)
        | Some _ =>
            let sl' := remove_nth s (st_slides st) in
            (mkState (st_heap st) sl' (st_next st), Ok (OutStore (image_names (st_heap st) sl')))
        end
    | ODropRel s k =>
        match nth_error (st_slides st) s with
        | None => (st, Err IndexErr)
        | Some rs =>
            match drop_rel k rs with
            | Err e => (st, Err e)
            | Ok rs' =>
                let sl' := set_nth s rs' (st_slides st) in
                (mkState (st_heap st) sl' (st_next st), Ok (OutStore (image_names (st_heap st) sl')))
            end
        end
    | OReload => (mkState (map reload_part (store st)) (st_slides st) (st_next st), Ok OutUnit)
    end.

  Fixpoint run (st : state) (ops : list op) : state * list (res outcome) :=
    match ops with
    | [] => (st, [])
    | o :: r => let (st1, x) := step st o in
                let (st2, xs) := run st1 r in (st2, x :: xs)
    end.

  Definition final (st : state) (ops : list op) : state := fst (run st ops).
End Store.

Definition empty_state : state := mkState [] [] 1%N.
