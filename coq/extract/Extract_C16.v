From Coq Require Import Extraction ExtrOcamlBasic.
From V.model Require Import OpcRun.
Extraction Language OCaml.
Cd "extract".
Extraction "c16.ml" run_c16.
Cd "..".
