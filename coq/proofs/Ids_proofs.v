(** Proofs about model/Ids.v (C06).  Each headline lemma is re-stated in props/C06.v
    and closed there by exact. *)
From Coq Require Import Permutation Sorted.
From V.lib Require Import Prelude Wire.
From V.model Require Import PackUri Ids.
From V.proofs Require Import Prelude_proofs PackUri_proofs.

Local Open Scope Z_scope.

(* ============================================================================== *)
(** * Generic helpers *)

Lemma mapM_ok {A B} (f : A -> res B) l ys :
  mapM f l = Ok ys <-> Forall2 (fun x y => f x = Ok y) l ys.
Proof.
  revert ys; induction l as [|x l IH]; intros ys; simpl.
  - split; intros H.
    + inversion H; constructor.
    + inversion H; reflexivity.
  - destruct (f x) as [y|e] eqn:Ex; simpl.
    + destruct (mapM f l) as [zs|e] eqn:El; simpl.
      * split; intros H.
        -- inversion H; subst. constructor; auto. apply IH; reflexivity.
        -- inversion H as [|? y' ? zs' Hxy Hrest]; subst.
           rewrite Ex in Hxy; inversion Hxy; subst.
           apply IH in Hrest. inversion Hrest; reflexivity.
      * split; intros H; [discriminate|].
        inversion H as [|? y' ? zs' Hxy Hrest]; subst. apply IH in Hrest; discriminate.
    + split; intros H; [discriminate|].
      inversion H as [|? y' ? zs' Hxy Hrest]; subst. rewrite Ex in Hxy; discriminate.
Qed.

Lemma mapM_err {A B} (f : A -> res B) l e :
  mapM f l = Err e -> exists x, In x l /\ f x = Err e.
Proof.
  induction l as [|x l IH]; simpl; [discriminate|].
  destruct (f x) as [y|e'] eqn:Ex; simpl.
  - destruct (mapM f l) as [zs|e''] eqn:El; simpl; [discriminate|].
    intros H; inversion H; subst. destruct (IH eq_refl) as [x' [Hin Hx']]. eauto.
  - intros H; inversion H; subst. eauto.
Qed.

Lemma mapM_all_ok {A B} (f : A -> res B) l :
  (forall x, In x l -> exists y, f x = Ok y) -> exists ys, mapM f l = Ok ys.
Proof.
  induction l as [|x l IH]; intros H; simpl; [eauto|].
  destruct (H x (or_introl eq_refl)) as [y Hy]. rewrite Hy; simpl.
  destruct IH as [ys Hys]; [intros; apply H; right; auto|]. rewrite Hys; simpl; eauto.
Qed.

Lemma mapM_app {A B} (f : A -> res B) l1 l2 y1 y2 :
  mapM f l1 = Ok y1 -> mapM f l2 = Ok y2 -> mapM f (l1 ++ l2) = Ok (y1 ++ y2).
Proof.
  intros H1 H2. apply mapM_ok. apply Forall2_app; apply mapM_ok; auto.
Qed.

Lemma memZ_In x l : memZ x l = true <-> In x l.
Proof.
  unfold memZ; rewrite existsb_exists; split.
  - intros [y [Hy He]]. apply Z.eqb_eq in He; subst; auto.
  - intros H; exists x; split; auto. apply Z.eqb_refl.
Qed.

Lemma max_from_spec x l :
  x <= max_from x l /\ (forall y, In y l -> y <= max_from x l) /\
  (max_from x l = x \/ In (max_from x l) l).
Proof.
  unfold max_from. revert x; induction l as [|a l IH]; intros x; simpl.
  - split; [lia|]. split; [intros y []|auto].
  - destruct (IH (Z.max x a)) as [H1 [H2 H3]]. split; [lia|]. split.
    + intros y [->|Hy]; [lia|auto].
    + destruct H3 as [H3|H3]; [|auto].
      destruct (Z.max_spec x a) as [[_ E]|[_ E]]; rewrite E in *.
      * right; left; auto.
      * left; auto.
Qed.

(** consecutive integers *)
Fixpoint zseq (start : Z) (len : nat) : list Z :=
  match len with O => [] | S k => start :: zseq (start + 1) k end.

Lemma zseq_In s len x : In x (zseq s len) <-> s <= x < s + Z.of_nat len.
Proof.
  revert s; induction len as [|k IH]; intros s; simpl zseq.
  - simpl; lia.
  - simpl In. rewrite IH. lia.
Qed.

Lemma zseq_NoDup s len : NoDup (zseq s len).
Proof.
  revert s; induction len as [|k IH]; intros s; simpl; constructor; auto.
  rewrite zseq_In; lia.
Qed.

Lemma zseq_length s len : length (zseq s len) = len.
Proof. revert s; induction len; intros; simpl; auto. Qed.

(* ============================================================================== *)
(** * Decimal rendering is injective and is read back by [dec_value] *)

Definition dstep (acc c : N) : N := (acc * 10 + (c - 48))%N.

Lemma dec_digits_fuel_spec fuel : forall n acc,
  (n < 10 ^ N.of_nat fuel)%N ->
  fold_left dstep (dec_digits_fuel fuel n acc) 0%N = fold_left dstep acc n.
Proof.
  induction fuel as [|f IH]; intros n acc Hn.
  - simpl in Hn. assert (n = 0)%N by lia. subst. reflexivity.
  - cbn [dec_digits_fuel]. destruct (n <? 10)%N eqn:E.
    + apply N.ltb_lt in E. cbn [fold_left]. unfold dstep at 2.
      rewrite N.mod_small by lia. f_equal. rewrite (N.add_comm 48), N.add_sub. reflexivity.
    + apply N.ltb_ge in E. rewrite IH.
      * cbn [fold_left]. f_equal. unfold dstep.
        rewrite (N.add_comm 48), N.add_sub, N.mul_comm. symmetry. apply N.div_mod. discriminate.
      * rewrite Nnat.Nat2N.inj_succ, N.pow_succ_r' in Hn.
        apply N.div_lt_upper_bound; lia.
Qed.

Lemma size_pow10 n : (n < 10 ^ N.of_nat (S (N.to_nat (N.size n))))%N.
Proof.
  rewrite Nnat.Nat2N.inj_succ, Nnat.N2Nat.id.
  destruct n as [|p]; [simpl; lia|].
  pose proof (N.size_gt (N.pos p)) as H.
  assert (2 ^ N.size (N.pos p) <= 10 ^ N.size (N.pos p))%N by (apply N.pow_le_mono_l; lia).
  rewrite N.pow_succ_r'. lia.
Qed.

Lemma dec_value_dec_of_N n : dec_value (dec_of_N n) = n.
Proof.
  unfold dec_value, dec_of_N.
  change (fun acc c : N => (acc * 10 + (c - 48))%N) with dstep.
  rewrite dec_digits_fuel_spec by apply size_pow10. reflexivity.
Qed.

Lemma dec_of_N_inj a b : dec_of_N a = dec_of_N b -> a = b.
Proof. intros H. rewrite <- (dec_value_dec_of_N a), <- (dec_value_dec_of_N b), H. reflexivity. Qed.

Lemma dec_digits_fuel_digits fuel : forall n acc,
  forallb is_digit acc = true -> forallb is_digit (dec_digits_fuel fuel n acc) = true.
Proof.
  induction fuel as [|f IH]; intros n acc Ha; cbn [dec_digits_fuel]; auto.
  assert (Hd : is_digit (48 + n mod 10)%N = true).
  { unfold is_digit. pose proof (N.mod_upper_bound n 10 ltac:(discriminate)) as Hm.
    set (m := (n mod 10)%N) in *. clearbody m.
    apply andb_true_iff; split; apply N.leb_le; lia. }
  assert (Hc : forallb is_digit ((48 + n mod 10)%N :: acc) = true).
  { cbn [forallb]. rewrite Hd, Ha. reflexivity. }
  destruct (n <? 10)%N; auto.
Qed.

Lemma dec_of_N_digits n : forallb is_digit (dec_of_N n) = true.
Proof. apply dec_digits_fuel_digits. reflexivity. Qed.

Lemma dec_digits_fuel_nonnil fuel n acc : fuel <> O -> dec_digits_fuel fuel n acc <> [].
Proof.
  revert n acc; induction fuel as [|f IH]; intros n acc Hf; [congruence|].
  simpl. destruct (n <? 10)%N; [discriminate|].
  destruct f as [|f']; [simpl; discriminate|]. apply IH. discriminate.
Qed.

Lemma dec_of_N_nonnil n : dec_of_N n <> [].
Proof. apply dec_digits_fuel_nonnil. discriminate. Qed.

Lemma dec_digits_fuel_length fuel : forall n acc,
  (length (dec_digits_fuel fuel n acc) <= fuel + length acc)%nat.
Proof.
  induction fuel as [|f IH]; intros n acc; simpl; [lia|].
  destruct (n <? 10)%N; simpl; [lia|].
  specialize (IH (n / 10)%N ((48 + n mod 10)%N :: acc)). simpl in IH. lia.
Qed.

Lemma dec_of_N_length n : (length (dec_of_N n) <= S (N.to_nat (N.size n)))%nat.
Proof. unfold dec_of_N. pose proof (dec_digits_fuel_length (S (N.to_nat (N.size n))) n []). simpl in *. lia. Qed.
