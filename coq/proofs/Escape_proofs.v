(** Lemmas for property C05 over model/Escape.v. *)
From V.lib Require Import Prelude.
From V.model Require Import Escape.
Open Scope N_scope.

(** ---- escape as a single pass ---- *)
Lemma replace1_app k rep a b : replace1 k rep (a ++ b) = replace1 k rep a ++ replace1 k rep b.
Proof.
  induction a as [|c a IH]; simpl; auto.
  destruct (c =? k); rewrite IH; simpl; auto. rewrite app_assoc. reflexivity.
Qed.

Definition one_amp (c : N) : str := if c =? c_amp then e_amp else [c].

Lemma esc_one c : replace1 c_lt e_lt (replace1 c_gt e_gt (one_amp c)) = esc_char c.
Proof.
  unfold one_amp, esc_char.
  destruct (c =? c_amp) eqn:Ea; [reflexivity|].
  cbn [replace1].
  destruct (c =? c_gt) eqn:Eg.
  - apply N.eqb_eq in Eg; subst c. reflexivity.
  - cbn [replace1]. destruct (c =? c_lt) eqn:El; [rewrite app_nil_r|]; reflexivity.
Qed.

Lemma sax_escape_cons c s : sax_escape (c :: s) = esc_char c ++ sax_escape s.
Proof.
  unfold sax_escape.
  change (replace1 c_amp e_amp (c :: s)) with
    (if c =? c_amp then e_amp ++ replace1 c_amp e_amp s else c :: replace1 c_amp e_amp s).
  assert (H : (if c =? c_amp then e_amp ++ replace1 c_amp e_amp s else c :: replace1 c_amp e_amp s)
              = one_amp c ++ replace1 c_amp e_amp s).
  { unfold one_amp; destruct (c =? c_amp); reflexivity. }
  rewrite H, !replace1_app, esc_one. reflexivity.
Qed.

Lemma sax_escape_flat s : sax_escape s = flat_map esc_char s.
Proof.
  induction s as [|c s IH]; [reflexivity|]. rewrite sax_escape_cons, IH. reflexivity.
Qed.

Lemma esc_q_one c : replace1 c_quot e_quot (esc_char c) = esc_char_q c.
Proof.
  unfold esc_char_q, esc_char.
  destruct (c =? c_quot) eqn:Eq.
  - apply N.eqb_eq in Eq; subst c. reflexivity.
  - destruct (c =? c_amp); [reflexivity|]. destruct (c =? c_lt); [reflexivity|].
    destruct (c =? c_gt); [reflexivity|]. cbn [replace1]. rewrite Eq. reflexivity.
Qed.

Lemma sax_escape_q_flat s : sax_escape_q s = flat_map esc_char_q s.
Proof.
  unfold sax_escape_q. rewrite sax_escape_flat.
  induction s as [|c s IH]; [reflexivity|].
  cbn [flat_map]. rewrite replace1_app, IH, esc_q_one. reflexivity.
Qed.

Lemma escape_single_pass s : sax_escape s = flat_map esc_char s /\ sax_escape_q s = flat_map esc_char_q s.
Proof. split; [apply sax_escape_flat | apply sax_escape_q_flat]. Qed.

(** ---- the lexer on escaped text ---- *)
Lemma fold_e_amp cx rb cr acc :
  fold_left (step cx) e_amp (Run (MNorm rb cr) acc) = Run (MNorm 0 false) (c_amp :: acc).
Proof. destruct cx; reflexivity. Qed.
Lemma fold_e_lt cx rb cr acc :
  fold_left (step cx) e_lt (Run (MNorm rb cr) acc) = Run (MNorm 0 false) (c_lt :: acc).
Proof. destruct cx; reflexivity. Qed.
Lemma fold_e_gt cx rb cr acc :
  fold_left (step cx) e_gt (Run (MNorm rb cr) acc) = Run (MNorm 0 false) (c_gt :: acc).
Proof. destruct cx; reflexivity. Qed.
Lemma fold_e_quot cx rb cr acc :
  fold_left (step cx) e_quot (Run (MNorm rb cr) acc) = Run (MNorm 0 false) (c_quot :: acc).
Proof. destruct cx; reflexivity. Qed.

Lemma rev_cons_app {A} (x : A) l acc : rev (x :: l) ++ acc = rev l ++ x :: acc.
Proof. simpl. rewrite <- app_assoc. reflexivity. Qed.

(** The invariant: from character data, escaped text leads back to character data with
    exactly the normalised original appended.  [q] says whether the double quote is
    escaped too; in an attribute it has to be. *)
Definition escf (q : bool) (c : N) : str := if q then esc_char_q c else esc_char c.

Lemma norm_go_keep cx cr c s : (c =? c_cr) = false -> (c =? c_lf) = false -> (c =? c_tab) = false ->
  norm_go cx cr (c :: s) = c :: norm_go cx false s.
Proof.
  intros E1 E2 E3. cbn [norm_go]. rewrite E1, E2. cbn [andb]. unfold attr_ws. rewrite E2, E3.
  destruct cx; reflexivity.
Qed.

Lemma fold_escaped cx (q : bool) : (cx = AttrDq -> q = true) ->
  forall s rb cr acc, xml_str s = true ->
  exists rb' cr', fold_left (step cx) (flat_map (escf q) s) (Run (MNorm rb cr) acc)
                  = Run (MNorm rb' cr') (rev (norm_go cx cr s) ++ acc).
Proof.
  intros Hq. induction s as [|c s IH]; intros rb cr acc Hx.
  - exists rb, cr. reflexivity.
  - cbn [xml_str forallb] in Hx. apply andb_true_iff in Hx as [Hc Hs]. fold (xml_str s) in Hs.
    cbn [flat_map]. rewrite fold_left_app.
    destruct (c =? c_amp) eqn:Ea.
    { apply N.eqb_eq in Ea; subst c.
      replace (escf q c_amp) with e_amp by (destruct q; reflexivity).
      rewrite fold_e_amp. destruct (IH 0%nat false (c_amp :: acc) Hs) as [rb' [cr' E]].
      exists rb', cr'. rewrite E, norm_go_keep by reflexivity. rewrite rev_cons_app. reflexivity. }
    destruct (c =? c_lt) eqn:El.
    { apply N.eqb_eq in El; subst c.
      replace (escf q c_lt) with e_lt by (destruct q; reflexivity).
      rewrite fold_e_lt. destruct (IH 0%nat false (c_lt :: acc) Hs) as [rb' [cr' E]].
      exists rb', cr'. rewrite E, norm_go_keep by reflexivity. rewrite rev_cons_app. reflexivity. }
    destruct (c =? c_gt) eqn:Eg.
    { apply N.eqb_eq in Eg; subst c.
      replace (escf q c_gt) with e_gt by (destruct q; reflexivity).
      rewrite fold_e_gt. destruct (IH 0%nat false (c_gt :: acc) Hs) as [rb' [cr' E]].
      exists rb', cr'. rewrite E, norm_go_keep by reflexivity. rewrite rev_cons_app. reflexivity. }
    destruct ((c =? c_quot) && q) eqn:Eqq.
    { apply andb_true_iff in Eqq as [Eq Hqt]. apply N.eqb_eq in Eq; subst c q.
      change (escf true c_quot) with e_quot.
      rewrite fold_e_quot. destruct (IH 0%nat false (c_quot :: acc) Hs) as [rb' [cr' E]].
      exists rb', cr'. rewrite E, norm_go_keep by reflexivity. rewrite rev_cons_app. reflexivity. }
    assert (Ef : escf q c = [c]).
    { unfold escf, esc_char_q, esc_char. rewrite Ea, El, Eg.
      destruct q; [|reflexivity]. rewrite andb_true_r in Eqq. rewrite Eqq. reflexivity. }
    rewrite Ef. cbn [fold_left step]. rewrite Hc, Ea, El. cbn [negb]. cbn [norm_go].
    destruct (c =? c_cr) eqn:Ecr.
    { destruct (IH 0%nat true (eol cx :: acc) Hs) as [rb' [cr' E]].
      exists rb', cr'. rewrite E, rev_cons_app. reflexivity. }
    destruct ((c =? c_lf) && cr) eqn:Elf.
    { destruct (IH 0%nat false acc Hs) as [rb' [cr' E]]. exists rb', cr'. rewrite E. reflexivity. }
    destruct cx.
    + rewrite (Hq eq_refl), andb_true_r in Eqq. rewrite Eqq.
      destruct (IH 0%nat false (attr_ws c :: acc) Hs) as [rb' [cr' E]].
      exists rb', cr'. rewrite E, rev_cons_app. reflexivity.
    + rewrite Eg. cbn [andb].
      destruct (IH (bump c rb) false (c :: acc) Hs) as [rb' [cr' E]].
      exists rb', cr'. rewrite E, rev_cons_app. reflexivity.
Qed.

(** the same invariant for a value written without escaping that has no metacharacter *)
Lemma fold_plain cx : forall s rb cr acc, xml_str s = true -> plain s = true ->
  exists rb' cr', fold_left (step cx) s (Run (MNorm rb cr) acc)
                  = Run (MNorm rb' cr') (rev (norm_go cx cr s) ++ acc).
Proof.
  induction s as [|c s IH]; intros rb cr acc Hx Hp.
  - exists rb, cr. reflexivity.
  - cbn [xml_str forallb] in Hx. apply andb_true_iff in Hx as [Hc Hs]. fold (xml_str s) in Hs.
    cbn [plain forallb] in Hp. apply andb_true_iff in Hp as [Hm Hp]. fold (plain s) in Hp.
    apply negb_true_iff in Hm. unfold is_meta in Hm.
    apply orb_false_iff in Hm as [Hm Eq]. apply orb_false_iff in Hm as [Hm Eg].
    apply orb_false_iff in Hm as [Ea El].
    cbn [fold_left step]. rewrite Hc, Ea, El. cbn [negb]. cbn [norm_go].
    destruct (c =? c_cr) eqn:Ecr.
    { destruct (IH 0%nat true (eol cx :: acc) Hs Hp) as [rb' [cr' E]].
      exists rb', cr'. rewrite E, rev_cons_app. reflexivity. }
    destruct ((c =? c_lf) && cr) eqn:Elf.
    { destruct (IH 0%nat false acc Hs Hp) as [rb' [cr' E]]. exists rb', cr'. rewrite E. reflexivity. }
    destruct cx.
    + rewrite Eq. destruct (IH 0%nat false (attr_ws c :: acc) Hs Hp) as [rb' [cr' E]].
      exists rb', cr'. rewrite E, rev_cons_app. reflexivity.
    + rewrite Eg. cbn [andb].
      destruct (IH (bump c rb) false (c :: acc) Hs Hp) as [rb' [cr' E]].
      exists rb', cr'. rewrite E, rev_cons_app. reflexivity.
Qed.

Lemma close_quote rb cr acc : step AttrDq (Run (MNorm rb cr) acc) c_quot = Closed acc.
Proof. reflexivity. Qed.

Lemma lex_attr_of_fold payload rb cr acc :
  fold_left (step AttrDq) payload start = Run (MNorm rb cr) acc ->
  lex_attr (c_quot :: payload ++ [c_quot]) = OneValue (rev acc).
Proof.
  intros H. unfold lex_attr. rewrite N.eqb_refl, fold_left_app, H.
  cbn [fold_left]. rewrite close_quote. reflexivity.
Qed.

Lemma lex_text_conf_of_fold payload rb cr acc :
  fold_left (step Text) payload start = Run (MNorm rb cr) acc ->
  lex_text_conf payload = OneText (rev acc).
Proof. intros H. unfold lex_text_conf. rewrite H. reflexivity. Qed.

(** ---- the pending phase of the element-text lexer (blank-text removal) ---- *)
Lemma tfold_live l : forall st, fold_left tstep l (TLive st) = TLive (fold_left (step Text) l st).
Proof. induction l as [|c l IH]; intros st; [reflexivity|]. cbn [fold_left tstep]. apply IH. Qed.

Lemma is_blank_false c : is_blank c = false ->
  (c =? c_sp) = false /\ (c =? c_tab) = false /\ (c =? c_lf) = false /\ (c =? c_cr) = false.
Proof.
  unfold is_blank. intros H. apply orb_false_iff in H as [H Ecr]. apply orb_false_iff in H as [H Elf].
  apply orb_false_iff in H as [Esp Etab]. auto.
Qed.

Lemma one_ne_buf : (1 =? buf_size)%nat = false.
Proof. reflexivity. Qed.

(** a character that is neither blank nor the less-than sign ends the pending phase, chunk kept *)
Lemma pend_next_keep p pend c : is_blank c = false -> (c =? c_lt) = false -> pend_next p pend c = PKeep pend.
Proof.
  intros Hb Hl. destruct (is_blank_false c Hb) as [Esp [Etab [Elf Ecr]]].
  assert (F : fast_next pend c = PKeep pend).
  { unfold fast_next. rewrite Esp, Etab, Elf, Ecr, Hl. reflexivity. }
  assert (S : forall n cr, slow_next n cr pend c = PKeep pend).
  { intros n cr. unfold slow_next. rewrite Hb, Elf, Ecr, Hl. cbn [andb]. destruct (n =? buf_size)%nat; reflexivity. }
  destruct p; cbn [pend_next]; auto.
  - rewrite Elf. apply S.
  - destruct (is_fast c); auto.
Qed.

Lemma tfold_piece p pend a tl : is_blank a = false -> (a =? c_lt) = false ->
  fold_left tstep (a :: tl) (TPend p pend)
  = TLive (fold_left (step Text) (a :: tl) (Run (MNorm 0 false) pend)).
Proof.
  intros Hb Hl. cbn [fold_left tstep]. rewrite (pend_next_keep p pend a Hb Hl). apply tfold_live.
Qed.

Lemma text_of_norm rb cr acc : text_of (TLive (Run (MNorm rb cr) acc)) = OneText (rev acc).
Proof. reflexivity. Qed.

(** no raw carriage return and no raw less-than sign in the content: nothing is ever dropped,
    the reading is the one XML 1.0 prescribes *)
Definition no_cr_lt (l : str) : bool := forallb (fun c => negb (c =? c_cr) && negb (c =? c_lt)) l.

Lemma step_blank3 pend c : (c =? c_sp) || (c =? c_tab) || (c =? c_lf) = true ->
  step Text (Run (MNorm 0 false) pend) c = Run (MNorm 0 false) (c :: pend).
Proof.
  intros H. apply orb_true_iff in H as [H|H]; [apply orb_true_iff in H as [H|H]|];
    apply N.eqb_eq in H; subst c; reflexivity.
Qed.

Lemma tfold_fast_conf l : no_cr_lt l = true -> forall pend,
  (exists q, fold_left tstep l (TPend PFast pend) = TPend PFast q
             /\ fold_left (step Text) l (Run (MNorm 0 false) pend) = Run (MNorm 0 false) q)
  \/ fold_left tstep l (TPend PFast pend) = TLive (fold_left (step Text) l (Run (MNorm 0 false) pend)).
Proof.
  induction l as [|c l IH]; intros H pend.
  - left. exists pend. split; reflexivity.
  - cbn [no_cr_lt forallb] in H. apply andb_true_iff in H as [Hc Hl]. fold (no_cr_lt l) in Hl.
    apply andb_true_iff in Hc as [Ecr Elt]. apply negb_true_iff in Ecr. apply negb_true_iff in Elt.
    cbn [fold_left tstep pend_next]. unfold fast_next.
    destruct ((c =? c_sp) || (c =? c_tab) || (c =? c_lf)) eqn:Eb.
    + rewrite (step_blank3 pend c Eb). apply IH, Hl.
    + rewrite Ecr, Elt. right. apply tfold_live.
Qed.

Theorem lex_text_conf_eq l : no_cr_lt l = true -> lex_text l = lex_text_conf l.
Proof.
  intros H. unfold lex_text, lex_text_conf, tstart, start.
  destruct (tfold_fast_conf l H []) as [[q [E1 E2]]|E]; [rewrite E1, E2|rewrite E]; reflexivity.
Qed.

Lemma lex_text_of_fold payload rb cr acc : no_cr_lt payload = true ->
  fold_left (step Text) payload start = Run (MNorm rb cr) acc ->
  lex_text payload = OneText (rev acc).
Proof. intros Hn H. rewrite lex_text_conf_eq by exact Hn. apply (lex_text_conf_of_fold _ _ _ _ H). Qed.

Lemma no_cr_lt_flat_map (g : N -> str) s : (forall c, no_cr_lt (g c) = true) -> no_cr_lt (flat_map g s) = true.
Proof.
  intros Hg. induction s as [|c s IH]; [reflexivity|]. cbn [flat_map]. unfold no_cr_lt in *.
  rewrite forallb_app, Hg, IH. reflexivity.
Qed.

(** ---- the main theorems ---- *)
Lemma text_not_attr (q : bool) : Text = AttrDq -> q = true.
Proof. discriminate. Qed.

Lemma is_blank_cases c : is_blank c = true -> c = c_sp \/ c = c_tab \/ c = c_lf \/ c = c_cr.
Proof.
  unfold is_blank. intros H.
  apply orb_true_iff in H as [H|H]; [apply orb_true_iff in H as [H|H]; [apply orb_true_iff in H as [H|H]|]|];
    apply N.eqb_eq in H; auto.
Qed.

Lemma escf_blank q c : is_blank c = true -> escf q c = [c].
Proof.
  intros H. destruct (is_blank_cases c H) as [E|[E|[E|E]]]; subst c; destruct q; reflexivity.
Qed.

Lemma escf_head q c : is_blank c = false ->
  exists a tl, escf q c = a :: tl /\ is_blank a = false /\ (a =? c_lt) = false.
Proof.
  intros Hb. unfold escf, esc_char_q, esc_char.
  destruct q; destruct (c =? c_quot); destruct (c =? c_amp); destruct (c =? c_lt) eqn:El; destruct (c =? c_gt);
    (eexists; eexists; split; [reflexivity|]); first [split; reflexivity | split; assumption].
Qed.

(** escaped text met in the pending phase: what is read is the pending phase run over the
    caller string itself, then the line-end handling *)
Lemma tfold_escaped_pend q s : xml_str s = true -> forall p pend,
  text_of (fold_left tstep (flat_map (escf q) s) (TPend p pend)) = OneText (bdn_go p pend s).
Proof.
  induction s as [|c r IH]; intros Hx p pend; [reflexivity|].
  assert (Hr : xml_str r = true).
  { cbn [xml_str forallb] in Hx. apply andb_true_iff in Hx as [_ Hr]. exact Hr. }
  assert (K : forall q', fold_left tstep (flat_map (escf q) (c :: r)) (TPend p pend)
                         = TLive (fold_left (step Text) (flat_map (escf q) (c :: r)) (Run (MNorm 0 false) q')) ->
                         text_of (fold_left tstep (flat_map (escf q) (c :: r)) (TPend p pend))
                         = OneText (rev q' ++ norm_go Text false (c :: r))).
  { intros q' E. rewrite E.
    destruct (fold_escaped Text q (text_not_attr q) (c :: r) 0%nat false q' Hx) as [rb [cr E2]].
    rewrite E2, text_of_norm, rev_app_distr, rev_involutive. reflexivity. }
  cbn [bdn_go]. destruct (is_blank c) eqn:Hb.
  - destruct (pend_next p pend c) as [p' q'|q'] eqn:En.
    + cbn [flat_map]. rewrite (escf_blank q c Hb). cbn [app fold_left tstep]. rewrite En. apply IH, Hr.
    + apply K. cbn [flat_map]. rewrite (escf_blank q c Hb). cbn [app fold_left tstep]. rewrite En. apply tfold_live.
  - destruct (escf_head q c Hb) as [a [tl [E [Ha Hl]]]].
    apply K. cbn [flat_map]. rewrite E. cbn [app]. apply tfold_piece; auto.
Qed.

Theorem text_safe_norm s : xml_str s = true -> lex_text (sax_escape s) = OneText (blank_drop_normalise s).
Proof.
  intros Hx. rewrite sax_escape_flat. change esc_char with (escf false).
  apply (tfold_escaped_pend false s Hx).
Qed.

Theorem attr_safe_norm s : xml_str s = true ->
  lex_attr (c_quot :: sax_escape_q s ++ [c_quot]) = OneValue (norm AttrDq s).
Proof.
  intros Hx. rewrite sax_escape_q_flat.
  destruct (fold_escaped AttrDq true (fun _ => eq_refl) s 0%nat false [] Hx) as [rb [cr E]].
  change (escf true) with esc_char_q in E.
  rewrite (lex_attr_of_fold _ _ _ _ E), rev_app_distr, rev_involutive. reflexivity.
Qed.

(** text escaped with the quot entity as well reads the same in element text *)
Theorem text_safe_q_norm s : xml_str s = true -> lex_text (sax_escape_q s) = OneText (blank_drop_normalise s).
Proof.
  intros Hx. rewrite sax_escape_q_flat. change esc_char_q with (escf true).
  apply (tfold_escaped_pend true s Hx).
Qed.

(** without the blank-text removal (any conformant parser) the text is the string after line-end handling *)
Theorem text_conf_norm s : xml_str s = true -> lex_text_conf (sax_escape s) = OneText (norm Text s).
Proof.
  intros Hx. rewrite sax_escape_flat.
  destruct (fold_escaped Text false (text_not_attr false) s 0%nat false [] Hx) as [rb [cr E]].
  change (escf false) with esc_char in E.
  rewrite (lex_text_conf_of_fold _ _ _ _ E), rev_app_distr, rev_involutive. reflexivity.
Qed.

Lemma esc_plain s : plain s = true -> sax_escape s = s.
Proof.
  rewrite sax_escape_flat. induction s as [|c s IH]; intros Hp; [reflexivity|].
  cbn [plain forallb] in Hp. apply andb_true_iff in Hp as [Hm Hp]. fold (plain s) in Hp.
  apply negb_true_iff in Hm. unfold is_meta in Hm.
  apply orb_false_iff in Hm as [Hm Eq]. apply orb_false_iff in Hm as [Hm Eg].
  apply orb_false_iff in Hm as [Ea El].
  cbn [flat_map]. unfold esc_char at 1. rewrite Ea, El, Eg, (IH Hp). reflexivity.
Qed.

Theorem plain_safe_norm cx s : xml_str s = true -> plain s = true ->
  lex_slot cx s = Got (read_back cx s).
Proof.
  intros Hx Hp. unfold lex_slot, read_back. destruct cx.
  - destruct (fold_plain AttrDq s 0%nat false [] Hx Hp) as [rb [cr E]].
    rewrite (lex_attr_of_fold _ _ _ _ E), rev_app_distr, rev_involutive. reflexivity.
  - replace (lex_text s) with (lex_text (sax_escape s)) by (rewrite esc_plain; auto).
    rewrite text_safe_norm by exact Hx. reflexivity.
Qed.

(** ---- strings the parser normalisation leaves alone ---- *)
Lemma norm_text_id s : no_cr s = true -> norm Text s = s.
Proof.
  unfold norm. induction s as [|c s IH]; intros H; [reflexivity|].
  cbn [no_cr forallb] in H. apply andb_true_iff in H as [Hc Hs]. apply negb_true_iff in Hc.
  cbn [norm_go]. rewrite Hc, andb_false_r. f_equal. apply IH, Hs.
Qed.

Lemma norm_attr_id s : no_ws_ctl s = true -> norm AttrDq s = s.
Proof.
  unfold norm. induction s as [|c s IH]; intros H; [reflexivity|].
  cbn [no_ws_ctl forallb] in H. apply andb_true_iff in H as [Hc Hs]. apply negb_true_iff in Hc.
  apply orb_false_iff in Hc as [Hc Ecr]. apply orb_false_iff in Hc as [Et El].
  cbn [norm_go]. rewrite Ecr, andb_false_r. unfold attr_ws. rewrite Et, El. cbn [orb].
  f_equal. apply IH, Hs.
Qed.

(** ---- what the blank-text removal does to a literally written string ---- *)
(** (a) no carriage return: nothing is dropped, nothing is normalised *)
Lemma bdn_fast_no_cr s : no_cr s = true -> forall pend, bdn_go PFast pend s = rev pend ++ s.
Proof.
  induction s as [|c r IH]; intros Hn pend; [cbn [bdn_go]; rewrite app_nil_r; reflexivity|].
  assert (Hn' := Hn). cbn [no_cr forallb] in Hn'. apply andb_true_iff in Hn' as [Ecr Hr]. fold (no_cr r) in Hr.
  apply negb_true_iff in Ecr.
  cbn [bdn_go]. destruct (is_blank c) eqn:Hb.
  - cbn [pend_next]. unfold fast_next. unfold is_blank in Hb. rewrite Ecr, orb_false_r in Hb. rewrite Hb.
    rewrite (IH Hr). apply rev_cons_app.
  - fold (norm Text (c :: r)). rewrite norm_text_id by exact Hn. reflexivity.
Qed.

Theorem bdn_no_cr s : no_cr s = true -> blank_drop_normalise s = s.
Proof. intros H. unfold blank_drop_normalise. rewrite bdn_fast_no_cr by exact H. reflexivity. Qed.

Theorem text_safe s : xml_str s = true -> no_cr s = true -> lex_text (sax_escape s) = OneText s.
Proof. intros Hx Hn. rewrite text_safe_norm, bdn_no_cr; auto. Qed.

(** (b) in general: a leading all-blank part is lost, the rest is read with the line-end
    handling; when something is lost, the part that is read starts at a carriage return *)
Definition cr_of (p : bpath) : bool := match p with PCr => true | PSlow _ cr => cr | _ => false end.

Lemma norm_go_cr_irrel cx cr c r : (c =? c_lf) && cr = false -> norm_go cx cr (c :: r) = norm_go cx false (c :: r).
Proof. intros H. cbn [norm_go]. rewrite H, andb_false_r. reflexivity. Qed.

Lemma norm_go_blank_ext cr0 c r : (c =? c_lf) && cr0 = false ->
  norm_go Text cr0 (c :: r) = (if c =? c_cr then c_lf else c) :: norm_go Text (c =? c_cr) r.
Proof. intros H. cbn [norm_go]. rewrite H. destruct (c =? c_cr); reflexivity. Qed.

Lemma blank_not_lt c : is_blank c = true -> (c =? c_lt) = false.
Proof. intros H. destruct (is_blank_cases c H) as [E|[E|[E|E]]]; subst c; reflexivity. Qed.

(** a blank character never ends the pending phase with a dropped chunk *)
Lemma pend_next_keep_blank p pend c q : is_blank c = true -> pend_next p pend c = PKeep q ->
  q = pend /\ (c =? c_lf) && cr_of p = false.
Proof.
  intros Hb. pose proof (blank_not_lt c Hb) as Hl.
  assert (F : fast_next pend c = PKeep q -> False).
  { unfold fast_next. destruct ((c =? c_sp) || (c =? c_tab) || (c =? c_lf)) eqn:E3; [discriminate|].
    unfold is_blank in Hb. rewrite E3 in Hb. cbn [orb] in Hb. rewrite Hb. discriminate. }
  assert (S : forall n cr, slow_next n cr pend c = PKeep q -> q = pend /\ (c =? c_lf) && cr = false).
  { intros n cr. unfold slow_next. destruct ((c =? c_lf) && cr) eqn:E1; [discriminate|].
    destruct (n =? buf_size)%nat.
    - destruct (c =? c_cr); [discriminate|]. rewrite Hl. intros H; inversion H. auto.
    - rewrite Hb. discriminate. }
  destruct p; cbn [pend_next cr_of].
  - intros H; destruct (F H).
  - destruct (c =? c_lf) eqn:Elf; [discriminate|]. intros H. destruct (S _ _ H) as [-> _]. auto.
  - destruct (is_fast c); [intros H; destruct (F H)|]. intros H. destruct (S _ _ H) as [-> _].
    rewrite andb_false_r. auto.
  - apply S.
Qed.

(** a blank character that leaves the phase pending either extends the pending chunk
    (in step with the line-end handling) or restarts it at a carriage return (chunk dropped) *)
Lemma pend_next_stay p pend c p' q : is_blank c = true -> pend_next p pend c = PStay p' q ->
  (forall r, rev pend ++ norm_go Text (cr_of p) (c :: r) = rev q ++ norm_go Text (cr_of p') r)
  \/ (c = c_cr /\ q = [c_lf] /\ cr_of p' = true).
Proof.
  intros Hb.
  assert (F : fast_next pend c = PStay p' q ->
              (forall r, rev pend ++ norm_go Text false (c :: r) = rev q ++ norm_go Text (cr_of p') r)
              \/ (c = c_cr /\ q = [c_lf] /\ cr_of p' = true)).
  { unfold fast_next. destruct ((c =? c_sp) || (c =? c_tab) || (c =? c_lf)) eqn:E3.
    - intros H; inversion H; subst p' q. left. intros r. cbn [cr_of].
      assert (Ecr : (c =? c_cr) = false).
      { apply orb_true_iff in E3 as [E|E]; [apply orb_true_iff in E as [E|E]|]; apply N.eqb_eq in E; subst c; reflexivity. }
      rewrite norm_go_blank_ext by apply andb_false_r. rewrite Ecr. symmetry. apply rev_cons_app.
    - destruct (c =? c_cr) eqn:Ecr; [|destruct (c =? c_lt); discriminate].
      intros H; inversion H; subst p' q. right. apply N.eqb_eq in Ecr. auto. }
  assert (S : forall n cr, slow_next n cr pend c = PStay p' q ->
              (forall r, rev pend ++ norm_go Text cr (c :: r) = rev q ++ norm_go Text (cr_of p') r)
              \/ (c = c_cr /\ q = [c_lf] /\ cr_of p' = true)).
  { intros n cr. unfold slow_next. destruct ((c =? c_lf) && cr) eqn:E1.
    - intros H; inversion H; subst p' q. left. intros r. cbn [cr_of norm_go].
      apply andb_true_iff in E1 as [Elf Hcr]. apply N.eqb_eq in Elf. subst c cr. reflexivity.
    - destruct (n =? buf_size)%nat.
      + destruct (c =? c_cr) eqn:Ecr; [|destruct (c =? c_lt); discriminate].
        intros H; inversion H; subst p' q. right. apply N.eqb_eq in Ecr. auto.
      + rewrite Hb. intros H; inversion H; subst p' q. left. intros r. cbn [cr_of].
        rewrite norm_go_blank_ext by exact E1. symmetry. apply rev_cons_app. }
  destruct p; cbn [pend_next cr_of].
  - exact F.
  - destruct (c =? c_lf) eqn:Elf.
    + intros H; inversion H; subst p' q. left. intros r. apply N.eqb_eq in Elf. subst c. reflexivity.
    + intros H. destruct (S _ _ H) as [E|D]; [left|right; exact D].
      intros r. rewrite norm_go_cr_irrel by (rewrite Elf; reflexivity). apply E.
  - destruct (is_fast c); [exact F|apply S].
  - apply S.
Qed.

Lemma bdn_go_split : forall s p pend a x,
  forallb is_blank a = true -> forallb is_blank x = true ->
  (a = [] \/ hd_error x = Some c_cr) ->
  (forall r, norm_go Text false (x ++ r) = rev pend ++ norm_go Text (cr_of p) r) ->
  exists a' b, a ++ x ++ s = a' ++ b /\ forallb is_blank a' = true
               /\ (a' = [] \/ hd_error b = Some c_cr) /\ bdn_go p pend s = norm Text b.
Proof.
  induction s as [|c r IH]; intros p pend a x Ha Hx Hd Hn.
  - exists a, x. rewrite app_nil_r. repeat split; auto.
    cbn [bdn_go]. unfold norm. specialize (Hn []). cbn [norm_go] in Hn. rewrite !app_nil_r in Hn. auto.
  - assert (Hd' : forall t, a = [] \/ hd_error (x ++ t) = Some c_cr).
    { intros t. destruct Hd as [Hd|Hd]; [left; exact Hd|right]. destruct x; [discriminate Hd|exact Hd]. }
    cbn [bdn_go]. destruct (is_blank c) eqn:Hb.
    + destruct (pend_next p pend c) as [p' q|q] eqn:En.
      * destruct (pend_next_stay p pend c p' q Hb En) as [E|[Ec [Eq Ecr]]].
        -- destruct (IH p' q a (x ++ [c])) as [a' [b [E1 [E2 [E3 E4]]]]]; auto.
           ++ rewrite forallb_app, Hx. cbn [forallb]. rewrite Hb. reflexivity.
           ++ intros t. rewrite <- app_assoc. cbn [app]. rewrite Hn. apply E.
           ++ exists a', b. repeat split; auto. rewrite <- E1, <- !app_assoc. reflexivity.
        -- subst c q.
           destruct (IH p' [c_lf] (a ++ x) [c_cr]) as [a' [b [E1 [E2 [E3 E4]]]]]; auto.
           ++ rewrite forallb_app, Ha, Hx. reflexivity.
           ++ intros t. rewrite Ecr. reflexivity.
           ++ exists a', b. repeat split; auto. rewrite <- E1, <- !app_assoc. reflexivity.
      * destruct (pend_next_keep_blank p pend c q Hb En) as [-> Hc].
        exists a, (x ++ c :: r). repeat split; auto.
        unfold norm. rewrite Hn, (norm_go_cr_irrel Text (cr_of p) c r Hc). reflexivity.
    + exists a, (x ++ c :: r). repeat split; auto.
      destruct (is_blank_false c Hb) as [_ [_ [Elf _]]].
      unfold norm. rewrite Hn, (norm_go_cr_irrel Text (cr_of p) c r); [reflexivity|]. rewrite Elf. reflexivity.
Qed.

Theorem bdn_suffix s : exists a b, s = a ++ b /\ forallb is_blank a = true
  /\ (a = [] \/ hd_error b = Some c_cr) /\ blank_drop_normalise s = norm Text b.
Proof.
  destruct (bdn_go_split s PFast [] [] []) as [a [b H]]; auto. exists a, b. exact H.
Qed.

(** everything from the first non-blank character on is read (with the line-end handling) *)
Lemma norm_go_app_keep c r : (c =? c_lf) = false -> forall u cr,
  exists k, norm_go Text cr (u ++ c :: r) = k ++ norm_go Text false (c :: r).
Proof.
  intros Hc. induction u as [|d u IH]; intros cr.
  - exists []. cbn [app]. apply norm_go_cr_irrel. rewrite Hc. reflexivity.
  - cbn [app norm_go]. destruct (d =? c_cr).
    + destruct (IH true) as [k E]. exists (eol Text :: k). rewrite E. reflexivity.
    + destruct ((d =? c_lf) && cr).
      * destruct (IH false) as [k E]. exists k. exact E.
      * destruct (IH false) as [k E]. exists (d :: k). rewrite E. reflexivity.
Qed.

Lemma bdn_go_keeps c r : is_blank c = false -> forall pre, forallb is_blank pre = true -> forall p pend,
  exists k, bdn_go p pend (pre ++ c :: r) = k ++ norm Text (c :: r).
Proof.
  intros Hc. destruct (is_blank_false c Hc) as [_ [_ [Elf _]]].
  induction pre as [|d pre IH]; intros Hp p pend.
  - exists (rev pend). cbn [app bdn_go]. rewrite Hc. reflexivity.
  - cbn [forallb] in Hp. apply andb_true_iff in Hp as [Hd Hp].
    cbn [app bdn_go]. rewrite Hd. destruct (pend_next p pend d) as [p' q|q].
    + apply IH, Hp.
    + destruct (norm_go_app_keep c r Elf (d :: pre) false) as [k E]. exists (rev q ++ k).
      cbn [app] in E. rewrite E, <- app_assoc. reflexivity.
Qed.

Theorem bdn_keeps_nonblank pre c r : forallb is_blank pre = true -> is_blank c = false ->
  exists k, blank_drop_normalise (pre ++ c :: r) = k ++ norm Text (c :: r).
Proof. intros Hp Hc. apply bdn_go_keeps; auto. Qed.

Theorem attr_safe s : xml_str s = true -> no_ws_ctl s = true ->
  lex_attr (c_quot :: sax_escape_q s ++ [c_quot]) = OneValue s.
Proof. intros Hx Hn. rewrite attr_safe_norm, norm_attr_id; auto. Qed.

(** what the normalisation does otherwise: nothing is lost except that a line end is one
    character and, in an attribute, white space is a blank *)
Lemma norm_length cx s : (length (norm cx s) <= length s)%nat.
Proof.
  unfold norm. generalize false. induction s as [|c s IH]; intros b; cbn [norm_go length]; [lia|].
  destruct (c =? c_cr); [specialize (IH true); cbn [length]; lia|].
  destruct ((c =? c_lf) && b); [specialize (IH false); lia|].
  specialize (IH false); cbn [length]; lia.
Qed.

Theorem bdn_length s : (length (blank_drop_normalise s) <= length s)%nat.
Proof.
  destruct (bdn_suffix s) as [a [b [E [_ [_ E2]]]]]. rewrite E2. rewrite E, app_length.
  pose proof (norm_length Text b). lia.
Qed.


(** ---- refutations ---- *)
Theorem attr_sax_refuted : exists s, xml_str s = true /\ no_ws_ctl s = true /\
  lex_attr (c_quot :: sax_escape s ++ [c_quot]) <> OneValue s.
Proof. exists [c_quot]. repeat split; try reflexivity. vm_compute. discriminate. Qed.

Theorem none_refuted :
  (forall cx, lex_slot cx [c_amp] = Broken) /\ (forall cx, lex_slot cx [c_lt] = Broken)
  /\ lex_slot AttrDq [c_quot] = Broken.
Proof. repeat split; try (intros cx; destruct cx); reflexivity. Qed.

(** a value that closes the attribute early and goes on is not a value any more *)
Definition inj_payload : str := [97; 34; 32; 98; 61; 34; 99].   (* a, quote, blank, b, equals, quote, c *)
Lemma attr_injection_broken : lex_slot AttrDq inj_payload = Broken.
Proof. reflexivity. Qed.

(** ---- the CDATA-end sequence ---- *)
Definition cdata_end : str := [c_rbr; c_rbr; c_gt].

Lemma fold_dead cx l : fold_left (step cx) l Dead = Dead.
Proof. induction l; simpl; auto. Qed.

Lemma fold_cdata_end rb cr acc : fold_left (step Text) cdata_end (Run (MNorm rb cr) acc) = Dead.
Proof.
  unfold cdata_end. cbn [fold_left].
  assert (E1 : step Text (Run (MNorm rb cr) acc) c_rbr = Run (MNorm (Nat.min 2 (S rb)) false) (c_rbr :: acc)).
  { destruct cr; reflexivity. }
  rewrite E1.
  assert (E2 : step Text (Run (MNorm (Nat.min 2 (S rb)) false) (c_rbr :: acc)) c_rbr
               = Run (MNorm (Nat.min 2 (S (Nat.min 2 (S rb)))) false) (c_rbr :: c_rbr :: acc)) by reflexivity.
  rewrite E2.
  assert (E3 : (2 <=? Nat.min 2 (S (Nat.min 2 (S rb))))%nat = true) by (apply Nat.leb_le; lia).
  cbn [step]. change (negb (is_xml_char c_gt)) with false. cbv iota.
  change (c_gt =? c_amp) with false. change (c_gt =? c_lt) with false.
  change (c_gt =? c_cr) with false. change (c_gt =? c_lf) with false. cbn [andb].
  rewrite N.eqb_refl, E3. reflexivity.
Qed.

(** the lexer stands in character data (pending phase included) *)
Definition in_chardata (t : tst) : bool :=
  match t with TPend _ _ => true | TLive (Run (MNorm _ _) _) => true | TLive _ => false end.

(** in character data the sequence is an error, whatever stands before and after *)
Theorem cdata_end_rejected a b : in_chardata (fold_left tstep a tstart) = true ->
  lex_text (a ++ cdata_end ++ b) = BrokenText.
Proof.
  intros Ha. unfold lex_text. rewrite !fold_left_app.
  destruct (fold_left tstep a tstart) as [p pend|st].
  - unfold cdata_end at 1. rewrite tfold_piece by reflexivity. fold cdata_end.
    rewrite fold_cdata_end, tfold_live, fold_dead. reflexivity.
  - destruct st as [[rb cr|nm|k|rb cr] acc|acc|]; try discriminate Ha.
    rewrite tfold_live, fold_cdata_end, tfold_live, fold_dead. reflexivity.
Qed.

(** a CDATA section in element content is consumed: the text read back is not the text written *)
Example cdata_section_consumed :
  lex_text [97; 60; 33; 91; 67; 68; 65; 84; 65; 91; 120; 93; 93; 62; 98] = OneText [97; 120; 98].
Proof. reflexivity. Qed.

Lemma in_esc_char_gt c : In c_gt (esc_char c) -> False.
Proof.
  unfold esc_char. destruct (c =? c_amp); [simpl; intuition discriminate|].
  destruct (c =? c_lt); [simpl; intuition discriminate|].
  destruct (c =? c_gt) eqn:Eg; [simpl; intuition discriminate|].
  simpl. intros [H|[]]. subst c. discriminate Eg.
Qed.

Theorem no_gt_after_escape s : ~ In c_gt (sax_escape s).
Proof.
  rewrite sax_escape_flat. intros H. apply in_flat_map in H as [c [_ Hc]]. exact (in_esc_char_gt c Hc).
Qed.

Theorem no_cdata_end_after_escape s a b : sax_escape s <> a ++ cdata_end ++ b.
Proof.
  intros E. apply (no_gt_after_escape s). rewrite E. apply in_or_app. right.
  apply in_or_app. left. simpl. auto.
Qed.

Lemma cdata_end_absent s : ~ In c_gt (sax_escape s) /\ forall a b, sax_escape s <> a ++ cdata_end ++ b.
Proof. split; [apply no_gt_after_escape | apply no_cdata_end_after_escape]. Qed.

(** ---- escape with white-space references ---- *)
Lemma replace1_flat_map k rep (g : N -> str) s :
  replace1 k rep (flat_map g s) = flat_map (fun c => replace1 k rep (g c)) s.
Proof. induction s as [|c s IH]; [reflexivity|]. cbn [flat_map]. rewrite replace1_app, IH. reflexivity. Qed.

Lemma rep_if_flat_map b k rep (g : N -> str) s :
  rep_if b k rep (flat_map g s) = flat_map (fun c => rep_if b k rep (g c)) s.
Proof. destruct b; cbn [rep_if]; [apply replace1_flat_map|reflexivity]. Qed.

Lemma replace1_one k rep c : (c =? k) = false -> replace1 k rep [c] = [c].
Proof. intros H. cbn [replace1]. rewrite H. reflexivity. Qed.

Lemma esc_g_one q t l r c :
  rep_if r c_cr e_cr (rep_if l c_lf e_lf (rep_if t c_tab e_tab (rep_if q c_quot e_quot (esc_char c))))
  = esc_char_g q t l r c.
Proof.
  unfold esc_char_g.
  destruct (c =? c_amp) eqn:Ea. { apply N.eqb_eq in Ea; subst c. destruct q, t, l, r; reflexivity. }
  destruct (c =? c_lt) eqn:Elt. { apply N.eqb_eq in Elt; subst c. destruct q, t, l, r; reflexivity. }
  destruct (c =? c_gt) eqn:Egt. { apply N.eqb_eq in Egt; subst c. destruct q, t, l, r; reflexivity. }
  destruct (c =? c_quot) eqn:Eq. { apply N.eqb_eq in Eq; subst c. destruct q, t, l, r; reflexivity. }
  destruct (c =? c_tab) eqn:Et. { apply N.eqb_eq in Et; subst c. destruct q, t, l, r; reflexivity. }
  destruct (c =? c_lf) eqn:Elf. { apply N.eqb_eq in Elf; subst c. destruct q, t, l, r; reflexivity. }
  destruct (c =? c_cr) eqn:Ecr. { apply N.eqb_eq in Ecr; subst c. destruct q, t, l, r; reflexivity. }
  cbn [andb]. unfold esc_char. rewrite Ea, Elt, Egt.
  destruct q, t, l, r; cbn [rep_if]; rewrite ?replace1_one; auto.
Qed.

Lemma sax_escape_g_flat q t l r s : sax_escape_g q t l r s = flat_map (esc_char_g q t l r) s.
Proof.
  unfold sax_escape_g. rewrite sax_escape_flat, !rep_if_flat_map.
  apply flat_map_ext. intros c. apply esc_g_one.
Qed.

Lemma fold_e_tab cx rb cr acc :
  fold_left (step cx) e_tab (Run (MNorm rb cr) acc) = Run (MNorm 0 false) (c_tab :: acc).
Proof. destruct cx; reflexivity. Qed.
Lemma fold_e_lf cx rb cr acc :
  fold_left (step cx) e_lf (Run (MNorm rb cr) acc) = Run (MNorm 0 false) (c_lf :: acc).
Proof. destruct cx; reflexivity. Qed.
Lemma fold_e_cr cx rb cr acc :
  fold_left (step cx) e_cr (Run (MNorm rb cr) acc) = Run (MNorm 0 false) (c_cr :: acc).
Proof. destruct cx; reflexivity. Qed.

(** with the dictionary the context needs, every character comes back as itself *)
Lemma fold_exact cx q t l r : exact_ok cx q t l r = true ->
  forall s rb acc, xml_str s = true ->
  exists rb', fold_left (step cx) (flat_map (esc_char_g q t l r) s) (Run (MNorm rb false) acc)
              = Run (MNorm rb' false) (rev s ++ acc).
Proof.
  intros Hok. induction s as [|c s IH]; intros rb acc Hx.
  - exists rb. reflexivity.
  - cbn [xml_str forallb] in Hx. apply andb_true_iff in Hx as [Hc Hs]. fold (xml_str s) in Hs.
    cbn [flat_map]. rewrite fold_left_app.
    assert (Hone : exists rb1, fold_left (step cx) (esc_char_g q t l r c) (Run (MNorm rb false) acc)
                               = Run (MNorm rb1 false) (c :: acc)).
    { destruct (c =? c_amp) eqn:Ea.
      { apply N.eqb_eq in Ea; subst c. change (esc_char_g q t l r c_amp) with e_amp.
        rewrite fold_e_amp. eexists; reflexivity. }
      destruct (c =? c_lt) eqn:Elt.
      { apply N.eqb_eq in Elt; subst c. change (esc_char_g q t l r c_lt) with e_lt.
        rewrite fold_e_lt. eexists; reflexivity. }
      destruct (c =? c_gt) eqn:Egt.
      { apply N.eqb_eq in Egt; subst c. change (esc_char_g q t l r c_gt) with e_gt.
        rewrite fold_e_gt. eexists; reflexivity. }
      destruct (c =? c_quot) eqn:Eq.
      { apply N.eqb_eq in Eq; subst c. change (esc_char_g q t l r c_quot) with (if q then e_quot else [c_quot]).
        destruct q; [rewrite fold_e_quot; eexists; reflexivity|].
        destruct cx; [discriminate Hok|]. eexists; reflexivity. }
      destruct (c =? c_tab) eqn:Et.
      { apply N.eqb_eq in Et; subst c. change (esc_char_g q t l r c_tab) with (if t then e_tab else [c_tab]).
        destruct t; [rewrite fold_e_tab; eexists; reflexivity|].
        destruct cx; [exfalso; destruct q, l, r; discriminate Hok|]. eexists; reflexivity. }
      destruct (c =? c_lf) eqn:Elf.
      { apply N.eqb_eq in Elf; subst c. change (esc_char_g q t l r c_lf) with (if l then e_lf else [c_lf]).
        destruct l; [rewrite fold_e_lf; eexists; reflexivity|].
        destruct cx; [exfalso; destruct q, t, r; discriminate Hok|]. eexists; reflexivity. }
      destruct (c =? c_cr) eqn:Ecr.
      { apply N.eqb_eq in Ecr; subst c. change (esc_char_g q t l r c_cr) with (if r then e_cr else [c_cr]).
        destruct r; [rewrite fold_e_cr; eexists; reflexivity|].
        exfalso. destruct cx; [destruct q, t, l; discriminate Hok|discriminate Hok]. }
      assert (Ef : esc_char_g q t l r c = [c]).
      { unfold esc_char_g, esc_char. rewrite Eq, Et, Elf, Ecr, Ea, Elt, Egt. reflexivity. }
      rewrite Ef. cbn [fold_left step]. rewrite Hc, Ea, Elt, Ecr, Elf. cbn [negb andb].
      destruct cx.
      - rewrite Eq. unfold attr_ws. rewrite Et, Elf. cbn [orb]. eexists; reflexivity.
      - rewrite Egt. cbn [andb]. eexists; reflexivity. }
    destruct Hone as [rb1 E1]. rewrite E1.
    destruct (IH rb1 (c :: acc) Hs) as [rb' E]. exists rb'. rewrite E, rev_cons_app. reflexivity.
Qed.

(** with the carriage return written as a reference no raw CR and no raw less-than sign
    reaches the parser: the blank-text heuristic cannot fire *)
Lemma esc_g_no_cr_lt q t l c : no_cr_lt (esc_char_g q t l true c) = true.
Proof.
  unfold esc_char_g.
  destruct (c =? c_cr) eqn:Ecr. { apply N.eqb_eq in Ecr; subst c. destruct q, t, l; reflexivity. }
  unfold esc_char. destruct (c =? c_lt) eqn:Elt. { apply N.eqb_eq in Elt; subst c. destruct q, t, l; reflexivity. }
  destruct ((c =? c_quot) && q); [reflexivity|]. destruct ((c =? c_tab) && t); [reflexivity|].
  destruct ((c =? c_lf) && l); [reflexivity|]. cbn [andb].
  destruct (c =? c_amp); [reflexivity|]. destruct (c =? c_gt); [reflexivity|].
  cbn [no_cr_lt forallb]. rewrite Ecr, Elt. reflexivity.
Qed.

Theorem escaped_cr_no_raw q t l s : no_cr_lt (sax_escape_g q t l true s) = true.
Proof. rewrite sax_escape_g_flat. apply no_cr_lt_flat_map. intros c. apply esc_g_no_cr_lt. Qed.

Theorem slot_exact cx q t l r s : exact_ok cx q t l r = true -> xml_str s = true ->
  lex_slot cx (sax_escape_g q t l r s) = Got s.
Proof.
  intros Hok Hx.
  destruct (fold_exact cx q t l r Hok s 0%nat [] Hx) as [rb E].
  unfold lex_slot. destruct cx.
  - rewrite sax_escape_g_flat, (lex_attr_of_fold _ _ _ _ E), app_nil_r, rev_involutive. reflexivity.
  - cbn [exact_ok] in Hok. subst r. rewrite <- sax_escape_g_flat in E.
    rewrite (lex_text_of_fold _ _ _ _ (escaped_cr_no_raw q t l s) E), app_nil_r, rev_involutive. reflexivity.
Qed.

(** the attribute theorem without any guard *)
Theorem attr_safe_w s : xml_str s = true ->
  lex_attr (c_quot :: sax_escape_qw s ++ [c_quot]) = OneValue s.
Proof.
  intros Hx. pose proof (slot_exact AttrDq true true true true s eq_refl Hx) as H.
  unfold lex_slot, sax_escape_qw in *.
  destruct (lex_attr (c_quot :: sax_escape_g true true true true s ++ [c_quot])); inversion H; reflexivity.
Qed.

(** element text: escaping the carriage return as well gives back every string *)
Theorem text_safe_r s q t l : xml_str s = true -> lex_text (sax_escape_g q t l true s) = OneText s.
Proof.
  intros Hx. pose proof (slot_exact Text q t l true s eq_refl Hx) as H.
  unfold lex_slot in H. destruct (lex_text (sax_escape_g q t l true s)); inversion H; reflexivity.
Qed.

(** what the shorter dictionaries do: the older functions are instances *)
Lemma sax_escape_g_none s : sax_escape_g false false false false s = sax_escape s.
Proof. reflexivity. Qed.
Lemma sax_escape_g_q s : sax_escape_g true false false false s = sax_escape_q s.
Proof. reflexivity. Qed.

(** ---- the decision table ---- *)
Theorem sink_ok_sound cx e : sink_ok cx e = true ->
  forall s, xml_str s = true -> (e = NotText -> plain s = true /\ no_ws_ctl s = true) ->
  lex_slot cx (apply_esc e s) = Got s.
Proof.
  intros Hok s Hx Hp. destruct e as [|q t l r|]; cbn [apply_esc].
  - discriminate Hok.
  - apply slot_exact; auto.
  - destruct (Hp eq_refl) as [Hpl Hw]. rewrite plain_safe_norm; auto. f_equal.
    destruct cx; [apply norm_attr_id; auto|].
    apply bdn_no_cr. unfold no_ws_ctl in Hw. unfold no_cr. rewrite forallb_forall in *.
    intros c Hc. specialize (Hw c Hc). apply negb_true_iff in Hw. apply orb_false_iff in Hw as [_ Hw].
    rewrite Hw. reflexivity.
Qed.

Theorem sink_ok_complete cx e : sink_ok cx e = false ->
  xml_str (witness cx e) = true /\
  lex_slot cx (apply_esc e (witness cx e)) <> Got (witness cx e).
Proof.
  destruct cx, e as [|q t l r|]; try destruct q, t, l, r; intros H; try discriminate H;
    (split; [reflexivity|vm_compute; discriminate]).
Qed.

(** markup safety alone (strings without TAB, LF, CR): the quote in attributes is what matters *)
(** unescaped white space is normalised, never an error *)
Lemma fold_g_norm cx q t l r : (cx = AttrDq -> q = true) ->
  forall s rb cr acc, xml_str s = true ->
  exists rb' cr' v, fold_left (step cx) (flat_map (esc_char_g q t l r) s) (Run (MNorm rb cr) acc)
                    = Run (MNorm rb' cr') v.
Proof.
  intros Hq. induction s as [|c s IH]; intros rb cr acc Hx.
  - exists rb, cr, acc. reflexivity.
  - cbn [xml_str forallb] in Hx. apply andb_true_iff in Hx as [Hc Hs]. fold (xml_str s) in Hs.
    cbn [flat_map]. rewrite fold_left_app.
    assert (Hone : exists rb1 cr1 v1, fold_left (step cx) (esc_char_g q t l r c) (Run (MNorm rb cr) acc)
                                      = Run (MNorm rb1 cr1) v1).
    { destruct (c =? c_amp) eqn:Ea.
      { apply N.eqb_eq in Ea; subst c. change (esc_char_g q t l r c_amp) with e_amp.
        rewrite fold_e_amp. do 3 eexists; reflexivity. }
      destruct (c =? c_lt) eqn:Elt.
      { apply N.eqb_eq in Elt; subst c. change (esc_char_g q t l r c_lt) with e_lt.
        rewrite fold_e_lt. do 3 eexists; reflexivity. }
      destruct (c =? c_gt) eqn:Egt.
      { apply N.eqb_eq in Egt; subst c. change (esc_char_g q t l r c_gt) with e_gt.
        rewrite fold_e_gt. do 3 eexists; reflexivity. }
      destruct (c =? c_quot) eqn:Eq.
      { apply N.eqb_eq in Eq; subst c. change (esc_char_g q t l r c_quot) with (if q then e_quot else [c_quot]).
        destruct q; [rewrite fold_e_quot; do 3 eexists; reflexivity|].
        destruct cx; [discriminate (Hq eq_refl)|]. destruct cr; do 3 eexists; reflexivity. }
      destruct (c =? c_tab) eqn:Et.
      { apply N.eqb_eq in Et; subst c. change (esc_char_g q t l r c_tab) with (if t then e_tab else [c_tab]).
        destruct t; [rewrite fold_e_tab; do 3 eexists; reflexivity|].
        destruct cx, cr; do 3 eexists; reflexivity. }
      destruct (c =? c_lf) eqn:Elf.
      { apply N.eqb_eq in Elf; subst c. change (esc_char_g q t l r c_lf) with (if l then e_lf else [c_lf]).
        destruct l; [rewrite fold_e_lf; do 3 eexists; reflexivity|].
        destruct cx, cr; do 3 eexists; reflexivity. }
      destruct (c =? c_cr) eqn:Ecr.
      { apply N.eqb_eq in Ecr; subst c. change (esc_char_g q t l r c_cr) with (if r then e_cr else [c_cr]).
        destruct r; [rewrite fold_e_cr; do 3 eexists; reflexivity|].
        destruct cx, cr; do 3 eexists; reflexivity. }
      assert (Ef : esc_char_g q t l r c = [c]).
      { unfold esc_char_g, esc_char. rewrite Eq, Et, Elf, Ecr, Ea, Elt, Egt. reflexivity. }
      rewrite Ef. cbn [fold_left step]. rewrite Hc, Ea, Elt, Ecr, Elf. cbn [negb andb].
      destruct cx.
      - rewrite Eq. do 3 eexists; reflexivity.
      - rewrite Egt. cbn [andb]. do 3 eexists; reflexivity. }
    destruct Hone as [rb1 [cr1 [v1 E1]]]. rewrite E1. apply IH; auto.
Qed.

(** what one character becomes: itself when it is a raw blank, otherwise a piece whose first
    character is neither blank nor the less-than sign *)
Lemma esc_g_shape q t l r c :
  (esc_char_g q t l r c = [c] /\ is_blank c = true)
  \/ (exists a tl, esc_char_g q t l r c = a :: tl /\ is_blank a = false /\ (a =? c_lt) = false).
Proof.
  destruct (c =? c_amp) eqn:Ea. { apply N.eqb_eq in Ea; subst c. right. exists c_amp; eexists. repeat split. }
  destruct (c =? c_lt) eqn:Elt. { apply N.eqb_eq in Elt; subst c. right. exists c_amp; eexists. repeat split. }
  destruct (c =? c_gt) eqn:Egt. { apply N.eqb_eq in Egt; subst c. right. exists c_amp; eexists. repeat split. }
  destruct (c =? c_quot) eqn:Eq.
  { apply N.eqb_eq in Eq; subst c. right. destruct q; [exists c_amp|exists c_quot]; eexists; repeat split. }
  destruct (c =? c_tab) eqn:Et.
  { apply N.eqb_eq in Et; subst c. destruct t; [right; exists c_amp; eexists; repeat split|left; split; reflexivity]. }
  destruct (c =? c_lf) eqn:Elf.
  { apply N.eqb_eq in Elf; subst c. destruct l; [right; exists c_amp; eexists; repeat split|left; split; reflexivity]. }
  destruct (c =? c_cr) eqn:Ecr.
  { apply N.eqb_eq in Ecr; subst c. destruct r; [right; exists c_amp; eexists; repeat split|left; split; reflexivity]. }
  assert (Ef : esc_char_g q t l r c = [c]).
  { unfold esc_char_g, esc_char. rewrite Eq, Et, Elf, Ecr, Ea, Elt, Egt. reflexivity. }
  destruct (is_blank c) eqn:Hb; [left; auto|right]. exists c, []. auto.
Qed.

Lemma tfold_g_pend q t l r s : xml_str s = true -> forall p pend,
  text_of (fold_left tstep (flat_map (esc_char_g q t l r) s) (TPend p pend)) <> BrokenText.
Proof.
  induction s as [|c s IH]; intros Hx p pend; [discriminate|].
  assert (Hs : xml_str s = true).
  { cbn [xml_str forallb] in Hx. apply andb_true_iff in Hx as [_ Hs]. exact Hs. }
  assert (K : forall q', fold_left tstep (flat_map (esc_char_g q t l r) (c :: s)) (TPend p pend)
                         = TLive (fold_left (step Text) (flat_map (esc_char_g q t l r) (c :: s)) (Run (MNorm 0 false) q')) ->
                         text_of (fold_left tstep (flat_map (esc_char_g q t l r) (c :: s)) (TPend p pend)) <> BrokenText).
  { intros q' E. rewrite E.
    destruct (fold_g_norm Text q t l r (text_not_attr q) (c :: s) 0%nat false q' Hx) as [rb [cr [v E2]]].
    rewrite E2. discriminate. }
  destruct (esc_g_shape q t l r c) as [[E Hb]|[a [tl [E [Ha Hl]]]]].
  - destruct (pend_next p pend c) as [p' q'|q'] eqn:En.
    + cbn [flat_map]. rewrite E. cbn [app fold_left tstep]. rewrite En. apply IH, Hs.
    + apply (K q'). cbn [flat_map]. rewrite E. cbn [app fold_left tstep]. rewrite En. apply tfold_live.
  - apply (K pend). cbn [flat_map]. rewrite E. cbn [app]. apply tfold_piece; auto.
Qed.

Theorem markup_ok_sound cx e : markup_ok cx e = true ->
  forall s, xml_str s = true -> (e = NotText -> plain s = true) ->
  lex_slot cx (apply_esc e s) <> Broken.
Proof.
  intros Hok s Hx Hp. destruct e as [|q t l r|]; cbn [apply_esc].
  - discriminate Hok.
  - rewrite sax_escape_g_flat. unfold lex_slot. destruct cx.
    + assert (Hq : AttrDq = AttrDq -> q = true) by (intros _; exact Hok).
      destruct (fold_g_norm AttrDq q t l r Hq s 0%nat false [] Hx) as [rb [cr [v E]]].
      rewrite (lex_attr_of_fold _ _ _ _ E). discriminate.
    + pose proof (tfold_g_pend q t l r s Hx PFast []) as H. unfold lex_text, tstart.
      destruct (text_of _); [discriminate|]. exfalso; apply H; reflexivity.
  - rewrite plain_safe_norm; auto. discriminate.
Qed.

Lemma slot_result_eqb_eq a b : slot_result_eqb a b = true <-> a = b.
Proof.
  destruct a as [x|], b as [y|]; simpl; split; intros H; try discriminate; auto.
  - apply str_eqb_eq in H. congruence.
  - inversion H. apply str_eqb_refl.
Qed.

(** non-vacuity of the guards *)
Example guards_inhabited :
  let s := [97; c_amp; c_lt; c_gt; c_quot; c_apos; c_rbr; c_rbr; c_gt; 233; 128512] in
  xml_str s = true /\ no_ws_ctl s = true /\ no_cr s = true
  /\ lex_text (sax_escape s) = OneText s
  /\ lex_attr (c_quot :: sax_escape_q s ++ [c_quot]) = OneValue s.
Proof. vm_compute. repeat split. Qed.

(** ---- the blank-text removal at work ---- *)
Definition blank_wit1 : str := [c_sp; c_cr; 88].                         (* blank CR X *)
Definition blank_wit2 : str := [c_cr; c_lf; c_tab; c_cr; c_lf; 88].      (* CR LF TAB CR LF X *)

Example blank_drop_ex1 :
  lex_text (sax_escape blank_wit1) = OneText [c_lf; 88] /\ norm Text blank_wit1 = [c_sp; c_lf; 88].
Proof. vm_compute. split; reflexivity. Qed.
Example blank_drop_ex2 :
  lex_text (sax_escape blank_wit2) = OneText [c_lf; 88] /\ norm Text blank_wit2 = [c_lf; c_tab; c_lf; 88].
Proof. vm_compute. split; reflexivity. Qed.

(** plain saxutils.escape in element text: a conformant parser gives the string back up to
    line ends, libxml2 with blank-text removal does not even do that *)
Theorem text_sax_blank_refuted : exists s, xml_str s = true
  /\ lex_text_conf (sax_escape s) = OneText (norm Text s)
  /\ lex_text (sax_escape s) <> OneText (norm Text s).
Proof. exists blank_wit1. repeat split; try reflexivity. vm_compute. discriminate. Qed.

(** CR LF before a character outside the fast path keeps the LF; a blank before a CDATA
    section is dropped, after it kept; the 300-byte buffer of the slow path *)
Example blank_drop_ex3 :
  blank_drop_normalise [c_sp; c_cr; c_lf; 233] = [c_lf; 233]
  /\ blank_drop_normalise [c_cr; c_lf; c_cr; c_sp; 88] = [c_lf; c_lf; c_sp; 88]
  /\ blank_drop_normalise [c_cr; c_lf; c_sp; c_cr; 88] = [c_lf; 88]
  /\ blank_drop_normalise [c_sp; c_cr] = [c_lf]
  /\ lex_text ([c_sp; c_lt] ++ cdata_open ++ [120; c_rbr; c_rbr; c_gt; c_sp]) = OneText [120; c_sp]
  /\ lex_text_conf ([c_sp; c_lt] ++ cdata_open ++ [120; c_rbr; c_rbr; c_gt; c_sp]) = OneText [c_sp; 120; c_sp].
Proof. vm_compute. repeat split. Qed.
Example blank_drop_ex_buffer :
  blank_drop_normalise (c_cr :: repeat c_sp 299 ++ [c_cr; 88]) = [c_lf; 88]
  /\ length (blank_drop_normalise (c_cr :: repeat c_sp 298 ++ [c_cr; 88])) = 301%nat
  /\ length (blank_drop_normalise (c_cr :: repeat c_sp 300 ++ [c_cr; 88])) = 303%nat.
Proof. vm_compute. repeat split. Qed.

(** non-vacuity of the characterisation lemmas *)
Example bdn_no_cr_ex : no_cr [c_sp; c_tab; c_lf; 88; c_sp] = true
  /\ blank_drop_normalise [c_sp; c_tab; c_lf; 88; c_sp] = [c_sp; c_tab; c_lf; 88; c_sp].
Proof. vm_compute. split; reflexivity. Qed.
Example bdn_suffix_ex : blank_wit2 = [c_cr; c_lf; c_tab] ++ [c_cr; c_lf; 88]
  /\ forallb is_blank [c_cr; c_lf; c_tab] = true
  /\ blank_drop_normalise blank_wit2 = norm Text [c_cr; c_lf; 88].
Proof. vm_compute. repeat split. Qed.
Example bdn_keeps_ex : forallb is_blank [c_sp; c_cr; c_tab] = true /\ is_blank 88 = false
  /\ blank_drop_normalise ([c_sp; c_cr; c_tab] ++ [88; c_cr; c_sp]) = [c_lf; c_tab] ++ norm Text [88; c_cr; c_sp].
Proof. vm_compute. repeat split. Qed.
Example conf_eq_ex : let l := sax_escape_g false false false true [c_sp; c_cr; c_lf; 88; c_lt] in
  no_cr_lt l = true /\ lex_text l = lex_text_conf l /\ lex_text l = OneText [c_sp; c_cr; c_lf; 88; c_lt].
Proof. vm_compute. repeat split. Qed.
Example cdata_end_ex : in_chardata (fold_left tstep [c_sp] tstart) = true
  /\ in_chardata (fold_left tstep [97] tstart) = true
  /\ lex_text ([c_sp] ++ cdata_end ++ [98]) = BrokenText /\ lex_text ([97] ++ cdata_end ++ [98]) = BrokenText.
Proof. vm_compute. repeat split. Qed.

Example norm_example :
  norm AttrDq [97; c_cr; c_lf; 98; c_tab; 99; c_cr; 100] = [97; c_sp; 98; c_sp; 99; c_sp; 100]
  /\ norm Text [97; c_cr; c_lf; 98; c_tab; 99; c_cr; 100] = [97; c_lf; 98; c_tab; 99; c_lf; 100].
Proof. vm_compute. split; reflexivity. Qed.
Close Scope N_scope.
