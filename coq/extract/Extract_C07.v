From Coq Require Import Extraction ExtrOcamlBasic.
From V.model Require Import ChartDataRun.
Extraction Language OCaml.
Cd "extract".
Extraction "c07.ml" run_c07.
Cd "..".
