(** Instance obligations of C09 over the data regenerated from /repo (gen/GenC09.v, gen/GenC11.v)
    and the hand-written catalogue (model/PropCatalogue.v). *)
From V.lib Require Import Prelude PyFloat PyVal.
From V.model Require Import SimpleTypeLib Props PropCatalogue.
From V.proofs Require Import PyFloat_proofs SimpleTypeLib_proofs C11_instance Props_proofs.
From V.gen Require Import GenC11 GenC09.

Lemma no_unmodelled : n_unmodelled = 0%nat.
Proof. vm_compute. reflexivity. Qed.

(** every settable property found in /repo is in the catalogue or on the oracle-only list *)
Lemma catalogue_complete : uncovered = [].
Proof. vm_compute. reflexivity. Qed.

(** the codecs of the attribute declarations are the functions of the C11 rows *)
Definition row_dummy : attr_row :=
  {| ar_id := 0%N; ar_desc := DCustom; ar_rdesc := RCustom; ar_lex := LUnknown;
     ar_to_xml := fun _ => Err OtherErr; ar_from_xml := fun _ => Err OtherErr |}.
Definition row_at (i : N) : attr_row := nth (N.to_nat i) rows row_dummy.
Definition tie_ok (t : N * (pyval -> res pyval) * (pyval -> res pyval)) : Prop :=
  ar_to_xml (row_at (fst (fst t))) = snd (fst t) /\ ar_from_xml (row_at (fst (fst t))) = snd t
  /\ In (row_at (fst (fst t))) rows.
Lemma row_at_in i : (N.to_nat i < length rows)%nat -> In (row_at i) rows.
Proof. intros H. apply nth_In; auto. Qed.
Lemma row_ties_ok : Forall tie_ok row_ties.
Proof.
  unfold row_ties.
  repeat (constructor; [ unfold tie_ok; cbn [fst snd]; split; [reflexivity | split; [reflexivity | apply row_at_in; vm_compute; lia ] ] | ]).
  constructor.
Qed.

(** * codec laws from the C11 theorems *)
Lemma desc_to_xml_str d v x : desc_to_xml d v = Ok x -> exists s, x = PStr s.
Proof.
  destruct d; simpl; unfold charset_upper_to_xml, bool_to_xml, enum_tokens_to_xml, int_range_to_xml, int_range_to_xml_b,
    int_any_to_xml, int_any_to_xml_b, str_any_to_xml, str_enum_to_xml; intros H;
  repeat match type of H with
         | context [match ?t with _ => _ end] => destruct t; try discriminate
         | context [if ?t then _ else _] => destruct t; try discriminate
         end; try discriminate; injection H as <-; eauto.
Qed.

Section RowCodec.
Variable r : attr_row.
Hypothesis r_in : In r rows.
Let c := row_codec (ar_to_xml r) (ar_from_xml r).

(** exact read-back (quantum 0) for the rows C11_RT covers *)
Lemma row_stored_exact kd w : rt_ok (ar_desc r) (ar_rdesc r) = true -> accepts c kd w = true ->
  exists v', stored c kd w = Ok v' /\ (py_eqb v' w = true \/ py_eqb w v' = true).
Proof.
  intros Hrt Hacc. unfold accepts, stored in *. unfold c, row_codec in *. cbn [enc dec] in *.
  assert (G : forall t, match ar_to_xml r w with Ok (PStr s) => Ok s | Ok _ => Err OtherErr | Err e => Err e end = Ok t ->
              exists v', ar_from_xml r (PStr t) = Ok v' /\ py_eqb v' w = true).
  { intros t Ht. destruct (ar_to_xml r w) as [[]|] eqn:E; try discriminate. injection Ht as <-.
    eapply RT_rows; eauto. }
  destruct kd as [d|].
  - destruct (py_eqb w d) eqn:Ed; [exists d; auto|]. simpl in Hacc.
    destruct (match ar_to_xml r w with Ok (PStr s) => Ok s | Ok _ => Err OtherErr | Err e => Err e end) as [t|] eqn:E; [|discriminate].
    destruct (G t eq_refl) as [v' [A B]]. exists v'. rewrite A. auto.
  - destruct (match ar_to_xml r w with Ok (PStr s) => Ok s | Ok _ => Err OtherErr | Err e => Err e end) as [t|] eqn:E; [|discriminate].
    destruct (G t eq_refl) as [v' [A B]]. exists v'. rewrite A. auto.
Qed.

(** a refusal is a TypeError or a ValueError for the rows C11_Rej covers *)
Lemma row_reject_kind w e : is_custom_w (ar_desc r) = false -> enc c w = Err e -> e = TypeErr \/ e = ValueErr.
Proof.
  intros Hc H. unfold c, row_codec in H. cbn [enc] in H.
  pose proof (proj1 (Forall_forall _ _) rows_write_desc r r_in Hc w) as E.
  destruct (ar_to_xml r w) as [x|e'] eqn:Ex.
  - symmetry in E. destruct (desc_to_xml_str _ _ _ E) as [s ->]. discriminate.
  - injection H as <-. eapply Rej_rows; eauto.
Qed.
End RowCodec.

(** * the font family: bold, italic, size, underline, language_id on one a:rPr *)
Definition ap (pre : aval -> res aval) (post : pyval -> res pyval) (ch : list level) (p : path) (d : attr_decl) : aprop :=
  {| ap_pre := pre; ap_post := post; ap_ch := ch; ap_p := p; ap_d := d |}.
Definition font_family : list aprop :=
  [ ap pre_id post_id [] [] A_CT_TextCharacterProperties__b;
    ap pre_id post_id [] [] A_CT_TextCharacterProperties__i;
    ap pre_font_size post_font_size [] [] A_CT_TextCharacterProperties__sz;
    ap pre_underline post_underline [] [] A_CT_TextCharacterProperties__u;
    ap pre_language post_language [] [] A_CT_TextCharacterProperties__lang ].
Definition font_labels : list str :=
  [ s2l "Font.bold"; s2l "Font.italic"; s2l "Font.size"; s2l "Font.underline"; s2l "Font.language_id" ]%lit.

Definition fam_of_catalogue (fam : list aprop) (labels : list str) : Prop :=
  map (fun a => Some (ap_get a, ap_set a)) fam
  = map (fun l => match find_entry l with Some e => Some (e_get e, e_set e) | None => None end) labels.
Lemma font_family_in_catalogue : fam_of_catalogue font_family font_labels.
Proof. reflexivity. Qed.

Definition fam_indep_b (fam : list aprop) (d : aprop) : bool :=
  forallb (fun i => forallb (fun j => Nat.eqb i j || indep (ap_set (nth i fam d)) (simplify (ap_get (nth j fam d))))
                            (seq 0 (length fam))) (seq 0 (length fam)).
Lemma fam_indep_spec fam d : fam_indep_b fam d = true ->
  forall i j, i <> j -> (i < length fam)%nat -> (j < length fam)%nat ->
  indep (ap_set (nth i fam d)) (simplify (ap_get (nth j fam d))) = true.
Proof.
  intros H i j Hne Hi Hj. unfold fam_indep_b in H. rewrite forallb_forall in H.
  specialize (H i ltac:(apply in_seq; lia)). rewrite forallb_forall in H.
  specialize (H j ltac:(apply in_seq; lia)). apply orb_true_iff in H as [H|H]; auto.
  apply Nat.eqb_eq in H. contradiction.
Qed.
Definition ap_dummy : aprop := ap pre_id post_id [] [] A_CT_TextCharacterProperties__b.
Lemma font_family_indep : fam_indep_b font_family ap_dummy = true.
Proof. vm_compute. reflexivity. Qed.

(** the text-frame family: four margins, vertical anchor, word wrap on one a:bodyPr *)
Definition tf_family : list aprop :=
  [ ap pre_id post_id bodyPr (pth "a:bodyPr") A_CT_TextBodyProperties__lIns;
    ap pre_id post_id bodyPr (pth "a:bodyPr") A_CT_TextBodyProperties__tIns;
    ap pre_id post_id bodyPr (pth "a:bodyPr") A_CT_TextBodyProperties__rIns;
    ap pre_id post_id bodyPr (pth "a:bodyPr") A_CT_TextBodyProperties__bIns;
    ap pre_id post_id bodyPr (pth "a:bodyPr") A_CT_TextBodyProperties__anchor;
    ap pre_word_wrap post_word_wrap bodyPr (pth "a:bodyPr") A_CT_TextBodyProperties__wrap ]%lit.
Definition tf_labels : list str :=
  [ s2l "TextFrame.margin_left"; s2l "TextFrame.margin_top"; s2l "TextFrame.margin_right"; s2l "TextFrame.margin_bottom";
    s2l "TextFrame.vertical_anchor"; s2l "TextFrame.word_wrap" ]%lit.
Lemma tf_family_in_catalogue : fam_of_catalogue tf_family tf_labels.
Proof. reflexivity. Qed.
Lemma tf_family_indep : fam_indep_b tf_family ap_dummy = true.
Proof. vm_compute. reflexivity. Qed.

Theorem font_history j ops s : fam_inv font_family s ->
  match last_accepted (fam_set font_family) j ops s None with
  | Some v => fam_get font_family j (hist (fam_set font_family) ops s) = fam_quant font_family j v
  | None => fam_get font_family j (hist (fam_set font_family) ops s) = fam_get font_family j s
  end.
Proof. apply (family_history font_family ap_dummy (fam_indep_spec _ _ font_family_indep)). Qed.
Theorem tf_history j ops s : fam_inv tf_family s ->
  match last_accepted (fam_set tf_family) j ops s None with
  | Some v => fam_get tf_family j (hist (fam_set tf_family) ops s) = fam_quant tf_family j v
  | None => fam_get tf_family j (hist (fam_set tf_family) ops s) = fam_get tf_family j s
  end.
Proof. apply (family_history tf_family ap_dummy (fam_indep_spec _ _ tf_family_indep)). Qed.

(** the unit conversion the hand-written catalogue uses for Font.size IS the body of Length.centipoints translated from
    pptx/util.py on every run (gen/GenC11.v), on every integer *)
Lemma centipoints_tied z : py_centipoints_attr (PInt z) = Length__centipoints (PInt z).
Proof. reflexivity. Qed.

(** * quantum of Font.size: emu // 127 centipoints, read back as 127 * centipoints *)
Definition font_size_prop : aprop := ap pre_font_size post_font_size [] [] A_CT_TextCharacterProperties__sz.
Theorem font_size_quant emu : (12700 <= emu <= 50800126)%Z ->
  ap_quant font_size_prop (plain (PInt emu)) = Ok (PInt (emu / 127 * 127)).
Proof.
  intros H. unfold ap_quant, font_size_prop, ap. cbn [ap_pre ap_post ap_d].
  unfold pre_font_size, plain. cbn [av_val py_Emu py_int py_centipoints_attr Length__centipoints py_floordiv arith as_num].
  change (Z.eqb 127 0) with false. cbn iota.
  cbn [ad_codec ad_kind A_CT_TextCharacterProperties__sz stored av_val].
  change (py_eqb (PInt (emu / 127)) PNone) with false. cbn iota.
  unfold row_codec. cbn [enc dec].
  rewrite desc_ST_TextFontSize_ok. unfold desc_ST_TextFontSize. cbn [desc_to_xml int_range_to_xml].
  assert (Hr : in_range 100 400000 (emu / 127) = true).
  { apply in_range_spec. split.
    - apply Z.div_le_lower_bound; lia.
    - assert (emu / 127 < 400001)%Z by (apply Z.div_lt_upper_bound; lia). lia. }
  rewrite Hr. rewrite rdesc_ST_TextFontSize_ok. unfold rdesc_ST_TextFontSize. cbn [rdesc_from_xml py_int].
  rewrite int_of_str_of_Z.
  - cbn [bind bindr]. unfold post_font_size, py_Centipoints. cbn [py_mul arith as_num bind py_int]. reflexivity.
  - apply in_range_spec in Hr. apply big_small. unfold big. lia.
Qed.
Lemma font_size_within_quantum emu : (0 <= emu - emu / 127 * 127 < 127)%Z.
Proof. pose proof (Z.div_mod emu 127 ltac:(lia)). pose proof (Z.mod_pos_bound emu 127 ltac:(lia)). lia. Qed.

(** * model-level witnesses of refused assignments that change the element *)
Lemma nonatomic_witness_sound e s v : nonatomic_witness e = Some (s, v) ->
  exists s' err, run (e_set e) v s = (s', Err err) /\ st_same s s' = false.
Proof.
  unfold nonatomic_witness. intros H. apply find_some in H as [_ H]. unfold nonatomic_on in H. cbn [fst snd] in H.
  destruct (run (e_set e) v s) as [s' [u|err]]; [discriminate|]. apply negb_true_iff in H. eauto.
Qed.

Lemma breaking_witness_sound e s v : breaking_witness e = Some (s, v) ->
  exists s' err x, run (e_set e) v s = (s', Err err) /\ eval (e_get e) s = Ok x /\ (exists er, eval (e_get e) s' = Err er).
Proof.
  unfold breaking_witness. intros H. apply find_some in H as [_ H]. unfold breaks_getter_on in H. cbn [fst snd] in H.
  destruct (run (e_set e) v s) as [s' [u|err]]; [discriminate|]. apply andb_true_iff in H as [H1 H2].
  destruct (eval (e_get e) s) as [x|] eqn:E1; [|discriminate H1]. destruct (eval (e_get e) s') as [y|er] eqn:E2; [discriminate H2|].
  exists s', err, x. split; [reflexivity|]. split; [reflexivity|]. exists er. exact E2.
Qed.

(** recorded findings are real: every recorded Class.name has a model witness *)
Lemma known_are_real : forallb (fun l => mem_str l breaking_cns) known_breaking = true.
Proof. vm_compute. reflexivity. Qed.

(** * the faithful model refutes parts of the statement: witnesses *)
Local Open Scope lit_scope.
Definition entry_named (l : lit) : entry :=
  match find_entry (s2l l) with Some e => e | None => mk "" "" "" (GConst (Err OtherErr)) Done end.
Definition res_differs (a b : res pyval) : bool :=
  match a, b with
  | Ok x, Ok y => negb (py_eqb x y)
  | Err e, Err e' => negb (pyerr_eqb e e')
  | _, _ => true
  end.

(** ValueAxis.major_unit: the old c:majorUnit is removed before the new value is validated *)
Definition w_major_unit : st := fst (run (e_set (entry_named "ValueAxis.major_unit")) (plain (PInt 5)) []).
Lemma major_unit_reject_refuted :
  let e := entry_named "ValueAxis.major_unit" in
  wf w_major_unit = true
  /\ eval (e_get e) w_major_unit = Ok (PFloat (Fin 5 0))
  /\ run (e_set e) (plain (PFloat (Fin (-1) 0))) w_major_unit = ([], Err ValueErr)
  /\ eval (e_get e) [] = Ok PNone.
Proof. vm_compute. auto. Qed.

(** Font.name: the typeface is assigned before a:latin is inserted: a refused value changes nothing *)
Lemma font_name_reject_unchanged :
  let e := entry_named "Font.name" in
  eval (e_get e) [] = Ok PNone /\ run (e_set e) (plain (PInt 5)) [] = ([], Err TypeErr).
Proof. vm_compute. auto. Qed.

(** Marker.size: the value is validated before c:size is replaced: a refused value changes nothing *)
Lemma marker_size_reject_unchanged :
  let e := entry_named "Marker.size" in
  eval (e_get e) [] = Ok PNone /\ run (e_set e) (plain (PInt 1)) [] = ([], Err ValueErr).
Proof. vm_compute. auto. Qed.

(** placeholder (regression witness of the former refutation): assigning left to a placeholder that inherits its
    geometry creates a:off, whose y the setter now writes from the base: top reads the inherited value as before
    (it read 0 when the setter was the bare element-level assignment).  The footprints still overlap: the
    positive statement is ph_others_read_same below, not C09_frame. *)
Definition w_placeholder : st :=
  [ ((pth "p:spPr", None), []); ((pth "~base", None), []); ((pth "~base", Some (s2l "top")), s2l "1600200");
    ((pth "~base", Some (s2l "left")), s2l "457200") ]%lit.
Lemma placeholder_frame_witness :
  let l := entry_named "_InheritsDimensions.left@sp" in
  let t := entry_named "_InheritsDimensions.top@sp" in
  wf w_placeholder = true
  /\ eval (e_get t) w_placeholder = Ok (PInt 1600200)
  /\ snd (run (e_set l) (plain (PInt 914400)) w_placeholder) = Ok tt
  /\ eval (e_get t) (fst (run (e_set l) (plain (PInt 914400)) w_placeholder)) = Ok (PInt 1600200)
  /\ lookup (pth "p:spPr/a:xfrm/a:off", Some (s2l "y")) (fst (run (e_set l) (plain (PInt 914400)) w_placeholder)) = Some (s2l "1600200")
  /\ eval (e_get l) (fst (run (e_set l) (plain (PInt 914400)) w_placeholder)) = Ok (PInt 914400)
  /\ e_indep l t = false.
Proof. vm_compute. auto 10. Qed.

(** the guard of ph_others_read_same is needed: a dimension for which neither the placeholder nor its base has a
    value reads None; when its partner in a:off (a:ext) is assigned, or written back, the new element carries 0 *)
Definition w_placeholder_no_top : st :=
  [ ((pth "p:spPr", None), []); ((pth "~base", None), []); ((pth "~base", Some (s2l "left")), s2l "457200");
    ((pth "~base", Some (s2l "height")), s2l "100") ]%lit.
Lemma placeholder_none_partner_reads_zero :
  let l := entry_named "_InheritsDimensions.left@sp" in
  let t := entry_named "_InheritsDimensions.top@sp" in
  let w := entry_named "_InheritsDimensions.width@sp" in
  let h := entry_named "_InheritsDimensions.height@sp" in
  wf w_placeholder_no_top = true
  /\ eval (e_get t) w_placeholder_no_top = Ok PNone /\ eval (e_get w) w_placeholder_no_top = Ok PNone
  /\ snd (run (e_set l) (plain (PInt 914400)) w_placeholder_no_top) = Ok tt
  /\ eval (e_get t) (fst (run (e_set l) (plain (PInt 914400)) w_placeholder_no_top)) = Ok (PInt 0)
  /\ eval (e_get w) (fst (run (e_set l) (plain (PInt 914400)) w_placeholder_no_top)) = Ok (PInt 0)
  /\ eval (e_get h) (fst (run (e_set l) (plain (PInt 914400)) w_placeholder_no_top)) = Ok (PInt 100).
Proof. vm_compute. auto 10. Qed.

(** order of evaluation: the readings are taken before anything is written (an exception of a reading leaves the
    element untouched); a base value its own simple type refuses raises AFTER the assignment and the earlier
    write-backs were made *)
Definition w_placeholder_bad_off : st :=
  [ ((pth "p:spPr", None), []); ((pth "p:spPr/a:xfrm", None), []); ((pth "p:spPr/a:xfrm/a:off", None), []);
    ((pth "p:spPr/a:xfrm/a:off", Some (s2l "x")), s2l "5") ]%lit.
Definition w_placeholder_bad_base : st :=
  [ ((pth "p:spPr", None), []); ((pth "~base", None), []); ((pth "~base", Some (s2l "top")), s2l "7");
    ((pth "~base", Some (s2l "width")), s2l "-3"); ((pth "~base", Some (s2l "height")), s2l "9") ]%lit.
Lemma placeholder_evaluation_order :
  let l := entry_named "_InheritsDimensions.left@sp" in
  let w := entry_named "_InheritsDimensions.width@sp" in
  let h := entry_named "_InheritsDimensions.height@sp" in
  run (e_set w) (plain (PInt 914400)) w_placeholder_bad_off = (w_placeholder_bad_off, Err OtherErr)
  /\ snd (run (e_set l) (plain (PInt 1)) w_placeholder_bad_base) = Err ValueErr
  /\ lookup (pth "p:spPr/a:xfrm/a:off", Some (s2l "x")) (fst (run (e_set l) (plain (PInt 1)) w_placeholder_bad_base)) = Some (s2l "1")
  /\ lookup (pth "p:spPr/a:xfrm/a:off", Some (s2l "y")) (fst (run (e_set l) (plain (PInt 1)) w_placeholder_bad_base)) = Some (s2l "7")
  /\ present (pth "p:spPr/a:xfrm/a:ext") (fst (run (e_set l) (plain (PInt 1)) w_placeholder_bad_base)) = false
  /\ eval (e_get h) (fst (run (e_set l) (plain (PInt 1)) w_placeholder_bad_base)) = Ok (PInt 9).
Proof. vm_compute. auto 10. Qed.

(** position of an inheriting shape: a refused value adds no a:xfrm / a:off, the inherited readings stay *)
Lemma placeholder_reject_unchanged :
  let l := entry_named "_InheritsDimensions.left@sp" in
  run (e_set l) (plain (PInt (-27273042329601))) w_placeholder = (w_placeholder, Err ValueErr)
  /\ run (e_set l) (plain (PStr (s2l "abc"))) w_placeholder = (w_placeholder, Err TypeErr).
Proof. vm_compute. auto. Qed.

(** ColorFormat.theme_color: the member is validated before the colour is changed *)
Definition w_rgb : st := [ ((pth "a:srgbClr", None), []); ((pth "a:srgbClr", Some (s2l "val")), s2l "123456") ]%lit.
Lemma theme_color_reject_unchanged :
  let e := entry_named "ColorFormat.theme_color" in
  run (e_set e) (plain (PInt 987654)) w_rgb = (w_rgb, Err ValueErr).
Proof. vm_compute. auto. Qed.

(** non-vacuity: concrete accepted assignments and independent pairs *)
Lemma ex_rotation :
  let e := entry_named "BaseShape.rotation@sp" in
  let s0 : st := [ ((pth "p:spPr", None), []) ]%lit in
  snd (run (e_set e) (plain (PFloat (Fin 91 (-1)))) s0) = Ok tt
  /\ res_differs (eval (e_get e) (fst (run (e_set e) (plain (PFloat (Fin 91 (-1)))) s0))) (Ok (PFloat (Fin 91 (-1)))) = false
  /\ lookup (pth "p:spPr/a:xfrm", Some (s2l "rot")) (fst (run (e_set e) (plain (PFloat (Fin 91 (-1)))) s0)) = Some (s2l "2730000")
  /\ snd (run (e_set e) (plain (PInt 0)) (fst (run (e_set e) (plain (PFloat (Fin 91 (-1)))) s0))) = Ok tt
  /\ lookup (pth "p:spPr/a:xfrm", Some (s2l "rot")) (fst (run (e_set e) (plain (PInt 0)) (fst (run (e_set e) (plain (PFloat (Fin 91 (-1)))) s0)))) = None.
Proof. vm_compute. auto 10. Qed.
Lemma ex_indep :
  e_indep (entry_named "BaseShape.left@sp") (entry_named "BaseShape.rotation@sp") = true
  /\ e_indep (entry_named "BaseShape.rotation@sp") (entry_named "BaseShape.left@sp") = true
  /\ e_indep (entry_named "Font.size") (entry_named "Font.bold") = true
  /\ e_indep (entry_named "_Paragraph.line_spacing") (entry_named "_Paragraph.space_before") = true
  /\ e_indep (entry_named "BaseShape.left@sp") (entry_named "BaseShape.top@sp") = false.
Proof. vm_compute. auto 10. Qed.
Lemma ex_font_size :
  ap_quant font_size_prop (AV TLength (PInt 152400)) = Ok (PInt 152400)
  /\ ap_quant font_size_prop (plain (PInt 152500)) = Ok (PInt 152400)
  /\ ap_quant font_size_prop (plain (PInt 12699)) = Err ValueErr
  /\ ap_quant font_size_prop (plain (PStr (s2l "x"))) = Err ValueErr.
Proof. vm_compute. auto. Qed.

(** * Legend.horz_offset: builder (E), a value child (c:x) that counts only while the mode child (c:xMode) reads factor.
      The theorems quantify over EVERY well-formed element state, so also over the states only another producer
      writes (c:xMode val=edge, a c:x without c:xMode, ...). *)
Definition dbl_c : codec := ad_codec A_CT_Double__val.

Lemma horz_offset_in_catalogue :
  find_entry (s2l "Legend.horz_offset") = Some (mk "Legend" "horz_offset" "" horz_offset_get horz_offset_set).
Proof. reflexivity. Qed.

Lemma ho_box_nonroot : ho_box <> [].
Proof. discriminate. Qed.

Lemma ho_chain s : WF s -> exists s1, chain_exec layout_ch s = (s1, true) /\ present (parent ho_box) s1 = true.
Proof.
  intros Hwf. destruct (chain_exec_top (pth "c:layout") [] (Ok f_zero) s eq_refl) as [s1 H1].
  exists s1. split; [exact H1|].
  destruct (chain_exec_ok _ _ _ Hwf H1) as [_ [Hall _]]. cbn [forallb] in Hall.
  apply andb_true_iff in Hall as [Hl _]. exact Hl.
Qed.

(** C09_get_set: an accepted offset other than 0 reads back as stored and the mode reads factor afterwards *)
Theorem horz_offset_get_set v s : WF s ->
  accepts dbl_c AReq (av_val v) = true -> py_eqb (av_val v) f_zero = false ->
  snd (run horz_offset_set v s) = Ok tt
  /\ eval horz_offset_get (fst (run horz_offset_set v s)) = stored dbl_c AReq (av_val v)
  /\ attr_get ho_m (ad_attr A_CT_LayoutMode__val) (ad_codec A_CT_LayoutMode__val) (ad_kind A_CT_LayoutMode__val)
              (fst (run horz_offset_set v s)) = Ok mode_factor
  /\ WF (fst (run horz_offset_set v s)).
Proof.
  intros Hwf Hacc Hnz. destruct (ho_chain s Hwf) as [s1 [Hch Hpar]]. unfold horz_offset_set, horz_offset_get.
  exact (moded_prop_get_set layout_ch ho_box ho_m ho_x (CEq f_zero) (Ok f_zero) A_CT_LayoutMode__val mode_factor A_CT_Double__val
           ho_box_nonroot eq_refl eq_refl eq_refl v s s1 mode_factor Hwf Hch Hpar Hnz Hacc eq_refl eq_refl eq_refl).
Qed.

(** C09_none (the documented way back to the default position): 0 removes c:manualLayout and the property reads 0.0 *)
Theorem horz_offset_zero v s : WF s ->
  accepts dbl_c AReq (av_val v) = true -> py_eqb (av_val v) f_zero = true ->
  snd (run horz_offset_set v s) = Ok tt
  /\ present ho_box (fst (run horz_offset_set v s)) = false
  /\ eval horz_offset_get (fst (run horz_offset_set v s)) = Ok f_zero.
Proof.
  intros Hwf Hacc Hz. destruct (ho_chain s Hwf) as [s1 [Hch Hpar]].
  destruct (moded_prop_zero layout_ch ho_box ho_m ho_x (CEq f_zero) (Ok f_zero) A_CT_LayoutMode__val mode_factor A_CT_Double__val
              ho_box_nonroot eq_refl eq_refl eq_refl v s s1 Hwf Hch Hpar Hz Hacc) as [A B].
  unfold horz_offset_set, horz_offset_get. rewrite A. cbn [fst snd]. repeat split; auto.
  rewrite present_del_sub. change ho_box with (s2l "c:layout" :: [s2l "c:manualLayout"]). rewrite is_prefix_refl. auto.
Qed.

(** C09_reject: XsdDouble.to_xml refuses before anything is touched *)
Theorem horz_offset_reject v s : accepts dbl_c AReq (av_val v) = false ->
  exists e, enc dbl_c (av_val v) = Err e /\ run horz_offset_set v s = (s, Err e).
Proof.
  intros Hacc. unfold horz_offset_set.
  exact (moded_prop_reject layout_ch ho_box ho_m ho_x (CEq f_zero) A_CT_LayoutMode__val mode_factor A_CT_Double__val v s Hacc).
Qed.

(** a mode another producer wrote: the reader answers 0.0 whatever c:x holds *)
Theorem horz_offset_foreign_mode s mode : present (pth "c:layout") s = true ->
  attr_get ho_m (ad_attr A_CT_LayoutMode__val) (ad_codec A_CT_LayoutMode__val) (ad_kind A_CT_LayoutMode__val) s = Ok mode ->
  py_eqb mode mode_factor = false -> eval horz_offset_get s = Ok f_zero.
Proof.
  intros Hl Hm Hne. unfold horz_offset_get.
  apply (moded_foreign_mode_reads_off layout_ch ho_box ho_m ho_x (Ok f_zero) A_CT_LayoutMode__val mode_factor A_CT_Double__val s mode f_zero);
    auto; [|discriminate].
  cbn [forallb layout_ch lv lv_path]. rewrite Hl. auto.
Qed.

(** non-vacuity, from a foreign pre-state: the legend was dragged in PowerPoint (mode edge, absolute position 0.7) *)
Definition w_legend_edge : st :=
  [ ((pth "c:layout", None), []); ((ho_box, None), []); ((ho_m, None), []); ((ho_m, Some (s2l "val")), s2l "edge");
    ((ho_x, None), []); ((ho_x, Some (s2l "val")), s2l "0.7") ].
Definition quarter : aval := plain (PFloat (Fin 1 (-2))).
Lemma ex_horz_offset_from_edge :
  wf w_legend_edge = true
  /\ eval horz_offset_get w_legend_edge = Ok f_zero
  /\ accepts dbl_c AReq (av_val quarter) = true /\ py_eqb (av_val quarter) f_zero = false
  /\ snd (run horz_offset_set quarter w_legend_edge) = Ok tt
  /\ eval horz_offset_get (fst (run horz_offset_set quarter w_legend_edge)) = Ok (PFloat (Fin 1 (-2)))
  /\ lookup (ho_m, Some (s2l "val")) (fst (run horz_offset_set quarter w_legend_edge)) = None
  /\ stored dbl_c AReq (av_val quarter) = Ok (PFloat (Fin 1 (-2))).
Proof. vm_compute. auto 10. Qed.

(** * exact read-back (quantum 0: 1 EMU) for the coordinate types whose reader also accepts
      universal measures (outside C11_RT): position, margins *)
Close Scope lit_scope.
Definition emu_char (x : N) : bool := is_digit x || N.eqb x 45.
Lemma str_of_Z_chars z : forallb emu_char (str_of_Z z) = true.
Proof.
  destruct (str_of_Z_digits z) as [A B]. destruct (Z.ltb_spec z 0) as [Hn|Hp].
  - destruct (B Hn) as [ds [-> Hd]]. cbn [forallb]. unfold emu_char at 1. simpl.
    unfold all_digits in Hd. destruct ds; [discriminate|]. apply forallb_forall. intros x Hx.
    unfold emu_char. rewrite (proj1 (forallb_forall _ _) Hd x Hx). auto.
  - specialize (A Hp). unfold all_digits in A. destruct (str_of_Z z); [discriminate|].
    apply forallb_forall. intros x Hx. unfold emu_char. rewrite (proj1 (forallb_forall _ _) A x Hx). auto.
Qed.
Lemma no_letter c s : forallb emu_char s = true -> emu_char c = false -> is_substr [c] s = false.
Proof.
  intros H Hc. induction s as [|y s IH]; [reflexivity|].
  cbn [forallb] in H. apply andb_true_iff in H as [Hy Hs].
  cbn [is_substr starts_with]. rewrite IH by auto. rewrite orb_false_r, andb_true_r.
  destruct (N.eqb_spec c y); auto. subst. congruence.
Qed.

Lemma coordinate_reads z : (Z.abs z < 10 ^ Z.of_N int_max_str_digits)%Z ->
  ST_Coordinate__from_xml (PStr (str_of_Z z)) = Ok (PInt z)
  /\ ST_Coordinate32__from_xml (PStr (str_of_Z z)) = Ok (PInt z).
Proof.
  intros Hz. pose proof (str_of_Z_chars z) as Hc.
  unfold ST_Coordinate__from_xml, ST_Coordinate__convert_from_xml, ST_Coordinate32__from_xml, ST_Coordinate32__convert_from_xml,
    ST_Coordinate32Unqualified__convert_from_xml.
  cbn [py_in bind].
  rewrite !(no_letter _ _ Hc) by reflexivity. cbn [bind py_int py_Emu]. rewrite (int_of_str_of_Z z Hz). auto.
Qed.

(** left / top (ST_Coordinate) and the text-frame margins (ST_Coordinate32): every accepted int reads back as itself *)
Theorem coordinate_exact z : (-27273042329600 <= z <= 27273042316900)%Z ->
  stored (ad_codec A_CT_Point2D__x) (ad_kind A_CT_Point2D__x) (PInt z) = Ok (PInt z)
  /\ stored (ad_codec A_CT_Point2D__y) (ad_kind A_CT_Point2D__y) (PInt z) = Ok (PInt z).
Proof.
  intros H. assert (Hb : (Z.abs z < 10 ^ Z.of_N int_max_str_digits)%Z) by (apply big_small; unfold big; lia).
  cbn [ad_codec ad_kind A_CT_Point2D__x A_CT_Point2D__y stored row_codec enc dec].
  rewrite desc_ST_Coordinate_ok. unfold desc_ST_Coordinate. cbn [desc_to_xml int_range_to_xml_b].
  assert (Hr : in_range (-27273042329600) 27273042316900 z = true) by (apply in_range_spec; lia).
  rewrite Hr. rewrite (proj1 (coordinate_reads z Hb)). auto.
Qed.
Theorem margin_exact z : (-2147483648 <= z <= 2147483647)%Z ->
  stored (ad_codec A_CT_TextBodyProperties__lIns) (AOpt PNone) (PInt z) = Ok (PInt z).
Proof.
  intros H. assert (Hb : (Z.abs z < 10 ^ Z.of_N int_max_str_digits)%Z) by (apply big_small; unfold big; lia).
  cbn [ad_codec A_CT_TextBodyProperties__lIns stored row_codec enc dec].
  change (py_eqb (PInt z) PNone) with false. cbn iota.
  rewrite desc_ST_Coordinate32_ok. unfold desc_ST_Coordinate32. cbn [desc_to_xml int_range_to_xml_b].
  assert (Hr : in_range (-2147483648) 2147483647 z = true) by (apply in_range_spec; lia).
  rewrite Hr. rewrite (proj2 (coordinate_reads z Hb)). auto.
Qed.

(** * placeholder geometry (_InheritsDimensions._set_dimension): the assigned dimension reads back, the other
      three read as before *)
(** width / height (ST_PositiveCoordinate): every accepted int reads back as itself *)
Theorem size_exact z : (0 <= z <= 27273042316900)%Z ->
  stored (ad_codec A_CT_PositiveSize2D__cx) (ad_kind A_CT_PositiveSize2D__cx) (PInt z) = Ok (PInt z)
  /\ stored (ad_codec A_CT_PositiveSize2D__cy) (ad_kind A_CT_PositiveSize2D__cy) (PInt z) = Ok (PInt z).
Proof.
  intros H. assert (Hb : (Z.abs z < 10 ^ Z.of_N int_max_str_digits)%Z) by (apply big_small; unfold big; lia).
  cbn [ad_codec ad_kind A_CT_PositiveSize2D__cx A_CT_PositiveSize2D__cy stored row_codec enc dec].
  rewrite desc_ST_PositiveCoordinate_ok. unfold desc_ST_PositiveCoordinate. cbn [desc_to_xml int_range_to_xml_b].
  assert (Hr : in_range 0 27273042316900 z = true) by (apply in_range_spec; lia).
  rewrite Hr. rewrite rdesc_ST_PositiveCoordinate_ok. unfold rdesc_ST_PositiveCoordinate. cbn [rdesc_from_xml py_int].
  rewrite (int_of_str_of_Z z Hb). auto.
Qed.

(** for the four dimensions: an int the simple type accepts reads back as itself *)
Lemma dim_accept_exact m z : In m ph_dims ->
  accepts (ad_codec (dm_decl m)) (ad_kind (dm_decl m)) (PInt z) = true ->
  stored (ad_codec (dm_decl m)) (ad_kind (dm_decl m)) (PInt z) = Ok (PInt z).
Proof.
  intros Hin. unfold ph_dims in Hin. cbn [In] in Hin.
  destruct Hin as [<-|[<-|[<-|[<-|[]]]]]; cbn [dm_decl]; intros Hacc.
  - assert (Hr : in_range (-27273042329600) 27273042316900 z = true).
    { cbn [ad_codec ad_kind A_CT_Point2D__x accepts row_codec enc] in Hacc. rewrite desc_ST_Coordinate_ok in Hacc.
      unfold desc_ST_Coordinate in Hacc. cbn [desc_to_xml int_range_to_xml_b] in Hacc.
      destruct (in_range (-27273042329600) 27273042316900 z); auto; discriminate. }
    apply in_range_spec in Hr. apply (coordinate_exact z Hr).
  - assert (Hr : in_range (-27273042329600) 27273042316900 z = true).
    { cbn [ad_codec ad_kind A_CT_Point2D__y accepts row_codec enc] in Hacc. rewrite desc_ST_Coordinate_ok in Hacc.
      unfold desc_ST_Coordinate in Hacc. cbn [desc_to_xml int_range_to_xml_b] in Hacc.
      destruct (in_range (-27273042329600) 27273042316900 z); auto; discriminate. }
    apply in_range_spec in Hr. apply (coordinate_exact z Hr).
  - assert (Hr : in_range 0 27273042316900 z = true).
    { cbn [ad_codec ad_kind A_CT_PositiveSize2D__cx accepts row_codec enc] in Hacc. rewrite desc_ST_PositiveCoordinate_ok in Hacc.
      unfold desc_ST_PositiveCoordinate in Hacc. cbn [desc_to_xml int_range_to_xml_b] in Hacc.
      destruct (in_range 0 27273042316900 z); auto; discriminate. }
    apply in_range_spec in Hr. apply (size_exact z Hr).
  - assert (Hr : in_range 0 27273042316900 z = true).
    { cbn [ad_codec ad_kind A_CT_PositiveSize2D__cy accepts row_codec enc] in Hacc. rewrite desc_ST_PositiveCoordinate_ok in Hacc.
      unfold desc_ST_PositiveCoordinate in Hacc. cbn [desc_to_xml int_range_to_xml_b] in Hacc.
      destruct (in_range 0 27273042316900 z); auto; discriminate. }
    apply in_range_spec in Hr. apply (size_exact z Hr).
Qed.

Definition ph_chain (m : dim) : list level := xfrm_chain "sp"%lit ok_none ++ [dm_level m].
Definition ph_L (m : dim) : list path := map lv_path (ph_chain m).

(** a dimension that has its own value found p:spPr, a:xfrm and its a:off / a:ext *)
Lemma ph_own_present m : In m ph_dims -> forall s y, eval (ph_own m) s = Ok y -> y <> PNone -> all_present (ph_L m) s = true.
Proof.
  intros Hin s y H Hy. unfold ph_own, pos_get, attr_gexp in H. cbn [eval] in H. fold (ph_chain m) in H.
  destruct (eval (chain_get (ph_chain m) (GAttr (lv_path (dm_level m)) (ad_attr (dm_decl m)) (ad_codec (dm_decl m)) (ad_kind (dm_decl m)))) s)
    as [y0|] eqn:E; [|discriminate].
  unfold post_id in H. injection H as ->.
  apply (chain_get_some _ _ _ _ E Hy).
  unfold ph_dims in Hin. cbn [In] in Hin. destruct Hin as [<-|[<-|[<-|[<-|[]]]]]; reflexivity.
Qed.

(** the element-level setter of a dimension, as a program and as a step list *)
Lemma pos_steps_run l d v s : run (pos_set "sp"%lit l d) v s =
  match run_steps (pos_steps "sp"%lit l d) v s with (s', Ok _) => (s', Ok tt) | (s', Err e) => (s', Err e) end.
Proof. change (pos_set "sp"%lit l d) with (seqs (pos_steps "sp"%lit l d) Done). rewrite run_seqs. reflexivity. Qed.

Lemma ph_level_in m : In (lv_path (dm_level m)) (map lv_path (ph_chain m)).
Proof. apply in_map. unfold ph_chain. apply in_or_app. right. left. auto. Qed.

(** an accepted element-level assignment of an int makes the dimension's own value that int *)
Lemma ph_own_set m z : In m ph_dims -> forall s s1 u, WF s ->
  run_steps (kp_wr (ph_keep m)) (plain (PInt z)) s = (s1, Ok u) -> eval (ph_own m) s1 = Ok (PInt z).
Proof.
  intros Hin s s1 u Hwf H. cbn [kp_wr ph_keep] in H.
  assert (R : run (pos_set "sp"%lit (dm_level m) (dm_decl m)) (plain (PInt z)) s = (s1, Ok tt)) by (rewrite pos_steps_run, H; auto).
  destruct (checked_attr_accepted post_id (ph_chain m) (lv_path (dm_level m)) (dm_decl m) (plain (PInt z)) s s1 tt Hwf (ph_level_in m) R)
    as [Hacc [Hev _]].
  unfold ph_own, pos_get. fold (ph_chain m). rewrite Hev. cbn [av_val plain].
  rewrite (dim_accept_exact m z Hin Hacc). reflexivity.
Qed.

(** the side conditions of Props_proofs.keep_reads, by computation on the four concrete setters *)
Definition ph_side (before after : list dim) (mb ma : dim) : bool :=
  let L := ph_L mb in
  let main := pos_set "sp"%lit (dm_level ma) (dm_decl ma) in
  safe L main
  && forallb (fun k => negb (in_writes k (writes_in L main))) (reads (ph_own mb))
  && keeps_quiet (ph_own mb) L (map ph_keep (before ++ after)).

Lemma ph_keep_reads before after mb ma z v s :
  In mb ph_dims -> ph_side before after mb ma = true ->
  let p := Keep (map ph_keep before ++ ph_keep mb :: map ph_keep after) (pos_set "sp"%lit (dm_level ma) (dm_decl ma)) in
  WF s -> snd (run p v s) = Ok tt -> eval (ph_get mb) s = Ok (PInt z) ->
  eval (ph_get mb) (fst (run p v s)) = Ok (PInt z).
Proof.
  intros Hin Hside p Hwf Hok Hread. unfold ph_side in Hside.
  apply andb_true_iff in Hside as [Hside Hq]. apply andb_true_iff in Hside as [Hsafe Hframe].
  rewrite map_app in Hq.
  assert (G : eval (ph_own mb) (fst (run p v s)) = Ok (PInt z)).
  { apply (keep_reads (ph_own mb) (ph_L mb) (PInt z) ltac:(discriminate) (ph_own_present mb Hin)
             (map ph_keep before) (map ph_keep after) (ph_keep mb) _ v s eq_refl Hsafe Hframe Hq (ph_own_set mb z Hin) Hwf Hok Hread). }
  unfold ph_get. cbn [eval]. rewrite G. reflexivity.
Qed.

(** C09 frame for placeholder geometry: after an ACCEPTED assignment of any value to one of left / top /
    width / height of a placeholder, each of the other three that read an integer before -- the
    placeholder's own, or its base's while it had none -- reads that integer.  Guard, exactly: the state
    is a tree, the assignment is accepted (a refused one: placeholder_reject_unchanged), and the other
    dimension HAS a reading (not None; without one its partner's new a:off / a:ext gives it 0:
    placeholder_none_partner_reads_zero). *)
Theorem ph_others_read_same a b ea eb :
  nth_error ph_entries a = Some ea -> nth_error ph_entries b = Some eb -> a <> b ->
  forall v s z, WF s -> snd (run (e_set ea) v s) = Ok tt -> eval (e_get eb) s = Ok (PInt z) ->
  eval (e_get eb) (fst (run (e_set ea) v s)) = Ok (PInt z).
Proof.
  intros Ha Hb Hne v s z Hwf.
  destruct a as [|[|[|[|a]]]]; cbn in Ha; try (destruct a; discriminate); injection Ha as <-;
  (destruct b as [|[|[|[|b]]]]; cbn in Hb; try (destruct b; discriminate); try congruence; injection Hb as <-);
  cbn [e_get e_set ph_entry mk].
  all: match goal with
       | |- snd (run (ph_set ?i ?ma) _ _) = _ -> eval (ph_get ?mb) _ = _ -> _ =>
           let rs := eval cbv [drop_nth ph_dims] in (drop_nth i ph_dims) in
           match rs with
           | [mb; ?x; ?y] => exact (ph_keep_reads [] [x; y] mb ma z v s ltac:(cbn; tauto) ltac:(vm_compute; reflexivity) Hwf)
           | [?x; mb; ?y] => exact (ph_keep_reads [x] [y] mb ma z v s ltac:(cbn; tauto) ltac:(vm_compute; reflexivity) Hwf)
           | [?x; ?y; mb] => exact (ph_keep_reads [x; y] [] mb ma z v s ltac:(cbn; tauto) ltac:(vm_compute; reflexivity) Hwf)
           end
       end.
Qed.

(** read-after-write for the assigned dimension: writing the others back does not disturb it *)
Theorem ph_get_set a ea ma :
  nth_error ph_entries a = Some ea -> nth_error ph_dims a = Some ma ->
  forall v s x, WF s -> snd (run (e_set ea) v s) = Ok tt ->
  stored (ad_codec (dm_decl ma)) (ad_kind (dm_decl ma)) (av_val v) = Ok x -> x <> PNone ->
  accepts (ad_codec (dm_decl ma)) (ad_kind (dm_decl ma)) (av_val v) = true
  /\ eval (e_get ea) (fst (run (e_set ea) v s)) = Ok x.
Proof.
  intros Ha Hm v s x Hwf Hok Hst Hx.
  assert (Hin : In ma ph_dims) by (eapply nth_error_In; eauto).
  assert (Hq : keeps_quiet (ph_own ma) (ph_L ma) (map ph_keep (drop_nth a ph_dims)) = true).
  { destruct a as [|[|[|[|a]]]]; cbn in Hm; try (destruct a; discriminate); injection Hm as <-; vm_compute; reflexivity. }
  assert (He : e_set ea = ph_set a ma /\ e_get ea = ph_get ma).
  { destruct a as [|[|[|[|a]]]]; cbn in Hm; try (destruct a; discriminate); injection Hm as <-; cbn in Ha; injection Ha as <-; auto. }
  destruct He as [Es Eg]. rewrite Es, Eg in *. unfold ph_set in *.
  set (main := pos_set "sp"%lit (dm_level ma) (dm_decl ma)) in *.
  assert (Hm1 : exists s1, run main v s = (s1, Ok tt)).
  { cbn [run] in Hok. destruct (collect (map ph_keep (drop_nth a ph_dims)) s); [|discriminate].
    destruct (run main v s) as [s1 [[]|e]]; [eauto|discriminate]. }
  destruct Hm1 as [s1 R].
  destruct (checked_attr_accepted post_id (ph_chain ma) (lv_path (dm_level ma)) (dm_decl ma) v s s1 tt Hwf (ph_level_in ma) R)
    as [Hacc [Hev _]].
  split; auto.
  assert (G : eval (ph_own ma) (fst (run (Keep (map ph_keep (drop_nth a ph_dims)) main) v s)) = Ok x).
  { apply (keep_assigned_reads (ph_own ma) (ph_L ma) x Hx (ph_own_present ma Hin) _ main v s Hq Hwf Hok).
    rewrite R. cbn [fst]. unfold ph_own, pos_get. fold (ph_chain ma). rewrite Hev, Hst. reflexivity. }
  unfold ph_get. cbn [eval]. rewrite G. destruct x; auto. congruence.
Qed.

(** the placeholder entries are the catalogue's *)
Lemma ph_entries_in_catalogue :
  map (fun e => find_entry (entry_label e)) ph_entries = map Some ph_entries.
Proof. reflexivity. Qed.

(** non-vacuity: the hypotheses of ph_others_read_same and ph_get_set hold for the witness state *)
Lemma ex_ph_guard :
  exists ea eb, nth_error ph_entries 0 = Some ea /\ nth_error ph_entries 1 = Some eb
  /\ wf w_placeholder = true /\ snd (run (e_set ea) (plain (PInt 914400)) w_placeholder) = Ok tt
  /\ eval (e_get eb) w_placeholder = Ok (PInt 1600200)
  /\ stored (ad_codec A_CT_Point2D__x) (ad_kind A_CT_Point2D__x) (PInt 914400) = Ok (PInt 914400).
Proof. eexists. eexists. split; [reflexivity|]. split; [reflexivity|]. vm_compute. auto. Qed.

(** space_before / space_after / line spacing in points (ST_TextSpacingPoint): centipoints, rounding down *)
Lemma spacing_point_writes z : (0 <= z <= 20116800)%Z ->
  ST_TextSpacingPoint__to_xml (PInt z) = Ok (PStr (str_of_Z (z / 127))).
Proof.
  intros H. unfold ST_TextSpacingPoint__to_xml, ST_TextSpacingPoint__validate, ST_TextSpacingPoint__validate_int_in_range,
    ST_TextSpacingPoint__validate_int, ST_TextSpacingPoint__convert_to_xml.
  cbn [py_isinstance existsb isinstance1 orb as_bool bind py_truth negb py_lt py_gt py_order as_num cmp_num].
  destruct (Z.compare_spec z 0) as [E|E|E]; try lia;
    destruct (Z.compare_spec z 20116800) as [E2|E2|E2]; try lia;
    cbn [bind py_Emu py_int Length__centipoints py_floordiv arith as_num]; change (Z.eqb 127 0) with false; cbn iota; reflexivity.
Qed.
Theorem spacing_point_quant z : (0 <= z <= 20116800)%Z ->
  stored (ad_codec A_CT_TextSpacingPoint__val) (ad_kind A_CT_TextSpacingPoint__val) (PInt z) = Ok (PInt (z / 127 * 127))
  /\ (0 <= z - z / 127 * 127 < 127)%Z.
Proof.
  intros H. split; [|apply font_size_within_quantum].
  cbn [ad_codec ad_kind A_CT_TextSpacingPoint__val stored row_codec enc dec].
  rewrite (spacing_point_writes z H).
  unfold ST_TextSpacingPoint__from_xml, ST_TextSpacingPoint__convert_from_xml. cbn [py_int bind].
  assert (0 <= z / 127 <= 20116800)%Z.
  { split; [apply Z.div_pos; lia|]. apply Z.div_le_upper_bound; lia. }
  rewrite int_of_str_of_Z by (apply big_small; unfold big; lia).
  cbn [bind py_Centipoints py_mul arith as_num py_int]. reflexivity.
Qed.

(** * float quantum: percentages (crop, gradient stops, lumMod/lumOff) read back within 1/100000 *)
From Coq Require Import QArith Qabs Lqa Qpower.
Local Open Scope Q_scope.

Definition pct_lo : pyfloat := Fin (-5902958103587057) (-38).
Definition pct_hi : pyfloat := Fin (5902958100838277) (-38).

Lemma pct_to_xml_inv m e s : ST_Percentage__to_xml (PFloat (Fin m e)) = Ok (PStr s) ->
  exists m1 e1 k, f_mul (Fin m e) (Fin 100000 0) = Fin m1 e1 /\ f_round (Fin m1 e1) = Ok k /\ s = str_of_Z k
    /\ ~ (Qv (Fin m e) < Qv pct_lo) /\ ~ (Qv pct_hi < Qv (Fin m e)).
Proof.
  unfold ST_Percentage__to_xml, ST_Percentage__validate, ST_Percentage__validate_float_in_range, ST_Percentage__validate_float,
    ST_Percentage__convert_to_xml.
  cbn [py_isinstance existsb isinstance1 orb as_bool bind py_truth negb py_lt py_gt py_order as_num cmp_num].
  fold pct_lo pct_hi. unfold pct_lo at 1, pct_hi at 1. rewrite !f_cmp_Q. fold pct_lo pct_hi.
  destruct (Qcompare_spec (Qv (Fin m e)) (Qv pct_lo)) as [C1|C1|C1]; cbn [bind]; try (intros X; discriminate X).
  all: destruct (Qcompare_spec (Qv (Fin m e)) (Qv pct_hi)) as [C2|C2|C2]; cbn [bind]; try (intros X; discriminate X).
  all: assert (N1 : ~ Qv (Fin m e) < Qv pct_lo) by lra.
  all: assert (N2 : ~ Qv pct_hi < Qv (Fin m e)) by lra.
  all: cbn [py_mul arith as_num num_float bind].
  all: destruct (f_mul (Fin m e) (Fin 100000 0)) as [m1 e1| | |] eqn:Em; cbn [bind py_round]; try (intros X; discriminate X).
  all: destruct (f_round (Fin m1 e1)) as [k|] eqn:Ek; cbn [bind py_int py_str]; try (intros X; discriminate X).
  all: cbn [bind]; intros H; injection H as <-; exists m1, e1, k; auto.
Qed.


Lemma pct_from_xml k : (Z.abs k < 2 ^ 53)%Z ->
  ST_Percentage__from_xml (PStr (str_of_Z k)) = Ok (PFloat (fl_div_e k 100000 0)).
Proof.
  intros Hk. unfold ST_Percentage__from_xml, ST_Percentage__convert_from_xml. cbn [py_in bind].
  rewrite (no_letter 37%N _ (str_of_Z_chars k)) by reflexivity. cbn [bind py_int].
  rewrite int_of_str_of_Z.
  2:{ eapply Z.lt_le_trans; [apply Hk|]. apply Z.pow_le_mono; unfold int_max_str_digits; lia. }
  cbn [bind py_truediv arith as_num num_float]. rewrite (f_of_Z_small k Hk).
  destruct (Z.eqb_spec k 0) as [->|Hk0]; cbn [bind f_div f_is_zero]; reflexivity.
Qed.

Lemma Qabs_le_iff x y : Qabs x <= y <-> - y <= x /\ x <= y.
Proof. apply Qabs_Qle_condition. Qed.

Lemma eps_small : p2 (-1075) <= 1 # 1000000000000000000000000000000.
Proof. vm_compute. discriminate. Qed.
Lemma p2_m53 : p2 (-53) == 1 # 9007199254740992. Proof. reflexivity. Qed.
Lemma p2_m52 : p2 (-52) == 1 # 4503599627370496. Proof. reflexivity. Qed.
Lemma Qv_pct_lo : Qv pct_lo == - (5902958103587057 # 274877906944). Proof. reflexivity. Qed.
Lemma Qv_pct_hi : Qv pct_hi == 5902958100838277 # 274877906944. Proof. reflexivity. Qed.
Lemma Qv_100000 : Qv (Fin 100000 0) == 100000. Proof. reflexivity. Qed.

(** crop, brightness components, gradient stops: what is written reads back within 1/100000 *)
Theorem pct_roundtrip m e s : ST_Percentage__to_xml (PFloat (Fin m e)) = Ok (PStr s) ->
  exists r, ST_Percentage__from_xml (PStr s) = Ok (PFloat r) /\ f_is_finite r = true
            /\ Qabs (Qv r - Qv (Fin m e)) <= 1 # 100000.
Proof.
  intros H. destruct (pct_to_xml_inv _ _ _ H) as [m1 [e1 [k [Em [Ek [-> [N1 N2]]]]]]].
  set (v := Qv (Fin m e)) in *. set (x1 := Qv (Fin m1 e1)).
  pose proof (f_mul_rel _ _ _ _ _ _ Em) as Ha. fold v x1 in Ha. rewrite Qv_100000 in Ha.
  pose proof (f_round_Q _ _ Ek) as Hb. fold x1 in Hb.
  rewrite Qv_pct_lo in N1. rewrite Qv_pct_hi in N2.
  pose proof eps_small as He. pose proof (p2_pos (-1075)) as He0. set (eps := p2 (-1075)) in *.
  assert (HA : Qabs (v * 100000) <= 2147483649) by (apply Qabs_le_iff; split; lra).
  rewrite p2_m53 in Ha.
  assert (Ha' : Qabs (x1 - v * 100000) <= 1 # 1000000).
  { eapply Qle_trans; [apply Ha|]. lra. }
  apply Qabs_le_iff in Ha'. apply Qabs_le_iff in Hb. apply Qabs_le_iff in HA.
  assert (Hkq : - 2147483651 <= inject_Z k <= 2147483651) by lra.
  assert (Hk : (Z.abs k < 2 ^ 53)%Z).
  { pose proof Hkq as [K1 K2]. change (- 2147483651) with (inject_Z (- 2147483651)) in K1.
    change 2147483651 with (inject_Z 2147483651) in K2. rewrite <- Zle_Qle in K1, K2. lia. }
  rewrite (pct_from_xml k Hk).
  destruct (Z.eq_dec k 0) as [->|Hk0].
  - exists (Fin 0 0). split; [reflexivity|]. split; [reflexivity|].
    change (Qv (Fin 0 0)) with 0. change (inject_Z 0) with 0 in Hb. apply Qabs_le_iff. lra.
  - assert (Hs : (0 <= Z.log2 100000 - Z.log2 (Z.abs k) + 55)%Z).
    { change (Z.log2 100000) with 16%Z. assert (Z.log2 (Z.abs k) < 53)%Z by (apply Z.log2_lt_pow2; lia). lia. }
    destruct (fl_div_finite k 100000 ltac:(lia) Hk0 Hs) as [m2 [e2 Er]].
    exists (Fin m2 e2). rewrite Er. split; [reflexivity|]. split; [reflexivity|].
    pose proof (fl_div_rel k 100000 0 m2 e2 ltac:(lia) Hk0 Hs Er) as Hc.
    change (p2 0) with 1 in Hc. fold eps in Hc. rewrite p2_m52 in Hc.
    change (inject_Z 100000) with 100000 in Hc.
    destruct Hkq as [K1 K2].
    assert (HK : Qabs (inject_Z k / 100000 * 1) <= 21475).
    { apply Qabs_le_iff. setoid_replace (inject_Z k / 100000 * 1) with (inject_Z k * (1 # 100000)) by field. split; lra. }
    assert (Hc' : Qabs (Qv (Fin m2 e2) - inject_Z k / 100000 * 1) <= 1 # 100000000000).
    { eapply Qle_trans; [apply Hc|]. lra. }
    apply Qabs_le_iff in Hc'. apply Qabs_le_iff. fold v.
    setoid_replace (inject_Z k / 100000 * 1) with (inject_Z k * (1 # 100000)) in Hc' by field. split; lra.
Qed.

(** * float quantum: angles (rotation) read back within 1/60000 degree modulo 360 *)
(** v % 360.0: a finite float within 2^-53 * 360 (+ 2^-1075) of v - 360 j for an integer j with 0 <= v - 360 j <= 360 *)
Lemma f_mod_360 m e x : f_mod (Fin m e) (Fin 360 0) = Ok x ->
  exists m0 e0 (j : Z), x = Fin m0 e0
    /\ 0 <= Qv (Fin m e) - 360 * inject_Z j <= 360
    /\ Qabs (Qv (Fin m0 e0) - (Qv (Fin m e) - 360 * inject_Z j)) <= p2 (-53) * 360 + p2 (-1075).
Proof.
  unfold f_mod. cbn [f_is_zero]. change (360 =? 0)%Z with false. cbn iota.
  destruct (Z.eqb_spec m 0) as [->|Hm].
  { intros [= <-]. exists 0%Z, 0%Z, 0%Z. split; auto. cbn [Qv]. change (inject_Z 0) with 0.
    split; [split; lra|]. setoid_replace (0 * p2 0 - (0 * p2 e - 360 * 0)) with 0 by ring.
    pose proof (p2_pos (-53)). pose proof (p2_pos (-1075)). change (Qabs 0) with 0. lra. }
  set (E := Z.min e 0). set (A := Z.shiftl m (e - E)). set (B := Z.shiftl 360 (0 - E)).
  assert (HEe : (E <= e)%Z) by (unfold E; lia). assert (HE0 : (E <= 0)%Z) by (unfold E; lia).
  assert (HA : inject_Z A * p2 E == Qv (Fin m e)) by (unfold A; cbn [Qv]; apply shiftl_Q; auto).
  assert (HB : inject_Z B * p2 E == 360).
  { unfold B. rewrite shiftl_Q by auto. reflexivity. }
  assert (HBpos : (0 < B)%Z).
  { unfold B. rewrite Z.shiftl_mul_pow2 by lia. assert (0 < 2 ^ (0 - E))%Z by (apply Z.pow_pos_nonneg; lia). lia. }
  pose proof (Z.quot_rem' A B) as Hqr. pose proof (Z.rem_bound_abs A B ltac:(lia)) as Hrb.
  set (r := Z.rem A B) in *. set (q := Z.quot A B) in *.
  pose proof (p2_pos E) as PE. pose proof (p2_pos (-53)) as P53. pose proof (p2_pos (-1075)) as Peps.
  assert (Hval : inject_Z r * p2 E == Qv (Fin m e) - 360 * inject_Z q).
  { rewrite <- HA, <- HB. replace r with (A - B * q)%Z by lia.
    replace (A - B * q)%Z with (A + - (B * q))%Z by lia. rewrite inject_Z_plus, inject_Z_opp, inject_Z_mult. ring. }
  destruct (Z.eqb_spec r 0) as [Hr0|Hr0].
  { intros [= <-]. exists 0%Z, 0%Z, q. split; auto. rewrite Hr0 in Hval. change (inject_Z 0) with 0 in Hval.
    split; [split; lra|]. cbn [Qv] in *. change (inject_Z 0) with 0.
    setoid_replace (0 * p2 0 - (inject_Z m * p2 e - 360 * inject_Z q)) with (- (0 * p2 E)) by (rewrite Hval; ring).
    apply Qabs_le_iff; split; lra. }
  change (360 <? 0)%Z with false.
  destruct (Z.ltb_spec r 0) as [Hneg|Hpos]; cbn [Bool.eqb].
  - (* negative remainder: 360 is added in floating point *)
    assert (HX : f_add (Fin r E) (Fin 360 0) = round_dy (r + B) E).
    { cbn [f_add]. destruct (Z.eqb_spec r 0); [contradiction|]. change (360 =? 0)%Z with false. cbn iota.
      replace (Z.min E 0) with E by lia. replace (E - E)%Z with 0%Z by lia. rewrite Z.shiftl_0_r. reflexivity. }
    rewrite HX. intros [= <-].
    assert (Hsum : inject_Z (r + B) * p2 E == Qv (Fin m e) - 360 * inject_Z (q - 1)).
    { rewrite inject_Z_plus. replace (q - 1)%Z with (q + (-1))%Z by lia. rewrite inject_Z_plus.
      change (inject_Z (-1)) with (-1). setoid_replace ((inject_Z r + inject_Z B) * p2 E) with (inject_Z r * p2 E + inject_Z B * p2 E) by ring.
      rewrite Hval, HB. ring. }
    assert (Hrange : 0 <= inject_Z (r + B) * p2 E <= 360).
    { assert (0 <= r + B <= B)%Z by lia. split.
      - apply Qmult_le_0_compat; [change 0 with (inject_Z 0); rewrite <- Zle_Qle; lia|lra].
      - rewrite <- HB. apply Qmult_le_compat_r; [rewrite <- Zle_Qle; lia|lra]. }
    destruct (round_dy_finite (r + B) E) as [m0 [e0 Hfin]].
    { assert (Z.log2 (Z.abs (r + B)) <= Z.log2 B)%Z by (apply Z.log2_le_mono; lia).
      assert (Z.log2 B = 8 + (0 - E))%Z.
      { unfold B. rewrite Z.shiftl_mul_pow2 by lia. rewrite Z.log2_mul_pow2 by lia. change (Z.log2 360) with 8%Z. lia. }
      lia. }
    exists m0, e0, (q - 1)%Z. split; auto. split; [rewrite <- Hsum; auto|].
    pose proof (round_dy_rel _ _ _ _ Hfin) as Hrel. rewrite <- Hsum.
    eapply Qle_trans; [apply Hrel|].
    assert (Qabs (inject_Z (r + B) * p2 E) <= 360) by (apply Qabs_le_iff; split; lra).
    assert (p2 (-53) * Qabs (inject_Z (r + B) * p2 E) <= p2 (-53) * 360).
    { rewrite !(Qmult_comm (p2 (-53))). apply Qmult_le_compat_r; lra. }
    lra.
  - (* positive remainder *)
    intros [= <-].
    assert (Hrange : 0 <= inject_Z r * p2 E <= 360).
    { assert (0 <= r <= B)%Z by lia. split.
      - apply Qmult_le_0_compat; [change 0 with (inject_Z 0); rewrite <- Zle_Qle; lia|lra].
      - rewrite <- HB. apply Qmult_le_compat_r; [rewrite <- Zle_Qle; lia|lra]. }
    destruct (round_dy_finite r E) as [m0 [e0 Hfin]].
    { assert (Z.log2 (Z.abs r) <= Z.log2 B)%Z by (apply Z.log2_le_mono; lia).
      assert (Z.log2 B = 8 + (0 - E))%Z.
      { unfold B. rewrite Z.shiftl_mul_pow2 by lia. rewrite Z.log2_mul_pow2 by lia. change (Z.log2 360) with 8%Z. lia. }
      lia. }
    exists m0, e0, q. split; auto. split; [rewrite <- Hval; auto|].
    pose proof (round_dy_rel _ _ _ _ Hfin) as Hrel. rewrite <- Hval.
    eapply Qle_trans; [apply Hrel|].
    assert (Qabs (inject_Z r * p2 E) <= 360) by (apply Qabs_le_iff; split; lra).
    assert (p2 (-53) * Qabs (inject_Z r * p2 E) <= p2 (-53) * 360).
    { rewrite !(Qmult_comm (p2 (-53))). apply Qmult_le_compat_r; lra. }
    lra.
Qed.

Lemma py_float_inf : py_float (PStr [105; 110; 102]%N) = Ok (PFloat PInf). Proof. vm_compute. reflexivity. Qed.
Lemma py_float_ninf : py_float (PStr [45; 105; 110; 102]%N) = Ok (PFloat NInf). Proof. vm_compute. reflexivity. Qed.
Lemma f_of_Z_60000 : f_of_Z 60000 = Ok (Fin 60000 0). Proof. vm_compute. reflexivity. Qed.

Definition turn : Z := 21600000%Z.

(** BaseFloatType.validate (float(value) first, then the nan / inf tests) accepts every finite float *)
Lemma bft_validate_fin m e : BaseFloatType__validate (PFloat (Fin m e)) = Ok PNone.
Proof.
  unfold BaseFloatType__validate.
  cbn [py_isinstance existsb isinstance1 orb as_bool bind py_truth negb py_float].
  unfold py_ne. cbn [py_eqb as_num cmp_num]. rewrite f_cmp_fin, Z.compare_refl. reflexivity.
Qed.

Lemma angle_to_xml_inv m e s : ST_Angle__to_xml (PFloat (Fin m e)) = Ok (PStr s) ->
  exists m0 e0 m1 e1 k, f_mod (Fin m e) (Fin 360 0) = Ok (Fin m0 e0)
    /\ f_mul (Fin m0 e0) (Fin 60000 0) = Fin m1 e1 /\ f_round (Fin m1 e1) = Ok k /\ s = str_of_Z (k mod turn).
Proof.
  unfold ST_Angle__to_xml, ST_Angle__validate, ST_Angle__convert_to_xml.
  rewrite bft_validate_fin. rewrite !py_float_inf, !py_float_ninf. cbn [bind].
  cbn [py_mul arith as_num num_float bind]. rewrite f_of_Z_60000. cbn [bind].
  destruct (f_mul (Fin m e) (Fin 60000 0)) as [ms es| | |] eqn:Es;
    cbn [bind py_in existsb py_eqb as_num cmp_num f_cmp orb negb]; try (intros X; discriminate X).
  2:{ pose proof (c09_round_dy_not_nan (m * 60000) (e + 0)) as N. cbn [f_mul] in Es. contradiction. }
  cbn [py_mod arith as_num num_float bind].
  destruct (f_mod (Fin m e) (Fin 360 0)) as [x0|er] eqn:Emod; cbn [bind]; [|intros X; discriminate X].
  destruct (f_mod_360 _ _ _ Emod) as [m0 [e0 [j [-> _]]]].
  cbn [py_mul arith as_num num_float bind]. rewrite f_of_Z_60000. cbn [bind].
  destruct (f_mul (Fin m0 e0) (Fin 60000 0)) as [m1 e1| | |] eqn:Em; cbn [bind py_round]; try (intros X; discriminate X).
  destruct (f_round (Fin m1 e1)) as [k|] eqn:Ek; cbn [bind py_int py_mod arith as_num]; [|intros X; discriminate X].
  change (21600000 =? 0)%Z with false. cbn iota. cbn [bind py_str].
  intros H. injection H as <-. exists m0, e0, m1, e1, k. auto.
Qed.

Lemma angle_from_xml rot : (0 <= rot < turn)%Z ->
  ST_Angle__from_xml (PStr (str_of_Z rot)) = Ok (PFloat (fl_div_e rot 60000 0)).
Proof.
  intros Hr. unfold ST_Angle__from_xml, ST_Angle__convert_from_xml. cbn [py_int bind].
  rewrite int_of_str_of_Z by (apply big_small; unfold big, turn in *; lia).
  cbn [bind py_mod arith as_num]. change (21600000 =? 0)%Z with false. cbn iota.
  fold turn. rewrite Z.mod_small by auto. cbn [bind py_float].
  rewrite f_of_Z_small by (unfold turn in *; lia).
  cbn [bind py_truediv arith as_num num_float]. rewrite f_of_Z_60000.
  destruct (Z.eqb_spec rot 0) as [->|H0]; cbn [bind f_div f_is_zero]; reflexivity.
Qed.

Lemma Qv_60000 : Qv (Fin 60000 0) == 60000. Proof. reflexivity. Qed.

(** rotation (and gradient angle): for EVERY finite float the simple type accepts, the written text reads
    back within 1/60000 degree of the assigned angle modulo 360 *)
Theorem angle_roundtrip m e s : ST_Angle__to_xml (PFloat (Fin m e)) = Ok (PStr s) ->
  exists r (j : Z), ST_Angle__from_xml (PStr s) = Ok (PFloat r) /\ f_is_finite r = true
    /\ Qabs (Qv r - (Qv (Fin m e) - 360 * inject_Z j)) <= 1 # 60000.
Proof.
  intros H. destruct (angle_to_xml_inv _ _ _ H) as [m0 [e0 [m1 [e1 [k [Emod [Em [Ek ->]]]]]]]].
  destruct (f_mod_360 _ _ _ Emod) as [m0' [e0' [j0 [E0 [Hrange Hx0]]]]]. injection E0 as <- <-.
  set (v := Qv (Fin m e)) in *. set (x0 := Qv (Fin m0 e0)) in *. set (x1 := Qv (Fin m1 e1)).
  pose proof (f_mul_rel _ _ _ _ _ _ Em) as Ha. fold x0 x1 in Ha. rewrite Qv_60000 in Ha.
  pose proof (f_round_Q _ _ Ek) as Hb. fold x1 in Hb.
  pose proof eps_small as He. pose proof (p2_pos (-1075)) as He0. set (eps := p2 (-1075)) in *.
  rewrite p2_m53 in Ha, Hx0. destruct Hrange as [R1 R2].
  apply Qabs_le_iff in Hx0. destruct Hx0 as [X1 X2].
  assert (HA : Qabs (x0 * 60000) <= 21660000) by (apply Qabs_le_iff; split; lra).
  assert (Ha' : Qabs (x1 - x0 * 60000) <= 1 # 100000000).
  { eapply Qle_trans; [apply Ha|]. lra. }
  apply Qabs_le_iff in Ha'. destruct Ha' as [A1 A2]. apply Qabs_le_iff in Hb. destruct Hb as [B1 B2].
  set (rot := (k mod turn)%Z). set (t := (k / turn)%Z).
  assert (Hrot : (0 <= rot < turn)%Z) by (apply Z.mod_pos_bound; unfold turn; lia).
  assert (Hk : k = (turn * t + rot)%Z) by (apply Z.div_mod; unfold turn; lia).
  rewrite (angle_from_xml rot Hrot).
  assert (Hkq : inject_Z k == 21600000 * inject_Z t + inject_Z rot).
  { rewrite Hk, inject_Z_plus, inject_Z_mult. reflexivity. }
  assert (Hrq : 0 <= inject_Z rot <= 21600000).
  { split; [change 0 with (inject_Z 0)|change 21600000 with (inject_Z 21600000)]; rewrite <- Zle_Qle; unfold turn in Hrot; lia. }
  destruct Hrq as [Q1 Q2].
  destruct (Z.eq_dec rot 0) as [Hr0|Hr0].
  - rewrite Hr0. exists (Fin 0 0), (j0 + t)%Z. split; [reflexivity|]. split; [reflexivity|].
    change (Qv (Fin 0 0)) with 0. rewrite Hr0 in Hkq. change (inject_Z 0) with 0 in Hkq.
    rewrite inject_Z_plus. apply Qabs_le_iff. split; lra.
  - assert (Hs : (0 <= Z.log2 60000 - Z.log2 (Z.abs rot) + 55)%Z).
    { change (Z.log2 60000) with 15%Z. assert (Z.log2 (Z.abs rot) < 25)%Z by (apply Z.log2_lt_pow2; unfold turn in *; lia). lia. }
    destruct (fl_div_finite rot 60000 ltac:(lia) Hr0 Hs) as [m2 [e2 Er]].
    exists (Fin m2 e2), (j0 + t)%Z. rewrite Er. split; [reflexivity|]. split; [reflexivity|].
    pose proof (fl_div_rel rot 60000 0 m2 e2 ltac:(lia) Hr0 Hs Er) as Hc.
    change (p2 0) with 1 in Hc. fold eps in Hc. rewrite p2_m52 in Hc. change (inject_Z 60000) with 60000 in Hc.
    setoid_replace (inject_Z rot / 60000 * 1) with (inject_Z rot * (1 # 60000)) in Hc by field.
    assert (HK : Qabs (inject_Z rot * (1 # 60000)) <= 360) by (apply Qabs_le_iff; split; lra).
    assert (Hc' : Qabs (Qv (Fin m2 e2) - inject_Z rot * (1 # 60000)) <= 1 # 1000000000000).
    { eapply Qle_trans; [apply Hc|]. lra. }
    apply Qabs_le_iff in Hc'. destruct Hc' as [C1 C2].
    rewrite inject_Z_plus. apply Qabs_le_iff. split; lra.
Qed.

(** * the enumeration value tables carry exactly the tokens of the C11 enumeration lists *)
Definition strs_same (a b : list str) : bool :=
  forallb (fun x => mem_str x b) a && forallb (fun x => mem_str x a) b.
Lemma enum_ties_ok : forallb (fun p => strs_same (fst p) (snd p)) enum_ties = true.
Proof. vm_compute. reflexivity. Qed.
