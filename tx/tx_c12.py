"""T8 for C12: regenerate coq/gen/GenC12.v + gen/c12_meta.json from /repo's current tree.

For every public `property` / `lazyproperty` (plus the sequence protocol and the read methods
the property's iteration needs) of every proxy class of python-pptx, predict statically what
evaluating it can do to the document:

  Pure                      no tree / relationship / part mutation reachable
  AddsEmpty [tags]          the only reachable mutations are `get_or_add_x()` of declared
                            ZeroOrOne children whose `_new_x` is the metaclass default
                            (OxmlElement(tag): no attributes, no text, no children)
  Creates what              anything else (custom `_new_x`, `_add_x(**attrs)`, insert, remove,
                            attribute assignment on an element, relationship / part creation)

Method: an AST call graph over src/pptx.  `self.x` resolves through the MRO of the concrete
class; a receiver whose class can be read off the source (annotated parameter / return type,
class-level annotation, `__init__` assignment from an annotated parameter, metaclass-generated
child getter -> class registered for the tag, explicit class name) resolves in that class and
its subclasses; any other `recv.x` resolves BY NAME to every class that has a member `x` and is
visible from the caller's architectural layer (oxml < opc < parts/proxies; the import
discipline that justifies the layering is re-checked here).  When the by-name candidates do not
all have the same effect the step is `ambiguous` and the accessor is UNRESOLVED: it leaves
the instance theorem and is judged by the dynamic observation of checks/c12.py only
(fail-closed: never silently Pure).  Metaclass-generated members of the oxml element classes
are read from the live classes (closures of the generated functions).
"""
import ast
import importlib
import inspect
import json
import os
import pkgutil
import sys

sys.path.insert(0, os.path.dirname(os.path.abspath(__file__)))
from xsdlib import REPO, Schemas, write_if_changed  # noqa: E402

sys.path.insert(0, REPO + "/src")
VERIF = os.path.dirname(os.path.dirname(os.path.abspath(__file__)))

# ----------------------------------------------------------------------------- configuration
# modules whose classes are the object model a reader walks (proxy side)
PROXY_MODULES = [
    "pptx.presentation", "pptx.slide", "pptx.shared", "pptx.action", "pptx.table", "pptx.text.text",
    "pptx.shapes", "pptx.shapes.base", "pptx.shapes.autoshape", "pptx.shapes.connector", "pptx.shapes.graphfrm",
    "pptx.shapes.group", "pptx.shapes.picture", "pptx.shapes.placeholder", "pptx.shapes.shapetree",
    "pptx.chart.axis", "pptx.chart.category", "pptx.chart.chart", "pptx.chart.datalabel", "pptx.chart.legend",
    "pptx.chart.marker", "pptx.chart.plot", "pptx.chart.point", "pptx.chart.series",
    "pptx.dml.chtfmt", "pptx.dml.color", "pptx.dml.effect", "pptx.dml.fill", "pptx.dml.line",
    "pptx.parts.chart", "pptx.parts.coreprops", "pptx.parts.embeddedpackage", "pptx.parts.image",
    "pptx.parts.media", "pptx.parts.presentation", "pptx.parts.slide", "pptx.package", "pptx.opc.package",
]
# writer-side helpers living in those modules: never handed to a reader
NOT_PROXY = {"_MoviePicElementCreator", "_OleObjectElementCreator", "_NotesSlideShapeFactory", "PartFactory",
             "_PackageLoader", "_ContentTypeMap", "PlotTypeInspector", "AutoShapeType",
             # strategy objects kept in the private attributes FillFormat._fill / ColorFormat._color: their
             # members are reached only through the public FillFormat / ColorFormat accessors (in the table)
             "_Fill", "_BlipFill", "_GradFill", "_GrpFill", "_NoFill", "_NoneFill", "_PattFill", "_SolidFill",
             "_Color", "_HslColor", "_NoneColor", "_PrstColor", "_SchemeColor", "_ScRgbColor", "_SRgbColor",
             "_SysColor"}
# modules whose classes are never the receiver of an attribute access met while READING a loaded
# presentation unless the source names the class explicitly (then it is resolved exactly):
# chart-XML / workbook writers, chart-data builders, freeform builder, text fitting, package
# reader/writer.  Excluded from by-name resolution only.
BYNAME_EXCLUDED = ("pptx.chart.xmlwriter", "pptx.chart.data", "pptx.chart.xlsx", "pptx.shapes.freeform",
                   "pptx.text.layout", "pptx.text.fonts", "pptx.media", "pptx.opc.serialized", "pptx.opc.spec",
                   "pptx.spec", "pptx.types", "pptx.exc", "pptx.api")
# classes of these modules are python VALUES (immutable numbers / strings / enum members)
VALUE_MODULES = ("pptx.enum.", "pptx.util", "pptx.opc.constants", "pptx.opc.packuri", "pptx.oxml.simpletypes",
                 "pptx.oxml.ns", "pptx.exc")
VALUE_CLASSES = {"RGBColor", "Category", "PackURI"}


def layer_of(module):
    """Architectural layer of a module: code of layer L only ever holds objects of layers <= L."""
    if module.startswith(("pptx.oxml", "pptx.opc.oxml", "pptx.util", "pptx.enum", "pptx.exc", "pptx.opc.packuri",
                          "pptx.opc.constants", "pptx.opc.shared", "pptx.opc.spec", "pptx.spec", "pptx.types")):
        return 0
    if module.startswith("pptx.opc"):
        return 1
    return 2


# runtime imports that cross the layering upwards but only bring in a VALUE class or a constant
LAYER_IMPORT_ALLOWED = {("pptx.oxml.simpletypes", "pptx.dml.color"),      # RGBColor (a tuple)
                        ("pptx.oxml.dml.color", "pptx.dml.color"),
                        # an oxml class (CT_GradientFillProperties) imported through dml.fill's namespace
                        ("pptx.oxml.shapes.shared", "pptx.dml.fill")}

# `part_related_by(RT.X)` is annotated `-> Part`; the class of the part a relationship of type X
# targets in a well-formed package.  An ASSUMPTION of the static analysis, validated by the check
# on every relationship of every corpus package (a contradicting package is reported).
RT_HINT = {"NOTES_MASTER": "NotesMasterPart", "NOTES_SLIDE": "NotesSlidePart", "SLIDE_LAYOUT": "SlideLayoutPart",
           "SLIDE_MASTER": "SlideMasterPart", "CORE_PROPERTIES": "CorePropertiesPart",
           "OFFICE_DOCUMENT": "PresentationPart", "SLIDE": "SlidePart", "CHART": "ChartPart", "IMAGE": "ImagePart"}

# read methods that belong to the iteration named by the property (not properties)
READ_METHODS = {("Table", "iter_cells"), ("Table", "cell")}
# look-ups of a collection by element, key or name are reads whatever class defines them
LOOKUP_METHODS = ("index", "get", "get_by_name")


def is_lookup_method(k, n, v):
    return n in LOOKUP_METHODS and inspect.isfunction(v) and k.__module__.startswith("pptx.") \
        and not k.__module__.startswith("pptx.chart.data") and len(inspect.signature(v).parameters) >= 2
SEQ_PROTO = ("__iter__", "__len__", "__getitem__")

# Presence-insensitive containers: an element of one of these tags with no attribute, no text and
# no child says nothing (every attribute and child of its schema type is optional and absence
# means `inherit / default`; the three list holders mean `no entries`).  Audited by hand against
# ISO/IEC 29500; the `all optional` half is re-checked here against /repo/spec (fail-closed).
CONTAINERS = [
    "a:pPr", "a:rPr", "a:endParaRPr", "a:defRPr", "a:tcPr", "a:ln", "a:bodyPr", "a:lstStyle",
    "c:spPr", "p:spPr", "p:grpSpPr",
    "p:sldIdLst", "p:sldMasterIdLst", "p:sldLayoutIdLst",
]
# accessors the property itself names as documented creating ones: (class that defines it, name)
# -- each docstring says so (the check re-reads the docstrings from the source each run)
# Accepted: the docstring itself says that evaluating the accessor creates / destroys content
# (`one is created`, `destructive ... adds a chart title element`, `potentially destructive`,
# `Creates a default core properties part`).  NOT accepted although named in the property record:
# Font.color and Presentation.core_properties / PresentationPart.core_properties, whose docstrings
# are silent about creation -- all three hand back a proxy object, so they are gateways (exercised,
# reported, not judged) and need no exemption.  The translator re-reads the docstrings (fail-closed).
DOCUMENTED = [
    ("Slide", "notes_slide"), ("SlidePart", "notes_slide"),
    ("_Background", "fill"),
    ("Chart", "chart_title"),
    ("Presentation", "notes_master"), ("PresentationPart", "notes_master"),
    ("Package", "core_properties"),
]
DOC_SAYS_SO = ("is created", "one is created", "destructive", "Creates a default")

BUILTIN_PURE = set("""len tuple list dict set frozenset isinstance issubclass int str bool float bytes sorted enumerate zip
iter next min max sum any all range super cast type repr id abs round map filter reversed hash divmod ord chr
hasattr callable format bytearray memoryview object property staticmethod classmethod print vars
ValueError TypeError KeyError IndexError NotImplementedError AttributeError InvalidXmlError StopIteration
PackageNotFoundError Exception AssertionError OSError IOError open defaultdict OrderedDict BytesIO StringIO
""".split())
# methods of python / lxml / stdlib values that never change an XML tree or the package graph
NAME_PURE = set("""find findall findtext xpath get iter iterchildren iterancestors iterdescendants itersiblings
getparent getnext getprevious getroottree getroot getpath index items keys values count startswith endswith split
rsplit join strip lstrip rstrip lower upper format encode decode hexdigest digest read seek tell getvalue group groups
match search sub copy deepcopy isdigit isdecimal zfill ljust rjust partition rpartition title capitalize tobytes
splitlines fromkeys isoformat strftime strptime utcfromtimestamp timestamp total_seconds bit_length tostring fromstring
parse XPath hex namelist getinfo sha1 md5 utcoffset as_integer_ratio is_integer basename dirname splitext normpath
relpath exists isdir isfile walk listdir abspath makeelement defaultdict BytesIO StringIO datetime timedelta now
astimezone escape is_zipfile ZipFile compile fullmatch finditer date time today utcnow replace
""".split())
# names that mutate their receiver when it is an lxml element / a shared collection
NAME_MUTATING = set("""append extend insert remove pop clear add update discard addprevious addnext set setdefault
sort reverse popitem""".split())
PY = "py"   # the type of python values (str, int, list, ...): nothing done to them touches a document
LX = frozenset(["<plain lxml element>"])   # element of a tag no custom class is registered for


# ----------------------------------------------------------------------------- effect lattice
class Eff:
    __slots__ = ("tags", "whats", "unres", "flags", "prov")

    def __init__(self, tags=(), whats=(), unres=(), flags=(), prov=None):
        self.tags = frozenset(tags)
        self.whats = frozenset(whats)
        self.unres = frozenset(unres)
        self.flags = frozenset(flags)
        self.prov = prov or {}      # atom -> call chain that reaches it (diagnostics only)

    def join(self, o):
        if o is PURE or o is None:
            return self
        if self is PURE:
            return o
        pv = dict(o.prov)
        pv.update(self.prov)
        return Eff(self.tags | o.tags, self.whats | o.whats, self.unres | o.unres, self.flags | o.flags, pv)

    def via(self, step):
        if self is PURE:
            return self
        pv = {}
        for a in list(self.tags) + list(self.whats) + list(self.unres) + list(self.flags):
            pv[a] = (step,) + tuple(self.prov.get(a, ()))[:10]
        return Eff(self.tags, self.whats, self.unres, self.flags, pv)

    def key(self):
        return (self.tags, self.whats, self.unres, self.flags)

    def __eq__(self, o):
        return isinstance(o, Eff) and self.key() == o.key()

    def __hash__(self):
        return hash(self.key())

    @property
    def level(self):
        if self.whats:
            return "Creates"
        if self.tags:
            return "AddsEmpty"
        return "Pure"


PURE = Eff()


def creates(what):
    return Eff(whats=[what])


def unres(what):
    return Eff(unres=[what])


# ----------------------------------------------------------------------------- universe
class Universe:
    def __init__(self):
        import pptx  # noqa
        from lxml import etree

        self.classes = {}        # live class -> ast.ClassDef
        self.by_name = {}        # class name -> [live classes]
        self.funcs = {}          # module-level function name -> [(module, ast.FunctionDef)]
        self.aliases = {}        # TypeAlias name -> annotation text
        self.notes = []
        self.modules = {}
        for mi in pkgutil.walk_packages(pptx.__path__, "pptx."):
            try:
                mod = importlib.import_module(mi.name)
            except Exception as e:  # noqa
                self.notes.append("module not importable: %s (%r)" % (mi.name, e))
                continue
            path = getattr(mod, "__file__", None)
            if not path or not path.endswith(".py"):
                continue
            tree = ast.parse(open(path, encoding="utf-8").read())
            self.modules[mi.name] = tree
            for node in tree.body:
                if isinstance(node, ast.FunctionDef):
                    self.funcs.setdefault(node.name, []).append((mi.name, node))
                elif isinstance(node, ast.ClassDef):
                    live = getattr(mod, node.name, None)
                    if inspect.isclass(live) and live.__module__ == mi.name:
                        self.classes[live] = node
                        self.by_name.setdefault(node.name, []).append(live)
                elif isinstance(node, ast.AnnAssign) and isinstance(node.target, ast.Name) \
                        and "TypeAlias" in ast.unparse(node.annotation) and node.value is not None:
                    v = node.value
                    self.aliases[node.target.id] = v.value if isinstance(v, ast.Constant) else ast.unparse(v)
        self.check_layering()
        # names each module binds to something that is not pptx code and not lxml (PIL, datetime, re, os, io ...)
        self.ext_names = {}
        for name, tree in self.modules.items():
            ext = set()
            for n in ast.walk(tree):
                if isinstance(n, ast.Import):
                    for a in n.names:
                        if not a.name.startswith(("pptx", "lxml")):
                            ext.add((a.asname or a.name).split(".")[0])
                elif isinstance(n, ast.ImportFrom) and n.module and not n.module.startswith(("pptx", "lxml")) \
                        and n.level == 0:
                    for a in n.names:
                        ext.add(a.asname or a.name)
            self.ext_names[name] = ext
        # members defined in the source text of each class
        self.src_members = {}
        self.class_ann = {}      # live class -> {attr: annotation text}
        for live, node in self.classes.items():
            mem, ann = {}, {}
            for st in node.body:
                if isinstance(st, ast.AnnAssign) and isinstance(st.target, ast.Name):
                    ann[st.target.id] = ast.unparse(st.annotation)
                if not isinstance(st, ast.FunctionDef):
                    continue
                decos = [ast.unparse(d) for d in st.decorator_list]
                if any(d.endswith(".setter") for d in decos):
                    mem.setdefault(st.name, {"kind": "property"})["set"] = st
                elif any(d.endswith(".deleter") for d in decos):
                    continue
                elif "property" in decos:
                    mem.setdefault(st.name, {})["kind"] = "property"
                    mem[st.name]["get"] = st
                elif "lazyproperty" in decos:
                    mem[st.name] = {"kind": "lazyproperty", "get": st}
                else:
                    mem[st.name] = {"kind": "method", "get": st,
                                    "cls": "classmethod" in decos, "static": "staticmethod" in decos}
            self.src_members[live] = mem
            self.class_ann[live] = ann
        def sub(d, c):
            try:
                return c in d.__mro__
            except Exception:  # noqa
                return False
        self.subclasses = {c: [d for d in self.classes if sub(d, c)] for c in self.classes}
        # name index: member name -> classes exposing it (source or metaclass-generated)
        self.name_index = {}
        for live in self.classes:
            if live.__module__.startswith(BYNAME_EXCLUDED) or self.is_value(live):
                continue
            for k in live.__mro__:
                if k in self.classes:
                    for n in vars(k):
                        self.name_index.setdefault(n, set()).add(live)
        # tag -> registered element class
        self.tag_class = {}
        try:
            from pptx.oxml import element_class_lookup
            from pptx.oxml.ns import _nsmap
            for p, uri in _nsmap.items():
                try:
                    items = list(element_class_lookup.get_namespace(uri).items())
                except Exception:  # noqa
                    items = []
                for local, cls in items:
                    if local is None:
                        continue
                    local = local.decode() if isinstance(local, bytes) else local
                    self.tag_class["%s:%s" % (p, local)] = cls
        except Exception as e:  # noqa
            self.notes.append("element class lookup unreadable: %r" % e)
        self.etree_element = etree._Element

    def check_layering(self):
        """A module of layer L imports (at run time) only modules of layer <= L."""
        for name, tree in self.modules.items():
            L = layer_of(name)
            if L == 2:
                continue

            def visit(nodes):
                for n in nodes:
                    if isinstance(n, ast.If) and "TYPE_CHECKING" in ast.unparse(n.test):
                        continue
                    if isinstance(n, ast.ImportFrom) and n.module and n.module.startswith("pptx"):
                        if layer_of(n.module) > L and (name, n.module) not in LAYER_IMPORT_ALLOWED:
                            self.notes.append("layering: %s (layer %d) imports %s (layer %d)" % (
                                name, L, n.module, layer_of(n.module)))
                    elif isinstance(n, ast.Import):
                        for a in n.names:
                            if a.name.startswith("pptx") and layer_of(a.name) > L:
                                self.notes.append("layering: %s imports %s" % (name, a.name))
                    for f in ("body", "orelse", "finalbody", "handlers"):
                        sub = getattr(n, f, None)
                        if isinstance(sub, list):
                            visit(sub)
            visit(tree.body)

    def is_pptx(self, cls):
        return cls in self.classes

    def is_value(self, cls):
        return cls.__module__.startswith(VALUE_MODULES) or cls.__name__ in VALUE_CLASSES

    def lookup(self, ctx, name):
        """Resolve `name` through the MRO of live class ctx: (owner, descriptor) or None."""
        for k in ctx.__mro__:
            if name in vars(k):
                return k, vars(k)[name]
        return None

    def expand(self, classes):
        out = []
        for c in classes:
            if isinstance(c, str):
                continue
            for d in self.subclasses.get(c, [c]):
                if d not in out:
                    out.append(d)
        return out

    # -- annotations ----------------------------------------------------------------------
    def ann_type(self, text, ctx=None, depth=0):
        """annotation text -> frozenset of classes | PY | ('list', T) | None (unknown)"""
        if text is None or depth > 4:
            return None
        text = text.strip().strip("'\"").strip()
        if text in self.aliases:
            return self.ann_type(self.aliases[text], ctx, depth + 1)
        parts = split_top(text, "|")
        if len(parts) > 1:
            ts = [self.ann_type(p, ctx, depth + 1) for p in parts if p.strip() != "None"]
            return join_types(ts)
        for pre in ("list[", "tuple[", "Iterator[", "Sequence[", "Iterable[", "List[", "Tuple[", "Generator["):
            if text.startswith(pre) and text.endswith("]"):
                inner = [p for p in split_top(text[len(pre):-1], ",") if p.strip() not in ("...", "None")]
                t = join_types([self.ann_type(p, ctx, depth + 1) for p in inner[:1]]) if inner else PY
                return ("list", t)
        if text.startswith(("dict[", "Dict[", "Mapping[", "DefaultDict[", "set[", "Set[")):
            return PY
        if text.startswith(("Callable[", "type[", "Type[")):
            return None
        if text == "Self" and ctx is not None:
            return frozenset([ctx])
        if text in ("str", "int", "float", "bool", "bytes", "None", "dt.datetime", "datetime", "dt.date", "date",
                    "Length", "object") or text.startswith("Literal["):
            return PY
        if text in ("ElementBase", "_Element", "etree._Element"):
            return LX            # only lxml's own members are used on it
        if text == "BaseOxmlElement":
            return None          # the root of every element class says nothing: resolve by name
        if text in self.by_name:
            cs = self.by_name[text]
            if all(self.is_value(c) for c in cs):
                return PY
            return frozenset(cs)
        return None


def split_top(text, sep):
    out, depth, cur = [], 0, ""
    for ch in text:
        if ch in "[(":
            depth += 1
        elif ch in "])":
            depth -= 1
        if ch == sep and depth == 0:
            out.append(cur)
            cur = ""
        else:
            cur += ch
    out.append(cur)
    return [p.strip() for p in out if p.strip()]


def join_types(ts):
    """join of types; None (unknown) is absorbing"""
    ts = list(ts)
    if not ts or any(t is None for t in ts):
        return None
    cls = set()
    lists = []
    for t in ts:
        if t == PY:
            continue
        if isinstance(t, tuple):
            lists.append(t[1])
        else:
            cls |= set(t)
    if lists and not cls:
        return ("list", join_types(lists))
    if lists and cls:
        return None
    return frozenset(cls) if cls else PY


def repr_type(t):
    if isinstance(t, frozenset):
        return tuple(sorted(getattr(c, "__qualname__", c) for c in t))
    if isinstance(t, tuple):
        return ("list", repr_type(t[1]))
    return t


def generated_info(fn):
    """A metaclass-generated function: (role, declaration object) from its closure."""
    from pptx.oxml.xmlchemy import _BaseChildElement, BaseAttribute

    q = getattr(fn, "__qualname__", "")
    if "<locals>" not in q:
        return None
    decl = None
    for cell in (fn.__closure__ or ()):
        try:
            c = cell.cell_contents
        except ValueError:
            continue
        if isinstance(c, (_BaseChildElement, BaseAttribute)):
            decl = c
    if decl is None:
        return None
    return q.split(".")[-1], decl


# ----------------------------------------------------------------------------- the analysis
class Analyzer:
    def __init__(self, U):
        self.U = U
        self.memo = {}
        self.inprog = set()
        self.done = set()
        self.changed = False
        self.unknown_calls = {}
        self.init_types = {}
        self.ret_types = {}
        self.hints_used = set()

    # -- metaclass-generated members ------------------------------------------------------
    def generated(self, desc):
        if isinstance(desc, property) and desc.fget is not None:
            gi = generated_info(desc.fget)
            return ("prop",) + gi if gi else None
        if inspect.isfunction(desc):
            gi = generated_info(desc)
            return ("fn",) + gi if gi else None
        return None

    def generated_effect(self, ctx, name, desc, store=False, kwargs=False):
        g = self.generated(desc)
        if g is None:
            return None
        kind, role, decl = g
        tag = getattr(decl, "_nsptagname", None)
        if kind == "prop":
            if store:
                return creates("attribute assignment on an element")
            return PURE
        if role in ("new_child_element", "get_child_element", "get_child_element_list", "get_group_member_element",
                    "get_attr_value"):
            return PURE
        if role == "set_attr_value":
            return creates("attribute assignment")
        if role == "_insert_child":
            return creates("insert <%s>" % tag)
        if role in ("_remove_child", "_remove_choice_group"):
            return creates("remove child")
        if role == "get_or_change_to_child":
            return creates("change choice to <%s>" % tag)
        if role in ("_add_child", "add_child", "get_or_add_child"):
            prop = decl._prop_name
            pieces = (("_add_" + prop,) if role != "_add_child" else ()) + ("_new_" + prop, "_insert_" + prop)
            default_new = True
            eff = PURE
            for piece in pieces:
                r = self.U.lookup(ctx, piece)
                if r is None:
                    return unres("generated %s: no %s" % (name, piece))
                if self.generated(r[1]) is None:
                    e = self.member_effect(ctx, piece, call=True)
                    if piece.startswith("_insert_") and e is not None and not e.unres and not e.tags \
                            and all(w.startswith("lxml-insert:") for w in e.whats):
                        continue      # hand-written inserter that only places the child it is given
                    # hand-written override: analyse it; the new element is not known to be empty
                    default_new = False
                    eff = eff.join(e)
            if role == "add_child":
                return eff.join(creates("add <%s>" % tag))
            if kwargs:
                return eff.join(creates("add <%s> with attributes" % tag))
            if default_new:
                return eff.join(Eff(tags=[tag]))
            return eff.join(creates("add <%s> (non-empty default)" % tag))
        return unres("generated role %s" % role)

    def generated_type(self, desc):
        """type of the value a generated member hands back"""
        g = self.generated(desc)
        if g is None:
            return None
        kind, role, decl = g
        tag = getattr(decl, "_nsptagname", None)
        if role == "get_attr_value":
            return PY
        if role in ("get_child_element", "_add_child", "add_child", "get_or_add_child", "new_child_element",
                    "get_or_change_to_child", "_insert_child"):
            c = self.U.tag_class.get(tag)
            if c is None and tag:
                return LX
            return frozenset([c]) if c in self.U.classes else None
        if role == "get_child_element_list":
            c = self.U.tag_class.get(tag)
            if c is None and tag:
                return ("list", LX)
            return ("list", frozenset([c])) if c in self.U.classes else ("list", None)
        if role == "get_group_member_element":
            cs = [self.U.tag_class.get(t) for t in decl._member_nsptagnames]
            if all(c is not None and c in self.U.classes for c in cs):
                return frozenset(cs)
            return None
        return None

    # -- members --------------------------------------------------------------------------
    def member_effect(self, ctx, name, call=False, store=False, kwargs=False, consts=None, node=None,
                      facts=frozenset()):
        """Effect of evaluating ctx_instance.name (load / call / store) with self : ctx; None if ctx
        has no such member at all (plain instance attribute).  `facts` (children known to be present
        on attributes of the same self) travel only along self.member evaluations."""
        r = self.U.lookup(ctx, name)
        if r is None:
            return None
        owner, desc = r
        if not self.U.is_pptx(owner):
            # member inherited from lxml / python (ElementBase, Mapping, Sequence, tuple, str ...)
            if store:
                return creates("assignment to .%s of an element" % name) if issubclass(ctx, self.U.etree_element) else PURE
            if not call:
                return PURE
            if name in NAME_MUTATING and not self.U.is_value(ctx):
                if name in ("append", "insert", "addprevious", "addnext", "extend"):
                    return creates("lxml-insert: .%s() on an element" % name)
                return creates("lxml-mutate: .%s() on an element" % name)
            eff = PURE
            if not issubclass(ctx, self.U.etree_element):
                # Mapping / Sequence mix-ins call back into the class's own protocol
                for proto in ("__iter__", "__getitem__", "__len__", "__contains__"):
                    rr = self.U.lookup(ctx, proto)
                    if rr and self.U.is_pptx(rr[0]) and proto != name:
                        eff = eff.join(self.member_effect(ctx, proto, call=True))
            return eff
        g = self.generated_effect(ctx, name, desc, store=store, kwargs=kwargs)
        if g is not None:
            return g
        mem = self.U.src_members.get(owner, {}).get(name)
        if mem is None:
            if isinstance(desc, (staticmethod, classmethod)) or inspect.isfunction(desc):
                return unres("%s.%s has no source" % (owner.__name__, name))
            return PURE            # class attribute (constant, declaration object, alias)
        if store:
            if mem["kind"] == "property" and "set" in mem:
                return self.func_effect(ctx, owner, name, "set", mem["set"], None)
            return PURE            # read-only property: AttributeError, nothing happens
        if mem["kind"] in ("property", "lazyproperty"):
            return self.func_effect(ctx, owner, name, "get", mem["get"], None, facts)
        if call:
            binding = self.bind_consts(mem["get"], node, consts, skip_self=not mem.get("static"))
            return self.func_effect(ctx, owner, name, "get", mem["get"], binding, facts)
        return PURE   # bound-method reference without a call

    def member_effect_at(self, ctx, owner, name, call=False, store=False, kwargs=False, consts=None, node=None):
        """the member `name` as defined on `owner` (a class of ctx's MRO), evaluated with self : ctx"""
        desc = vars(owner)[name]
        g = self.generated_effect(ctx, name, desc, store=store, kwargs=kwargs)
        if g is not None:
            return g
        mem = self.U.src_members.get(owner, {}).get(name)
        if mem is None:
            return PURE
        if store:
            if mem["kind"] == "property" and "set" in mem:
                return self.func_effect(ctx, owner, name, "set", mem["set"], None)
            return PURE
        if mem["kind"] in ("property", "lazyproperty"):
            return self.func_effect(ctx, owner, name, "get", mem["get"], None)
        if call:
            binding = self.bind_consts(mem["get"], node, consts, skip_self=not mem.get("static"))
            return self.func_effect(ctx, owner, name, "get", mem["get"], binding)
        return PURE

    def member_type(self, ctx, name, call=False):
        for k in ctx.__mro__:
            if k in self.U.classes and name in self.U.class_ann[k]:
                t = self.U.ann_type(self.U.class_ann[k][name], ctx)
                if t is not None:
                    return t
            if name in vars(k):
                break
        r = self.U.lookup(ctx, name)
        if r is None:
            return self.instance_attr_type(ctx, name)
        owner, desc = r
        if not self.U.is_pptx(owner):
            return PY if name in ("text", "tail", "tag", "attrib", "nsmap", "sourceline") else None
        if self.generated(desc) is not None:
            return self.generated_type(desc)
        mem = self.U.src_members.get(owner, {}).get(name)
        if mem is None:
            ann = self.U.class_ann.get(owner, {}).get(name)
            return self.U.ann_type(ann, ctx) if ann else None
        fn = mem.get("get")
        if fn is None:
            return None
        if mem["kind"] == "method" and not call:
            return None
        t = self.U.ann_type(ast.unparse(fn.returns), ctx) if fn.returns is not None else None
        if t is None:
            t = self.infer_return(ctx, fn, owner)
        return t

    def infer_return(self, ctx, fn, owner=None):
        key = (ctx, id(fn))
        if key in self.ret_types:
            return self.ret_types[key]
        self.ret_types[key] = None
        rets = [n.value for n in ast.walk(fn) if isinstance(n, ast.Return) and n.value is not None]
        if any(isinstance(n, (ast.Yield, ast.YieldFrom)) for n in ast.walk(fn)):
            ys = [n.value for n in ast.walk(fn) if isinstance(n, ast.Yield) and n.value is not None]
            if ys and not any(isinstance(n, ast.YieldFrom) for n in ast.walk(fn)):
                mod = owner.__module__ if inspect.isclass(owner) else (owner or "pptx")
                b = Body(self, ctx, fn, mod, None)
                t = join_types([b.type_of(y) for y in ys])
                t = ("list", t) if t is not None else None
            else:
                t = None
            self.ret_types[key] = t
            return t
        if not rets:
            t = None
        else:
            mod = owner.__module__ if inspect.isclass(owner) else (owner or "pptx")
            b = Body(self, ctx, fn, mod, None)
            t = join_types([b.type_of(r) for r in rets])
        self.ret_types[key] = t
        return t

    def instance_attr_type(self, ctx, attr):
        """type of self.attr for a plain instance attribute: class-level annotation or an assignment
        from an annotated __init__ parameter."""
        key = (ctx, attr)
        if key in self.init_types:
            return self.init_types[key]
        self.init_types[key] = None
        t = None
        for k in ctx.__mro__:
            if k not in self.U.classes:
                continue
            ann = self.U.class_ann[k].get(attr)
            if ann:
                t = self.U.ann_type(ann, ctx)
                if t is not None:
                    break
            init = self.U.src_members[k].get("__init__")
            if init:
                fn = init["get"]
                params = {a.arg: (ast.unparse(a.annotation) if a.annotation is not None else None)
                          for a in fn.args.args + fn.args.kwonlyargs}
                found = False
                for st in ast.walk(fn):
                    if isinstance(st, (ast.Assign, ast.AnnAssign)):
                        targets = st.targets if isinstance(st, ast.Assign) else [st.target]
                        for tg in targets:
                            if isinstance(tg, ast.Attribute) and isinstance(tg.value, ast.Name) \
                                    and tg.value.id == fn.args.args[0].arg and tg.attr == attr:
                                found = True
                                v = st.value
                                if isinstance(st, ast.AnnAssign):
                                    t = self.U.ann_type(ast.unparse(st.annotation), ctx)
                                elif isinstance(v, ast.Name) and params.get(v.id):
                                    t = self.U.ann_type(params[v.id], ctx)
                                elif isinstance(v, (ast.Constant, ast.List, ast.Dict, ast.Tuple)):
                                    t = PY
                if found:
                    break
        self.init_types[key] = t
        return t

    def bind_consts(self, fn, node, consts, skip_self=True):
        """constant string arguments of a call, by parameter name (for getattr(x, param) bodies)"""
        if node is None:
            return None
        params = [a.arg for a in fn.args.args]
        if skip_self and params:
            params = params[1:]
        out = {}

        def val(e):
            if isinstance(e, ast.Constant) and isinstance(e.value, str):
                return e.value
            if isinstance(e, ast.Name) and consts and e.id in consts:
                return consts[e.id]
            return None
        for p, a in zip(params, node.args):
            v = val(a)
            if v is not None:
                out[p] = v
        for kw in node.keywords:
            if kw.arg:
                v = val(kw.value)
                if v is not None:
                    out[kw.arg] = v
        return out or None

    def by_name(self, layer, name, what):
        """candidates visible from `layer` that have member `name`; what(ctx) -> Eff or None.
        exact when all candidates agree, otherwise ambiguous (unresolved)."""
        cands = [c for c in self.U.name_index.get(name, ()) if layer_of(c.__module__) <= layer]
        effs = []
        for c in sorted(cands, key=lambda c: (c.__module__, c.__qualname__)):
            e = what(c)
            if e is not None:
                effs.append((c, e))
        if not effs:
            return None
        first = effs[0][1]
        if all(e == first for _c, e in effs):
            return first
        # levels agree and nothing unresolved: join (tags / reasons may differ between classes)
        if not any(e.unres for _c, e in effs) and len({e.level for _c, e in effs}) == 1:
            out = PURE
            for _c, e in effs:
                out = out.join(e)
            return out
        levels = sorted({e.level + ("?" if e.unres else "") for _c, e in effs})
        imp = [c.__name__ for c, e in effs if e.level != "Pure" or e.unres][:4]
        return unres("ambiguous .%s (%d classes: %s; e.g. %s)" % (name, len(effs), "/".join(levels), ",".join(imp)))

    def class_ctor_effect(self, cls):
        eff = PURE
        for nm in ("__new__", "__init__"):
            r = self.U.lookup(cls, nm)
            if r and self.U.is_pptx(r[0]):
                mem = self.U.src_members[r[0]].get(nm)
                if mem:
                    eff = eff.join(self.func_effect(cls, r[0], nm, "get", mem["get"], None))
        return eff

    # -- function bodies ------------------------------------------------------------------
    def func_effect(self, ctx, owner, name, which, fn, binding, facts=frozenset()):
        bkey = tuple(sorted(binding.items())) if binding else ()
        key = (ctx, owner, name, which, bkey, facts)
        if key in self.inprog or key in self.done:
            return self.memo.get(key, PURE)
        self.inprog.add(key)
        try:
            mod = owner if isinstance(owner, str) else owner.__module__
            eff = Body(self, ctx, fn, mod, binding, owner, facts).run().via(
                "%s.%s" % (getattr(owner, "__name__", owner), name))
        finally:
            self.inprog.discard(key)
        self.done.add(key)
        if self.memo.get(key) != eff:
            self.memo[key] = eff
            self.changed = True
        return eff

    def modfunc_effect(self, name, node=None, consts=None):
        eff = PURE
        for mod, fn in self.U.funcs[name]:
            binding = self.bind_consts(fn, node, consts, skip_self=False)
            eff = eff.join(self.func_effect(None, mod, name, "fn", fn, binding))
        return eff

    def modfunc_type(self, name):
        ts = []
        for mod, fn in self.U.funcs[name]:
            t = self.U.ann_type(ast.unparse(fn.returns)) if fn.returns is not None else None
            if t is None:
                t = self.infer_return(None, fn, mod)
            ts.append(t)
        return join_types(ts)


class Body:
    """Effect of one function body with self : ctx."""

    def __init__(self, A, ctx, fn, module, consts, owner=None, facts=frozenset()):
        self.A, self.U, self.ctx, self.fn, self.module = A, A.U, ctx, fn, module
        self.facts = set(facts)     # (receiver text, child property): `receiver.child is not None` holds here
        self.owner = owner if inspect.isclass(owner) else None
        self.layer = layer_of(module)
        self.consts = dict(consts or {})
        decos = [ast.unparse(d) for d in fn.decorator_list]
        self.is_cls = "classmethod" in decos
        self.is_static = "staticmethod" in decos
        a = fn.args
        self.params = {x.arg: (ast.unparse(x.annotation) if x.annotation is not None else None)
                       for x in a.posonlyargs + a.args + a.kwonlyargs}
        if a.vararg:
            self.params[a.vararg.arg] = None
        if a.kwarg:
            self.params[a.kwarg.arg] = None
        self.selfname = a.args[0].arg if (a.args and ctx is not None and not self.is_static) else None
        self.nested = {n.name for n in ast.walk(fn) if isinstance(n, ast.FunctionDef) and n is not fn}
        self.ext = self.U.ext_names.get(module, set())
        self.assigns = {}     # local name -> [(kind, expr)]
        self.tmemo = {}
        self.collect_locals()

    # -- locals ---------------------------------------------------------------------------
    def collect_locals(self):
        def bind(target, value, it=False):
            if isinstance(target, ast.Name):
                self.assigns.setdefault(target.id, []).append(("iter", value) if it else ("val", value))
            elif isinstance(target, (ast.Tuple, ast.List)):
                if not it and isinstance(value, (ast.Tuple, ast.List)) and len(value.elts) == len(target.elts):
                    for t, v in zip(target.elts, value.elts):
                        bind(t, v)
                    return
                for t in target.elts:
                    if isinstance(t, ast.Name):
                        self.assigns.setdefault(t.id, []).append(("unk", None))
        for n in ast.walk(self.fn):
            if isinstance(n, ast.Assign):
                for t in n.targets:
                    bind(t, n.value)
            elif isinstance(n, ast.AnnAssign) and n.value is not None:
                bind(n.target, n.value)
                if isinstance(n.target, ast.Name):
                    self.assigns[n.target.id].append(("ann", n.annotation))
            elif isinstance(n, ast.AugAssign):
                bind(n.target, n.value)
            elif isinstance(n, (ast.For, ast.comprehension)):
                bind(n.target, n.iter, it=True)
            elif isinstance(n, ast.With):
                for it in n.items:
                    if it.optional_vars is not None:
                        bind(it.optional_vars, it.context_expr)
            elif isinstance(n, ast.NamedExpr):
                bind(n.target, n.value)
            elif isinstance(n, ast.ExceptHandler) and n.name:
                self.assigns.setdefault(n.name, []).append(("py", None))
        for nf in ast.walk(self.fn):
            if isinstance(nf, (ast.FunctionDef, ast.Lambda)) and nf is not self.fn:
                for x in nf.args.args + nf.args.kwonlyargs:
                    ann = getattr(x, "annotation", None)
                    self.assigns.setdefault(x.arg, []).append(("ann", ann) if ann is not None else ("unk", None))

    # -- types ----------------------------------------------------------------------------
    def is_self(self, e):
        if isinstance(e, ast.Name) and self.selfname and e.id == self.selfname and not self.is_cls:
            return True
        return False

    def super_after(self, e):
        """super() / super(C, self): the class after which the MRO search starts, else None"""
        if isinstance(e, ast.Call) and isinstance(e.func, ast.Name) and e.func.id == "super" and self.ctx is not None:
            if e.args and isinstance(e.args[0], ast.Name) and e.args[0].id in self.U.by_name:
                for c in self.U.by_name[e.args[0].id]:
                    if c in self.ctx.__mro__:
                        return c
            return self.owner if self.owner in self.ctx.__mro__ else None
        return None

    def fresh(self, e, depth=0):
        """expression denotes a python container / object created inside this function"""
        if depth > 6:
            return False
        if isinstance(e, (ast.List, ast.Dict, ast.Set, ast.ListComp, ast.DictComp, ast.SetComp, ast.Tuple,
                          ast.Constant, ast.JoinedStr, ast.GeneratorExp)):
            return True
        if isinstance(e, ast.Subscript):
            return self.fresh(e.value, depth + 1)
        if isinstance(e, ast.Call):
            f = e.func
            if isinstance(f, ast.Name) and f.id in ("list", "dict", "set", "tuple", "sorted", "bytearray", "OrderedDict",
                                                    "defaultdict", "Counter", "BytesIO", "StringIO"):
                return True
            if isinstance(f, ast.Attribute) and f.attr in ("defaultdict", "OrderedDict", "BytesIO", "StringIO", "split",
                                                           "findall", "xpath", "copy"):
                return True
            if isinstance(f, ast.Attribute) and f.attr == "setdefault":
                return self.fresh(f.value, depth + 1)
            if isinstance(f, ast.Name) and f.id in self.U.by_name and f.id not in self.params:
                return True      # a newly constructed object
            if isinstance(f, ast.Name) and f.id in ("OxmlElement", "parse_xml", "parse_from_template", "deepcopy"):
                return True      # a loose element, not (yet) part of any document
            if isinstance(f, ast.Attribute) and f.attr in ("deepcopy", "makeelement", "fromstring"):
                return True
            if isinstance(f, ast.Attribute) and f.attr.startswith("new") and isinstance(f.value, ast.Name) \
                    and f.value.id in self.U.by_name and f.value.id not in self.params \
                    and all(issubclass(c, self.U.etree_element) for c in self.U.by_name[f.value.id]):
                return True      # CT_X.new...(): a loose element
            return False
        if isinstance(e, ast.Name):
            if e.id in self.params or e.id == self.selfname:
                return False
            vals = self.assigns.get(e.id)
            if not vals:
                return False
            vals = [(k, v) for k, v in vals if k != "ann"]
            return bool(vals) and all(k == "val" and self.fresh(v, depth + 1) for k, v in vals)
        return False

    def type_of(self, e, depth=0):
        if depth > 8:
            return None
        k = ast.dump(e)
        if k in self.tmemo:
            return self.tmemo[k]
        self.tmemo[k] = None
        t = self._type_of(e, depth)
        self.tmemo[k] = t
        return t

    def _type_of(self, e, depth):
        U, A = self.U, self.A
        if isinstance(e, ast.ListComp):
            return ("list", self.type_of(e.elt, depth + 1))
        if isinstance(e, (ast.Constant, ast.JoinedStr, ast.List, ast.Dict, ast.Set, ast.DictComp, ast.SetComp,
                          ast.Compare, ast.UnaryOp, ast.Tuple, ast.BinOp)):
            return PY
        if self.is_self(e):
            return frozenset([self.ctx]) if self.ctx is not None else None
        if isinstance(e, ast.Name):
            ts = []
            if e.id in self.ext and e.id not in self.params and e.id not in self.assigns:
                return PY
            if e.id in self.params:
                ts.append(U.ann_type(self.params[e.id], self.ctx))
            for kind, v in self.assigns.get(e.id, ()):
                if kind == "val":
                    ts.append(self.type_of(v, depth + 1))
                elif kind == "iter":
                    t = self.type_of(v, depth + 1)
                    if isinstance(t, frozenset):
                        it = self.members_type(t, "__iter__", call=True)
                        ts.append(it[1] if isinstance(it, tuple) else None)
                    else:
                        ts.append(t[1] if isinstance(t, tuple) else None)
                elif kind == "ann":
                    ts.append(U.ann_type(ast.unparse(v), self.ctx))
                elif kind == "py":
                    ts.append(PY)
                else:
                    ts.append(None)
            return join_types(ts) if ts else None
        if isinstance(e, ast.Attribute):
            t = self.type_of(e.value, depth + 1)
            if t == PY:
                return PY
            if isinstance(t, frozenset):
                return self.members_type(t, e.attr)
            if t is None and not (e.attr.startswith("__") and e.attr.endswith("__")):
                # unknown receiver: a type only if every visible class with this member gives the same one
                cands = [c for c in U.name_index.get(e.attr, ()) if layer_of(c.__module__) <= self.layer]
                ts = {repr_type(A.member_type(c, e.attr)) for c in cands}
                if len(ts) == 1 and cands:
                    return A.member_type(sorted(cands, key=lambda c: c.__qualname__)[0], e.attr)
            return None
        if isinstance(e, ast.Call):
            f = e.func
            if isinstance(f, ast.Name):
                if f.id == "cast" and len(e.args) == 2:
                    a0 = e.args[0]
                    txt = a0.value if isinstance(a0, ast.Constant) else ast.unparse(a0)
                    return U.ann_type(txt, self.ctx)
                if f.id in ("str", "int", "float", "bool", "len", "bytes", "repr", "hash", "sum", "min", "max", "abs",
                            "round", "dict", "set", "isinstance", "hasattr", "id", "ord"):
                    return PY
                if f.id in ("tuple", "list", "sorted", "reversed", "iter") and e.args:
                    t = self.type_of(e.args[0], depth + 1)
                    return t if isinstance(t, tuple) else (PY if t == PY else None)
                if f.id in U.by_name and f.id not in self.params:
                    cs = U.by_name[f.id]
                    return PY if all(U.is_value(c) for c in cs) else frozenset(cs)
                if f.id in U.funcs and f.id not in self.params:
                    return A.modfunc_type(f.id)
                if self.is_cls and f.id == self.selfname and self.ctx is not None:
                    return frozenset([self.ctx])
                return None
            if isinstance(f, ast.Attribute):
                if f.attr == "part_related_by" and e.args and isinstance(e.args[0], ast.Attribute) \
                        and isinstance(e.args[0].value, ast.Name) and e.args[0].value.id == "RT" \
                        and e.args[0].attr in RT_HINT and RT_HINT[e.args[0].attr] in U.by_name:
                    A.hints_used.add(e.args[0].attr)
                    return frozenset(U.by_name[RT_HINT[e.args[0].attr]])
                cs = self.class_of(f.value)
                if cs:
                    return join_types([A.member_type(c, f.attr, call=True) for c in cs])
                t = self.type_of(f.value, depth + 1)
                if t == PY:
                    return PY
                if isinstance(t, frozenset):
                    return self.members_type(t, f.attr, call=True)
            return None
        if isinstance(e, ast.Subscript):
            t = self.type_of(e.value, depth + 1)
            if isinstance(t, tuple):
                return t if isinstance(e.slice, ast.Slice) else t[1]
            if t == PY:
                return PY
            if isinstance(t, frozenset) and not isinstance(e.slice, ast.Slice):
                return self.members_type(t, "__getitem__", call=True)
            return None
        if isinstance(e, ast.IfExp):
            return join_types([self.type_of(e.body, depth + 1), self.type_of(e.orelse, depth + 1)])
        if isinstance(e, ast.BoolOp):
            return join_types([self.type_of(v, depth + 1) for v in e.values])
        if isinstance(e, ast.NamedExpr):
            return self.type_of(e.value, depth + 1)
        return None

    def members_type(self, t, name, call=False):
        """type of recv.name for recv : t (classes and their subclasses; those lacking the member are skipped)"""
        A, U = self.A, self.U
        ts = []
        for c in t:
            if isinstance(c, str):
                ts.append(None if call else PY)
        for c in U.expand(t):
            if U.is_value(c):
                ts.append(PY)
                continue
            if U.lookup(c, name) is None and A.instance_attr_type(c, name) is None:
                continue
            ts.append(A.member_type(c, name, call=call))
        return join_types(ts) if ts else None

    def class_of(self, e):
        """pptx classes an expression may denote AS CLASS OBJECTS (Name, dict-of-classes, cls)."""
        U = self.U
        if isinstance(e, ast.Name):
            if self.is_cls and e.id == self.selfname and self.ctx is not None:
                return [self.ctx]
            if e.id in U.by_name and e.id not in self.params and e.id not in self.assigns:
                return list(U.by_name[e.id])
            if e.id in self.assigns and e.id not in self.params:
                out = []
                for kind, v in self.assigns[e.id]:
                    if kind != "val":
                        return []
                    c = self.class_of(v)
                    if not c:
                        return []
                    out += c
                return out
            return []
        if isinstance(e, ast.Subscript) and isinstance(e.value, ast.Dict):
            out = []
            for v in e.value.values:
                c = self.class_of(v)
                if not c:
                    return []
                out += c
            return out
        if isinstance(e, ast.IfExp):
            a, b = self.class_of(e.body), self.class_of(e.orelse)
            return a + b if a and b else []
        if isinstance(e, ast.Call) and isinstance(e.func, ast.Attribute) and e.func.attr == "get" \
                and isinstance(e.func.value, ast.Dict):
            out = []
            for v in list(e.func.value.values) + list(e.args[1:]):
                c = self.class_of(v)
                if not c:
                    return []
                out += c
            return out
        return []

    def callables_of(self, e):
        """bound methods / module functions / classes an expression may denote: [(ctx|None|'class', name|cls)]"""
        if isinstance(e, ast.Name) and e.id not in self.params and e.id not in self.assigns:
            if e.id in self.U.by_name:
                return [("class", c) for c in self.U.by_name[e.id]]
            if e.id in self.U.funcs:
                return [(None, e.id)]
        if isinstance(e, ast.Call) and isinstance(e.func, ast.Attribute) and e.func.attr == "get" \
                and isinstance(e.func.value, ast.Dict):
            out = []
            for v in list(e.func.value.values) + list(e.args[1:]):
                c = self.callables_of(v)
                if not c:
                    return []
                out += c
            return out
        if isinstance(e, ast.Attribute) and self.ctx is not None and (
                self.is_self(e.value) or (self.is_cls and isinstance(e.value, ast.Name) and e.value.id == self.selfname)):
            return [(self.ctx, e.attr)]
        if isinstance(e, ast.Subscript) and isinstance(e.value, ast.Dict):
            out = []
            for v in e.value.values:
                c = self.callables_of(v)
                if not c:
                    return []
                out += c
            return out
        if isinstance(e, ast.Name) and e.id in self.assigns and e.id not in self.params:
            out = []
            for kind, v in self.assigns[e.id]:
                if kind != "val":
                    return []
                c = self.callables_of(v)
                if not c:
                    return []
                out += c
            return out
        return []

    # -- effects --------------------------------------------------------------------------
    def attr_effect(self, recv, name, call=False, store=False, kwargs=False, node=None):
        """effect of evaluating recv.name (and calling it / assigning to it)"""
        A, U = self.A, self.U
        selfish = self.ctx is not None and (self.is_self(recv) or (
            self.is_cls and isinstance(recv, ast.Name) and recv.id == self.selfname))
        if name.startswith("__") and name.endswith("__") and not selfish:
            return PURE              # int.__new__(cls, v), x.__class__.__name__
        # 0. super().name: the MRO of the concrete class after the named / defining class
        after = self.super_after(recv)
        if after is not None:
            mro = self.ctx.__mro__
            rest = mro[mro.index(after) + 1:]
            for k in rest:
                if name in vars(k):
                    if not U.is_pptx(k):
                        return PURE if not (call and name in NAME_MUTATING) else creates("lxml-mutate: .%s()" % name)
                    return A.member_effect_at(self.ctx, k, name, call=call, store=store, kwargs=kwargs,
                                              consts=self.consts, node=node)
            return PURE
        if isinstance(recv, ast.Call) and isinstance(recv.func, ast.Name) and recv.func.id == "super":
            return unres("super() outside a class context")
        # a child already shown present by a dominating `if recv.child is None: return`: get_or_add finds it
        if call and name.startswith("get_or_add_") and (ast.unparse(recv), name[len("get_or_add_"):]) in self.facts \
                and self.all_generated_goa(recv, name):
            return PURE
        # 1. self / cls
        if selfish:
            e = A.member_effect(self.ctx, name, call=call, store=store, kwargs=kwargs, consts=self.consts, node=node,
                                facts=frozenset(f for f in self.facts if f[0].startswith(self.selfname + "."))
                                if self.selfname and not self.is_cls else frozenset())
            if e is not None:
                return e
            if store:
                return self.self_store(name)
            if call:
                return unres("call of instance attribute self.%s" % name)
            return PURE
        # 2. an explicit class
        cs = self.class_of(recv)
        if cs:
            eff = PURE
            for c in cs:
                e = A.member_effect(c, name, call=call, store=store, kwargs=kwargs, consts=self.consts, node=node)
                eff = eff.join(e if e is not None else unres("%s.%s" % (c.__name__, name)))
            return eff
        # 3. python values and objects made here
        t = self.type_of(recv)
        if self.fresh(recv) and not isinstance(t, frozenset):
            return PURE
        if t == PY or isinstance(t, tuple):
            return PURE
        # 4. typed receiver: the class and its subclasses, exactly
        if isinstance(t, frozenset) and t:
            eff = PURE
            fresh_obj = self.fresh(recv)
            hit = False
            per = []
            if any(isinstance(c, str) for c in t):
                hit = True
                if store:
                    eff = creates("assignment to .%s of an element" % name)
                elif call and name in ("append", "insert", "addprevious", "addnext", "extend"):
                    eff = creates("lxml-insert: .%s() on an element" % name)
                elif call and name in NAME_MUTATING:
                    eff = creates("lxml-mutate: .%s() on an element" % name)
                per.append(("<lxml>", eff))
            for c in U.expand(t):
                if U.is_value(c):
                    continue
                r = U.lookup(c, name)
                if r is not None and not U.is_pptx(r[0]) and fresh_obj:
                    hit = True
                    continue          # lxml call on a loose element built here
                e = A.member_effect(c, name, call=call, store=store, kwargs=kwargs, consts=self.consts, node=node)
                if e is None:
                    if store:
                        e = creates("assignment to .%s of an element" % name) \
                            if issubclass(c, U.etree_element) and not fresh_obj else PURE
                    elif call:
                        continue      # a class without the member cannot be the receiver of a call that succeeds
                    else:
                        e = PURE
                hit = True
                per.append((c.__name__, e))
                eff = eff.join(e)
            if call and not hit:
                return unres("call of .%s(): no class of the receiver's type has it" % name)
            if fresh_obj and all(not isinstance(c, str) and issubclass(c, U.etree_element) for c in t):
                # a method of a loose element built in this function: oxml-layer code can only change the
                # tree it is handed, i.e. the loose element
                return Eff(unres=eff.unres, prov=eff.prov) if eff.unres else PURE
            # a static type wider than the object: the classes must agree, otherwise the step is ambiguous
            if len({(e.level, bool(e.unres)) for _n, e in per}) > 1:
                lv = sorted({e.level + ("?" if e.unres else "") for _n, e in per})
                imp = [n for n, e in per if e.level != "Pure" or e.unres][:4]
                return unres("ambiguous .%s on %s (%d classes: %s; e.g. %s)" % (
                    name, "|".join(sorted(getattr(c, "__name__", "lxml") for c in t))[:40], len(per), "/".join(lv),
                    ",".join(imp)))
            return eff
        # 5. unknown receiver: by name, within the layers visible from here
        e = A.by_name(self.layer, name, lambda c: A.member_effect(
            c, name, call=call, store=store, kwargs=kwargs, consts=self.consts, node=node))
        if store:
            if e is None:
                if name in ("text", "tail"):
                    return creates("assignment to .%s (lxml text)" % name)
                return PURE          # no class of pptx gives `name` a meaning: python-object state
            return e
        if call and name in NAME_MUTATING:
            m = unres("call of .%s() on a receiver of unknown type" % name)
            return m if e is None else e.join(m)
        if e is not None:
            return e
        if not call or name in NAME_PURE:
            return PURE
        A.unknown_calls[name] = A.unknown_calls.get(name, 0) + 1
        return unres("call .%s()" % name)

    def all_generated_goa(self, recv, name):
        """every class recv.name can resolve to has the metaclass-generated get_or_add (lookup first)"""
        t = self.type_of(recv)
        if isinstance(t, frozenset) and t and not any(isinstance(c, str) for c in t):
            cands = [c for c in self.U.expand(t) if self.U.lookup(c, name) is not None]
        else:
            cands = [c for c in self.U.name_index.get(name, ()) if layer_of(c.__module__) <= self.layer]
        if not cands:
            return False
        for c in cands:
            g = self.A.generated(self.U.lookup(c, name)[1])
            if g is None or g[1] != "get_or_add_child":
                return False
        return True

    def guard_fact(self, st):
        """`if R.x is None: return/raise` (no else) -> (text of R, x); R must be self.<attr> evaluated purely"""
        if not isinstance(st, ast.If) or st.orelse or not st.body:
            return None
        if not isinstance(st.body[-1], (ast.Return, ast.Raise)):
            return None
        t = st.test
        if isinstance(t, ast.Compare) and len(t.ops) == 1 and isinstance(t.ops[0], ast.Is) \
                and isinstance(t.comparators[0], ast.Constant) and t.comparators[0].value is None \
                and isinstance(t.left, ast.Attribute) and isinstance(t.left.value, ast.Attribute) \
                and self.is_self(t.left.value.value):
            if self.attr_effect(t.left.value.value, t.left.value.attr) is PURE:
                return (ast.unparse(t.left.value), t.left.attr)
        return None

    def callable_effect(self, c, m, node):
        if c == "class":
            return self.A.class_ctor_effect(m)
        if c is None:
            return self.A.modfunc_effect(m, node, self.consts)
        e = self.A.member_effect(c, m, call=True, consts=self.consts, node=node)
        return e if e is not None else unres("%s.%s" % (c.__name__, m))

    def self_store(self, name):
        """self.name = ... for a plain instance attribute"""
        ctx = self.ctx
        if self.fn.name in ("__init__", "__new__"):
            return PURE
        if layer_of(ctx.__module__) == 1 or any(k.__name__ in ("Part", "OpcPackage") for k in ctx.__mro__):
            if name == "_partname":
                return Eff(flags=["renames a part"])
            return creates("state of a package object: self.%s" % name)
        return PURE

    def run(self):
        A, U = self.A, self.U
        eff = PURE
        fn = self.fn
        call_funcs = {id(n.func) for n in ast.walk(fn) if isinstance(n, ast.Call)}

        def ordered_nodes():
            # top-level statements in order, so that a guard's fact is active for what follows it
            for d in fn.decorator_list:
                yield from ast.walk(d)
            yield from ast.walk(fn.args)
            for st in fn.body:
                yield from ast.walk(st)
                g = self.guard_fact(st)
                if g is not None:
                    base_facts.add(g)
        # branch-scoped facts:  A if R.x is None else B  /  B if R.x is not None else A  and the statement forms with an
        # else branch: inside B the child R.x is present (the same fact a dominating `if R.x is None: return` gives)
        scoped = {}

        def none_test(t):
            """(fact, True when the test says IS None) or None"""
            if isinstance(t, ast.Compare) and len(t.ops) == 1 and isinstance(t.ops[0], (ast.Is, ast.IsNot)) \
                    and isinstance(t.comparators[0], ast.Constant) and t.comparators[0].value is None \
                    and isinstance(t.left, ast.Attribute) and isinstance(t.left.value, ast.Attribute) \
                    and self.is_self(t.left.value.value):
                if self.attr_effect(t.left.value.value, t.left.value.attr) is PURE:
                    return (ast.unparse(t.left.value), t.left.attr), isinstance(t.ops[0], ast.Is)
            return None

        for nd in ast.walk(fn):
            if isinstance(nd, (ast.IfExp, ast.If)):
                r = none_test(nd.test)
                if r is None:
                    continue
                fact, is_none = r
                present = nd.orelse if is_none else nd.body
                for sub in (present if isinstance(present, list) else [present]):
                    for inner in ast.walk(sub):
                        scoped.setdefault(id(inner), set()).add(fact)
        base_facts = self.facts
        for node in ordered_nodes():
            extra = scoped.get(id(node))
            # facts of dominating guards accumulate in base_facts; branch facts hold for this node only
            self.facts = base_facts | extra if extra else base_facts
            if isinstance(node, ast.Call):
                f = node.func
                kw = bool(node.keywords)
                if isinstance(f, ast.Attribute):
                    eff = eff.join(self.attr_effect(f.value, f.attr, call=True, kwargs=kw, node=node))
                elif isinstance(f, ast.Name):
                    nm = f.id
                    if nm in ("getattr", "setattr"):
                        tgt = node.args[1] if len(node.args) >= 2 else None
                        cname = None
                        if isinstance(tgt, ast.Constant) and isinstance(tgt.value, str):
                            cname = tgt.value
                        elif isinstance(tgt, ast.Name) and tgt.id in self.consts:
                            cname = self.consts[tgt.id]
                        if cname is not None:
                            called = id(node) in call_funcs
                            eff = eff.join(self.attr_effect(node.args[0], cname, call=called, store=(nm == "setattr")))
                        else:
                            eff = eff.join(unres("dynamic %s in %s" % (nm, fn.name)))
                    elif nm in self.nested:
                        pass            # its body is part of this function's walk
                    elif nm in self.assigns and nm not in U.by_name:
                        cs = self.class_of(f)
                        cb = self.callables_of(f)
                        if cs:
                            for c in cs:
                                eff = eff.join(A.class_ctor_effect(c))
                        elif cb:
                            for c, m in cb:
                                eff = eff.join(self.callable_effect(c, m, node))
                        else:
                            eff = eff.join(unres("call of local %s() in %s" % (nm, fn.name)))
                    elif nm in self.params:
                        if self.is_cls and nm == self.selfname and self.ctx is not None:
                            eff = eff.join(A.class_ctor_effect(self.ctx))
                        else:
                            eff = eff.join(unres("call of parameter %s() in %s" % (nm, fn.name)))
                    elif nm in U.by_name:
                        for c in U.by_name[nm]:
                            eff = eff.join(A.class_ctor_effect(c))
                    elif nm in U.funcs:
                        eff = eff.join(A.modfunc_effect(nm, node, self.consts))
                    elif nm in BUILTIN_PURE or nm in NAME_PURE or nm in self.ext:
                        pass
                    else:
                        eff = eff.join(unres("call %s()" % nm))
                elif isinstance(f, ast.Call) and isinstance(f.func, ast.Name) and f.func.id == "getattr":
                    pass                # handled at the inner getattr node (called = True)
                else:
                    cs = self.class_of(f)
                    cb = self.callables_of(f)
                    if cs:
                        for c in cs:
                            eff = eff.join(A.class_ctor_effect(c))
                    elif cb:
                        for c, m in cb:
                            eff = eff.join(self.callable_effect(c, m, node))
                    else:
                        eff = eff.join(unres("call of computed callee %s" % ast.unparse(f)[:40]))
            elif isinstance(node, ast.Attribute):
                if id(node) in call_funcs:
                    continue
                if isinstance(node.ctx, ast.Load):
                    eff = eff.join(self.attr_effect(node.value, node.attr))
                else:
                    eff = eff.join(self.attr_effect(node.value, node.attr, store=True))
            elif isinstance(node, ast.Subscript) and isinstance(node.ctx, (ast.Store, ast.Del)):
                base = node.value
                if self.fresh(base):
                    continue
                if self.type_of(base) == PY and not isinstance(base, ast.Attribute):
                    continue
                eff = eff.join(creates("item assignment on %s" % ast.unparse(base)[:30]))
        self.facts = base_facts
        return eff


# ----------------------------------------------------------------------------- accessor table
def return_kind(U, A, cls, fn):
    """Static part of the read-surface rule: what a getter hands back."""
    t = U.ann_type(ast.unparse(fn.returns), cls) if fn.returns is not None else None
    if t is None:
        t = A.infer_return(cls, fn, cls)

    def kind(t):
        if t is None:
            return "unknown"
        if t == PY:
            return "plain"
        if isinstance(t, tuple):
            k = kind(t[1])
            return "plain" if k == "plain" else ("coll" if k in ("proxy", "coll") else "unknown")
        ks = set()
        for c in t:
            if U.is_value(c):
                ks.add("plain")
            elif any(hasattr(c, m) for m in ("__iter__", "__getitem__")) and not issubclass(c, U.etree_element):
                ks.add("coll")
            else:
                ks.add("proxy")
        if ks <= {"plain"}:
            return "plain"
        return "coll" if "coll" in ks else "proxy"
    return kind(t)


def proxy_classes(U):
    out = []
    for live in U.classes:
        if live.__module__ not in PROXY_MODULES or live.__name__ in NOT_PROXY:
            continue
        if issubclass(live, BaseException):
            continue
        out.append(live)
    return sorted(out, key=lambda c: (c.__module__, c.__qualname__))


def class_accessors(U, cls):
    from pptx.util import lazyproperty

    out = {}
    for k in cls.__mro__:
        if not U.is_pptx(k):
            continue
        for n, v in vars(k).items():
            if n in out:
                continue
            if n in SEQ_PROTO and inspect.isfunction(v):
                out[n] = (k, "seq")
            elif ((k.__name__, n) in READ_METHODS and inspect.isfunction(v)) or is_lookup_method(k, n, v):
                out[n] = (k, "method")
            elif n.startswith("_"):
                continue
            elif isinstance(v, property):
                out[n] = (k, "property")
            elif isinstance(v, lazyproperty):
                out[n] = (k, "lazyproperty")
    if "__iter__" not in out and ("__getitem__" in out or hasattr(cls, "__iter__")) and not issubclass(cls, (str, tuple)):
        for k in cls.__mro__:
            if "__iter__" in vars(k):
                out["__iter__"] = (cls, "seq")      # mix-in __iter__ (Sequence / Mapping): calls back into the class
                break
    return sorted(out.items())


def nullable(cm):
    k = cm[0]
    if k in ("elt", "any"):
        return False
    if k == "rep":
        return cm[1] == 0 or nullable(cm[3])
    if k == "seq":
        return all(nullable(x) for x in cm[1])
    if k == "alt":
        return any(nullable(x) for x in cm[1]) or not cm[1]
    return False


def audit_containers(unmodelled):
    """The `all optional` half of the container whitelist, re-read from the XSDs."""
    from lxml import etree

    try:
        sch = Schemas()
    except Exception as e:  # noqa
        unmodelled.append("XSDs unreadable for the container audit: %r" % e)
        return {}
    res = {}
    for tag in CONTAINERS:
        tys = sorted(t for t in sch.tag_types.get(tag, ()) if t in sch.ctypes)
        if not tys:
            unmodelled.append("container %s: no XSD type found" % tag)
            continue
        for ty in tys:
            e = sch.ctypes[ty][0]
            if 'use="required"' in etree.tostring(e).decode():
                unmodelled.append("container %s: schema type %s:%s has a required attribute" % ((tag,) + ty))
            if not nullable(sch.ctype_cm(ty)):
                unmodelled.append("container %s: schema type %s:%s has a required child" % ((tag,) + ty))
        res[tag] = ["%s:%s" % t for t in tys]
    return res


def main():
    U = Universe()
    A = Analyzer(U)
    unmodelled = list(U.notes)
    rows = []
    classes = proxy_classes(U)
    for _round in range(8):
        A.changed = False
        A.done = set()
        tmp = []
        for cls in classes:
            for name, (owner, kind) in class_accessors(U, cls):
                eff = A.member_effect(cls, name, call=(kind in ("seq", "method")))
                tmp.append((cls, name, owner, kind, eff if eff is not None else unres("no source")))
        rows = tmp
        if not A.changed:
            break
    else:
        unmodelled.append("effect analysis did not reach a fixpoint in 8 rounds")
    kf_path = os.environ.get("VERIF_KNOWN_FINDINGS") or os.path.join(VERIF, "known_findings.json")
    known = set()
    if os.path.exists(kf_path):
        for e in json.load(open(kf_path)):
            if e.get("property") == "C12" and e.get("status") == "known" and e.get("signature", "").startswith("accessor:"):
                known.add(e["signature"][len("accessor:"):])
    documented = set(DOCUMENTED)
    cont_types = audit_containers(unmodelled)
    tag_ids, what_ids = {}, {}

    def intern(d, s):
        if s not in d:
            d[s] = len(d) + 1
        return d[s]

    for t in CONTAINERS:
        intern(tag_ids, t)
    meta_rows, coq_rows, unresolved = [], [], []
    for cls, name, owner, kind, eff in rows:
        mem = U.src_members.get(owner, {}).get(name)
        fn = mem.get("get") if mem else None
        rk = return_kind(U, A, cls, fn) if fn is not None else "unknown"
        if kind == "seq":
            rk = "coll"
        doc = (fn and ast.get_docstring(fn)) or ""
        sig = "%s.%s" % (owner.__name__, name)
        rec = {"cls": cls.__name__, "module": cls.__module__, "name": name, "owner": owner.__name__, "kind": kind,
               "ret": rk, "level": eff.level, "tags": sorted(eff.tags), "whats": sorted(eff.whats),
               "unres": sorted(eff.unres), "flags": sorted(eff.flags),
               "why": {a: " > ".join(c) for a, c in sorted(eff.prov.items())},
               "documented": (owner.__name__, name) in documented,
               "sig": sig, "known": sig in known, "doc": " ".join(doc.split())[:600],
               "line": getattr(fn, "lineno", 0), "file": "src/" + owner.__module__.replace(".", "/") + ".py"}
        # static part of the surface rule: collections and plain data are judged, proxies are gateways
        rec["surface"] = rk != "proxy"
        if eff.unres:
            rec["id"] = None
            unresolved.append(rec)
        else:
            rec["id"] = len(coq_rows)
            if eff.level == "Pure":
                e = "Pure"
            elif eff.level == "AddsEmpty":
                e = "AddsEmpty [%s]" % "; ".join(str(intern(tag_ids, t)) for t in sorted(eff.tags))
            else:
                e = "Creates %d" % intern(what_ids, sorted(eff.whats)[0])
            coq_rows.append("  {| acc_id := %d; acc_surface := %s; acc_documented := %s; acc_eff := %s |}" % (
                rec["id"], "true" if rec["surface"] else "false", "true" if rec["documented"] else "false", e))
        if rec["documented"] and not any(w in doc for w in DOC_SAYS_SO):
            unmodelled.append("accessor %s is exempted as documented-creating but its docstring no longer says so" % sig)
        meta_rows.append(rec)
    for d in DOCUMENTED:
        if not any((r["owner"], r["name"]) == d for r in meta_rows):
            unmodelled.append("documented creating accessor %s.%s not found in the source" % d)
    lines = ["(* GENERATED by tx/tx_c12.py from /repo -- do not edit *)",
             "From V.lib Require Import Prelude.",
             "From V.model Require Import Schema Access.",
             "Open Scope N_scope.",
             "Definition containers : list tag := [%s]." % "; ".join(str(tag_ids[t]) for t in CONTAINERS),
             "Definition effects : list accessor := [\n%s\n]." % ";\n".join(coq_rows),
             "Definition known_failing : list N := [%s]." % "; ".join(
                 str(r["id"]) for r in meta_rows if r["known"] and r["id"] is not None),
             "Close Scope N_scope.",
             "Definition n_unmodelled : nat := %d%%nat." % len(unmodelled),
             "Definition n_unresolved : nat := %d%%nat." % len(unresolved),
             "Definition n_classes : nat := %d%%nat." % len(classes)]
    write_if_changed(os.path.join(VERIF, "coq", "gen", "GenC12.v"), "\n".join(lines) + "\n")
    meta = {"rows": meta_rows, "containers": CONTAINERS, "container_types": cont_types,
            "tag_ids": tag_ids, "what_ids": what_ids, "unmodelled": unmodelled,
            "documented": [list(d) for d in DOCUMENTED], "classes": [c.__module__ + "." + c.__name__ for c in classes],
            "unknown_call_names": A.unknown_calls, "proxy_modules": PROXY_MODULES,
            "rt_hints": {k: RT_HINT[k] for k in sorted(A.hints_used)}}
    with open(os.path.join(VERIF, "coq", "gen", "c12_meta.json"), "w") as f:
        json.dump(meta, f, indent=1, sort_keys=True)
    lv = {}
    for r in meta_rows:
        k = "unresolved" if r["unres"] else r["level"]
        lv[k] = lv.get(k, 0) + 1
    print("tx_c12: %d classes, %d accessor rows (%s), %d known, %d unmodelled" % (
        len(classes), len(meta_rows), ", ".join("%s %d" % kv for kv in sorted(lv.items())),
        sum(1 for r in meta_rows if r["known"]), len(unmodelled)))


if __name__ == "__main__":
    main()
