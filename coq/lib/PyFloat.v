(** Exact executable model of the CPython [float] type (IEEE-754 binary64, round to
    nearest, ties to even) and of the [int()] / [float()] string parsers.

    Only [Z], [N], [positive], [bool], [list]: runs under [vm_compute] and under plain
    [ExtrOcamlBasic] extraction.  No primitive floats, no reals, nothing assumed.
    Validated bit-exactly against CPython 3.12 by corr/validate_pyfloat.py.

    Representation.  [Fin m e] denotes the rational m * 2^e exactly.  A [Fin] need not
    be normalised: every function below reads it by value.  Zero is [Fin 0 e] for any e.
    SIGNED ZERO IS NOT MODELLED: python -0.0 and 0.0 are the same [Fin 0 _].  None of
    the operations modelled here can tell them apart (division by either raises,
    comparisons treat them as equal, round/int give 0); only repr, copysign, atan2 and
    friends could, and they are outside this model.  NaN payloads and NaN signs are not
    modelled either (python cannot observe them through these operations).

    All producers ([fl_div], [f_of_Z], [f_of_str], the arithmetic) return values that are
    binary64-representable; the arithmetic takes the exact value of its operands, so on
    representable operands it is the IEEE operation.  The cost of [f_add], [f_mod] and
    [f_cmp] grows with the distance between the two exponents (bounded by about 2100 for
    representable operands).

    Documented deviations of the parsers (they only ever make the model stricter):
    - Non-ASCII Unicode decimal digits (for instance Arabic-Indic digits), which python
      accepts in [int()] and [float()], give [Err ValueErr] here.
    - The interpreter limit on decimal digit strings (sys.get_int_max_str_digits, 4300 by
      default) is modelled in [int_of_str] for base 10 with the default value; it is not
      modelled in [str_of_Z] (python str of an int with more than 4300 digits raises). *)
From V.lib Require Import Prelude.
Local Open Scope Z_scope.

Inductive pyfloat := Fin (m e : Z) | PInf | NInf | NaN.

Definition inf_of_sign (neg : bool) : pyfloat := if neg then NInf else PInf.

(** * Rounding a dyadic m * 2^e to binary64 *)

(** Nearest binary64 to m * 2^e, ties to even.  53 bits of precision, least exponent
    -1074 (subnormals), magnitude at least 2^1024 - 2^970 becomes an infinity.
    The two early exits keep every shift count bounded by the size of m. *)
Definition round_dy (m e : Z) : pyfloat :=
  if m =? 0 then Fin 0 0 else
  let a := Z.abs m in
  let lm := Z.log2 a in
  if lm + e <? -1075 then Fin 0 0 else
  let e' := Z.max (lm + e - 52) (-1074) in
  if e' <=? e then
    (if 1024 <=? lm + e then inf_of_sign (m <? 0) else Fin m e)
  else
    let sh := e' - e in
    let q := Z.shiftr a sh in
    let rem := a - Z.shiftl q sh in
    let half := Z.shiftl 1 (sh - 1) in
    let q' := if (half <? rem) || ((half =? rem) && Z.odd q) then q + 1 else q in
    if 1024 <=? Z.log2 q' + e' then inf_of_sign (m <? 0)
    else Fin (if m <? 0 then - q' else q') e'.

(** Nearest binary64 to (n / d) * 2^k for d > 0.  The quotient is computed with at
    least 55 significant bits and the remainder is folded into a sticky last bit, so a
    single [round_dy] gives the correctly rounded result. *)
Definition fl_div_e (n d k : Z) : pyfloat :=
  if d <=? 0 then NaN else
  if n =? 0 then Fin 0 0 else
  let a := Z.abs n in
  let s := Z.log2 d - Z.log2 a + 55 in
  let '(q, r) := if 0 <=? s then Z.div_eucl (Z.shiftl a s) d
                 else Z.div_eucl a (Z.shiftl d (- s)) in
  let m := 2 * q + (if r =? 0 then 0 else 1) in
  round_dy (if n <? 0 then - m else m) (k - s - 1).

Definition fl_div (n d : Z) : pyfloat := fl_div_e n d 0.

(** python float(int) *)
Definition f_of_Z (z : Z) : res pyfloat :=
  match round_dy z 0 with
  | PInf | NInf => Err OverflowErr
  | x => Ok x
  end.

(** * Exact value, classification, canonical form *)

Definition f_num (x : pyfloat) : Z :=
  match x with Fin m e => m * 2 ^ (Z.max e 0) | _ => 0 end.
Definition f_den (x : pyfloat) : Z :=
  match x with Fin m e => 2 ^ (Z.max (- e) 0) | _ => 1 end.

Definition f_is_finite (x : pyfloat) : bool :=
  match x with Fin _ _ => true | _ => false end.

Definition f_is_zero (x : pyfloat) : bool :=
  match x with Fin m _ => m =? 0 | _ => false end.

(** odd part of a positive and the number of stripped zero bits *)
Fixpoint pos_ctz (p : positive) : positive * Z :=
  match p with
  | xO p' => let '(q, k) := pos_ctz p' in (q, k + 1)
  | _ => (p, 0)
  end.

Definition f_canon (x : pyfloat) : pyfloat :=
  match x with
  | Fin Z0 _ => Fin 0 0
  | Fin (Zpos p) e => let '(q, k) := pos_ctz p in Fin (Zpos q) (e + k)
  | Fin (Zneg p) e => let '(q, k) := pos_ctz p in Fin (Zneg q) (e + k)
  | _ => x
  end.

(** * Arithmetic *)

Definition f_neg (x : pyfloat) : pyfloat :=
  match x with Fin m e => Fin (- m) e | PInf => NInf | NInf => PInf | NaN => NaN end.

Definition f_abs (x : pyfloat) : pyfloat :=
  match x with Fin m e => Fin (Z.abs m) e | PInf => PInf | NInf => PInf | NaN => NaN end.

Definition f_add (a b : pyfloat) : pyfloat :=
  match a, b with
  | NaN, _ | _, NaN => NaN
  | PInf, NInf | NInf, PInf => NaN
  | PInf, _ | _, PInf => PInf
  | NInf, _ | _, NInf => NInf
  | Fin m1 e1, Fin m2 e2 =>
      if m1 =? 0 then round_dy m2 e2
      else if m2 =? 0 then round_dy m1 e1
      else let e := Z.min e1 e2 in
           round_dy (Z.shiftl m1 (e1 - e) + Z.shiftl m2 (e2 - e)) e
  end.

Definition f_sub (a b : pyfloat) : pyfloat := f_add a (f_neg b).

Definition f_mul (a b : pyfloat) : pyfloat :=
  match a, b with
  | NaN, _ | _, NaN => NaN
  | Fin m1 e1, Fin m2 e2 => round_dy (m1 * m2) (e1 + e2)
  | Fin m _, PInf | PInf, Fin m _ =>
      if m =? 0 then NaN else inf_of_sign (m <? 0)
  | Fin m _, NInf | NInf, Fin m _ =>
      if m =? 0 then NaN else inf_of_sign (0 <? m)
  | PInf, PInf | NInf, NInf => PInf
  | PInf, NInf | NInf, PInf => NInf
  end.

(** python a / b : the zero test on the divisor comes first (nan / 0.0 raises). *)
Definition f_div (a b : pyfloat) : res pyfloat :=
  if f_is_zero b then Err OtherErr else
  match a, b with
  | NaN, _ | _, NaN => Ok NaN
  | Fin m1 e1, Fin m2 e2 =>
      Ok (fl_div_e (if m2 <? 0 then - m1 else m1) (Z.abs m2) (e1 - e2))
  | Fin _ _, _ => Ok (Fin 0 0)
  | PInf, Fin m _ => Ok (inf_of_sign (m <? 0))
  | NInf, Fin m _ => Ok (inf_of_sign (0 <? m))
  | _, _ => Ok NaN
  end.

(** python a % b (CPython float_rem): zero divisor raises first; then C fmod (exact,
    sign of the dividend); a nonzero remainder whose sign differs from the divisor gets
    the divisor ADDED IN FLOATING POINT (so -1e-20 % 3.0 is 3.0); a zero remainder is
    zero. *)
Definition f_mod (a b : pyfloat) : res pyfloat :=
  if f_is_zero b then Err OtherErr else
  match a, b with
  | NaN, _ | _, NaN => Ok NaN
  | PInf, _ | NInf, _ => Ok NaN
  | Fin m1 e1, PInf =>
      if m1 =? 0 then Ok (Fin 0 0) else if m1 <? 0 then Ok PInf else Ok a
  | Fin m1 e1, NInf =>
      if m1 =? 0 then Ok (Fin 0 0) else if 0 <? m1 then Ok NInf else Ok a
  | Fin m1 e1, Fin m2 e2 =>
      if m1 =? 0 then Ok (Fin 0 0) else
      let e := Z.min e1 e2 in
      let r := Z.rem (Z.shiftl m1 (e1 - e)) (Z.shiftl m2 (e2 - e)) in
      if r =? 0 then Ok (Fin 0 0)
      else if Bool.eqb (m2 <? 0) (r <? 0) then Ok (round_dy r e)
      else Ok (f_add (Fin r e) b)
  end.

(** * Comparison *)

Definition f_cmp (a b : pyfloat) : option comparison :=
  match a, b with
  | NaN, _ | _, NaN => None
  | PInf, PInf => Some Eq
  | NInf, NInf => Some Eq
  | PInf, _ => Some Gt
  | _, PInf => Some Lt
  | NInf, _ => Some Lt
  | _, NInf => Some Gt
  | Fin m1 e1, Fin m2 e2 =>
      let e := Z.min e1 e2 in
      Some (Z.compare (Z.shiftl m1 (e1 - e)) (Z.shiftl m2 (e2 - e)))
  end.

Definition f_ltb (a b : pyfloat) : bool :=
  match f_cmp a b with Some Lt => true | _ => false end.
Definition f_leb (a b : pyfloat) : bool :=
  match f_cmp a b with Some Lt | Some Eq => true | _ => false end.
Definition f_eqb (a b : pyfloat) : bool :=
  match f_cmp a b with Some Eq => true | _ => false end.

(** * Conversion to integers *)

(** python round(x) with one argument: nearest integer, ties to even. *)
Definition f_round (x : pyfloat) : res Z :=
  match x with
  | NaN => Err ValueErr
  | PInf | NInf => Err OverflowErr
  | Fin m e =>
      if 0 <=? e then Ok (Z.shiftl m e)
      else
        let sh := - e in
        let q := Z.shiftr m sh in            (* floor *)
        let rem := m - Z.shiftl q sh in      (* 0 <= rem < 2^sh *)
        let half := Z.shiftl 1 (sh - 1) in
        Ok (if (half <? rem) || ((half =? rem) && Z.odd q) then q + 1 else q)
  end.

(** python int(x): toward zero. *)
Definition f_trunc (x : pyfloat) : res Z :=
  match x with
  | NaN => Err ValueErr
  | PInf | NInf => Err OverflowErr
  | Fin m e =>
      if 0 <=? e then Ok (Z.shiftl m e)
      else Ok (Z.quot m (Z.shiftl 1 (- e)))
  end.

(** * String parsers *)

(** The characters python strips around a numeric literal: ASCII space, tab, newline,
    VT, FF, CR, and (because str arguments are first passed through the Unicode
    space-to-ASCII transform) the non-ASCII Unicode White_Space characters.  The
    separators 28..31 are NOT accepted by int() or float(). *)
Definition is_pyspace (c : N) : bool :=
  (((9 <=? c) && (c <=? 13)) || (c =? 32) || (c =? 133) || (c =? 160) || (c =? 5760)
   || ((8192 <=? c) && (c <=? 8202)) || (c =? 8232) || (c =? 8233) || (c =? 8239)
   || (c =? 8287) || (c =? 12288))%N.

Definition py_strip (s : str) : str :=
  rev (drop_while is_pyspace (rev (drop_while is_pyspace s))).

Definition c_us : N := 95%N.

(** float(): an underscore must sit between two digits; returns the text without
    underscores (transcribes _Py_string_to_number_with_underscores). *)
Fixpoint strip_us (prev : N) (s : str) : option str :=
  match s with
  | [] => if (prev =? c_us)%N then None else Some []
  | c :: r =>
      if (c =? c_us)%N then (if is_digit prev then strip_us c r else None)
      else if (prev =? c_us)%N && negb (is_digit c) then None
      else match strip_us c r with Some t => Some (c :: t) | None => None end
  end.

Definition ascii_lower (c : N) : N :=
  if ((65 <=? c) && (c <=? 90))%N then (c + 32)%N else c.

Definition s_inf : str := [105; 110; 102]%N.
Definition s_infinity : str := [105; 110; 102; 105; 110; 105; 116; 121]%N.
Definition s_nan : str := [110; 97; 110]%N.

(** optional sign: (negative?, rest) *)
Definition take_sign (s : str) : bool * str :=
  match s with
  | c :: r => if (c =? 45)%N then (true, r) else if (c =? 43)%N then (false, r) else (false, s)
  | [] => (false, [])
  end.

Definition all_digits1 (s : str) : bool :=
  match s with [] => false | _ => forallb is_digit s end.

(** exponent part: empty, or e/E, optional sign, at least one digit, nothing after *)
Definition parse_exp (s : str) : option Z :=
  match s with
  | [] => Some 0
  | c :: r =>
      if ((c =? 101) || (c =? 69))%N then
        let '(neg, ds) := take_sign r in
        if all_digits1 ds then
          let v := Z.of_N (dec_value ds) in Some (if neg then - v else v)
        else None
      else None
  end.

(** Nearest binary64 to (+/-) ds * 10^x where ds is a string of ASCII digits.  The two
    cut-offs avoid computing astronomically large powers of ten: with D >= 1,
    x > 310 gives at least 10^311 > 2^1024; and D < 10^nd, so x + nd < -330 gives less
    than 10^-331 < 2^-1075, which rounds to zero. *)
Definition dec_to_float (neg : bool) (ds : str) (x : Z) : pyfloat :=
  let D := Z.of_N (dec_value ds) in
  if D =? 0 then Fin 0 0 else
  let nd := Z.of_nat (length ds) in
  if 310 <? x then inf_of_sign neg else
  if x + nd <? -330 then Fin 0 0 else
  let sD := if neg then - D else D in
  if 0 <=? x then fl_div (sD * 10 ^ x) 1 else fl_div sD (10 ^ (- x)).

(** python float(s) *)
Definition f_of_str (s : str) : res pyfloat :=
  match strip_us 0%N (py_strip s) with
  | None => Err ValueErr
  | Some t =>
      let '(neg, u) := take_sign t in
      let lu := map ascii_lower u in
      if str_eqb lu s_inf || str_eqb lu s_infinity then Ok (inf_of_sign neg)
      else if str_eqb lu s_nan then Ok NaN
      else
        let ip := take_while is_digit u in
        let r1 := drop_while is_digit u in
        let '(fp, r2) :=
          match r1 with
          | c :: r => if (c =? 46)%N then (take_while is_digit r, drop_while is_digit r)
                      else ([], r1)
          | [] => ([], [])
          end in
        match ip ++ fp with
        | [] => Err ValueErr
        | ds =>
            match parse_exp r2 with
            | None => Err ValueErr
            | Some x => Ok (dec_to_float neg ds (x - Z.of_nat (length fp)))
            end
        end
  end.

Definition hex_val (c : N) : option N :=
  if is_digit c then Some (c - 48)%N
  else if ((97 <=? c) && (c <=? 102))%N then Some (c - 87)%N
  else if ((65 <=? c) && (c <=? 70))%N then Some (c - 55)%N
  else None.

Definition dig_val (base16 : bool) (c : N) : option N :=
  if base16 then hex_val c else if is_digit c then Some (c - 48)%N else None.

(** digits and single underscores; returns (value, number of digits) *)
Fixpoint scan_digits (base16 : bool) (prev : N) (s : str) (acc cnt : N) : option (N * N) :=
  match s with
  | [] => if (prev =? c_us)%N then None else Some (acc, cnt)
  | c :: r =>
      if (c =? c_us)%N then
        (if (prev =? c_us)%N then None else scan_digits base16 c r acc cnt)
      else match dig_val base16 c with
           | None => None
           | Some d => scan_digits base16 c r
                         (acc * (if base16 then 16 else 10) + d)%N (cnt + 1)%N
           end
  end.

Definition int_max_str_digits : N := 4300%N.

(** python int(s) (base16 = false) and int(s, 16) (base16 = true) *)
Definition int_of_str (base16 : bool) (s : str) : res Z :=
  let '(neg, u) := take_sign (py_strip s) in
  (* base 16: optional 0x / 0X, after which ONE underscore is tolerated *)
  let v :=
    if base16 then
      match u with
      | z :: x :: r =>
          if ((z =? 48) && ((x =? 120) || (x =? 88)))%N then
            match r with
            | c :: r' => if (c =? c_us)%N then r' else r
            | [] => r
            end
          else u
      | _ => u
      end
    else u in
  match v with
  | [] => Err ValueErr
  | c :: _ =>
      if (c =? c_us)%N then Err ValueErr else
      match scan_digits base16 0%N v 0%N 0%N with
      | None => Err ValueErr
      | Some (n, cnt) =>
          if negb base16 && (int_max_str_digits <? cnt)%N then Err ValueErr
          else Ok (if neg then - Z.of_N n else Z.of_N n)
      end
  end.

(** python str(int) *)
Definition str_of_Z (z : Z) : str :=
  match z with
  | Z0 => [48%N]
  | Zpos p => dec_of_N (Npos p)
  | Zneg p => 45%N :: dec_of_N (Npos p)
  end.
