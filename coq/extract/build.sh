#!/bin/sh
# build.sh <id-lowercase>   e.g. build.sh c19  ->  extract/run_c19
# Requires extract/<id>.ml (+ .mli) produced by compiling extract/Extract_<ID>.v
set -e
cd "$(dirname "$0")"
id="$1"
Mod=$(echo "$id" | sed 's/^./\U&/')
{ echo "open $Mod"; cat driver_body.ml; echo "let () = main run_$id"; } > main_$id.ml
ocamlfind ocamlopt -w -a -O2 -o run_$id $id.mli $id.ml main_$id.ml 2>/dev/null || ocamlfind ocamlopt -w -a -o run_$id $id.mli $id.ml main_$id.ml
rm -f main_$id.cm* main_$id.o $id.cm* $id.o
