(** Diagnostics: the entries of the generated tables that fail their check.  Contains
    no obligations, so it compiles whenever gen does.  One row per failing entry:
    kind :: 7777 :: ids   (1 = bijection: enum id, row id;  2 = token: use id, row id;
    3 = preset: row id;  4 = chart: row id) *)
From V.lib Require Import Prelude.
From V.model Require Import EnumLib.
From V.gen Require Import GenC20.
Definition d_bij := flat_map (fun e => map (fun m => [1; 7777; e_id e; m_id m]%N)
                                (filter (fun m => negb (bij_row_ok (e_rows e) m)) (e_rows e))) enums.
Definition d_tok := flat_map (fun u => map (fun m => [2; 7777; u_id u; m_id m]%N)
                                (filter (fun m => negb (tok_ok stypes u m)) (use_rows enums u))) uses.
Definition d_pre := map (fun m => [3; 7777; m_id m]%N)
                        (filter (fun m => negb (preset_ok spec_table preset_defs m)) (canonical shape_rows)).
Definition d_cha := map (fun r => [4; 7777; c_id r]%N)
                        (filter (fun r => negb (chart_ok stypes chart_types r)) chart_rows).
Eval vm_compute in (d_bij ++ d_tok ++ d_pre ++ d_cha).
