(** C10: the declaration check against real content models, lifted to every
    schema-accepted child sequence. *)
From V.lib Require Import Prelude.
From V.model Require Import Schema Xmlchemy.
From V.proofs Require Import Schema_proofs Xmlchemy_proofs.

Theorem insert_schema_ordered c t S : decl_ok (flatten c) t S = true ->
  forall w, lang c w ->
  ord (rank (flatten c)) (insert_before t S w)
  /\ exists w1 w2, w = w1 ++ w2 /\ insert_before t S w = w1 ++ t :: w2
     /\ (forall u, In u w1 -> rank (flatten c) u <= rank (flatten c) t)
     /\ (forall u, In u w2 -> rank (flatten c) t <= rank (flatten c) u).
Proof.
  intros Hok w Hw.
  assert (Hdis : disjoint_groups (flatten c) = true).
  { unfold decl_ok in Hok. apply andb_true_iff in Hok as [H _]. apply andb_true_iff in H as [_ H]; auto. }
  assert (Ho : ord (rank (flatten c)) (insert_before t S w)).
  { apply decl_ok_sound; auto.
    - intros u Hu. apply tags_known. eapply lang_tags; eauto.
    - apply lang_sorted; auto.
    - apply lang_amo; auto. }
  split; auto.
  destruct (insert_before_split t S w) as (w1 & w2 & E & E2).
  exists w1, w2. repeat split; auto.
  - intros u Hu. rewrite E2 in Ho. apply ord_app in Ho as (_ & _ & H). apply H; simpl; auto.
  - intros u Hu. rewrite E2 in Ho. apply ord_app in Ho as (_ & H & _). simpl in H. apply H; auto.
Qed.

(** Hand-written inserters that put the child at index 0. *)
Definition first_ok (f : flat) (t : tag) : bool :=
  known f t && disjoint_groups f && Nat.eqb (rank f t) 0.

Theorem insert_first_ordered c t : first_ok (flatten c) t = true ->
  forall w, lang c w ->
  ord (rank (flatten c)) (t :: w) /\ (forall u, In u w -> rank (flatten c) t <= rank (flatten c) u).
Proof.
  unfold first_ok. intros H w Hw.
  apply andb_true_iff in H as [H H0]. apply andb_true_iff in H as [_ Hdis].
  apply Nat.eqb_eq in H0.
  assert (forall u, In u w -> rank (flatten c) t <= rank (flatten c) u) by (intros; lia).
  split; auto. simpl. split; auto. apply lang_sorted; auto.
Qed.

(** Witness contexts for rejected declarations (used by the diagnostics; each is
    replayed on the implementation). *)
Definition witness (f : flat) (t : tag) (S : list tag) : list tag :=
  let Sk := known_succ f S in
  match d1_bad f t Sk, d2_bad f t Sk, d3_bad f t Sk with
  | s :: _, _, _ => [s]
  | [], u :: _, _ => [u]
  | [], [], (si, sj) :: _ => [sj; si]
  | [], [], [] => []
  end.

Definition ck_decl_ok (ck : check) : bool :=
  if ck_first ck then first_ok (flatten (ck_cm ck)) (ck_child ck)
  else decl_ok (flatten (ck_cm ck)) (ck_child ck) (ck_succ ck).
Definition ck_witness (ck : check) : list tag :=
  if ck_first ck then flat_map fst (firstn 1 (flatten (ck_cm ck)))
  else witness (flatten (ck_cm ck)) (ck_child ck) (ck_succ ck).

