(** Runner for the C09 correspondence.
    list                         -> labels of the catalogue entries (Class.name@variant)
    fp <label>                   -> element paths the setter may create or remove
    keys <label>                 -> keys the getter reads # keys and subtrees (path/STAR) the setter may write
    seq <state> <ops>            -> one result per operation, then # and the final state
       state : entries separated by |   path@attr=cp.cp.cp   or   path   (element present)
               path = tags separated by / (empty for the anchor), text as code points
       ops   : separated by | ;  s <label> <value>   assign ;  g <label>   read
       value : n | o | b:0/1 | i:Z | f:m e | f:inf | f:-inf | f:nan | s:cp.cp | m:Z (enumeration
               member) | l:Z (pptx.util.Length) | ms:cp.cp (RGBColor by its str())
    Definitions only. *)
From V.lib Require Import Prelude PyFloat PyVal Wire PyValWire.
From V.model Require Import SimpleTypeLib Props PropCatalogue.

Definition c_bar' : N := 124%N.
Definition c_at : N := 64%N.
Definition c_eq : N := 61%N.
Definition c_dotc : N := 46%N.
Definition c_sp : N := 32%N.
Definition c_hash : N := 35%N.

Definition split_first (c : N) (s : str) : str * option str :=
  let a := take_while (fun x => negb (N.eqb x c)) s in
  match drop_while (fun x => negb (N.eqb x c)) s with
  | [] => (a, None)
  | _ :: r => (a, Some r)
  end.

Definition parse_cps (s : str) : option str :=
  match s with
  | [] => Some []
  | _ => let parts := split_on c_dotc s in
         if forallb (fun p => match parse_N p with Some _ => true | None => false end) parts
         then Some (map (fun p => match parse_N p with Some n => n | None => 0%N end) parts)
         else None
  end.
Definition show_cps (s : str) : str := join_with [c_dotc] (map show_N s).

Definition parse_path (s : str) : path := match s with [] => [] | _ => split_on c_slash s end.
Definition show_path (p : path) : str := join_with [c_slash] p.

Definition parse_entry (s : str) : option (key * str) :=
  match split_first c_eq s with
  | (k, None) => Some ((parse_path k, None), [])
  | (k, Some v) =>
      match split_first c_at k, parse_cps v with
      | (p, Some a), Some t => Some ((parse_path p, Some a), t)
      | _, _ => None
      end
  end.
Fixpoint parse_state (l : list str) : option st :=
  match l with
  | [] => Some []
  | e :: r => match parse_entry e, parse_state r with
              | Some kv, Some s => Some (kv :: s)
              | _, _ => None
              end
  end.
Definition show_entry (e : key * str) : str :=
  match e with
  | ((p, None), _) => show_path p
  | ((p, Some a), t) => show_path p ++ [c_at] ++ a ++ [c_eq] ++ show_cps t
  end.
Definition show_state (s : st) : str := join_with [c_bar'] (map show_entry s).

Definition parse_aval (s : str) : option aval :=
  match s with
  | 109%N :: 115%N :: 58%N :: r => match parse_cps r with Some t => Some (AV TMember (PStr t)) | None => None end
  | 109%N :: 58%N :: r => match parse_Z r with Some z => Some (AV TMember (PInt z)) | None => None end
  | 108%N :: 58%N :: r => match parse_Z r with Some z => Some (AV TLength (PInt z)) | None => None end
  | 115%N :: 58%N :: r => match parse_cps r with Some t => Some (plain (PStr t)) | None => None end
  | _ => match parse_pyval s with Some v => Some (plain v) | None => None end
  end.

Definition run_op (op : str) (s : st) : st * str :=
  match split_first c_sp op with
  | ([103%N], Some lbl) =>                                   (* g *)
      match find_entry lbl with
      | Some e => (s, show_res show_pyval (eval (e_get e) s))
      | None => (s, w_badcase)
      end
  | ([115%N], Some rest) =>                                  (* s *)
      match split_first c_sp rest with
      | (lbl, Some val) =>
          match find_entry lbl, parse_aval val with
          | Some e, Some v =>
              match run (e_set e) v s with
              | (s', Ok _) => (s', [111; 107]%N)
              | (s', Err er) => (s', w_err ++ show_err er)
              end
          | _, _ => (s, w_badcase)
          end
      | _ => (s, w_badcase)
      end
  | _ => (s, w_badcase)
  end.

Fixpoint run_ops (ops : list str) (s : st) (acc : list str) : st * list str :=
  match ops with
  | [] => (s, rev acc)
  | op :: r => let '(s', out) := run_op op s in run_ops r s' (out :: acc)
  end.

(** element paths a setter may create or remove (not those it only dereferences) *)
Definition region_path (r : region) : list path :=
  match r with
  | RKey (p, None) => [p]
  | RKey (_, Some _) => []
  | RSub p => [p]
  end.
Definition footprint_paths (e : entry) : list path :=
  filter (fun p => negb (existsb (path_eqb p) (required_paths (e_set e))))
         (flat_map region_path (writes (e_set e))).

(** every key the getter may read and every key / subtree the setter may write: the state variables of an
    entry.  The check gives each of them every value the schema permits (foreign pre-states). *)
Definition show_key (k : key) : str :=
  match k with
  | (p, None) => show_path p
  | (p, Some a) => show_path p ++ [c_at] ++ a
  end.
Definition show_region (r : region) : str :=
  match r with
  | RKey k => show_key k
  | RSub p => show_path p ++ [c_slash; 42%N]
  end.
Definition entry_keys (e : entry) : str :=
  join_with [c_bar'] (map show_key (reads (e_get e))) ++ [c_hash] ++ join_with [c_bar'] (map show_region (writes (e_set e))).

Definition run_c09 (args : list str) : str :=
  match args with
  | [op; lbl] =>
      if str_eqb op [102; 112]%N then                    (* fp *)
        match find_entry lbl with
        | Some e => join_with [c_bar'] (map show_path (footprint_paths e))
        | None => w_badcase
        end
      else if str_eqb op [107; 101; 121; 115]%N then     (* keys *)
        match find_entry lbl with
        | Some e => entry_keys e
        | None => w_badcase
        end
      else w_badcase
  | [op] =>
      if str_eqb op [108; 105; 115; 116]%N               (* list *)
      then join_with [c_bar'] (map entry_label catalogue)
      else w_badcase
  | [op; state; ops] =>
      if str_eqb op [115; 101; 113]%N then               (* seq *)
        match parse_state (match state with [] => [] | _ => split_on c_bar' state end) with
        | Some s =>
            let '(s', outs) := run_ops (match ops with [] => [] | _ => split_on c_bar' ops end) s [] in
            join_with [c_bar'] outs ++ [c_hash] ++ show_state s'
        | None => w_badcase
        end
      else w_badcase
  | _ => w_badcase
  end.
