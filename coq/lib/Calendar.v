(** Proleptic Gregorian calendar arithmetic on [Z] (definitions only; the lemmas are in
    proofs/Calendar_proofs.v).

    [ordinal (y, m, d)] is the day number with 0001-01-01 = 1 (Python
    [datetime.date.toordinal]); the formulas use floor division, so they extend to years
    <= 0 (astronomical numbering) and to negative ordinals.  [civil_of_ordinal] is the
    algorithm of CPython [_ord2ymd] / [ord_to_ymd].  A [datetime] is a naive wall-clock
    time to the second; [to_seconds] counts seconds with 0001-01-01T00:00:00 = 86400. *)
From V.lib Require Import Prelude.
Local Open Scope Z_scope.

Definition is_leap (y : Z) : bool :=
  ((y mod 4 =? 0) && negb (y mod 100 =? 0)) || (y mod 400 =? 0).

(** Month tables parameterised by leapness, months 1..12 (anything else: 0 / 31). *)
Definition dbm_l (leap : bool) (m : Z) : Z :=
  match m with
  | 1 => 0 | 2 => 31 | 3 => 59 | 4 => 90 | 5 => 120 | 6 => 151 | 7 => 181
  | 8 => 212 | 9 => 243 | 10 => 273 | 11 => 304 | 12 => 334 | _ => 0
  end + (if (2 <? m) && leap then 1 else 0).

Definition dim_l (leap : bool) (m : Z) : Z :=
  if m =? 2 then (if leap then 29 else 28)
  else if (m =? 4) || (m =? 6) || (m =? 9) || (m =? 11) then 30 else 31.

Definition days_in_month (y m : Z) : Z := dim_l (is_leap y) m.
Definition days_before_month (y m : Z) : Z := dbm_l (is_leap y) m.
Definition days_in_year (y : Z) : Z := if is_leap y then 366 else 365.

(** Days before January 1st of year [y]. *)
Definition days_before_year (y : Z) : Z :=
  let p := y - 1 in p * 365 + p / 4 - p / 100 + p / 400.

Definition date := (Z * Z * Z)%type.

Definition valid_date (dt : date) : bool :=
  let '(y, m, d) := dt in
  (1 <=? m) && (m <=? 12) && (1 <=? d) && (d <=? days_in_month y m).

Definition ordinal (dt : date) : Z :=
  let '(y, m, d) := dt in days_before_year y + days_before_month y m + d.

(** Day of year (0-based) to month and day. *)
Definition month_day_of_yday (leap : bool) (n : Z) : Z * Z :=
  let month := (n + 50) / 32 in
  let preceding := dbm_l leap month in
  if n <? preceding then (month - 1, n - dbm_l leap (month - 1) + 1)
  else (month, n - preceding + 1).

Definition civil_of_ordinal (n0 : Z) : date :=
  let n := n0 - 1 in
  let n400 := n / 146097 in
  let r1 := n mod 146097 in
  let n100 := r1 / 36524 in
  let r2 := r1 mod 36524 in
  let n4 := r2 / 1461 in
  let r3 := r2 mod 1461 in
  let n1 := r3 / 365 in
  let r := r3 mod 365 in
  let year := n400 * 400 + 1 + n100 * 100 + n4 * 4 + n1 in
  if (n1 =? 4) || (n100 =? 4) then (year - 1, 12, 31)
  else
    let leap := (n1 =? 3) && (negb (n4 =? 24) || (n100 =? 3)) in
    let '(m, d) := month_day_of_yday leap r in (year, m, d).

(** Day of week, Monday = 0 (Python [date.weekday]). *)
Definition weekday (dt : date) : Z := (ordinal dt + 6) mod 7.

(** Naive date-times to the second. *)
Record datetime := mkDT { dt_year : Z; dt_month : Z; dt_day : Z;
                          dt_hour : Z; dt_minute : Z; dt_second : Z }.

Definition date_of (t : datetime) : date := (dt_year t, dt_month t, dt_day t).

Definition valid_time (h mi s : Z) : bool :=
  (0 <=? h) && (h <? 24) && (0 <=? mi) && (mi <? 60) && (0 <=? s) && (s <? 60).

Definition valid_datetime (t : datetime) : bool :=
  valid_date (date_of t) && valid_time (dt_hour t) (dt_minute t) (dt_second t).

Definition to_seconds (t : datetime) : Z :=
  ordinal (date_of t) * 86400 + dt_hour t * 3600 + dt_minute t * 60 + dt_second t.

Definition of_seconds (n : Z) : datetime :=
  let '(y, m, d) := civil_of_ordinal (n / 86400) in
  let r := n mod 86400 in
  mkDT y m d (r / 3600) (r mod 3600 / 60) (r mod 60).

Definition add_seconds (t : datetime) (k : Z) : datetime := of_seconds (to_seconds t + k).

Definition datetime_eqb (a b : datetime) : bool :=
  (dt_year a =? dt_year b) && (dt_month a =? dt_month b) && (dt_day a =? dt_day b) &&
  (dt_hour a =? dt_hour b) && (dt_minute a =? dt_minute b) && (dt_second a =? dt_second b).

(** Python's representable range: years 1..9999, i.e. ordinals 1..3652059. *)
Definition min_ordinal : Z := 1.
Definition max_ordinal : Z := 3652059.
Definition in_py_range (t : datetime) : bool := (1 <=? dt_year t) && (dt_year t <=? 9999).
