From Coq Require Import Extraction ExtrOcamlBasic.
From V.model Require Import XmlValidRun.
Extraction Language OCaml.
Cd "extract".
Extraction "c03.ml" run_c03.
Cd "..".
