(** Proofs about model/Text.v (property C04).  Each statement used by props/C04.v is
    re-stated there and closed by [exact <lemma>]. *)
From V.lib Require Import Prelude.
From V.model Require Import Text.

(** ---- the documented translations, written independently of the model ---- *)
(** a C0 control other than TAB, LF, VT *)
Definition c0_other (c : N) : bool :=
  (c <? 32)%N && negb (c =? 9)%N && negb (c =? 10)%N && negb (c =? 11)%N.
Definition doc_frame_char (c : N) : str := if c0_other c then esc_seq c else [c].
Definition doc_para_char (c : N) : str :=
  if (c =? 10)%N || (c =? 11)%N then [11%N] else if c0_other c then esc_seq c else [c].
Definition doc_run_char (c : N) : str :=
  if c0_other c || (c =? 11)%N then esc_seq c else [c].

Definition count (f : N -> bool) (s : str) : nat := length (filter f s).
Definition plain (s : str) : bool := forallb (fun c => negb (is_ctrl c) && negb (is_brk c)) s.
Definition nonempty (s : str) : bool := match s with [] => false | _ => true end.
Definition run_nonempty (i : item) : Prop := match i with R _ t => t <> [] | _ => True end.
Definition is_end (c : pchild) : bool := match c with EndRPr _ => true | _ => false end.
Definition is_it (c : pchild) : bool := match c with It _ => true | _ => false end.

(** items produced by append_text for a list of pieces (pure list version) *)
Fixpoint pieces_items (first : bool) (pieces : list str) : list item :=
  match pieces with
  | [] => []
  | r :: rest =>
      (if first then [] else [Br]) ++
      (match r with [] => [] | _ => [R None (escape_ctrl r)] end) ++
      pieces_items false rest
  end.
Definition text_items (s : str) : list item := pieces_items true (split_by is_brk s).

(** ---- characters ---- *)
Lemma is_ctrl_spec c : is_ctrl c = ((c <? 32)%N && negb (c =? 9)%N && negb (c =? 10)%N).
Proof.
  unfold is_ctrl.
  destruct (N.leb_spec c 8), (N.leb_spec 11 c), (N.leb_spec c 31), (N.ltb_spec c 32),
    (N.eqb_spec c 9), (N.eqb_spec c 10); simpl; try reflexivity; lia.
Qed.

Lemma doc_run_char_eq c : esc_char c = doc_run_char c.
Proof.
  unfold esc_char, doc_run_char, c0_other. rewrite is_ctrl_spec.
  destruct (N.ltb_spec c 32), (N.eqb_spec c 9), (N.eqb_spec c 10), (N.eqb_spec c 11);
    simpl; try reflexivity; lia.
Qed.

Lemma is_brk_spec c : is_brk c = ((c =? 10)%N || (c =? 11)%N).
Proof. reflexivity. Qed.

Lemma doc_para_char_eq c : tr_para_char c = doc_para_char c.
Proof.
  unfold tr_para_char, doc_para_char. rewrite is_brk_spec.
  unfold esc_char, c0_other. rewrite is_ctrl_spec.
  destruct (N.ltb_spec c 32), (N.eqb_spec c 9), (N.eqb_spec c 10), (N.eqb_spec c 11);
    simpl; try reflexivity; lia.
Qed.

Lemma doc_frame_char_eq c : tr_frame_char c = doc_frame_char c.
Proof.
  unfold tr_frame_char, doc_frame_char. rewrite is_brk_spec.
  unfold esc_char, c0_other. rewrite is_ctrl_spec.
  destruct (N.ltb_spec c 32), (N.eqb_spec c 9), (N.eqb_spec c 10), (N.eqb_spec c 11);
    simpl; try reflexivity; lia.
Qed.

Lemma flat_map_ext' {A B} (f g : A -> list B) l : (forall x, f x = g x) -> flat_map f l = flat_map g l.
Proof. intros H; induction l; simpl; congruence. Qed.

Lemma levels_agree s :
  tr_frame s = flat_map doc_frame_char s /\
  tr_para s = flat_map doc_para_char s /\
  tr_run s = flat_map doc_run_char s.
Proof.
  repeat split; apply flat_map_ext'; intros;
    [apply doc_frame_char_eq | apply doc_para_char_eq | apply doc_run_char_eq].
Qed.

(** the paragraph translation is the frame translation after turning LF into VT;
    without LF and VT the three levels coincide *)
Definition lf_to_vt (c : N) : N := if (c =? 10)%N then 11%N else c.

Lemma para_via_frame s : tr_para s = tr_frame (map lf_to_vt s).
Proof.
  induction s as [|c s IH]; simpl; auto. fold (tr_para s) (tr_frame (map lf_to_vt s)).
  rewrite <- IH. f_equal. rewrite doc_para_char_eq, doc_frame_char_eq.
  unfold doc_para_char, doc_frame_char, lf_to_vt, c0_other.
  destruct (N.eqb_spec c 10) as [->|H10]; [reflexivity|].
  destruct (N.eqb_spec c 11) as [->|H11]; [reflexivity|].
  destruct (N.eqb_spec c 10); [congruence|]. reflexivity.
Qed.

Lemma levels_coincide s : forallb (fun c => negb (is_brk c)) s = true ->
  tr_frame s = tr_run s /\ tr_para s = tr_run s.
Proof.
  induction s as [|c s IH]; simpl; auto. intros H.
  apply andb_true_iff in H as [H1 H2]. apply negb_true_iff in H1.
  destruct (IH H2) as [E1 E2]. unfold tr_frame_char, tr_para_char. rewrite H1.
  fold (tr_frame s) (tr_para s) (tr_run s). rewrite E1, E2. auto.
Qed.

(** the escape of a C0 character spelled out: two zeros then two hex digits *)
Lemma esc_seq_c0 c : (c < 32)%N ->
  esc_seq c = [95; 120; 48; 48; hex_digit (c / 16); hex_digit (c mod 16); 95]%N.
Proof.
  intros H. unfold esc_seq, c_us, c_x.
  rewrite (N.div_small c 4096) by lia. rewrite (N.div_small c 256) by lia.
  assert (c / 16 < 2)%N by (apply N.div_lt_upper_bound; lia).
  rewrite (N.mod_small (c / 16) 16) by lia.
  reflexivity.
Qed.

Lemma hex_digit_ge n : (48 <= hex_digit n)%N.
Proof. unfold hex_digit. destruct (N.ltb_spec n 10); lia. Qed.

Lemma hex_digit_range n : (n < 16)%N ->
  ((48 <= hex_digit n <= 57)%N \/ (65 <= hex_digit n <= 70)%N).
Proof. unfold hex_digit. destruct (N.ltb_spec n 10); lia. Qed.

Lemma not_ctrl_ge c : (32 <= c)%N -> is_ctrl c = false.
Proof. intros H. rewrite is_ctrl_spec. destruct (N.ltb_spec c 32); simpl; auto; lia. Qed.
Lemma not_brk_ge c : (32 <= c)%N -> is_brk c = false.
Proof.
  intros H. rewrite is_brk_spec.
  destruct (N.eqb_spec c 10), (N.eqb_spec c 11); simpl; auto; lia.
Qed.

Lemma hex_not_ctrl n : is_ctrl (hex_digit n) = false.
Proof. apply not_ctrl_ge. pose proof (hex_digit_ge n). lia. Qed.
Lemma hex_not_brk n : is_brk (hex_digit n) = false.
Proof. apply not_brk_ge. pose proof (hex_digit_ge n). lia. Qed.

Lemma esc_seq_plain c : plain (esc_seq c) = true.
Proof.
  unfold plain, esc_seq, c_us, c_x. cbn [forallb].
  rewrite !hex_not_ctrl, !hex_not_brk. reflexivity.
Qed.

Lemma esc_seq_nonempty c : esc_seq c <> [].
Proof. discriminate. Qed.
Lemma esc_char_nonempty c : esc_char c <> [].
Proof. unfold esc_char. destruct (is_ctrl c); discriminate. Qed.

Lemma escape_nonempty r : r <> [] -> escape_ctrl r <> [].
Proof.
  destruct r as [|c r]; [congruence|]. intros _. unfold escape_ctrl. simpl.
  pose proof (esc_char_nonempty c). destruct (esc_char c); [congruence|discriminate].
Qed.

Lemma escape_app a b : escape_ctrl (a ++ b) = escape_ctrl a ++ escape_ctrl b.
Proof. apply flat_map_app. Qed.

(** strings without escaped characters are fixed points *)
Lemma escape_no_ctrl s : forallb (fun c => negb (is_ctrl c)) s = true -> escape_ctrl s = s.
Proof.
  induction s as [|c s IH]; simpl; auto. intros H. apply andb_true_iff in H as [H1 H2].
  unfold esc_char. apply negb_true_iff in H1. rewrite H1. simpl. f_equal. auto.
Qed.

Lemma plain_no_ctrl s : plain s = true -> forallb (fun c => negb (is_ctrl c)) s = true.
Proof.
  induction s as [|c s IH]; simpl; auto. intros H.
  apply andb_true_iff in H as [H1 H2]. apply andb_true_iff in H1 as [H1 _].
  rewrite H1; auto.
Qed.

Lemma plain_app a b : plain (a ++ b) = plain a && plain b.
Proof. apply forallb_app. Qed.

Lemma escape_output_no_ctrl s : forallb (fun c => negb (is_ctrl c)) (escape_ctrl s) = true.
Proof.
  induction s as [|c s IH]; simpl; auto. rewrite forallb_app, IH, andb_true_r.
  unfold esc_char. destruct (is_ctrl c) eqn:E.
  - apply plain_no_ctrl, esc_seq_plain.
  - simpl. rewrite E. reflexivity.
Qed.

Lemma tr_run_idempotent s : tr_run (tr_run s) = tr_run s.
Proof. apply escape_no_ctrl, escape_output_no_ctrl. Qed.

(** ---- split_by ---- *)
Lemma split_by_nonnil f s : split_by f s <> [].
Proof.
  induction s as [|x s IH]; simpl; try discriminate.
  destruct (f x); try discriminate. destruct (split_by f s); discriminate.
Qed.

Lemma split_by_length f s : length (split_by f s) = S (count f s).
Proof.
  unfold count. induction s as [|x s IH]; simpl; auto.
  destruct (f x); simpl; [congruence|].
  destruct (split_by f s) as [|p ps] eqn:E; [exfalso; eapply split_by_nonnil; eauto|].
  simpl in *. congruence.
Qed.

Lemma split_by_free f s : Forall (fun p => forallb (fun c => negb (f c)) p = true) (split_by f s).
Proof.
  induction s as [|x s IH]; simpl.
  - constructor; auto.
  - destruct (f x) eqn:E.
    + constructor; auto.
    + destruct (split_by f s) as [|p ps]; [constructor; simpl; auto; rewrite E; auto|].
      inversion IH; subst. constructor; auto. simpl. rewrite E. simpl. auto.
Qed.

(** joining the pieces with the separators puts the string back: pieces are the
    maximal separator-free stretches *)
Lemma split_by_none f s : forallb (fun c => negb (f c)) s = true -> split_by f s = [s].
Proof.
  induction s as [|x s IH]; simpl; auto. intros H. apply andb_true_iff in H as [H1 H2].
  apply negb_true_iff in H1. rewrite H1, (IH H2). reflexivity.
Qed.

Lemma split_by_app f a x b : forallb (fun c => negb (f c)) a = true -> f x = true ->
  split_by f (a ++ x :: b) = a :: split_by f b.
Proof.
  induction a as [|y a IH]; simpl; intros H Hx.
  - rewrite Hx. reflexivity.
  - apply andb_true_iff in H as [H1 H2]. apply negb_true_iff in H1.
    rewrite H1, (IH H2 Hx). reflexivity.
Qed.

Lemma join_split_lf s : join_with [c_lf] (split_by is_lf s) = s.
Proof.
  induction s as [|x s IH]; simpl; auto.
  destruct (is_lf x) eqn:E.
  - pose proof (split_by_nonnil is_lf s) as Hn.
    destruct (split_by is_lf s) as [|p ps] eqn:Es; [congruence|].
    change (join_with [c_lf] ([] :: p :: ps)) with (c_lf :: join_with [c_lf] (p :: ps)).
    rewrite IH. apply N.eqb_eq in E. subst. reflexivity.
  - destruct (split_by is_lf s) as [|p ps] eqn:Es; [exfalso; eapply split_by_nonnil; eauto|].
    rewrite <- IH. destruct ps; reflexivity.
Qed.

(** ---- paragraph children ---- *)
Definition before_end (p : para) : para := take_while (fun c => negb (is_end c)) p.
Definition from_end (p : para) : para := drop_while (fun c => negb (is_end c)) p.

Lemma before_from p : before_end p ++ from_end p = p.
Proof. apply take_drop_while. Qed.

Lemma from_end_shape p : from_end p = [] \/ exists x r, from_end p = EndRPr x :: r.
Proof.
  unfold from_end. induction p as [|c p IH]; simpl; auto.
  destruct c; simpl; auto. right; eauto.
Qed.

Lemma before_end_noend p : forallb (fun c => negb (is_end c)) (before_end p) = true.
Proof.
  unfold before_end. induction p as [|c p IH]; simpl; auto.
  destruct (negb (is_end c)) eqn:E; simpl; auto. rewrite E; auto.
Qed.

Lemma insert_item_split i p : insert_item i p = before_end p ++ It i :: from_end p.
Proof.
  unfold before_end, from_end. induction p as [|c p IH]; simpl; auto.
  destruct c; simpl; try rewrite IH; reflexivity.
Qed.

Lemma before_end_app pre post : forallb (fun c => negb (is_end c)) pre = true ->
  (post = [] \/ exists x r, post = EndRPr x :: r) ->
  before_end (pre ++ post) = pre /\ from_end (pre ++ post) = post.
Proof.
  unfold before_end, from_end. induction pre as [|c pre IH]; simpl; intros H Hp.
  - destruct Hp as [->|[x [r ->]]]; simpl; auto.
  - apply andb_true_iff in H as [H1 H2]. rewrite H1. destruct (IH H2 Hp) as [E1 E2].
    rewrite E1, E2. auto.
Qed.

Lemma insert_item_mid i pre post : forallb (fun c => negb (is_end c)) pre = true ->
  (post = [] \/ exists x r, post = EndRPr x :: r) ->
  insert_item i (pre ++ post) = (pre ++ [It i]) ++ post.
Proof.
  intros H Hp. rewrite insert_item_split. destruct (before_end_app pre post H Hp) as [-> ->].
  rewrite <- app_assoc. reflexivity.
Qed.

Lemma append_pieces_mid first pieces pre post :
  forallb (fun c => negb (is_end c)) pre = true ->
  (post = [] \/ exists x r, post = EndRPr x :: r) ->
  append_pieces first pieces (pre ++ post) = (pre ++ map It (pieces_items first pieces)) ++ post.
Proof.
  revert first pre. induction pieces as [|r rest IH]; intros first pre H Hp.
  - simpl. rewrite app_nil_r. reflexivity.
  - cbn [append_pieces pieces_items].
    assert (Hit : forall i, forallb (fun c => negb (is_end c)) (pre ++ [It i]) = true)
      by (intros; rewrite forallb_app, H; reflexivity).
    destruct first.
    + destruct r as [|c r].
      * rewrite IH by auto. reflexivity.
      * rewrite insert_item_mid by auto. rewrite IH by auto.
        cbn [app]. rewrite map_cons, <- !app_assoc. reflexivity.
    + rewrite insert_item_mid by auto.
      destruct r as [|c r].
      * rewrite IH by auto. cbn [app]. rewrite map_cons, <- !app_assoc. reflexivity.
      * rewrite insert_item_mid
          by (auto; rewrite forallb_app, Hit; reflexivity).
        rewrite IH by (auto; rewrite !forallb_app, H; reflexivity).
        cbn [app]. rewrite !map_cons, <- !app_assoc. reflexivity.
Qed.

(** the exact result of append_text on any paragraph: the new items go, in order,
    right before the first a:endParaRPr child (or at the end when there is none) *)
Lemma append_text_exact s p :
  append_text s p = before_end p ++ map It (text_items s) ++ from_end p.
Proof.
  unfold append_text, text_items. rewrite <- (before_from p) at 1.
  rewrite append_pieces_mid by (try apply before_end_noend; apply from_end_shape).
  rewrite <- app_assoc. reflexivity.
Qed.

Lemma content_app a b : content (a ++ b) = content a ++ content b.
Proof.
  induction a as [|c a IH]; simpl; auto. destruct c; simpl; rewrite ?IH; reflexivity.
Qed.
Lemma content_map_It l : content (map It l) = l.
Proof. induction l; simpl; congruence. Qed.

Lemma clear_para_filter p : clear_para p = filter (fun c => negb (is_it c)) p.
Proof. induction p as [|c p IH]; simpl; auto. destruct c; simpl; rewrite IH; reflexivity. Qed.

Lemma content_clear p : content (clear_para p) = [].
Proof. induction p as [|c p IH]; simpl; auto. destruct c; simpl; auto. Qed.

Lemma clear_app a b : clear_para (a ++ b) = clear_para a ++ clear_para b.
Proof. rewrite !clear_para_filter. apply filter_app. Qed.
Lemma clear_map_It l : clear_para (map It l) = [].
Proof. induction l; simpl; auto. Qed.
Lemma clear_idem p : clear_para (clear_para p) = clear_para p.
Proof. induction p as [|c p IH]; simpl; auto. destruct c; simpl; rewrite ?IH; auto. Qed.

Lemma content_nil_sub a b : content (a ++ b) = [] -> content a = [] /\ content b = [].
Proof. rewrite content_app. apply app_eq_nil. Qed.

Lemma first_ppr_clear p : first_ppr (clear_para p) = first_ppr p.
Proof. induction p as [|c p IH]; simpl; auto. destruct c; simpl; auto. Qed.
Lemma first_endrpr_clear p : first_endrpr (clear_para p) = first_endrpr p.
Proof. induction p as [|c p IH]; simpl; auto. destruct c; simpl; auto. Qed.

(** ---- text of the new items ---- *)
Lemma pieces_text first s :
  flat_map item_text (pieces_items first (split_by is_brk s)) =
  (if first then [] else [c_vt]) ++ tr_para s.
Proof.
  revert first. induction s as [|x s IH]; intros first.
  - simpl. destruct first; reflexivity.
  - cbn [split_by tr_para flat_map]. unfold tr_para_char at 1.
    destruct (is_brk x) eqn:E.
    + cbn [pieces_items]. rewrite !flat_map_app. cbn [flat_map app].
      rewrite (IH false). destruct first; reflexivity.
    + pose proof (IH true) as IHt.
      destruct (split_by is_brk s) as [|p ps] eqn:Es; [exfalso; eapply split_by_nonnil; eauto|].
      cbn [pieces_items] in *. rewrite !flat_map_app in *. cbn [flat_map item_text app] in *.
      rewrite app_nil_r. change (escape_ctrl (x :: p)) with (esc_char x ++ escape_ctrl p).
      assert (Hp : flat_map item_text (match p with [] => [] | _ :: _ => [R None (escape_ctrl p)] end)
                   = escape_ctrl p) by (destruct p; simpl; rewrite ?app_nil_r; reflexivity).
      rewrite Hp in IHt. fold (tr_para s) in *. rewrite <- IHt.
      destruct first; cbn [app flat_map]; rewrite <- ?app_assoc; reflexivity.
Qed.

Lemma text_items_text s : flat_map item_text (text_items s) = tr_para s.
Proof. unfold text_items. rewrite pieces_text. reflexivity. Qed.

Lemma pieces_breaks first s :
  length (filter is_br (pieces_items first (split_by is_brk s))) =
  ((if first then 0 else 1) + count is_brk s)%nat.
Proof.
  unfold count. revert first. induction s as [|x s IH]; intros first.
  - simpl. destruct first; reflexivity.
  - cbn [split_by filter]. destruct (is_brk x) eqn:E.
    + cbn [pieces_items]. rewrite !filter_app, !app_length. cbn [filter length app].
      rewrite (IH false). destruct first; simpl; lia.
    + pose proof (IH true) as IHt.
      destruct (split_by is_brk s) as [|p ps] eqn:Es; [exfalso; eapply split_by_nonnil; eauto|].
      cbn [pieces_items] in *. rewrite !filter_app, !app_length in *.
      assert (Hp : length (filter is_br (match p with [] => [] | _ :: _ => [R None (escape_ctrl p)] end)) = 0%nat)
        by (destruct p; reflexivity).
      rewrite Hp in IHt. cbn [filter is_br length app] in *.
      destruct first; simpl in *; lia.
Qed.

Lemma pieces_nonempty first pieces : Forall run_nonempty (pieces_items first pieces).
Proof.
  revert first. induction pieces as [|r rest IH]; intros first; cbn [pieces_items].
  - constructor.
  - apply Forall_app; split; [destruct first; repeat constructor|].
    apply Forall_app; split; auto.
    destruct r; constructor; [|constructor]. cbn [run_nonempty]. apply escape_nonempty. discriminate.
Qed.

(** the runs are exactly the escaped non-empty pieces, in order *)
Lemma pieces_runs first pieces :
  map item_text (filter is_run (pieces_items first pieces)) =
  map escape_ctrl (filter nonempty pieces).
Proof.
  revert first. induction pieces as [|r rest IH]; intros first; cbn [pieces_items]; auto.
  rewrite !filter_app, !map_app. rewrite (IH false).
  assert (H1 : map item_text (filter is_run (if first then [] else [Br])) = [])
    by (destruct first; reflexivity).
  rewrite H1. destruct r; reflexivity.
Qed.

(** ---- paragraph level ---- *)
Lemma set_para_exact s p :
  set_para s p = before_end (clear_para p) ++ map It (text_items s) ++ from_end (clear_para p).
Proof. apply append_text_exact. Qed.

Lemma content_set_para s p : content (set_para s p) = text_items s.
Proof.
  rewrite set_para_exact, !content_app, content_map_It.
  destruct (content_nil_sub (before_end (clear_para p)) (from_end (clear_para p))) as [-> ->].
  - rewrite before_from. apply content_clear.
  - rewrite app_nil_r. reflexivity.
Qed.

Lemma para_readback s p : get_para (set_para s p) = tr_para s.
Proof. unfold get_para. rewrite content_set_para. apply text_items_text. Qed.

Lemma para_props_kept s p : clear_para (set_para s p) = clear_para p.
Proof.
  rewrite set_para_exact, !clear_app, clear_map_It. cbn [app].
  rewrite <- clear_app, before_from. apply clear_idem.
Qed.

Lemma para_ppr_kept s p : first_ppr (set_para s p) = first_ppr p.
Proof. rewrite <- first_ppr_clear, para_props_kept. apply first_ppr_clear. Qed.
Lemma para_endrpr_kept s p : first_endrpr (set_para s p) = first_endrpr p.
Proof. rewrite <- first_endrpr_clear, para_props_kept. apply first_endrpr_clear. Qed.

Lemma para_breaks s p : count_br (set_para s p) = count is_brk s.
Proof. unfold count_br. rewrite content_set_para. unfold text_items. rewrite pieces_breaks. reflexivity. Qed.

Lemma para_no_empty_run s p : Forall run_nonempty (content (set_para s p)).
Proof. rewrite content_set_para. apply pieces_nonempty. Qed.

Lemma para_runs s p :
  map get_run (runs_of (set_para s p)) = map escape_ctrl (filter nonempty (split_by is_brk s)).
Proof. unfold runs_of. rewrite content_set_para. apply pieces_runs. Qed.

(** full statement at paragraph level *)
Lemma para_full s p :
  get_para (set_para s p) = tr_para s /\
  clear_para (set_para s p) = clear_para p /\
  first_ppr (set_para s p) = first_ppr p /\
  first_endrpr (set_para s p) = first_endrpr p /\
  count_br (set_para s p) = count is_brk s /\
  Forall run_nonempty (content (set_para s p)) /\
  (exists pre post,
      clear_para p = pre ++ post /\
      set_para s p = pre ++ map It (content (set_para s p)) ++ post /\
      forallb (fun c => negb (is_end c)) pre = true /\
      (post = [] \/ exists x r, post = EndRPr x :: r)).
Proof.
  repeat split.
  - apply para_readback.
  - apply para_props_kept.
  - apply para_ppr_kept.
  - apply para_endrpr_kept.
  - apply para_breaks.
  - apply para_no_empty_run.
  - exists (before_end (clear_para p)), (from_end (clear_para p)). repeat split.
    + symmetry; apply before_from.
    + rewrite content_set_para. apply set_para_exact.
    + apply before_end_noend.
    + apply from_end_shape.
Qed.

(** ---- frame level ---- *)
Lemma new_para_exact seg : append_text seg [] = map It (text_items seg).
Proof. rewrite append_text_exact. simpl. rewrite app_nil_r. reflexivity. Qed.

Lemma new_para_text seg : get_para (append_text seg []) = tr_para seg.
Proof. rewrite new_para_exact. unfold get_para. rewrite content_map_It. apply text_items_text. Qed.

Lemma tr_para_frame_char x : is_lf x = false -> tr_para_char x = tr_frame_char x.
Proof.
  unfold tr_para_char, tr_frame_char, is_brk. intros ->. simpl.
  destruct (is_vt x) eqn:E; auto. apply N.eqb_eq in E. subst. reflexivity.
Qed.

Lemma join_tr_para s : join_with [c_lf] (map tr_para (split_by is_lf s)) = tr_frame s.
Proof.
  induction s as [|x s IH]; simpl; auto.
  destruct (is_lf x) eqn:E.
  - pose proof (split_by_nonnil is_lf s) as Hn.
    destruct (split_by is_lf s) as [|p ps] eqn:Es; [congruence|].
    cbn [map] in *.
    change (join_with [c_lf] (tr_para [] :: tr_para p :: map tr_para ps))
      with (c_lf :: join_with [c_lf] (tr_para p :: map tr_para ps)).
    rewrite IH. unfold tr_frame_char, is_brk. rewrite E. simpl.
    apply N.eqb_eq in E. subst. reflexivity.
  - destruct (split_by is_lf s) as [|p ps] eqn:Es; [exfalso; eapply split_by_nonnil; eauto|].
    cbn [map] in *. rewrite <- IH. rewrite <- (tr_para_frame_char x E).
    change (tr_para (x :: p)) with (tr_para_char x ++ tr_para p).
    destruct ps; cbn [map join_with]; rewrite <- ?app_assoc; reflexivity.
Qed.

Lemma frame_readback s b : get_frame (set_frame s b) = tr_frame s.
Proof.
  unfold get_frame, set_frame. cbn [paras]. rewrite map_map.
  rewrite (map_ext _ tr_para) by (intros; apply new_para_text).
  apply join_tr_para.
Qed.

Lemma frame_para_count s b : length (paras (set_frame s b)) = S (count is_lf s).
Proof. unfold set_frame. cbn [paras]. rewrite map_length. apply split_by_length. Qed.

Lemma count_brk_nolf seg : forallb (fun c => negb (is_lf c)) seg = true ->
  count is_brk seg = count is_vt seg.
Proof.
  unfold count. induction seg as [|c seg IH]; simpl; auto. intros H.
  apply andb_true_iff in H as [H1 H2]. apply negb_true_iff in H1.
  unfold is_brk at 1. rewrite H1. simpl. destruct (is_vt c); simpl; rewrite IH; auto.
Qed.

Lemma Forall2_map_r {A B} (P : A -> B -> Prop) (f : A -> B) l :
  (forall x, In x l -> P x (f x)) -> Forall2 P l (map f l).
Proof.
  induction l as [|x l IH]; simpl; intros H; constructor; auto.
Qed.

(** what each new paragraph looks like *)
Definition fresh_para_ok (seg : str) (p : para) : Prop :=
  get_para p = tr_para seg /\
  count_br p = count is_vt seg /\
  Forall run_nonempty (content p) /\
  map get_run (runs_of p) = map escape_ctrl (filter nonempty (split_by is_vt seg)) /\
  p = map It (content p) /\          (* nothing but content: no pPr, no endParaRPr *)
  count is_lf seg = 0%nat.

Lemma split_brk_nolf seg : forallb (fun c => negb (is_lf c)) seg = true ->
  split_by is_brk seg = split_by is_vt seg.
Proof.
  induction seg as [|c seg IH]; simpl; auto. intros H.
  apply andb_true_iff in H as [H1 H2]. apply negb_true_iff in H1.
  unfold is_brk at 1. rewrite H1. simpl. rewrite (IH H2). reflexivity.
Qed.

Lemma count_zero_free f seg : forallb (fun c => negb (f c)) seg = true -> count f seg = 0%nat.
Proof.
  unfold count. induction seg as [|c seg IH]; simpl; auto. intros H.
  apply andb_true_iff in H as [H1 H2]. apply negb_true_iff in H1. rewrite H1. auto.
Qed.

Lemma fresh_para seg : forallb (fun c => negb (is_lf c)) seg = true ->
  fresh_para_ok seg (append_text seg []).
Proof.
  intros H. unfold fresh_para_ok. rewrite new_para_exact.
  unfold get_para, count_br, runs_of. rewrite content_map_It.
  repeat split.
  - apply text_items_text.
  - unfold text_items. rewrite pieces_breaks. simpl. apply count_brk_nolf; auto.
  - apply pieces_nonempty.
  - unfold text_items. rewrite pieces_runs, split_brk_nolf by auto. reflexivity.
  - apply count_zero_free; auto.
Qed.

Lemma frame_paras s b :
  Forall2 fresh_para_ok (split_by is_lf s) (paras (set_frame s b)).
Proof.
  unfold set_frame. cbn [paras]. apply Forall2_map_r. intros seg Hin.
  apply fresh_para. pose proof (split_by_free is_lf s) as HF.
  rewrite Forall_forall in HF. auto.
Qed.

Lemma frame_full s b :
  get_frame (set_frame s b) = tr_frame s /\
  length (paras (set_frame s b)) = S (count is_lf s) /\
  join_with [c_lf] (split_by is_lf s) = s /\
  Forall2 fresh_para_ok (split_by is_lf s) (paras (set_frame s b)) /\
  bodypr (set_frame s b) = bodypr b /\
  (forall b', paras (set_frame s b') = paras (set_frame s b)).
Proof.
  repeat split.
  - apply frame_readback.
  - apply frame_para_count.
  - apply join_split_lf.
  - apply frame_paras.
Qed.

Lemma cell_full s c :
  get_cell (set_cell s c) = tr_frame s /\
  (exists b', set_cell s c = Some b' /\
     length (paras b') = S (count is_lf s) /\
     Forall2 fresh_para_ok (split_by is_lf s) (paras b') /\
     bodypr b' = bodypr (cell_body c)).
Proof.
  split.
  - unfold get_cell, set_cell. cbn [cell_body]. apply frame_readback.
  - exists (set_frame s (cell_body c)). repeat split.
    + apply frame_para_count.
    + apply frame_paras.
Qed.

(** ---- run level ---- *)
Lemma run_full s x t :
  set_run s (R x t) = R x (tr_run s) /\ get_run (set_run s (R x t)) = tr_run s.
Proof. split; reflexivity. Qed.

Lemma runs_of_app a b : runs_of (a ++ b) = runs_of a ++ runs_of b.
Proof. unfold runs_of. rewrite content_app, filter_app. reflexivity. Qed.

(** assigning to the j-th run of a paragraph changes that run's text and nothing else *)
Lemma update_run_exact s j p p' :
  update_run j (set_run s) p = Some p' ->
  exists pre x t post,
    p = pre ++ It (R x t) :: post /\
    p' = pre ++ It (R x (tr_run s)) :: post /\
    length (runs_of pre) = j.
Proof.
  revert j p'. induction p as [|c p IH]; intros j p' H; [discriminate|].
  assert (Hskip : forall j p', (match update_run j (set_run s) p with Some r' => Some (c :: r') | None => None end) = Some p' ->
            runs_of [c] = [] ->
            exists pre x t post, c :: p = pre ++ It (R x t) :: post /\ p' = pre ++ It (R x (tr_run s)) :: post /\
               length (runs_of pre) = j).
  { intros j0 p0 H0 Hc. destruct (update_run j0 (set_run s) p) as [r'|] eqn:E; [|discriminate].
    inversion H0; subst. destruct (IH _ _ E) as [pre [x [t [post [E1 [E2 E3]]]]]].
    exists (c :: pre), x, t, post. subst. repeat split.
    change (c :: pre) with ([c] ++ pre). rewrite runs_of_app, Hc. reflexivity. }
  destruct c as [y|i|y]; cbn [update_run] in H; try (apply Hskip; auto; fail).
  destruct i as [x t| |t]; try (apply Hskip; auto; fail).
  destruct j as [|j].
  - inversion H; subst. exists [], x, t, p. repeat split.
  - destruct (update_run j (set_run s) p) as [r'|] eqn:E; [|discriminate].
    inversion H; subst. destruct (IH _ _ E) as [pre [x' [t' [post [E1 [E2 E3]]]]]].
    exists (It (R x t) :: pre), x', t', post. subst. repeat split.
Qed.

Lemma update_run_defined f j p : (j < length (runs_of p))%nat -> update_run j f p <> None.
Proof.
  revert j. induction p as [|c p IH]; intros j H; [simpl in H; lia|].
  assert (Hskip : runs_of (c :: p) = runs_of p ->
     (match update_run j f p with Some r' => Some (c :: r') | None => None end) <> None).
  { intros E. rewrite E in H. specialize (IH j H). destruct (update_run j f p); congruence. }
  destruct c as [y|i|y]; cbn [update_run]; try (apply Hskip; reflexivity).
  destruct i as [x t| |t]; try (apply Hskip; reflexivity).
  destruct j as [|j]; [discriminate|].
  assert (H' : (j < length (runs_of p))%nat) by (unfold runs_of in *; simpl in H; lia).
  specialize (IH j H'). destruct (update_run j f p); congruence.
Qed.

Lemma run_in_para_readback s j p p' :
  update_run j (set_run s) p = Some p' ->
  nth_error (map get_run (runs_of p')) j = Some (tr_run s) /\
  clear_para p' = clear_para p /\ length (content p') = length (content p).
Proof.
  intros H. destruct (update_run_exact _ _ _ _ H) as [pre [x [t [post [-> [-> E3]]]]]].
  repeat split.
  - rewrite runs_of_app, map_app. rewrite nth_error_app2 by (rewrite map_length; lia).
    rewrite map_length, E3, Nat.sub_diag. reflexivity.
  - rewrite !clear_app. reflexivity.
  - rewrite !content_app, !app_length. reflexivity.
Qed.

(** ---- whitespace and other plain text is kept verbatim ---- *)
Lemma plain_split s : plain s = true -> split_by is_brk s = [s].
Proof.
  intros H. apply split_by_none. unfold plain in H.
  induction s as [|c s IH]; simpl in *; auto.
  apply andb_true_iff in H as [H1 H2]. apply andb_true_iff in H1 as [_ H1].
  rewrite H1; auto.
Qed.

Lemma plain_nolf s : plain s = true -> split_by is_lf s = [s].
Proof.
  intros H. apply split_by_none. unfold plain in H.
  induction s as [|c s IH]; simpl in *; auto.
  apply andb_true_iff in H as [H1 H2]. apply andb_true_iff in H1 as [_ H1].
  unfold is_brk in H1. apply negb_true_iff, orb_false_iff in H1 as [H1 _]. rewrite H1. simpl. auto.
Qed.

Lemma whitespace_kept s : plain s = true -> s <> [] ->
  (forall p, content (set_para s p) = [R None s]) /\
  (forall b, paras (set_frame s b) = [[It (R None s)]]) /\
  (forall x t, set_run s (R x t) = R x s).
Proof.
  intros Hp Hne. pose proof (escape_no_ctrl s (plain_no_ctrl s Hp)) as He. repeat split.
  - intros p. rewrite content_set_para. unfold text_items. rewrite plain_split by auto.
    simpl. destruct s; [congruence|]. rewrite He. reflexivity.
  - intros b. unfold set_frame. cbn [paras]. rewrite plain_nolf by auto. cbn [map].
    rewrite new_para_exact. unfold text_items. rewrite plain_split by auto.
    simpl. destruct s; [congruence|]. rewrite He. reflexivity.
  - intros x t. simpl. rewrite He. reflexivity.
Qed.

(** pieces around breaks keep their blanks: u LF v at paragraph level *)
Lemma whitespace_around_break u v brk : plain u = true -> plain v = true ->
  u <> [] -> v <> [] -> is_brk brk = true ->
  forall p, content (set_para (u ++ brk :: v) p) = [R None u; Br; R None v].
Proof.
  intros Hu Hv Hun Hvn Hb p. rewrite content_set_para. unfold text_items.
  rewrite split_by_app; auto.
  - rewrite plain_split by auto. cbn [pieces_items app].
    rewrite (escape_no_ctrl u (plain_no_ctrl u Hu)), (escape_no_ctrl v (plain_no_ctrl v Hv)).
    destruct u; [congruence|]. destruct v; [congruence|]. reflexivity.
  - clear -Hu. unfold plain in Hu. induction u as [|c u IH]; simpl in *; auto.
    apply andb_true_iff in Hu as [H1 H2]. apply andb_true_iff in H1 as [_ H1]. rewrite H1; auto.
Qed.

(** ---- ambiguity of the escape ---- *)
Definition lit_x0007 : str := [95; 120; 48; 48; 48; 55; 95]%N.
Definition lit_x000A : str := [95; 120; 48; 48; 48; 65; 95]%N.

Lemma escape_not_injective : exists s1 s2, s1 <> s2 /\ tr_run s1 = tr_run s2 /\
  tr_para s1 = tr_para s2 /\ tr_frame s1 = tr_frame s2.
Proof. exists [7%N], lit_x0007. repeat split; try reflexivity. discriminate. Qed.

Lemma escape_shaped_literal_unchanged :
  tr_run lit_x000A = lit_x000A /\ tr_para lit_x000A = lit_x000A /\ tr_frame lit_x000A = lit_x000A.
Proof. repeat split; reflexivity. Qed.

(** ---- histories ---- *)
(** schema order of a paragraph: optional a:pPr, content, optional a:endParaRPr *)
Definition opt_ppr (o : option N) : para := match o with Some x => [PPr x] | None => [] end.
Definition opt_end (o : option N) : para := match o with Some x => [EndRPr x] | None => [] end.
Definition wf_para (p : para) : Prop :=
  exists a items e, p = opt_ppr a ++ map It items ++ opt_end e.
Definition wf_cell (c : cell) : Prop :=
  match c with None => True | Some b => Forall wf_para (paras b) end.

Lemma noend_ppr_items a items :
  forallb (fun c => negb (is_end c)) (opt_ppr a ++ map It items) = true.
Proof.
  rewrite forallb_app. destruct a; simpl; induction items; simpl; auto.
Qed.

Lemma opt_end_shape e : opt_end e = [] \/ exists x r, opt_end e = EndRPr x :: r.
Proof. destruct e; simpl; eauto. Qed.

Lemma wf_insert i p : wf_para p -> wf_para (insert_item i p).
Proof.
  intros [a [items [e ->]]]. exists a, (items ++ [i]), e.
  rewrite app_assoc, insert_item_mid by (try apply noend_ppr_items; apply opt_end_shape).
  rewrite map_app, <- !app_assoc. reflexivity.
Qed.

Lemma wf_clear p : wf_para p -> wf_para (clear_para p).
Proof.
  intros [a [items [e ->]]]. exists a, [], e.
  rewrite !clear_app, clear_map_It. destruct a, e; reflexivity.
Qed.

Lemma wf_append_pieces first pieces p : wf_para p -> wf_para (append_pieces first pieces p).
Proof.
  revert first p. induction pieces as [|r rest IH]; intros first p H; simpl; auto.
  apply IH. destruct first, r; auto using wf_insert.
Qed.

Lemma wf_set_para s p : wf_para p -> wf_para (set_para s p).
Proof. intros H. apply wf_append_pieces, wf_clear, H. Qed.

Lemma wf_fresh seg : wf_para (append_text seg []).
Proof. apply wf_append_pieces. exists None, [], None. reflexivity. Qed.

Lemma wf_update_run s j p p' : wf_para p -> update_run j (set_run s) p = Some p' -> wf_para p'.
Proof.
  intros [a [items [e Hp]]] H.
  destruct (update_run_exact _ _ _ _ H) as [pre [x [t [post [E1 [E2 E3]]]]]].
  exists a, (content p'), e. subst p'.
  (* the shape is the same list with one run replaced *)
  assert (Hc : clear_para (pre ++ It (R x (tr_run s)) :: post) = clear_para p)
    by (rewrite E1, !clear_app; reflexivity).
  clear H E3.
  revert a items Hp. subst p.
  intros a items Hp.
  (* split pre ++ It .. :: post along opt_ppr a ++ map It items ++ opt_end e *)
  destruct a as [y|]; cbn [opt_ppr app] in *.
  - destruct pre as [|c pre]; [discriminate|]. inversion Hp; subst. cbn [content app].
    f_equal. clear Hp Hc.
    revert pre H1. induction items as [|i items IH]; intros pre H1.
    + destruct e; destruct pre; simpl in H1; try discriminate.
      inversion H1. destruct pre; discriminate.
    + destruct pre as [|c pre]; cbn [app map] in *.
      * inversion H1; subst. cbn [content]. rewrite content_app, content_map_It.
        destruct e; simpl; rewrite ?app_nil_r; reflexivity.
      * inversion H1; subst. cbn [content app map]. f_equal. apply IH. assumption.
  - clear Hc. revert pre Hp. induction items as [|i items IH]; intros pre Hp.
    + destruct e; destruct pre; simpl in Hp; try discriminate.
      inversion Hp. destruct pre; discriminate.
    + destruct pre as [|c pre]; cbn [app map] in *.
      * inversion Hp; subst. cbn [content]. rewrite content_app, content_map_It.
        destruct e; simpl; rewrite ?app_nil_r; reflexivity.
      * inversion Hp; subst. cbn [content app map]. f_equal. apply IH. assumption.
Qed.

Lemma Forall_replace_nth {A} (P : A -> Prop) n x l : Forall P l -> P x -> Forall P (replace_nth n x l).
Proof.
  revert n. induction l as [|y l IH]; intros n H Hx; [destruct n; simpl; auto|].
  inversion H; subst. destruct n; simpl; constructor; auto.
Qed.

Lemma wf_default : wf_cell (Some default_body).
Proof. simpl. constructor; [|constructor]. exists None, [], None. reflexivity. Qed.

Lemma wf_cell_body c : wf_cell c -> Forall wf_para (paras (cell_body c)).
Proof. destruct c; simpl; auto. intros _. apply wf_default. Qed.

Lemma wf_on_para c i f out : wf_cell c -> (forall p, wf_para p -> wf_para (f p)) ->
  wf_cell (fst (on_para c i f out)).
Proof.
  intros H Hf. unfold on_para. pose proof (wf_cell_body c H) as Hb.
  destruct (nth_error (paras (cell_body c)) i) as [p|] eqn:E; simpl; auto.
  apply Forall_replace_nth; auto. apply Hf.
  rewrite Forall_forall in Hb. apply Hb. eapply nth_error_In; eauto.
Qed.

Lemma wf_apply_op o c : wf_cell c -> wf_cell (fst (apply_op o c)).
Proof.
  intros H. destruct o; cbn [apply_op].
  - simpl. rewrite Forall_forall. intros p Hin. apply in_map_iff in Hin as [seg [<- _]]. apply wf_fresh.
  - simpl. rewrite Forall_forall. intros p Hin. apply in_map_iff in Hin as [seg [<- _]]. apply wf_fresh.
  - apply wf_on_para; auto. intros; apply wf_set_para; auto.
  - pose proof (wf_cell_body c H) as Hb.
    destruct (nth_error (paras (cell_body c)) i) as [p|] eqn:E; simpl; auto.
    destruct (update_run j (set_run s) p) as [p'|] eqn:Eu; simpl; auto.
    apply Forall_replace_nth; auto. eapply wf_update_run; eauto.
    rewrite Forall_forall in Hb. apply Hb. eapply nth_error_In; eauto.
  - apply wf_on_para; auto. intros; apply wf_insert; auto.
  - apply wf_on_para; auto. intros; apply wf_insert; auto.
  - apply wf_on_para; auto. intros; apply wf_clear; auto.
  - simpl. apply wf_cell_body; auto.
  - apply wf_on_para; auto.
Qed.

Lemma wf_run_ops ops c : wf_cell c -> wf_cell (run_ops ops c).
Proof.
  unfold run_ops. revert c. induction ops as [|o ops IH]; intros c H; simpl; auto.
  apply IH. apply wf_apply_op; auto.
Qed.

(** after ANY history, an assignment at each level reads back the documented text *)
Lemma history_readback ops c0 s :
  let c := run_ops ops c0 in
  snd (apply_op (OFrame s) c) = Ok (tr_frame s) /\
  snd (apply_op (OCell s) c) = Ok (tr_frame s) /\
  (forall i, (i < length (paras (cell_body c)))%nat ->
     snd (apply_op (OPara i s) c) = Ok (tr_para s)) /\
  (forall i, (length (paras (cell_body c)) <= i)%nat ->
     snd (apply_op (OPara i s) c) = Err IndexErr) /\
  (forall i j p, nth_error (paras (cell_body c)) i = Some p -> (j < length (runs_of p))%nat ->
     snd (apply_op (ORun i j s) c) = Ok (tr_run s)).
Proof.
  intros c. repeat split.
  - cbn [apply_op snd]. f_equal. unfold get_cell, set_cell. cbn [cell_body]. apply frame_readback.
  - cbn [apply_op snd]. f_equal. unfold get_cell, set_cell. cbn [cell_body]. apply frame_readback.
  - intros i Hi. cbn [apply_op]. unfold on_para.
    destruct (nth_error (paras (cell_body c)) i) eqn:E.
    + simpl. f_equal. apply para_readback.
    + apply nth_error_None in E. lia.
  - intros i Hi. cbn [apply_op]. unfold on_para.
    apply nth_error_None in Hi. rewrite Hi. reflexivity.
  - intros i j p Hp Hj. cbn [apply_op]. rewrite Hp.
    destruct (update_run j (set_run s) p) as [p'|] eqn:E.
    + simpl. f_equal. destruct (run_in_para_readback _ _ _ _ E) as [H1 _].
      rewrite nth_error_map in H1. destruct (nth_error (runs_of p') j); simpl in H1; congruence.
    + exfalso. eapply update_run_defined; eauto.
Qed.

(** ---- save / re-open, as a hypothesis on the serialiser ---- *)
Section Reopen.
  Variable X : Type.
  Variable ser : body -> X.
  Variable reparse : X -> body.
  Hypothesis roundtrip : forall b, reparse (ser b) = b.

  Fixpoint cycles (n : nat) (b : body) : body :=
    match n with O => b | S n' => cycles n' (reparse (ser b)) end.

  Lemma reopen_readback n s b : get_frame (cycles n (set_frame s b)) = tr_frame s.
  Proof.
    assert (H : forall b0, cycles n b0 = b0).
    { induction n as [|n IH]; intros b0; simpl; auto. rewrite roundtrip. apply IH. }
    rewrite H. apply frame_readback.
  Qed.
End Reopen.
