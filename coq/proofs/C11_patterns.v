(** Transcriptions of the XSD pattern facets (and of the xsd:double lexical space) that
    lexspec leaves as LUnknown / LDouble.  tx_c11 emits the TEXT of each such facet per
    attribute row (GenC11.row_unknowns); [pattern_table] maps a text to its transcription
    and the kernel compares texts, so a pattern that changes in the schema no longer finds
    its entry and the row falls back to not judged.  What is trusted: that each regular
    expression below denotes the language of the pattern text next to it (XSD regular
    expression semantics, anchored at both ends; class subtraction written pos-[neg] is
    RCls pos neg; IsBasicLatin = 0..127, IsLatin-1Supplement = 128..255, Cc = 0..31 and
    127..159, backslash-s = space tab LF CR). *)
From V.lib Require Import Prelude.
From V.proofs Require Import C11_regex.
Local Open Scope N_scope.

(** pattern texts exactly as tx_c11 reports them ( the word pattern, a blank, the facet ) *)
Definition txt_bubble : str := [112; 97; 116; 116; 101; 114; 110; 32; 48; 42; 40; 40; 91; 48; 45; 57; 93; 41; 124; 40; 91; 49; 45; 57; 93; 91; 48; 45; 57; 93; 41; 124; 40; 91; 49; 45; 50; 93; 91; 48; 45; 57; 93; 91; 48; 45; 57; 93; 41; 124; 51; 48; 48; 41; 37].
Definition txt_gap : str := [112; 97; 116; 116; 101; 114; 110; 32; 48; 42; 40; 40; 91; 48; 45; 57; 93; 41; 124; 40; 91; 49; 45; 57; 93; 91; 48; 45; 57; 93; 41; 124; 40; 91; 49; 45; 52; 93; 91; 48; 45; 57; 93; 91; 48; 45; 57; 93; 41; 124; 53; 48; 48; 41; 37].
Definition txt_lbloff : str := [112; 97; 116; 116; 101; 114; 110; 32; 48; 42; 40; 40; 91; 48; 45; 57; 93; 41; 124; 40; 91; 49; 45; 57; 93; 91; 48; 45; 57; 93; 41; 124; 40; 91; 49; 45; 57; 93; 91; 48; 45; 57; 93; 91; 48; 45; 57; 93; 41; 124; 49; 48; 48; 48; 41; 37].
Definition txt_overlap : str := [112; 97; 116; 116; 101; 114; 110; 32; 40; 45; 63; 48; 42; 40; 40; 91; 48; 45; 57; 93; 41; 124; 40; 91; 49; 45; 57; 93; 91; 48; 45; 57; 93; 41; 124; 49; 48; 48; 41; 41; 37].
Definition txt_fixedpct : str := [112; 97; 116; 116; 101; 114; 110; 32; 40; 40; 49; 48; 48; 41; 124; 40; 91; 48; 45; 57; 93; 91; 48; 45; 57; 93; 63; 41; 41; 40; 92; 46; 91; 48; 45; 57; 93; 91; 48; 45; 57; 93; 63; 41; 63; 37].
Definition txt_ext : str := [112; 97; 116; 116; 101; 114; 110; 32; 40; 91; 33; 36; 38; 39; 92; 40; 92; 41; 92; 42; 92; 43; 44; 58; 61; 93; 124; 40; 37; 91; 48; 45; 57; 97; 45; 102; 65; 45; 70; 93; 91; 48; 45; 57; 97; 45; 102; 65; 45; 70; 93; 41; 124; 91; 58; 64; 93; 124; 91; 97; 45; 122; 65; 45; 90; 48; 45; 57; 92; 45; 95; 126; 93; 41; 43].
Definition txt_ctype : str := [112; 97; 116; 116; 101; 114; 110; 32; 40; 40; 40; 40; 91; 92; 112; 123; 73; 115; 66; 97; 115; 105; 99; 76; 97; 116; 105; 110; 125; 45; 91; 92; 112; 123; 67; 99; 125; 127; 92; 40; 92; 41; 60; 62; 64; 44; 59; 58; 92; 92; 34; 47; 92; 91; 92; 93; 92; 63; 61; 92; 123; 92; 125; 92; 115; 92; 116; 93; 93; 41; 43; 41; 41; 47; 40; 40; 40; 91; 92; 112; 123; 73; 115; 66; 97; 115; 105; 99; 76; 97; 116; 105; 110; 125; 45; 91; 92; 112; 123; 67; 99; 125; 127; 92; 40; 92; 41; 60; 62; 64; 44; 59; 58; 92; 92; 34; 47; 92; 91; 92; 93; 92; 63; 61; 92; 123; 92; 125; 92; 115; 92; 116; 93; 93; 41; 43; 41; 41; 40; 40; 92; 115; 43; 41; 42; 59; 40; 92; 115; 43; 41; 42; 40; 40; 40; 40; 91; 92; 112; 123; 73; 115; 66; 97; 115; 105; 99; 76; 97; 116; 105; 110; 125; 45; 91; 92; 112; 123; 67; 99; 125; 127; 92; 40; 92; 41; 60; 62; 64; 44; 59; 58; 92; 92; 34; 47; 92; 91; 92; 93; 92; 63; 61; 92; 123; 92; 125; 92; 115; 92; 116; 93; 93; 41; 43; 41; 41; 61; 40; 40; 40; 91; 92; 112; 123; 73; 115; 66; 97; 115; 105; 99; 76; 97; 116; 105; 110; 125; 45; 91; 92; 112; 123; 67; 99; 125; 127; 92; 40; 92; 41; 60; 62; 64; 44; 59; 58; 92; 92; 34; 47; 92; 91; 92; 93; 92; 63; 61; 92; 123; 92; 125; 92; 115; 92; 116; 93; 93; 41; 43; 41; 124; 40; 34; 40; 40; 91; 92; 112; 123; 73; 115; 76; 97; 116; 105; 110; 45; 49; 83; 117; 112; 112; 108; 101; 109; 101; 110; 116; 125; 92; 112; 123; 73; 115; 66; 97; 115; 105; 99; 76; 97; 116; 105; 110; 125; 45; 91; 92; 112; 123; 67; 99; 125; 127; 34; 92; 110; 92; 114; 93; 93; 124; 40; 92; 115; 43; 41; 41; 124; 40; 92; 92; 91; 92; 112; 123; 73; 115; 66; 97; 115; 105; 99; 76; 97; 116; 105; 110; 125; 93; 41; 41; 42; 34; 41; 41; 41; 41; 42; 41].

Definition d19 : re := rrange 49 57.
Definition c_zero : N := 48.
Definition c_pct : N := 37.

(** 0*(([0-9])|([1-9][0-9])|([1-K][0-9][0-9])|TOP)%   with TOP a literal *)
Definition re_chart_pct_body (k : N) (top : str) : re :=
  RCat (RStar (rch c_zero))
       (RAlt rdigit (RAlt (RCat d19 rdigit) (RAlt (RCat (rrange 49 k) (RCat rdigit rdigit)) (rlit top)))).
Definition re_chart_pct (k : N) (top : str) : re := RCat (re_chart_pct_body k top) (rch c_pct).

Definition re_bubble : re := re_chart_pct 50 [51; 48; 48].
Definition re_gap : re := re_chart_pct 52 [53; 48; 48].
Definition re_lbloff : re := re_chart_pct 57 [49; 48; 48; 48].

(** (-?0*(([0-9])|([1-9][0-9])|100))% *)
Definition re_overlap_body : re :=
  RCat (ropt (rch 45)) (RCat (RStar (rch c_zero)) (RAlt rdigit (RAlt (RCat d19 rdigit) (rlit [49; 48; 48])))).
Definition re_overlap : re := RCat re_overlap_body (rch c_pct).

(** ((100)|([0-9][0-9]?))(\.[0-9][0-9]?)?% *)
Definition re_fixedpct_int : re := RAlt (rlit [49; 48; 48]) (RCat rdigit (ropt rdigit)).
Definition re_fixedpct_frac : re := ropt (RCat (rch 46) (RCat rdigit (ropt rdigit))).
Definition re_fixedpct : re := RCat re_fixedpct_int (RCat re_fixedpct_frac (rch c_pct)).

(** OPC ST_Extension: ([!$&'()*+,:=]|(%[0-9a-fA-F][0-9a-fA-F])|[:@]|[a-zA-Z0-9\-_~])+ *)
Definition rhex : re := RCls [(48, 57); (97, 102); (65, 70)] [].
Definition re_ext : re :=
  rplus (RAlt (RCls [(33, 33); (36, 36); (38, 38); (39, 39); (40, 40); (41, 41); (42, 42); (43, 43); (44, 44); (58, 58); (61, 61)] [])
        (RAlt (RCat (rch 37) (RCat rhex rhex))
        (RAlt (RCls [(58, 58); (64, 64)] [])
              (RCls [(97, 122); (65, 90); (48, 57); (45, 45); (95, 95); (126, 126)] [])))).

(** OPC ST_ContentType: token / token ( ws* ; ws* token = ( token | quoted-string ) )*  where a
    token character is IsBasicLatin minus controls, DEL, the tspecials and white space, and a
    quoted string holds Latin-1 characters other than controls, quote, LF, CR, or white space
    runs, or a backslash followed by any IsBasicLatin character *)
Definition cc : list (N * N) := [(0, 31); (127, 159)].
Definition tokch : re :=
  RCls [(0, 127)]
       (cc ++ [(127, 127); (40, 40); (41, 41); (60, 60); (62, 62); (64, 64); (44, 44); (59, 59); (58, 58); (92, 92);
               (34, 34); (47, 47); (91, 91); (93, 93); (63, 63); (61, 61); (123, 123); (125, 125);
               (32, 32); (9, 9); (10, 10); (13, 13); (9, 9)]).
Definition rtoken : re := rplus tokch.
Definition rws : re := RCls [(32, 32); (9, 9); (10, 10); (13, 13)] [].
Definition rwss : re := RStar (rplus rws).
Definition qch : re := RCls [(128, 255); (0, 127)] (cc ++ [(127, 127); (34, 34); (10, 10); (13, 13)]).
Definition rquoted : re :=
  RCat (rch 34) (RCat (RStar (RAlt (RAlt qch (rplus rws)) (RCat (rch 92) (RCls [(0, 127)] [])))) (rch 34)).
Definition rparam : re :=
  RCat rwss (RCat (rch 59) (RCat rwss (RCat rtoken (RCat (rch 61) (RAlt rtoken rquoted))))).
Definition re_ctype : re := RCat rtoken (RCat (rch 47) (RCat rtoken (RStar rparam))).

(** xsd:double ( XSD 1.0 part 2, 3.2.5.1 ): a decimal mantissa, optionally E or e and an
    integer exponent, or INF, -INF, NaN.  Mantissa: optional sign, then digits with an
    optional point and optional further digits, or a point followed by digits.  Exponent:
    E or e, optional sign, digits.  This is also the expression checks/c11.py uses. *)
Definition rsign : re := ropt (RCls [(43, 43); (45, 45)] []).
Definition rdigits1 : re := rplus rdigit.
Definition re_mantissa : re :=
  RAlt (RCat rdigits1 (ropt (RCat (rch 46) (RStar rdigit)))) (RCat (rch 46) rdigits1).
Definition re_exponent : re := ropt (RCat (RCls [(69, 69); (101, 101)] []) (RCat rsign rdigits1)).
Definition re_double_num : re := RCat rsign (RCat re_mantissa re_exponent).
Definition re_double : re :=
  RAlt re_double_num (RAlt (rlit [73; 78; 70]) (RAlt (rlit [45; 73; 78; 70]) (rlit [78; 97; 78]))).

Definition pattern_table : list (str * re) :=
  [(txt_bubble, re_bubble); (txt_gap, re_gap); (txt_lbloff, re_lbloff); (txt_overlap, re_overlap);
   (txt_fixedpct, re_fixedpct); (txt_ext, re_ext); (txt_ctype, re_ctype)].

Fixpoint pattern_lookup (tbl : list (str * re)) (t : str) : option re :=
  match tbl with
  | [] => None
  | (k, r) :: tbl' => if str_eqb t k then Some r else pattern_lookup tbl' t
  end.

(** sanity of the transcriptions on concrete strings ( both verdicts ) *)
Example re_gap_examples :
  re_matches re_gap [48; 37] = true
  /\ re_matches re_gap [49; 53; 48; 37] = true
  /\ re_matches re_gap [53; 48; 48; 37] = true
  /\ re_matches re_gap [48; 48; 48; 53; 48; 48; 37] = true
  /\ re_matches re_gap [48; 55; 37] = true
  /\ re_matches re_gap [52; 57; 57; 37] = true
  /\ re_matches re_gap [53; 48; 49; 37] = false
  /\ re_matches re_gap [49; 48; 48; 48; 37] = false
  /\ re_matches re_gap [37] = false
  /\ re_matches re_gap [49; 53; 48] = false
  /\ re_matches re_gap [45; 53; 37] = false
  /\ re_matches re_gap [53; 46; 48; 37] = false
  /\ re_matches re_gap [53; 48; 37; 37] = false.
Proof. vm_compute. repeat split. Qed.
Example re_bubble_examples :
  re_matches re_bubble [51; 48; 48; 37] = true
  /\ re_matches re_bubble [50; 57; 57; 37] = true
  /\ re_matches re_bubble [48; 49; 48; 48; 37] = true
  /\ re_matches re_bubble [51; 48; 49; 37] = false
  /\ re_matches re_bubble [52; 48; 48; 37] = false.
Proof. vm_compute. repeat split. Qed.
Example re_lbloff_examples :
  re_matches re_lbloff [49; 48; 48; 48; 37] = true
  /\ re_matches re_lbloff [57; 57; 57; 37] = true
  /\ re_matches re_lbloff [48; 37] = true
  /\ re_matches re_lbloff [49; 48; 48; 49; 37] = false
  /\ re_matches re_lbloff [50; 48; 48; 48; 37] = false.
Proof. vm_compute. repeat split. Qed.
Example re_overlap_examples :
  re_matches re_overlap [45; 49; 48; 48; 37] = true
  /\ re_matches re_overlap [49; 48; 48; 37] = true
  /\ re_matches re_overlap [45; 48; 48; 55; 37] = true
  /\ re_matches re_overlap [48; 37] = true
  /\ re_matches re_overlap [45; 48; 37] = true
  /\ re_matches re_overlap [49; 48; 49; 37] = false
  /\ re_matches re_overlap [45; 49; 48; 49; 37] = false
  /\ re_matches re_overlap [43; 53; 37] = false
  /\ re_matches re_overlap [45; 45; 53; 37] = false.
Proof. vm_compute. repeat split. Qed.
Example re_fixedpct_examples :
  re_matches re_fixedpct [49; 48; 48; 37] = true
  /\ re_matches re_fixedpct [48; 37] = true
  /\ re_matches re_fixedpct [52; 50; 46; 53; 37] = true
  /\ re_matches re_fixedpct [57; 57; 46; 57; 57; 37] = true
  /\ re_matches re_fixedpct [49; 48; 48; 46; 57; 57; 37] = true
  /\ re_matches re_fixedpct [48; 55; 37] = true
  /\ re_matches re_fixedpct [49; 48; 49; 37] = false
  /\ re_matches re_fixedpct [49; 46; 50; 51; 52; 37] = false
  /\ re_matches re_fixedpct [46; 53; 37] = false
  /\ re_matches re_fixedpct [53; 46; 37] = false
  /\ re_matches re_fixedpct [45; 49; 37] = false
  /\ re_matches re_fixedpct [49; 48; 48] = false.
Proof. vm_compute. repeat split. Qed.
Example re_ext_examples :
  re_matches re_ext [120; 109; 108] = true
  /\ re_matches re_ext [114; 101; 108; 115] = true
  /\ re_matches re_ext [106; 112; 101; 103] = true
  /\ re_matches re_ext [97; 37; 50; 70; 98] = true
  /\ re_matches re_ext [120; 45; 121; 95; 122; 126; 49] = true
  /\ re_matches re_ext [] = false
  /\ re_matches re_ext [97; 32; 98] = false
  /\ re_matches re_ext [97; 47; 98] = false
  /\ re_matches re_ext [37; 50] = false
  /\ re_matches re_ext [97; 46; 98] = false.
Proof. vm_compute. repeat split. Qed.
Example re_ctype_examples :
  re_matches re_ctype [97; 112; 112; 108; 105; 99; 97; 116; 105; 111; 110; 47; 120; 109; 108] = true
  /\ re_matches re_ctype [105; 109; 97; 103; 101; 47; 112; 110; 103] = true
  /\ re_matches re_ctype [97; 112; 112; 108; 105; 99; 97; 116; 105; 111; 110; 47; 118; 110; 100; 46; 111; 112; 101; 110; 120; 109; 108; 102; 111; 114; 109; 97; 116; 115; 45; 111; 102; 102; 105; 99; 101; 100; 111; 99; 117; 109; 101; 110; 116; 46; 112; 114; 101; 115; 101; 110; 116; 97; 116; 105; 111; 110; 109; 108; 46; 115; 108; 105; 100; 101; 43; 120; 109; 108] = true
  /\ re_matches re_ctype [116; 101; 120; 116; 47; 112; 108; 97; 105; 110; 59; 32; 99; 104; 97; 114; 115; 101; 116; 61; 117; 116; 102; 45; 56] = true
  /\ re_matches re_ctype [116; 101; 120; 116; 47; 112; 108; 97; 105; 110; 59; 99; 104; 97; 114; 115; 101; 116; 61; 34; 97; 32; 98; 92; 34; 99; 34] = true
  /\ re_matches re_ctype [97; 47; 98; 59; 99; 61; 100; 59; 101; 61; 102] = true
  /\ re_matches re_ctype [] = false
  /\ re_matches re_ctype [120] = false
  /\ re_matches re_ctype [97; 112; 112; 108; 105; 99; 97; 116; 105; 111; 110; 47] = false
  /\ re_matches re_ctype [47; 120; 109; 108] = false
  /\ re_matches re_ctype [97; 47; 98; 47; 99] = false
  /\ re_matches re_ctype [116; 101; 120; 116; 47; 112; 108; 97; 105; 110; 59; 32; 99; 104; 97; 114; 115; 101; 116] = false
  /\ re_matches re_ctype [97; 32; 98; 47; 99] = false
  /\ re_matches re_ctype [116; 101; 120; 116; 47; 112; 108; 97; 105; 110; 59; 99; 104; 97; 114; 115; 101; 116; 61; 34; 97; 98; 99] = false.
Proof. vm_compute. repeat split. Qed.
Example re_double_examples :
  re_matches re_double [48] = true
  /\ re_matches re_double [49; 46; 53] = true
  /\ re_matches re_double [45; 50; 46; 50; 53] = true
  /\ re_matches re_double [49; 101; 51] = true
  /\ re_matches re_double [49; 69; 45; 50] = true
  /\ re_matches re_double [46; 53] = true
  /\ re_matches re_double [53; 46] = true
  /\ re_matches re_double [43; 55] = true
  /\ re_matches re_double [73; 78; 70] = true
  /\ re_matches re_double [45; 73; 78; 70] = true
  /\ re_matches re_double [78; 97; 78] = true
  /\ re_matches re_double [49; 46; 53; 101; 43; 49; 48] = true
  /\ re_matches re_double [] = false
  /\ re_matches re_double [97; 98; 99] = false
  /\ re_matches re_double [105; 110; 102] = false
  /\ re_matches re_double [43; 73; 78; 70] = false
  /\ re_matches re_double [110; 97; 110] = false
  /\ re_matches re_double [49; 101] = false
  /\ re_matches re_double [101; 53] = false
  /\ re_matches re_double [46] = false
  /\ re_matches re_double [49; 46; 53; 46; 50] = false
  /\ re_matches re_double [48; 120; 49; 48] = false
  /\ re_matches re_double [49; 95; 48] = false
  /\ re_matches re_double [32; 49] = false.
Proof. vm_compute. repeat split. Qed.
