"""C03 -- every XML part written is valid PresentationML/DrawingML, after any operations (PARTIAL).

PROVED  (props/C03.v): the validator model/XmlValid.v accepts every template the library ships or
        builds from constants (instance over gen/GenC03.v, vm_compute); the xmlchemy operation
        language at tree level preserves the order invariant (generic, from C10's decl_ok_sound and
        C11's write_ok_sound) and the instance over the declarations of the live element classes.
OBSERVED (this file): random PUBLIC-API operation sequences over the default template and every
        corpus deck; after every operation every XML part is validated by libxml2 against the
        ISO/IEC 29500-4 transitional XSDs (the oracle) and by the extracted Coq validator
        (correspondence = translation validation of tx/tx_c03.py + model/XmlValid.v).
"""
import copy
import hashlib
import io
import json
import multiprocessing
import os
import re
import sys
import time
import traceback

from corr.harness import COQ, VERIF, REPO, coq_build, _run

sys.path.insert(0, os.path.join(VERIF, "tx"))

XSD4 = REPO + "/spec/ISO-IEC-29500-4/xsd/"
XSD2 = REPO + "/spec/ISO-IEC-29500-2/opc-xsd/"
XS = "http://www.w3.org/2001/XMLSchema"

TB = [
    "tx/tx_c03.py + tx/xsdlib.py + tx/tx_c11.py (lexspec): structural transcription of the XSDs into schema tables, of templates into node terms (trusted to transcribe; tied by the libxml2 correspondence on every exported part)",
    "libxml2 (lxml.etree.XMLSchema over /repo/spec/ISO-IEC-29500-4/xsd) is the run-time oracle of validity",
    "markup-compatibility preprocessing (tx_c03.mc_preprocess) is done in python before either validator sees a part",
    "model/SchemaMatch.v cm_match is used as the definition of child-sequence validity (its agreement with Schema.lang is proved separately in proofs/SchemaMatch_proofs.v)",
    "C11: the descriptor claimed for each simple-type class is proved equal to the translated to_xml in gen/GenC11.v (rows_write_desc); C03 re-uses the descriptors, not that proof",
]
ASSUME = [
    "PARTIAL: validity after arbitrary public-API histories is OBSERVED (random sequences), not proved; proved are template validity and preservation of the order invariant by the xmlchemy primitives",
    "model limits of the Coq validator (explain Coq-valid / libxml2-invalid disagreements): pattern facets other than the percentage and universal-measure ones are not judged (ST_Guid, chart percent patterns, content-type grammar); xsd:dateTime, anyURI, ID, token are plain strings; no identity constraints; wildcard children without a global declaration are skipped even under processContents=strict; white space around attribute values is not collapsed",
    "children typed by schemas that are not loaded (dc:, dcterms: in core properties) are skipped by the Coq validator",
    "mutation tracing sees BaseOxmlElement subclasses only (unregistered tags are plain lxml elements)",
    "constructor-style arguments (geometry of add_*, rows/cols, chart type, image) are drawn from their documented domains (left/top in -27273042329600..27273042316900, width/height in 0..27273042316900, boundaries included); a deliberately out-of-domain value is kept only to exercise the rejected-call clause: when the call raises, every part must be as valid as before (signature <op>:rejected|...); when the library silently accepts it the call is outside the property's quantifier and is only counted (out_of_domain_accepted). Setter assignments keep their full out-of-domain stream.",
    "new errors are judged against every error class the part has shown earlier in the run (libxml2 does not descend below an element whose content model is violated, so errors can be masked temporarily)",
]

KIND = {1: "content", 2: "undeclared-attr", 3: "attr-value", 4: "required-attr", 5: "text", 6: "type", 7: "root"}


# ============================================================================ validators
class Validators:
    """libxml2 schemas (root validation + by-type validation of fragments) and the encoder
    for the extracted Coq validator."""

    def __init__(self):
        from lxml import etree
        import tx_c03
        from xsdlib import NSPFX

        self.etree = etree
        self.tx = tx_c03
        self.meta = tx_c03.load_meta()
        self.tag_ids = self.meta["tag_ids"]
        self.attr_ids = self.meta["attr_ids"]
        self.tag_names = self.meta["tag_names"]
        self.attr_names = self.meta["attr_names"]
        self.nspfx = dict(NSPFX)
        self.pfxns = {v: k for k, v in NSPFX.items()}
        self.by_type = {}
        for f in ("pml.xsd", "dml-main.xsd", "dml-chart.xsd"):
            root = etree.parse(XSD4 + f).getroot()
            tns = root.get("targetNamespace")
            names = [e.get("name") for e in root if e.tag == "{%s}complexType" % XS]
            w = ('<xsd:schema xmlns:xsd="%s" xmlns="%s" targetNamespace="%s" elementFormDefault="qualified">'
                 '<xsd:include schemaLocation="%s"/>' % (XS, tns, tns, XSD4 + f))
            w += "".join('<xsd:element name="_root_%s" type="%s"/>' % (n, n) for n in names) + "</xsd:schema>"
            self.by_type[tns] = etree.XMLSchema(etree.fromstring(w.encode()))
        self.pml = self.by_type["http://schemas.openxmlformats.org/presentationml/2006/main"]
        self.roots = {}
        self.not_compiled = []
        for ns, path in (
            ("http://schemas.openxmlformats.org/officeDocument/2006/extended-properties", XSD4 + "shared-documentPropertiesExtended.xsd"),
            ("http://schemas.openxmlformats.org/package/2006/content-types", XSD2 + "opc-contentTypes.xsd"),
            ("http://schemas.openxmlformats.org/package/2006/relationships", XSD2 + "opc-relationships.xsd"),
            ("http://schemas.openxmlformats.org/package/2006/metadata/core-properties", XSD2 + "opc-coreProperties.xsd"),
        ):
            try:
                self.roots[ns] = etree.XMLSchema(etree.parse(path))
            except Exception as e:  # noqa
                self.not_compiled.append("%s: %s" % (os.path.basename(path), str(e)[:120]))

    # ---- libxml2
    def schema_for_root(self, root):
        ns = self.etree.QName(root).namespace
        if ns in self.roots:
            return self.roots[ns]
        if ns in self.by_type:
            return self.pml if ns != "http://schemas.openxmlformats.org/drawingml/2006/chart" else self.by_type[ns]
        return None

    def lx_classes(self, sch, root):
        """-> sorted list of (class, where) for a root already preprocessed; [] = valid"""
        if sch.validate(root):
            return []
        out = set()
        for e in sch.error_log:
            out.add(self.classify(e.message))
        return sorted(out)

    def nm(self, clark):
        m = re.match(r"\{([^}]*)\}(.*)", clark)
        if not m:
            return clark
        p = self.nspfx.get(m.group(1))
        return "%s:%s" % (p, m.group(2)) if p else "?:" + m.group(2)

    def classify(self, msg):
        m = re.match(r"Element '([^']*)'(?:, attribute '([^']*)')?: (.*)", msg, re.S)
        if not m:
            return ("other", msg[:80])
        el, at, rest = self.nm(m.group(1)), m.group(2), m.group(3)
        where = el + ("/@" + self.nm(at) if at else "")
        if at and ("is not a valid value" in rest or "facet" in rest or "not accepted by the pattern" in rest):
            return ("pattern" if "pattern" in rest else "attr-value", where)
        if at and "not allowed" in rest:
            return ("undeclared-attr", where)
        mm = re.match(r"The attribute '([^']*)' is required but missing", rest)
        if mm:
            return ("required-attr", el + "/@" + self.nm(mm.group(1)))
        mm = re.match(r"The attribute '([^']*)' is not allowed", rest)
        if mm:
            return ("undeclared-attr", el + "/@" + self.nm(mm.group(1)))
        if "This element is not expected" in rest:
            return ("unexpected-child", el)
        if "Missing child element" in rest:
            return ("missing-child", el)
        if "strict wildcard" in rest or "No matching global" in rest:
            return ("wildcard", el)
        if "Character content" in rest or "is not a valid value" in rest or "not accepted by the pattern" in rest or "facet" in rest:
            return ("pattern" if "pattern" in rest else "text", el)
        return ("other", el + ": " + rest[:60])

    def lx_by_type(self, el, type_q):
        """validate a fragment at an XSD complex type 'p:CT_Shape' (root renamed on a copy)"""
        pfx, tn = type_q.split(":", 1)
        ns = self.pfxns.get(pfx)
        if ns not in self.by_type:
            return None
        root = self.etree.fromstring(self.etree.tostring(el))
        root.tag = "{%s}_root_%s" % (ns, tn)
        return self.lx_classes(self.by_type[ns], root)

    # ---- Coq
    def stream(self, root):
        return self.tx.stream(self.tx.encode(root, self.tag_ids, self.attr_ids))

    def coq_cases(self, streams):
        """streams: list of (type id or None, stream) -> list of (valid, [(class, where)])"""
        if not streams:
            return []
        f_val = "118,97,108"
        lines = []
        for ty, st in streams:
            tyf = ",".join(str(ord(c)) for c in str(ty)) if ty is not None else "45"
            lines.append("%s\t%s\t%s" % (f_val, tyf, ",".join(map(str, st))))
        import subprocess
        p = subprocess.run([os.path.join(COQ, "extract", "run_c03")], input=("\n".join(lines) + "\n").encode("ascii"),
                           stdout=subprocess.PIPE, stderr=subprocess.PIPE, timeout=3600)
        if p.returncode != 0:
            raise RuntimeError("run_c03 failed: " + p.stderr.decode()[-300:])
        outs = p.stdout.decode().split("\n")[:-1]
        if len(outs) != len(lines):
            raise RuntimeError("run_c03 returned %d lines for %d cases" % (len(outs), len(lines)))
        res = []
        for o in outs:
            if "|" not in o:
                res.append((None, [("badcase", o[:40])]))
                continue
            v, e = o.split("|", 1)
            nums = [int(x) for x in e.split()]
            errs = set()
            for i in range(0, len(nums), 4):
                k, el, what, pos = nums[i:i + 4]
                eln = self.tag_names.get(str(el), "?")
                if k == 1:
                    errs.add(("missing-child", eln) if what == 0 else ("unexpected-child", self.tag_names.get(str(what), "?")))
                elif k in (2, 3, 4):
                    errs.add((KIND[k], eln + "/@" + self.attr_names.get(str(what), "?")))
                else:
                    errs.add((KIND.get(k, "other"), eln))
            res.append((v == "True", sorted(errs)))
        return res


EXPLAINED = {"pattern", "wildcard"}


def explained(lx, cq_valid):
    """a verdict disagreement covered by a documented model limit"""
    lx_valid = not lx
    if lx_valid == cq_valid:
        return True
    if not lx_valid and cq_valid:
        return all(c in EXPLAINED for c, _w in lx)
    return False


# ============================================================================ part export
def export_parts(prs, V):
    """-> {partname: root element (live or parsed)} for every XML part of the package"""
    from pptx.opc.package import XmlPart

    out = {}
    for part in prs.part.package.iter_parts():
        if isinstance(part, XmlPart):
            out[str(part.partname)] = part._element
        else:
            ct = part.content_type or ""
            if ct.endswith("xml"):
                try:
                    out[str(part.partname)] = V.etree.fromstring(part.blob)
                except Exception:  # noqa
                    out[str(part.partname)] = None
    return out


class Snap:
    """verdicts per serialised part, cached by hash"""

    def __init__(self, V):
        self.V = V
        self.lx = {}        # hash -> [(class, where)] | None (no schema)
        self.pending = {}   # hash -> stream (for the Coq validator)
        self.cq = {}        # hash -> (valid, classes)

    def take(self, prs):
        """-> {partname: hash}; fills the caches"""
        V = self.V
        res = {}
        try:
            parts = export_parts(prs, V)
        except Exception as e:  # noqa  -- the package itself can no longer be walked
            h = "broken:" + type(e).__name__
            self.lx[h] = [("package-broken", "iter_parts raised " + type(e).__name__)]
            return {"<package>": h}
        for name, root in parts.items():
            if root is None:
                res[name] = "unparseable"
                self.lx.setdefault("unparseable", [("other", "does not parse")])
                continue
            blob = V.etree.tostring(root)
            h = hashlib.sha1(blob).hexdigest()[:20]
            res[name] = h
            if h in self.lx:
                continue
            pre = V.tx.mc_preprocess(V.etree.fromstring(blob))
            sch = V.schema_for_root(pre)
            self.lx[h] = V.lx_classes(sch, pre) if sch is not None else None
            if V.tx.pfx_name(pre.tag) in V.meta["globals"]:
                self.pending[h] = V.stream(pre)
        return res

    def flush(self):
        keys = [h for h in self.pending if h not in self.cq]
        outs = self.V.coq_cases([(None, self.pending[h]) for h in keys])
        for h, o in zip(keys, outs):
            self.cq[h] = o
        self.pending = {}


# ============================================================================ values
def _png(w=3, h=2, fmt="PNG"):
    from PIL import Image
    b = io.BytesIO()
    Image.new("RGB", (w, h), (200, 10, 10)).save(b, fmt)
    return b.getvalue()


_BLOBS = {}


def blob(kind):
    if not _BLOBS:
        _BLOBS["png"] = _png()
        _BLOBS["jpg"] = _png(5, 4, "JPEG")
        _BLOBS["gif"] = _png(2, 2, "GIF")
        _BLOBS["movie"] = b"\x00\x00\x00\x18ftypmp42 not really a movie"
        _BLOBS["ole"] = b"PK\x03\x04 not really a workbook"
        _BLOBS["notimage"] = b"this is not an image"
    return io.BytesIO(_BLOBS[kind])


LENGTHS = [0, 1, 12700, 914400, 5000000, -914400, 2147483647, 2147483648, -2147483649, 27273042316900,
           27273042316901, -27273042329600, -27273042329601, 10 ** 15]
STRINGS = ["", "x", "Hello World", "a\nb", "tab\there", "a\x0bb", " lead and trail ", "<&>\"'", "café 中文 \U0001F600",
           "x" * 300, "line1\n\nline3", "\n", "_x000D_", "]]>"]
BAD = [None, "12", 1.5, "abc", -1, [], True, 10 ** 20, float("nan"), float("inf")]


def enc_enum(m):
    return {"enum": [type(m).__name__, m.name]}


def dec(v):
    """JSON value -> python value"""
    if isinstance(v, dict):
        if "enum" in v:
            import pptx.enum.chart as ec
            import pptx.enum.dml as ed
            import pptx.enum.lang as el
            import pptx.enum.shapes as es
            import pptx.enum.text as et
            import pptx.enum.action as ea
            for mod in (es, et, ed, ec, el, ea):
                if hasattr(mod, v["enum"][0]):
                    return getattr(mod, v["enum"][0])[v["enum"][1]]
            raise KeyError(v["enum"][0])
        if "rgb" in v:
            from pptx.dml.color import RGBColor
            return RGBColor.from_string(v["rgb"])
        if "pt" in v:
            from pptx.util import Pt
            return Pt(v["pt"])
        if "float" in v:
            return float(v["float"])
        if "list" in v:
            return [dec(x) for x in v["list"]]
        if "date" in v:
            import datetime
            return datetime.date(*v["date"])
    return v


def enc_val(v):
    if isinstance(v, float) and (v != v or v in (float("inf"), float("-inf"))):
        return {"float": repr(v)}
    if isinstance(v, list):
        return {"list": [enc_val(x) for x in v]}
    return v


def pick_enum(rng, cls, p_bad=0.08):
    ms = list(cls)
    if rng.random() < p_bad:
        return enc_val(rng.choice(BAD))
    return enc_enum(rng.choice(ms))


def g_len(rng, p_bad=0.1):
    r = rng.random()
    if r < p_bad:
        return enc_val(rng.choice(BAD))
    if r < 0.5:
        return rng.choice(LENGTHS)
    return rng.randint(0, 9144000)


CMIN, CMAX = -27273042329600, 27273042316900      # ST_Coordinate / ST_PositiveCoordinate (EMU)
_OOD = []                                           # set by the generators below when they leave the documented domain


def g_pos(rng, p_ood=0.06):
    """left / top: any int of the documented Length domain; rarely an out-of-domain value"""
    r = rng.random()
    if r < p_ood:
        _OOD.append(1)
        return enc_val(rng.choice(BAD + [CMAX + 1, CMIN - 1, 10 ** 15]))
    if r < 0.30:
        return rng.choice([CMIN, CMAX, 0, 1, -1, -914400, 2147483647, 2147483648, -2147483649])
    if r < 0.40:
        return rng.randint(CMIN, CMAX)
    return rng.randint(-914400, 9144000)


def g_ext(rng, p_ood=0.06):
    """width / height: any int in 0..CMAX; rarely an out-of-domain value"""
    r = rng.random()
    if r < p_ood:
        _OOD.append(1)
        return enc_val(rng.choice(BAD + [CMAX + 1, -914400, -1, 10 ** 15]))
    if r < 0.30:
        return rng.choice([0, 1, CMAX, 12700, 2147483647, 2147483648])
    if r < 0.40:
        return rng.randint(0, CMAX)
    return rng.randint(0, 9144000)


def g_geom(rng):
    return [g_pos(rng), g_pos(rng), g_ext(rng), g_ext(rng)]


def g_enum_arg(rng, cls, p_ood=0.06):
    if rng.random() < p_ood:
        _OOD.append(1)
        return enc_val(rng.choice(BAD))
    return enc_enum(rng.choice(list(cls)))


def g_bool3(rng):
    return enc_val(rng.choice([True, False, None, True, False, 1, 0, "yes", 2]))


def g_str(rng):
    return rng.choice(STRINGS) if rng.random() < 0.9 else enc_val(rng.choice([None, 5, b"bytes".decode(), 1.5]))


def g_rgb(rng):
    if rng.random() < 0.1:
        return enc_val(rng.choice(["FF0000", None, 255, (1, 2, 3) and [1, 2, 3]]))
    return {"rgb": "%06X" % rng.randint(0, 0xFFFFFF)}


def g_float(rng, lo, hi, p_bad=0.12):
    r = rng.random()
    if r < p_bad:
        return enc_val(rng.choice(BAD + [lo - 1, hi + 1, lo - 0.001, hi + 0.001]))
    if r < 0.3:
        return rng.choice([lo, hi, (lo + hi) / 2])
    return round(rng.uniform(lo, hi), rng.choice([0, 1, 3, 9]))


# ============================================================================ selectors (within one slide)
# A selector lists CANDIDATES as (route, thunk) without touching the tree: many getters of the
# public API create elements on read (font -> a:rPr, format.fill -> c:spPr, marker -> c:marker ...),
# so the object is only resolved, by the thunk, inside the operation that uses it and the effect is
# blamed on that operation (the route is part of the operation's name).
def _safe(f, default=None):
    try:
        return f()
    except Exception:  # noqa
        return default


def all_shapes(slide, limit=60):
    out = []

    def walk(shapes):
        for sh in shapes:
            if len(out) >= limit:
                return
            out.append(sh)
            if _safe(lambda: sh.shape_type.name) == "GROUP":
                walk(sh.shapes)
    _safe(lambda: walk(slide.shapes))
    return out


def K(route, f):
    return (route, f)


def sel_shapes(slide):
    return [K("shape", lambda sh=sh: sh) for sh in all_shapes(slide)]


def sel_containers(slide):
    return [K("slide.shapes", lambda: slide.shapes)] + [K("group.shapes", lambda sh=sh: sh.shapes) for sh in all_shapes(slide) if hasattr(sh, "shapes")]


def _charts(slide):
    return [sh.chart for sh in all_shapes(slide) if _safe(lambda: sh.has_chart)]


def _tables(slide):
    return [sh.table for sh in all_shapes(slide) if _safe(lambda: sh.has_table)]


def _cells(slide):
    return [c for t in _tables(slide) for c in list(t.iter_cells())[:12]]


def _axes(slide):
    out = []
    for ch in _charts(slide):
        for nm in ("category_axis", "value_axis"):
            ax = _safe(lambda: getattr(ch, nm))
            if ax is not None:
                out.append((nm, ax))
    return out


def _plots(slide):
    return [p for ch in _charts(slide) for p in _safe(lambda: list(ch.plots), [])]


def _series(slide):
    return [s for p in _plots(slide) for s in _safe(lambda: list(p.series)[:3], [])]


def _points(slide):
    out = []
    for s in _series(slide):
        pts = _safe(lambda: s.points)
        n = _safe(lambda: len(pts), 0) or 0
        for i in range(min(n, 2)):
            out.append((type(s).__name__, pts, i))
    return out


def sel_text_frames(slide):
    out = []
    for sh in all_shapes(slide):
        if _safe(lambda: sh.has_text_frame):
            out.append(K("shape.text_frame", lambda sh=sh: sh.text_frame))
    for c in _cells(slide)[:6]:
        out.append(K("cell.text_frame", lambda c=c: c.text_frame))
    for ch in _charts(slide):
        if _safe(lambda: ch.has_title):
            out.append(K("chart_title.text_frame", lambda ch=ch: ch.chart_title.text_frame))
    if _safe(lambda: slide.has_notes_slide):
        out.append(K("notes_text_frame", lambda: slide.notes_slide.notes_text_frame))
    for nm, ax in _axes(slide):
        if _safe(lambda: ax.has_title):
            out.append(K("axis_title.text_frame", lambda ax=ax: ax.axis_title.text_frame))
    return out


def sel_paragraphs(slide):
    out = []
    for route, th in sel_text_frames(slide):
        tf = _safe(th)
        n = _safe(lambda: len(tf.paragraphs), 0) or 0 if tf is not None and "axis_title" not in route and "chart_title" not in route else 0
        if "axis_title" in route or "chart_title" in route:
            # resolving these text frames creates c:tx/c:rich: keep them lazy, first paragraph only
            out.append(K(route + ".paragraph", lambda th=th: th().paragraphs[0]))
            continue
        for i in range(min(n, 4)):
            out.append(K(route + ".paragraph", lambda th=th, i=i: th().paragraphs[i]))
    return out


def sel_runs(slide):
    out = []
    for route, th in sel_paragraphs(slide):
        if "_title" in route:
            continue
        p = _safe(th)
        n = _safe(lambda: len(p.runs), 0) or 0
        for i in range(min(n, 3)):
            out.append(K(route + ".run", lambda th=th, i=i: th().runs[i]))
    return out


def sel_fonts(slide):
    out = [K(r + ".font", lambda th=th: th().font) for r, th in sel_runs(slide)]
    out += [K(r + ".font", lambda th=th: th().font) for r, th in sel_paragraphs(slide)[:4]]
    for ch in _charts(slide):
        out.append(K("chart.font", lambda ch=ch: ch.font))
        if _safe(lambda: ch.has_legend):
            out.append(K("legend.font", lambda ch=ch: ch.legend.font))
    for nm, ax in _axes(slide):
        out.append(K(nm + ".tick_labels.font", lambda ax=ax: ax.tick_labels.font))
    for r, th in sel_dlabels(slide):
        out.append(K(r + ".font", lambda th=th: th().font))
    return out


def sel_dlabels(slide):
    out = []
    for p in _plots(slide):
        if _safe(lambda: p.has_data_labels):
            out.append(K("plot.data_labels", lambda p=p: p.data_labels))
    for s in _series(slide)[:2]:
        if hasattr(s, "data_labels"):
            out.append(K(type(s).__name__ + ".data_labels", lambda s=s: s.data_labels))
    return out


def sel_fills(slide):
    out = []
    out += sel_bgfills(slide)
    for sh in all_shapes(slide):
        if hasattr(sh, "fill") and not _safe(lambda: sh.shape_type.name) in ("GROUP",):
            out.append(K("shape.fill", lambda sh=sh: sh.fill))
    out += [K("cell.fill", lambda c=c: c.fill) for c in _cells(slide)[:4]]
    out += [K(r + ".fill", lambda th=th: th().fill) for r, th in sel_fonts(slide)[:3]]
    for s in _series(slide):
        out.append(K(type(s).__name__ + ".format.fill", lambda s=s: s.format.fill))
        if hasattr(s, "marker"):
            out.append(K(type(s).__name__ + ".marker.format.fill", lambda s=s: s.marker.format.fill))
    for sn, pts, i in _points(slide):
        out.append(K(sn + ".point.format.fill", lambda pts=pts, i=i: pts[i].format.fill))
    return out


def _bg_owners(slide):
    """(route, thunk -> object having .background) for the slide, its layout and its master"""
    out = []
    if hasattr(slide, "background"):
        out.append(("slide", lambda: slide))
    lay = _safe(lambda: slide.slide_layout)
    if lay is not None:
        out.append(("slide_layout", lambda: lay))
        mst = _safe(lambda: lay.slide_master)
        if mst is not None:
            out.append(("slide_master", lambda: mst))
    return out


def sel_bgfills(slide):
    # resolving .background.fill is itself an operation (it establishes p:bg/p:bgPr)
    return [K(r + ".background.fill", lambda th=th: th().background.fill) for r, th in _bg_owners(slide)]


def sel_bgcolors(slide):
    out = []
    for r, th in sel_bgfills(slide):
        out.append(K(r + ".fore_color", lambda th=th: th().fore_color))
        out.append(K(r + ".back_color", lambda th=th: th().back_color))
    return out


def sel_lines(slide):
    out = []
    for sh in all_shapes(slide):
        if hasattr(sh, "line"):
            out.append(K("shape.line", lambda sh=sh: sh.line))
    for s in _series(slide):
        out.append(K(type(s).__name__ + ".format.line", lambda s=s: s.format.line))
        if hasattr(s, "marker"):
            out.append(K(type(s).__name__ + ".marker.format.line", lambda s=s: s.marker.format.line))
    for sn, pts, i in _points(slide):
        out.append(K(sn + ".point.format.line", lambda pts=pts, i=i: pts[i].format.line))
    for nm, ax in _axes(slide):
        out.append(K(nm + ".format.line", lambda ax=ax: ax.format.line))
        if _safe(lambda: ax.has_major_gridlines):
            out.append(K(nm + ".major_gridlines.format.line", lambda ax=ax: ax.major_gridlines.format.line))
    return out


def sel_colors(slide):
    out = [K(r + ".color", lambda th=th: th().color) for r, th in sel_fonts(slide)]
    for r, th in sel_fills(slide):
        out.append(K(r + ".fore_color", lambda th=th: th().fore_color))
        out.append(K(r + ".back_color", lambda th=th: th().back_color))
    for r, th in sel_lines(slide):
        out.append(K(r + ".color", lambda th=th: th().color))
    for r, th in sel_gstops(slide):
        out.append(K(r + ".color", lambda th=th: th().color))
    return out


def sel_gstops(slide):
    out = []
    for r, th in sel_fills(slide):
        # only fills that already are gradients (reading .type does not touch the tree)
        fl = _safe(th) if r in ("shape.fill", "cell.fill") else None
        if fl is not None and _safe(lambda: fl.type.name) == "GRADIENT":
            n = _safe(lambda: len(fl.gradient_stops), 0) or 0
            for i in range(min(n, 3)):
                out.append(K(r + ".gradient_stops", lambda th=th, i=i: th().gradient_stops[i]))
    return out


def sel_markers(slide):
    out = []
    for s in _series(slide):
        if hasattr(s, "marker"):
            out.append(K(type(s).__name__ + ".marker", lambda s=s: s.marker))
    for sn, pts, i in _points(slide):
        out.append(K(sn + ".point.marker", lambda pts=pts, i=i: pts[i].marker))
    return out


def sel_hyperlinks(slide):
    out = [K(r + ".hyperlink", lambda th=th: th().hyperlink) for r, th in sel_runs(slide)]
    for sh in all_shapes(slide):
        if hasattr(sh, "click_action"):
            out.append(K("shape.click_action.hyperlink", lambda sh=sh: sh.click_action.hyperlink))
    return out


def _kind(slide, kind):
    return [sh for sh in all_shapes(slide) if _safe(lambda: sh.shape_type.name) == kind]


SELECTORS = {
    "shape": sel_shapes, "text_frame": sel_text_frames, "paragraph": sel_paragraphs, "run": sel_runs, "font": sel_fonts,
    "fill": sel_fills, "line": sel_lines, "color": sel_colors, "bgfill": sel_bgfills, "bgcolor": sel_bgcolors,
    "chart": lambda s: [K("chart", lambda ch=ch: ch) for ch in _charts(s)],
    "table": lambda s: [K("table", lambda t=t: t) for t in _tables(s)],
    "cell": lambda s: [K("cell", lambda c=c: c) for c in _cells(s)],
    "axis": lambda s: [K(nm, lambda ax=ax: ax) for nm, ax in _axes(s)],
    "plot": lambda s: [K(type(p).__name__, lambda p=p: p) for p in _plots(s)],
    "series": lambda s: [K(type(x).__name__, lambda x=x: x) for x in _series(s)],
    "point": lambda s: [K(sn + ".point", lambda pts=pts, i=i: pts[i]) for sn, pts, i in _points(s)],
    "dlabels": sel_dlabels, "marker": sel_markers, "hyperlink": sel_hyperlinks,
    "legend": lambda s: [K("legend", lambda ch=ch: ch.legend) for ch in _charts(s) if _safe(lambda: ch.has_legend)],
    "gstop": sel_gstops,
    "point_label": lambda s: [K(sn + ".point.data_label", lambda pts=pts, i=i: pts[i].data_label) for sn, pts, i in _points(s)],
    "axis_title": lambda s: [K(nm + ".axis_title", lambda ax=ax: ax.axis_title) for nm, ax in _axes(s) if _safe(lambda: ax.has_title)],
    "ticklabels": lambda s: [K(nm + ".tick_labels", lambda ax=ax: ax.tick_labels) for nm, ax in _axes(s)],
    "picture": lambda s: [K("picture", lambda sh=sh: sh) for sh in _kind(s, "PICTURE")],
    "connector": lambda s: [K("connector", lambda sh=sh: sh) for sh in all_shapes(s) if hasattr(sh, "begin_connect")],
    "autoshape": lambda s: [K("autoshape", lambda sh=sh: sh) for sh in all_shapes(s) if hasattr(sh, "adjustments")],
    "slide": lambda s: [K("slide", lambda: s)],
    "shadow": lambda s: [K("shape.shadow", lambda sh=sh: sh.shadow) for sh in all_shapes(s) if type(sh).__name__ != "GraphicFrame" and hasattr(sh, "shadow")],
    "container": sel_containers,
    "placeholder": lambda s: [K("placeholder", lambda p=p: p) for p in _safe(lambda: list(s.placeholders), [])],
    "row": lambda s: [K("row", lambda r=r: r) for t in _tables(s) for r in list(t.rows)[:3]],
    "column": lambda s: [K("column", lambda c=c: c) for t in _tables(s) for c in list(t.columns)[:3]],
}


# ============================================================================ operation catalogue
def _enums():
    import pptx.enum.chart as ec
    import pptx.enum.dml as ed
    import pptx.enum.lang as el
    import pptx.enum.shapes as es
    import pptx.enum.text as et
    return ec, ed, el, es, et


def SETTERS():
    """(selector, attribute, value generator)"""
    ec, ed, el, es, et = _enums()
    E = pick_enum
    return [
        ("shape", "name", g_str), ("shape", "left", g_len), ("shape", "top", g_len), ("shape", "width", g_len),
        ("shape", "height", g_len), ("shape", "rotation", lambda r: g_float(r, -720.0, 720.0)),
        ("shape", "text", g_str),
        ("shadow", "inherit", g_bool3),
        ("picture", "crop_left", lambda r: g_float(r, -1.0, 1.0)), ("picture", "crop_right", lambda r: g_float(r, -1.0, 1.0)),
        ("picture", "crop_top", lambda r: g_float(r, -1.0, 1.0)), ("picture", "crop_bottom", lambda r: g_float(r, 0.0, 1.0)),
        ("picture", "auto_shape_type", lambda r: E(r, es.MSO_SHAPE)),
        ("connector", "begin_x", g_len), ("connector", "begin_y", g_len), ("connector", "end_x", g_len), ("connector", "end_y", g_len),
        ("text_frame", "text", g_str), ("text_frame", "word_wrap", g_bool3), ("text_frame", "auto_size", lambda r: E(r, et.MSO_AUTO_SIZE, 0.15)),
        ("text_frame", "margin_left", g_len), ("text_frame", "margin_right", g_len), ("text_frame", "margin_top", g_len),
        ("text_frame", "margin_bottom", g_len), ("text_frame", "vertical_anchor", lambda r: E(r, et.MSO_VERTICAL_ANCHOR, 0.15)),
        ("paragraph", "text", g_str), ("paragraph", "alignment", lambda r: E(r, et.PP_PARAGRAPH_ALIGNMENT, 0.15)),
        ("paragraph", "level", lambda r: r.choice([0, 1, 4, 8, 9, -1, None, "1", 2.0, True])),
        ("paragraph", "line_spacing", lambda r: r.choice([1.0, 1.5, 0.0, 132.0, 132.1, -1.0, {"pt": 12}, {"pt": 1584}, {"pt": 1585}, {"pt": -1}, None, "x", 2])),
        ("paragraph", "space_before", lambda r: r.choice([{"pt": 0}, {"pt": 6}, {"pt": 1584}, {"pt": 1585}, {"pt": -1}, None, 1.5, "x", 12700])),
        ("paragraph", "space_after", lambda r: r.choice([{"pt": 0}, {"pt": 6}, {"pt": 1584}, {"pt": 1585}, {"pt": -1}, None, 1.5, "x", 12700])),
        ("run", "text", g_str),
        ("font", "size", lambda r: r.choice([{"pt": 1}, {"pt": 12}, {"pt": 4000}, {"pt": 4001}, {"pt": 0}, {"pt": -5}, None, 12, 12.5, "12", 50800, 12699])),
        ("font", "bold", g_bool3), ("font", "italic", g_bool3),
        ("font", "underline", lambda r: g_bool3(r) if r.random() < 0.4 else E(r, et.MSO_TEXT_UNDERLINE_TYPE)),
        ("font", "name", g_str), ("font", "language_id", lambda r: E(r, el.MSO_LANGUAGE_ID, 0.15)),
        ("color", "rgb", g_rgb), ("color", "theme_color", lambda r: E(r, ed.MSO_THEME_COLOR, 0.15)),
        ("color", "brightness", lambda r: g_float(r, -1.0, 1.0)),
        ("fill", "gradient_angle", lambda r: g_float(r, -360.0, 720.0)), ("fill", "pattern", lambda r: E(r, ed.MSO_PATTERN_TYPE, 0.15)),
        ("gstop", "position", lambda r: g_float(r, 0.0, 1.0)),
        ("bgfill", "gradient_angle", lambda r: g_float(r, -360.0, 720.0)), ("bgfill", "pattern", lambda r: E(r, ed.MSO_PATTERN_TYPE, 0.15)),
        ("bgcolor", "rgb", g_rgb), ("bgcolor", "theme_color", lambda r: E(r, ed.MSO_THEME_COLOR, 0.15)),
        ("bgcolor", "brightness", lambda r: g_float(r, -1.0, 1.0)),
        ("line", "width", g_len), ("line", "dash_style", lambda r: E(r, ed.MSO_LINE_DASH_STYLE, 0.15)),
        ("hyperlink", "address", lambda r: r.choice(["http://example.com/a?b=1&c=2", "", None, "mailto:x@y.z", "file:///c:/x y.txt", 5, "http://é.com/\u4e2d"])),
        ("cell", "text", g_str), ("cell", "margin_left", g_len), ("cell", "margin_top", g_len), ("cell", "margin_right", g_len),
        ("cell", "margin_bottom", g_len), ("cell", "vertical_anchor", lambda r: E(r, et.MSO_VERTICAL_ANCHOR, 0.15)),
        ("table", "first_row", g_bool3), ("table", "first_col", g_bool3), ("table", "last_row", g_bool3), ("table", "last_col", g_bool3),
        ("table", "horz_banding", g_bool3), ("table", "vert_banding", g_bool3),
        ("row", "height", g_len), ("column", "width", g_len),
        ("slide", "follow_master_background", lambda r: r.choice([True, False, None, 1])), ("slide", "name", g_str),
        ("chart", "has_legend", g_bool3), ("chart", "has_title", g_bool3), ("chart", "chart_style", lambda r: r.choice([1, 2, 10, 48, 0, 49, -1, None, "3", 2.5])),
        ("legend", "position", lambda r: E(r, ec.XL_LEGEND_POSITION, 0.15)), ("legend", "include_in_layout", g_bool3),
        ("legend", "horz_offset", lambda r: g_float(r, -1.0, 1.0)),
        ("axis", "has_major_gridlines", g_bool3), ("axis", "has_minor_gridlines", g_bool3), ("axis", "has_title", g_bool3),
        ("axis", "visible", g_bool3), ("axis", "major_tick_mark", lambda r: E(r, ec.XL_TICK_MARK, 0.15)),
        ("axis", "minor_tick_mark", lambda r: E(r, ec.XL_TICK_MARK, 0.15)), ("axis", "maximum_scale", lambda r: g_float(r, -1e6, 1e6)),
        ("axis", "minimum_scale", lambda r: g_float(r, -1e6, 1e6)), ("axis", "major_unit", lambda r: g_float(r, 0.0, 1e4)),
        ("axis", "minor_unit", lambda r: g_float(r, 0.0, 1e4)), ("axis", "tick_label_position", lambda r: E(r, ec.XL_TICK_LABEL_POSITION, 0.15)),
        ("axis", "reverse_order", g_bool3), ("axis", "crosses", lambda r: E(r, ec.XL_AXIS_CROSSES, 0.15)),
        ("axis", "crosses_at", lambda r: g_float(r, -100.0, 100.0)),
        ("axis_title", "has_text_frame", g_bool3),
        ("ticklabels", "number_format", g_str), ("ticklabels", "number_format_is_linked", g_bool3),
        ("ticklabels", "offset", lambda r: r.choice([0, 100, 1000, 1001, -1, None, "5", 50.5])),
        ("plot", "has_data_labels", g_bool3), ("plot", "vary_by_categories", g_bool3),
        ("plot", "gap_width", lambda r: r.choice([0, 150, 500, 501, -1, None, "5", 50.5])),
        ("plot", "overlap", lambda r: r.choice([-100, 0, 100, 101, -101, None, "5", 50.5])),
        ("plot", "bubble_scale", lambda r: r.choice([0, 100, 300, 301, -1, None, "5", 50.5])),
        ("series", "smooth", g_bool3), ("series", "invert_if_negative", g_bool3),
        ("marker", "size", lambda r: r.choice([2, 7, 72, 73, 1, 0, None, "5", 5.5])), ("marker", "style", lambda r: E(r, ec.XL_MARKER_STYLE, 0.15)),
        ("dlabels", "number_format", g_str), ("dlabels", "number_format_is_linked", g_bool3),
        ("dlabels", "position", lambda r: E(r, ec.XL_LABEL_POSITION, 0.15)), ("dlabels", "show_value", g_bool3),
        ("dlabels", "show_category_name", g_bool3), ("dlabels", "show_legend_key", g_bool3), ("dlabels", "show_percentage", g_bool3),
        ("dlabels", "show_series_name", g_bool3),
        ("point_label", "has_text_frame", g_bool3), ("point_label", "position", lambda r: E(r, ec.XL_LABEL_POSITION, 0.15)),
    ]


def CALLS():
    """(selector, method, argument-list generator)"""
    return [
        ("fill", "solid", lambda r: []), ("fill", "background", lambda r: []), ("fill", "gradient", lambda r: []),
        ("fill", "patterned", lambda r: []),
        ("bgfill", "solid", lambda r: []), ("bgfill", "background", lambda r: []), ("bgfill", "gradient", lambda r: []),
        ("bgfill", "patterned", lambda r: []), ("bgfill", "__type__", lambda r: []),
        ("slide", "__get_fmb__", lambda r: []),
        ("text_frame", "add_paragraph", lambda r: []), ("text_frame", "clear", lambda r: []),
        ("paragraph", "add_run", lambda r: []), ("paragraph", "add_line_break", lambda r: []), ("paragraph", "clear", lambda r: []),
        ("cell", "split", lambda r: []),
        ("autoshape", "__adjust__", lambda r: [r.randint(0, 3), g_float(r, -2.0, 2.0)]),
        ("point_label", "__text__", lambda r: [g_str(r)]), ("axis_title", "__text__", lambda r: [g_str(r)]),
        ("chart", "__title_text__", lambda r: [g_str(r)]),
        ("point_label", "__font_size__", lambda r: [r.choice([{"pt": 10}, {"pt": 4001}, None])]),
        ("slide", "__notes__", lambda r: [g_str(r)]),
    ]


def chart_data_args(rng):
    """JSON description of chart data"""
    ec = _enums()[0]
    from pptx.chart.xmlwriter import ChartXmlWriter  # noqa
    members = list(ec.XL_CHART_TYPE)
    ct = rng.choice(members)
    ood = False
    try:
        from pptx.chart.data import CategoryChartData
        ChartXmlWriter(ct, CategoryChartData())
    except NotImplementedError:
        ood = True          # a chart type the library documents as not supported
    except Exception:  # noqa
        pass
    ncat, nser = rng.choice([0, 1, 2, 3, 5]), rng.choice([0, 1, 1, 2, 3])
    kind = rng.choice(["str", "str", "num", "date", "multi"])
    vals = [[rng.choice([None, 0, 1, -2.5, 3.25, 1e10, 7]) for _ in range(ncat)] for _ in range(nser)]
    return {"type": ct.name, "ncat": ncat, "nser": nser, "cats": kind, "vals": vals,
            "names": [rng.choice(["S", "Series <&> \"q\"", "", "é"]) + str(i) for i in range(nser)],
            "number_format": rng.choice([None, "General", "0.00", '#,##0 "x"']), "ood": ood}


def build_chart_data(a):
    import datetime
    from pptx.chart.data import BubbleChartData, CategoryChartData, XyChartData
    name = a["type"]
    nf = a.get("number_format")
    kw = {} if nf is None else {"number_format": nf}
    if name.startswith("XY_"):
        d = XyChartData(**kw)
        for nm, vs in zip(a["names"], a["vals"]):
            s = d.add_series(nm)
            for i, v in enumerate(vs):
                s.add_data_point(i * 1.5, v)
        return d
    if name.startswith("BUBBLE"):
        d = BubbleChartData(**kw)
        for nm, vs in zip(a["names"], a["vals"]):
            s = d.add_series(nm)
            for i, v in enumerate(vs):
                s.add_data_point(i * 1.5, v, 1 + i)
        return d
    d = CategoryChartData(**kw)
    n = a["ncat"]
    if a["cats"] == "num":
        d.categories = [1.5 * i for i in range(n)]
    elif a["cats"] == "date":
        d.categories = [datetime.date(2020, 1 + i % 12, 1) for i in range(n)]
    elif a["cats"] == "multi":
        d.categories = ["c%d" % i for i in range(n)]
        for c in d.categories:
            c.add_sub_category("s1")
            c.add_sub_category("s2 <&>")
    else:
        d.categories = [["a", "b & c", "", "<d>", "é"][i % 5] for i in range(n)]
    for nm, vs in zip(a["names"], a["vals"]):
        d.add_series(nm, vs)
    return d


def gen_op(rng, nslides_hint):
    """one random operation (JSON-able dict)"""
    ec, ed, el, es, et = _enums()
    r = rng.random()
    s = rng.randint(0, 40)
    k = rng.randint(0, 200)
    if r < 0.30:
        kind = rng.choice(["add_shape", "add_textbox", "add_picture", "add_connector", "add_group", "add_freeform", "add_table",
                           "add_chart", "add_chart", "add_movie", "add_ole", "add_slide", "ph_insert", "ph_insert", "connect", "merge",
                           "replace_data", "group_existing"])
        op = {"kind": kind, "s": s, "k": k}
        del _OOD[:]
        if kind == "add_shape":
            op["args"] = [g_enum_arg(rng, es.MSO_SHAPE)] + g_geom(rng)
        elif kind == "add_textbox":
            op["args"] = g_geom(rng)
        elif kind == "add_table":
            rc = [rng.choice([1, 2, 3, 6]), rng.choice([1, 2, 4])]
            if rng.random() < 0.08:
                _OOD.append(1)
                rc = [rng.choice([0, -1, 2.5, None, "2"]), rng.choice([0, 1, -3])]
            op["args"] = rc + g_geom(rng)
        elif kind == "add_picture":
            op["img"] = rng.choice(["png", "jpg", "gif", "png"])
            if rng.random() < 0.06:
                _OOD.append(1)
                op["img"] = "notimage"
            op["args"] = [g_pos(rng), g_pos(rng)] + rng.choice([[], [g_ext(rng)], [g_ext(rng), g_ext(rng)]])
        elif kind == "add_connector":
            # begin_x, begin_y, end_x, end_y: four coordinates
            op["args"] = [g_enum_arg(rng, es.MSO_CONNECTOR)] + [g_pos(rng) for _ in range(4)]
        elif kind == "add_freeform":
            op["start"] = [rng.randint(-100, 1000), rng.randint(-100, 1000)]
            op["scale"] = rng.choice([1.0, 100.0, 0.5, [2.0, 3.0]])
            op["segs"] = [[[rng.randint(-500, 2000), rng.randint(-500, 2000)] for _ in range(rng.randint(0, 4))] for _ in range(rng.randint(0, 2))]
            op["close"] = rng.random() < 0.5
            op["origin"] = [g_pos(rng), g_pos(rng)]
        elif kind == "add_chart":
            op["data"] = chart_data_args(rng)
            op["args"] = g_geom(rng)
        elif kind == "replace_data":
            op["data"] = chart_data_args(rng)
        elif kind == "add_movie":
            op["args"] = g_geom(rng)
            op["poster"] = rng.choice([None, "png", "jpg"])
            op["mime"] = rng.choice(["video/mp4", "video/unknown", "video/x-msvideo"])
        elif kind == "add_ole":
            op["prog"] = rng.choice([enc_enum(m) for m in es.PROG_ID] + ["Foo.Bar.1", "Word.Document.12"])
            op["args"] = [g_pos(rng), g_pos(rng)] + rng.choice([[], [g_ext(rng), g_ext(rng)]])
            op["icon"] = rng.choice([None, "png"])
        elif kind == "add_slide":
            op["layout"] = rng.randint(0, 30)
        elif kind == "ph_insert":
            op["what"] = rng.choice(["picture", "chart", "table"])
            op["img"] = rng.choice(["png", "jpg"])
            op["data"] = chart_data_args(rng)
            op["rc"] = [rng.choice([1, 2, 3]), rng.choice([1, 2])]
            if rng.random() < 0.08:
                _OOD.append(1)
                op["rc"] = [rng.choice([0, -1, None]), rng.choice([0, 1])]
        elif kind == "connect":
            op["j"] = rng.randint(0, 50)
            op["site"] = rng.choice([0, 1, 2, 3, 4, 9, -1])
            op["end"] = rng.choice(["begin", "end"])
        elif kind == "merge":
            op["a"] = [rng.randint(0, 3), rng.randint(0, 3)]
            op["b"] = [rng.randint(0, 3), rng.randint(0, 3)]
        elif kind == "group_existing":
            op["n"] = rng.randint(0, 3)
        if (kind == "add_chart" or (kind == "ph_insert" and op["what"] == "chart")) and op["data"].get("ood"):
            _OOD.append(1)
        if _OOD:
            op["ood"] = True      # a constructor-style argument outside its documented domain
        return op
    if r < 0.36:
        # background operations on the slide, its layout and its master
        pool = [t for t in CALLS_T if t[0] == "bgfill"] + [t for t in SETTERS_T if t[0] in ("bgfill", "bgcolor")] + \
               [t for t in SETTERS_T if t[1] == "follow_master_background"] + [t for t in CALLS_T if t[1] == "__get_fmb__"]
        t = rng.choice(pool)
        if any(t is c for c in CALLS_T):
            return {"kind": "call", "s": s, "k": k, "sel": t[0], "meth": t[1], "args": t[2](rng)}
        return {"kind": "set", "s": s, "k": k, "sel": t[0], "attr": t[1], "val": t[2](rng)}
    if r < 0.46:
        sel, meth, g = rng.choice(CALLS_T)
        return {"kind": "call", "s": s, "k": k, "sel": sel, "meth": meth, "args": g(rng)}
    sel, attr, g = rng.choice(SETTERS_T)
    return {"kind": "set", "s": s, "k": k, "sel": sel, "attr": attr, "val": g(rng)}


SETTERS_T = None
CALLS_T = None


def init_tables():
    global SETTERS_T, CALLS_T
    if SETTERS_T is None:
        SETTERS_T = SETTERS()
        CALLS_T = CALLS()


def op_name(op):
    via = op.get("via") or op.get("sel")
    if op["kind"] == "set":
        return "%s.%s" % (via, op["attr"])
    if op["kind"] == "call":
        return "%s.%s" % (via, op["meth"].strip("_"))
    if op["kind"] == "ph_insert":
        return "placeholder.insert_" + op["what"]
    if op["kind"] == "foreign":
        return "<state:%s>" % op["what"]
    return op["kind"]


def sig_op(op, err):
    """operation kind used in a signature: the coarse kind (selector.attribute), or -- when the
    offending element was created by a getter on the way to the object (c:marker under a series
    that cannot have one) -- the route up to that getter"""
    via = op.get("via") or ""
    local = err[1].split("/@")[0].split(":")[-1]
    local = {"bgPr": "background", "bg": "background", "bgRef": "background"}.get(local, local)
    segs = via.split(".")
    if local in segs:
        return ".".join(segs[: segs.index(local) + 1])
    if op["kind"] == "set":
        return "%s.%s" % (op["sel"], op["attr"])
    if op["kind"] == "call":
        return "%s.%s" % (op["sel"], op["meth"].strip("_"))
    return op_name(op)


def pick(lst, k):
    return lst[k % len(lst)] if lst else None


def exec_op(prs, op):
    """run one operation through the PUBLIC API; returns 'ok' | 'skip' ; raises what the API raises"""
    slides = prs.slides
    kind = op["kind"]
    if kind == "add_slide":
        lay = prs.slide_layouts
        slides.add_slide(lay[op["layout"] % len(lay)])
        return "ok"
    if len(slides) == 0:
        return "skip"
    slide = slides[op["s"] % len(slides)]
    k = op["k"]
    if kind == "foreign":
        cand = pick(SELECTORS[op["sel"]](slide), k)
        if cand is None:
            return "skip"
        op["via"] = cand[0]
        return "ok" if FOREIGN[op["what"]][1](cand[1]()) else "skip"
    if kind == "set":
        cand = pick(SELECTORS[op["sel"]](slide), k)
        if cand is None:
            return "skip"
        op["via"] = cand[0]
        obj = cand[1]()
        setattr(obj, op["attr"], dec(op["val"]))
        return "ok"
    if kind == "call":
        cand = pick(SELECTORS[op["sel"]](slide), k)
        if cand is None:
            return "skip"
        op["via"] = cand[0]
        obj = cand[1]()
        a = [dec(x) for x in op["args"]]
        m = op["meth"]
        if m == "__adjust__":
            n = len(obj.adjustments)
            if n == 0:
                return "skip"
            obj.adjustments[a[0] % n] = a[1]
        elif m == "__text__":
            obj.text_frame.text = a[0]
        elif m == "__title_text__":
            obj.chart_title.text_frame.text = a[0]
        elif m == "__font_size__":
            obj.font.size = a[0]
        elif m == "__type__":
            obj.type                     # reading the fill type through a freshly resolved .background.fill
        elif m == "__get_fmb__":
            obj.follow_master_background
        elif m == "__notes__":
            obj.notes_slide.notes_text_frame.text = a[0]
        else:
            getattr(obj, m)(*a)
        return "ok"
    cand = pick(sel_containers(slide), k)
    cont = cand[1]()
    op["via"] = cand[0]
    a = [dec(x) for x in op.get("args", [])]
    if kind == "add_shape":
        cont.add_shape(*a)
    elif kind == "add_textbox":
        cont.add_textbox(*a)
    elif kind == "add_picture":
        cont.add_picture(blob(op["img"]), *a)
    elif kind == "add_connector":
        cont.add_connector(*a)
    elif kind == "add_group":
        cont.add_group_shape()
    elif kind == "group_existing":
        shs = [sh for sh in cont if not _safe(lambda: sh.is_placeholder)][: op["n"]]
        cont.add_group_shape(shs)
    elif kind == "add_freeform":
        sc = op["scale"]
        fb = cont.build_freeform(op["start"][0], op["start"][1], scale=tuple(sc) if isinstance(sc, list) else sc)
        for seg in op["segs"]:
            fb.add_line_segments([tuple(p) for p in seg], close=op["close"])
            fb.move_to(seg[0][0] + 5, seg[0][1] + 7) if seg else None
        fb.convert_to_shape(dec(op["origin"][0]), dec(op["origin"][1]))
    elif kind == "add_table":
        if not hasattr(cont, "add_table"):
            cont = slide.shapes
            op["via"] = "slide.shapes"
        cont.add_table(*a)
    elif kind == "add_chart":
        ec = _enums()[0]
        cont.add_chart(ec.XL_CHART_TYPE[op["data"]["type"]], *a, build_chart_data(op["data"]))
    elif kind == "replace_data":
        ch = pick(_charts(slide), k)
        if ch is None:
            return "skip"
        d = dict(op["data"])
        d["type"] = ch.chart_type.name
        ch.replace_data(build_chart_data(d))
    elif kind == "add_movie":
        sh = slide.shapes
        op["via"] = "slide.shapes"
        sh.add_movie(blob("movie"), *a, poster_frame_image=blob(op["poster"]) if op["poster"] else None, mime_type=op["mime"])
    elif kind == "add_ole":
        sh = cont if hasattr(cont, "add_ole_object") else slide.shapes
        if sh is not cont:
            op["via"] = "slide.shapes"
        extra = a[2:] if len(a) > 2 else []
        sh.add_ole_object(blob("ole"), dec(op["prog"]), a[0], a[1], *extra, icon_file=blob(op["icon"]) if op["icon"] else None)
    elif kind == "ph_insert":
        want = {"picture": "insert_picture", "chart": "insert_chart", "table": "insert_table"}[op["what"]]
        phs = [p for p in _safe(lambda: list(slide.placeholders), []) if hasattr(p, want)]
        ph = pick(phs, k)
        if ph is None:
            return "skip"
        if op["what"] == "picture":
            ph.insert_picture(blob(op["img"]))
        elif op["what"] == "chart":
            ec = _enums()[0]
            ph.insert_chart(ec.XL_CHART_TYPE[op["data"]["type"]], build_chart_data(op["data"]))
        else:
            ph.insert_table(*op["rc"])
    elif kind == "connect":
        cx = pick([sh for sh in all_shapes(slide) if hasattr(sh, "begin_connect")], k)
        tg = pick([sh for sh in slide.shapes if hasattr(sh, "adjustments") or _safe(lambda: sh.has_text_frame)], op["j"])
        if cx is None or tg is None:
            return "skip"
        (cx.begin_connect if op["end"] == "begin" else cx.end_connect)(tg, op["site"])
    elif kind == "merge":
        t = pick(_tables(slide), k)
        if t is None:
            return "skip"
        nr, nc = len(t.rows), len(t.columns)
        t.cell(op["a"][0] % nr, op["a"][1] % nc).merge(t.cell(op["b"][0] % nr, op["b"][1] % nc))
    else:
        raise KeyError("unknown op kind " + kind)
    return "ok"


def _robust(f):
    def g(slide):
        try:
            return f(slide)
        except Exception:  # noqa
            return []
    return g


SELECTORS = {k: _robust(v) for k, v in SELECTORS.items()}


def gen_op_live(rng, prs):
    """generate an operation that has a target in the current state (most of the time)"""
    n = len(prs.slides)
    if n == 0 or rng.random() < 0.04:
        return {"kind": "add_slide", "s": 0, "k": 0, "layout": rng.randint(0, 30)}
    for _ in range(6):
        op = gen_op(rng, n)
        if op["kind"] in ("set", "call"):
            slide = prs.slides[op["s"] % n]
            if not SELECTORS[op["sel"]](slide):
                continue
        elif op["kind"] == "replace_data" and not _charts(prs.slides[op["s"] % n]):
            continue
        elif op["kind"] == "merge" and not _tables(prs.slides[op["s"] % n]):
            continue
        elif op["kind"] == "connect" and not SELECTORS["connector"](prs.slides[op["s"] % n]):
            continue
        elif op["kind"] == "ph_insert":
            want = {"picture": "insert_picture", "chart": "insert_chart", "table": "insert_table"}[op["what"]]
            if not [p for p in _safe(lambda: list(prs.slides[op["s"] % n].placeholders), []) if hasattr(p, want)]:
                if rng.random() < 0.8:
                    continue
        return op
    return op


# ============================================================================ start states python-pptx never writes
A_NS = "http://schemas.openxmlformats.org/drawingml/2006/main"


def _a(fragment):
    from lxml import etree
    return etree.fromstring('<a:x xmlns:a="%s">%s</a:x>' % (A_NS, fragment))[0]


def _swap(parent, old_local, fragment):
    """replace the child a:<old_local> of parent by the schema-valid fragment (same position)"""
    old = parent.find("{%s}%s" % (A_NS, old_local)) if parent is not None else None
    if old is None:
        return False
    new = _a(fragment)
    old.addprevious(new)
    parent.remove(old)
    return True


def _foreign_gradpath(fill):
    """a path (radial / rectangular) gradient, as PowerPoint writes it: a:gradFill/a:path instead of a:lin"""
    fill.gradient()
    g = fill._xPr.find("{%s}gradFill" % A_NS)
    return _swap(g, "lin", '<a:path path="circle"><a:fillToRect l="50000" t="50000" r="50000" b="50000"/></a:path>')


def _foreign_custdash(line):
    """a custom dash pattern: a:ln/a:custDash, the other member of the choice with a:prstDash"""
    import pptx.enum.dml as ed
    line.dash_style = ed.MSO_LINE_DASH_STYLE.DASH
    return _swap(line._ln, "prstDash", '<a:custDash><a:ds d="300000" sp="100000"/></a:custDash>')


def _foreign_sysclr(fill):
    """a solid fill whose colour is a system colour (a:sysClr), a member of the colour choice python-pptx never writes"""
    from pptx.dml.color import RGBColor
    fill.solid()
    fill.fore_color.rgb = RGBColor(1, 2, 3)
    sf = fill._xPr.find("{%s}solidFill" % A_NS)
    return _swap(sf, "srgbClr", '<a:sysClr val="windowText" lastClr="000000"/>')


def _foreign_prstclr(fill):
    fill.solid()
    from pptx.dml.color import RGBColor
    fill.fore_color.rgb = RGBColor(1, 2, 3)
    sf = fill._xPr.find("{%s}solidFill" % A_NS)
    return _swap(sf, "srgbClr", '<a:prstClr val="red"><a:alpha val="50000"/></a:prstClr>')


# name -> (selector whose object is put into the state, injector(object) -> bool, selectors whose operations follow)
FOREIGN = {
    "gradpath": ("fill", _foreign_gradpath, ("fill", "gstop")),
    "custdash": ("line", _foreign_custdash, ("line",)),
    "sysclr": ("fill", _foreign_sysclr, ("fill", "color")),
    "prstclr": ("fill", _foreign_prstclr, ("fill", "color")),
}


# the elements each injector puts in (errors anywhere else during the injection belong to python-pptx's own calls)
FOREIGN_TAGS = {"gradpath": ("a:path", "a:fillToRect"), "custdash": ("a:custDash", "a:ds"), "sysclr": ("a:sysClr",),
                "prstclr": ("a:prstClr", "a:alpha")}


def foreign_ops(what, k, rng):
    """setup, then for every operation of the follow-up selectors: put candidate k into the foreign state (the
    harness does that with lxml: a schema-valid state that only other producers write) and apply the operation"""
    sel, _inj, follow = FOREIGN[what]
    ops = pair_setup_ops()
    table = [("set", t) for t in SETTERS_T if t[0] in follow] + [("call", t) for t in CALLS_T if t[0] in follow]
    for kind, t in table:
        ops.append({"kind": "foreign", "s": PAIR_SLIDE, "k": k, "sel": sel, "what": what, "harness": True})
        # the follow-up operation addresses the same object: the fill itself, or (colour / stop selectors) the first
        # candidate derived from it -- candidates of those selectors are listed in the order of sel_fills
        kk = k if t[0] == sel else None
        for _ in range(2):
            if kind == "set":
                ops.append({"kind": "set", "s": PAIR_SLIDE, "k": k if kk is not None else rng.randint(0, 40), "sel": t[0], "attr": t[1], "val": t[2](rng)})
            else:
                ops.append({"kind": "call", "s": PAIR_SLIDE, "k": k if kk is not None else rng.randint(0, 40), "sel": t[0], "meth": t[1], "args": t[2](rng)})
            if kk is not None:
                break
    return ops


# ============================================================================ ordered pairs of operations on ONE object
PAIR_SLIDE = 3      # index of the slide the setup operations populate (the generated start deck has three slides)


def pair_setup_ops():
    """explicit operations that give every selector a target on one fresh blank slide of the generated deck"""
    bar = {"type": "BAR_CLUSTERED", "ncat": 3, "nser": 2, "cats": "str", "vals": [[1, 2.5, None], [3, 0, 7]], "names": ["S0", "S1"],
           "number_format": None, "ood": False}
    line = dict(bar, type="LINE_MARKERS")
    bub = dict(bar, type="BUBBLE")
    xy = dict(bar, type="XY_SCATTER")
    geom = [914400, 914400, 1828800, 914400]
    S = PAIR_SLIDE
    st = lambda sel, attr, val, k=0: {"kind": "set", "s": S, "k": k, "sel": sel, "attr": attr, "val": val}      # noqa: E731
    cl = lambda sel, meth, args, k=0: {"kind": "call", "s": S, "k": k, "sel": sel, "meth": meth, "args": args}  # noqa: E731
    ops = [{"kind": "add_slide", "s": 0, "k": 0, "layout": 6}]
    ops += [{"kind": "add_shape", "s": S, "k": 0, "args": [enc_enum(_enums()[3].MSO_SHAPE.ROUNDED_RECTANGLE)] + geom},
            {"kind": "add_textbox", "s": S, "k": 0, "args": geom},
            {"kind": "add_picture", "s": S, "k": 0, "img": "png", "args": [0, 0]},
            {"kind": "add_connector", "s": S, "k": 0, "args": [enc_enum(_enums()[3].MSO_CONNECTOR.STRAIGHT), 0, 0, 914400, 914400]},
            {"kind": "add_table", "s": S, "k": 0, "args": [2, 2] + geom},
            {"kind": "add_chart", "s": S, "k": 0, "data": bar, "args": geom},
            {"kind": "add_chart", "s": S, "k": 0, "data": line, "args": geom},
            {"kind": "add_chart", "s": S, "k": 0, "data": bub, "args": geom},
            {"kind": "add_chart", "s": S, "k": 0, "data": xy, "args": geom}]
    for k in range(4):
        ops += [st("chart", "has_legend", True, k), st("chart", "has_title", True, k)]
    for k in range(8):
        ops += [st("axis", "has_title", True, k), st("plot", "has_data_labels", True, k)]
    ops += [cl("paragraph", "add_run", [], k) for k in range(3)]
    ops += [cl("fill", "gradient", [], 0), st("hyperlink", "address", "http://example.com/", 0)]
    return ops


def euler_pairs(n):
    """a closed walk over n nodes that uses every ordered pair (i, j), loops included, exactly once (Hierholzer)"""
    nxt = [0] * n
    stack, out = [0], []
    while stack:
        v = stack[-1]
        if nxt[v] < n:
            w = nxt[v]
            nxt[v] += 1
            stack.append(w)
        else:
            out.append(stack.pop())
    return out[::-1]


def pair_ops(sel, k, rng):
    """setup + one walk in which every ordered pair of the selector's operations (setters and calls) is applied
    back to back to the SAME object (candidate k of the selector on the populated slide)"""
    table = [("set", t) for t in SETTERS_T if t[0] == sel] + [("call", t) for t in CALLS_T if t[0] == sel]
    ops = pair_setup_ops()
    if not table:
        return ops
    for i in euler_pairs(len(table)):
        kind, t = table[i]
        if kind == "set":
            ops.append({"kind": "set", "s": PAIR_SLIDE, "k": k, "sel": sel, "attr": t[1], "val": t[2](rng)})
        else:
            ops.append({"kind": "call", "s": PAIR_SLIDE, "k": k, "sel": sel, "meth": t[1], "args": t[2](rng)})
    return ops


def pair_jobs(start_idx, seed, rounds, cands):
    init_tables()
    sels = sorted({t[0] for t in SETTERS_T} | {t[0] for t in CALLS_T})
    jobs = []
    for rd in range(rounds):
        for sel in sels:
            n = len([t for t in SETTERS_T if t[0] == sel]) + len([t for t in CALLS_T if t[0] == sel])
            if n < 2:
                continue
            for k in range(cands):
                jobs.append((start_idx + len(jobs), GENERATED, seed * 1000003 + 7919 * (start_idx + len(jobs)), ("pairs", sel, k)))
    return jobs


# ============================================================================ mutation tracing
class Tracer:
    """wraps the tree-mutating methods of BaseOxmlElement and records, per call coming from
    library code outside oxml/xmlchemy.py, the site (file, function, primitive)"""

    PRIMS = ("insert_element_before", "append", "addprevious", "addnext", "insert", "replace", "remove", "set")

    def __init__(self):
        self.sites = {}
        self.installed = False

    def install(self):
        from lxml import etree
        from pptx.oxml.xmlchemy import BaseOxmlElement

        if self.installed:
            return
        self.installed = True
        src = os.path.join(REPO, "src", "pptx") + os.sep
        sites = self.sites

        def wrap(name, orig):
            def f(self_, *a, **kw):
                fr = sys._getframe(1)
                fn = fr.f_code.co_filename
                if fn.startswith(src) and not fn.endswith("oxml/xmlchemy.py"):
                    key = "%s|%s|%s" % (fn[len(src):], getattr(fr.f_code, "co_qualname", fr.f_code.co_name).replace(".<locals>", ""), name)
                    sites[key] = sites.get(key, 0) + 1
                return orig(self_, *a, **kw)
            f.__name__ = name
            return f

        for name in self.PRIMS:
            orig = getattr(BaseOxmlElement, name, None)
            if orig is None:
                continue
            base = BaseOxmlElement.__dict__.get(name) or getattr(etree._Element, name)
            setattr(BaseOxmlElement, name, wrap(name, base))


def known_site_keys():
    """(file, function, primitive) triples of tx/c10_sites_known.json (receiver dropped)"""
    d = json.load(open(os.path.join(VERIF, "tx", "c10_sites_known.json")))
    out = set()
    for k in d:
        rel, fn, prim, _recv = k.split("|", 3)
        out.add("%s|%s|%s" % (rel, fn, prim))
    # extract-method forwarders (a helper that hands its parameter on to insert_element_before): tx_c10 attributes
    # them to their callers, which are the table's sites; at run time the call is seen inside the helper
    try:
        sys.path.insert(0, os.path.join(VERIF, "tx"))
        import tx_c10
        tx_c10.direct_sites()
        out.update(tx_c10.FORWARDERS)
    except Exception:  # noqa
        pass
    finally:
        if sys.path and sys.path[0] == os.path.join(VERIF, "tx"):
            sys.path.pop(0)
    return out


# ============================================================================ sequences
def corpus_decks():
    out = []
    for sub in ("src/pptx/templates", "tests/test_files", "features/steps/test_files"):
        d = os.path.join(REPO, sub)
        for f in sorted(os.listdir(d)):
            if f.endswith(".pptx"):
                out.append(os.path.join(sub, f))
    return out


GENERATED = "generated:bgref"
BGREF = ('<p:bg xmlns:p="http://schemas.openxmlformats.org/presentationml/2006/main" '
         'xmlns:a="http://schemas.openxmlformats.org/drawingml/2006/main">'
         '<p:bgRef idx="1001"><a:schemeClr val="bg1"/></p:bgRef></p:bg>')


def open_deck(rel):
    """a corpus deck, or the generated start deck: the default template with three slides, where every
    slide and every layout carries a theme-reference background p:bg/p:bgRef as PowerPoint writes it
    (first child of p:cSld); the template's master has one already"""
    from pptx import Presentation
    if rel != GENERATED:
        return Presentation(os.path.join(REPO, rel))
    from pptx.oxml import parse_xml
    prs = Presentation()
    for i in (0, 1, 6):
        prs.slides.add_slide(prs.slide_layouts[i])
    owners = [sl for sl in prs.slides] + [ly for ly in prs.slide_layouts]
    for o in owners:
        cSld = o._element.cSld
        if cSld.find("{http://schemas.openxmlformats.org/presentationml/2006/main}bg") is None:
            cSld.insert(0, parse_xml(BGREF))
    return prs


def new_errors(before, after):
    """error classes present after and not before"""
    b = set(map(tuple, before or []))
    return [tuple(e) for e in (after or []) if tuple(e) not in b]


def run_sequence(V, snap, deck, ops, rng=None, nops=0, record=None):
    """Execute ops (or generate nops with rng) on a fresh copy of deck.  After every operation
    every part is validated with libxml2.  Returns dict(ops, outcomes, events) where events are
    (op index, partname, new error classes, hash)."""
    prs = open_deck(deck)
    cur = snap.take(prs)
    base = dict(cur)
    # error classes ever seen per part in this run: libxml2 does not descend below an element whose
    # content model is violated, so an error can be masked for a while and must not count as new
    # when it shows again
    seen = {n: set(map(tuple, snap.lx.get(h) or [])) for n, h in cur.items()}
    events, outcomes, done, mutated, ood_acc, exc_funcs = [], [], [], [], [], []
    i = 0
    while True:
        if ops is not None:
            if i >= len(ops):
                break
            op = ops[i]
        else:
            if i >= nops:
                break
            op = gen_op_live(rng, prs)
        funcs = ()
        try:
            out = exec_op(prs, op)
        except Exception as e:  # noqa
            out = "exc:" + type(e).__name__
            funcs = tuple(fs.name for fs in traceback.extract_tb(e.__traceback__))
        done.append(op)
        outcomes.append(out)
        exc_funcs.append(funcs)
        nxt = snap.take(prs)
        # a constructor-style call given an argument outside its documented domain and NOT rejected is
        # outside the property's quantifier: counted, never blamed (the rejected-call clause applies
        # only when the call raises)
        silent_ood = bool(op.get("ood")) and not out.startswith("exc:") and out != "skip"
        if silent_ood:
            ood_acc.append(op_name(op))
        for name, h in nxt.items():
            old = cur.get(name)
            if old == h:
                continue
            if silent_ood:
                seen.setdefault(name, set()).update(map(tuple, snap.lx.get(h) or []))
                continue
            ne = [e for e in new_errors(snap.lx.get(old) if old else [], snap.lx.get(h)) if e not in seen.get(name, ())]
            seen.setdefault(name, set()).update(map(tuple, snap.lx.get(h) or []))
            if ne:
                events.append((i, name, ne, h))
        if out.startswith("exc:") and nxt != cur:
            mutated.append((i, op_name(op), out))
        cur = nxt
        i += 1
    res = {"deck": deck, "ops": done, "outcomes": outcomes, "events": events, "mutated_after_exception": mutated,
           "ood_accepted": ood_acc, "exc_funcs": exc_funcs,
           "final": cur, "base": base}
    if record is not None:
        record["prs"] = prs
    return res


def final_save_check(V, prs):
    """observe_at: members of the saved zip.  -> list of (member, classes)"""
    import zipfile
    bad = []
    buf = io.BytesIO()
    prs.save(buf)
    z = zipfile.ZipFile(io.BytesIO(buf.getvalue()))
    for i in z.infolist():
        if not i.filename.endswith((".xml", ".rels")):
            continue
        try:
            root = V.etree.fromstring(z.read(i))
        except Exception as e:  # noqa
            bad.append((i.filename, [("other", "not well-formed: %s" % str(e)[:60])]))
            continue
        pre = V.tx.mc_preprocess(root)
        sch = V.schema_for_root(pre)
        if sch is None:
            continue
        cl = V.lx_classes(sch, pre)
        if cl:
            bad.append((i.filename, cl))
    from pptx import Presentation
    try:
        Presentation(io.BytesIO(buf.getvalue()))
    except Exception as e:  # noqa
        bad.append(("<reopen>", [("other", "saved package does not re-open: %r" % e)]))
    return bad


def shrink(V, snap, deck, ops, want, sig=None):
    """delta debugging: a minimal subsequence after which error class `want` newly appears (under the
    same signature, when one is given)"""
    def fails(sub):
        r = run_sequence(V, snap, deck, [dict(o) for o in sub])
        for i, _n, ne, _h in r["events"]:
            for x in ne:
                if tuple(x) == tuple(want) and (sig is None or base_sig(r, i, x)[0] == sig):
                    return True
        return False

    cur = list(ops)
    n = 2
    while len(cur) >= 2:
        chunk = max(1, len(cur) // n)
        reduced = False
        for st in range(0, len(cur), chunk):
            sub = cur[:st] + cur[st + chunk:]
            if sub and fails(sub):
                cur = sub
                n = max(n - 1, 2)
                reduced = True
                break
        if not reduced:
            if chunk == 1:
                break
            n = min(len(cur), n * 2)
    return cur


# ============================================================================ worker
_W = {}


def _worker_init():
    init_tables()
    _W["V"] = Validators()
    _W["snap"] = Snap(_W["V"])
    try:
        _W["known_sigs"] = {e.get("signature") for e in json.load(open(os.environ.get("VERIF_KF") or os.path.join(VERIF, "known_findings.json")))
                            if e.get("property") == "C03" and e.get("status") == "known"}
    except Exception:  # noqa
        _W["known_sigs"] = set()
    _W["tracer"] = Tracer()
    _W["tracer"].install()


def _worker(job):
    """job = (sequence index, deck, seed, nops) -> compact result"""
    idx, deck, seed, nops = job
    import random
    V, snap = _W["V"], _W["snap"]
    rng = random.Random(seed)
    rec = {}
    try:
        if isinstance(nops, tuple) and nops[0] == "foreign":
            r = run_sequence(V, snap, deck, foreign_ops(nops[1], nops[2], rng), record=rec)
        elif isinstance(nops, tuple):
            r = run_sequence(V, snap, deck, pair_ops(nops[1], nops[2], rng), record=rec)
        else:
            r = run_sequence(V, snap, deck, None, rng, nops, record=rec)
    except Exception as e:  # noqa
        return {"idx": idx, "deck": deck, "crash": traceback.format_exc()[-1500:]}
    found = []
    seen = set()
    overflow_candidates = []
    harness_bad = []
    for (j, name, ne, h) in r["events"]:
        if r["ops"][j].get("harness"):
            # putting an object into a foreign state = python-pptx calls that reach the object (judged like any other
            # operation: the route may itself create something, e.g. c:marker under a bubble series) + an lxml swap by the
            # harness (the harness is at fault only for errors at the elements IT put in)
            mine = FOREIGN_TAGS.get(r["ops"][j].get("what"), ())
            hb = [e for e in ne if str(e[1]).split("/@")[0] in mine]
            if hb:
                harness_bad.append((op_name(r["ops"][j]), name, [list(e) for e in hb]))
            ne = [e for e in ne if e not in hb]
            if not ne:
                continue
        for e in ne:
            sig, cand_over = base_sig(r, j, e)
            if sig in seen:
                continue
            seen.add(sig)
            if cand_over:
                overflow_candidates.append(len(found))
            found.append({"sig": sig, "op_index": j, "part": name, "error": list(e), "outcome": r["outcomes"][j]})
    # shrink each distinct signature of this sequence (the minimal sequence must show the SAME signature)
    for f in found:
        try:
            mini = shrink(V, snap, deck, r["ops"][: f["op_index"] + 1], f["error"], f["sig"])
        except Exception:  # noqa
            mini = r["ops"][: f["op_index"] + 1]
        f["min_ops"] = mini
    for idx_f in overflow_candidates:
        f = found[idx_f]
        if any(o.get("ood") for o in f["min_ops"]):
            continue
        try:
            _part, msgs, _frag, _oc = find_part_for(V, snap, deck, f["min_ops"], f["error"])
        except Exception:  # noqa
            msgs = []
        vals = []
        for m in msgs:
            mm = re.search(r"(?:value |': )'(-?[0-9]+)'", m)
            vals.append(int(mm.group(1)) if mm else None)
        lo = 0 if f["error"][1].startswith("a:ext") else CMIN
        if vals and all(v is not None and (v < lo or v > CMAX) for v in vals):
            # every argument in its documented domain, the WRITTEN value outside the coordinate range
            f["sig"] = f["sig"].replace(":rejected|", ":rejected-in-group|") + "|derived-overflow"
    save_bad = []
    try:
        save_bad = final_save_check(V, rec["prs"])
    except Exception as e:  # noqa
        save_bad = [("<save>", [("other", "save raised %r" % e)])]
    # only what the in-memory validation did not already see
    known_final = set()
    for h in r["final"].values():
        for e in (snap.lx.get(h) or []):
            known_final.add(tuple(e))
    save_new = [(m, [list(c) for c in cl if tuple(c) not in known_final]) for m, cl in save_bad]
    save_new = [(m, cl) for m, cl in save_new if cl]
    # Coq verdicts for every snapshot this worker has not judged yet
    snap.flush()
    dis = []
    for h, (cv, ccl) in snap.cq.items():
        if h in _W.setdefault("reported", set()):
            continue
        _W["reported"].add(h)
        lx = snap.lx.get(h)
        if lx is None:
            continue
        if (not lx) != cv:
            dis.append({"hash": h, "lx": [list(x) for x in lx], "coq_valid": cv, "coq": [list(x) for x in ccl],
                        "explained": explained(lx, cv)})
    nsnap = len(_W["reported"]) - _W.get("counted", 0)
    _W["counted"] = _W.get("counted", 0) + nsnap
    base_bad = {n: [list(x) for x in snap.lx.get(h) or []] for n, h in r["base"].items() if snap.lx.get(h)}
    return {"idx": idx, "deck": deck, "ops": r["ops"], "outcomes": r["outcomes"], "found": found, "save_new": save_new, "harness_bad": harness_bad,
            "mutated": r["mutated_after_exception"], "ood_accepted": r["ood_accepted"], "disagreements": dis, "nsnap": nsnap, "base_bad": base_bad,
            "sites": dict(_W["tracer"].sites), "nparts": len(r["final"]),
            "changed": sum(1 for n, h in r["final"].items() if r["base"].get(n) != h)}


def base_sig(r, j, e):
    """signature of one event of a run: (operation kind[:qualifier] | error class | element tag);
    second component: candidate for the derived-overflow refinement (decided on the written value)"""
    opj, outj = r["ops"][j], r["outcomes"][j]
    opk = sig_op(opj, e)
    tagp = e[1].split("/@")[0] if e[0] == "attr-value" else e[1]
    sig = "%s|%s|%s" % (opk, e[0], tagp)
    kd = opj["kind"]
    ctor = kd.startswith("add_") or kd in ("ph_insert", "group_existing")
    geom = e[0] == "attr-value" and tagp in ("a:off", "a:ext")
    if ctor and outj.startswith("exc:") and sig not in _W.get("known_sigs", ()):
        # a constructor-style call that raised AFTER it had changed the tree
        by_group = (outj in ("exc:ValueError", "exc:TypeError") and opj.get("via") == "group.shapes" and geom
                    and any("recalculate_extents" in fn for fn in r["exc_funcs"][j]))
        if by_group and opj.get("ood"):
            return "%s:rejected-in-group|%s|%s" % (opk, e[0], tagp), False
        return "%s:rejected|%s|%s" % (opk, e[0], tagp), bool(by_group and not opj.get("ood"))
    if ctor and not outj.startswith("exc:") and geom and not opj.get("ood"):
        return sig, True
    return sig, False


def find_part_for(V, snap, deck, ops, want):
    """replay helper: run ops, return (partname, messages, element xml) where `want` shows"""
    rec = {}
    r = run_sequence(V, snap, deck, ops, record=rec)
    for (j, name, ne, h) in r["events"]:
        if tuple(want) in [tuple(x) for x in ne]:
            if name == "<package>":
                return name, ["the package can no longer be walked or saved: " + str(ne[0][1])], "", r["outcomes"]
            root = export_parts(rec["prs"], V).get(name)
            msgs, frag = [], ""
            if root is not None:
                pre = V.tx.mc_preprocess(V.etree.fromstring(V.etree.tostring(root)))
                sch = V.schema_for_root(pre)
                if sch is not None and not sch.validate(pre):
                    for e in sch.error_log:
                        if tuple(V.classify(e.message)) == tuple(want):
                            msgs.append(re.sub(r"\{[^}]*\}", "", e.message)[:300])
                            if not frag:
                                try:
                                    ns = {}
                                    for x in pre.iter():
                                        for pf, uri in (x.nsmap or {}).items():
                                            if pf:
                                                ns.setdefault(pf, uri)
                                    hit = pre.getroottree().xpath(e.path, namespaces=ns)
                                    if hit:
                                        el = hit[0] if e.path.endswith("]") or "@" not in e.path else hit[0].getparent()
                                        par = el.getparent() if "not expected" in e.message and el.getparent() is not None else el
                                        frag = re.sub(r' xmlns:\w+="[^"]*"', "", V.etree.tostring(par).decode())[:600]
                                except Exception:  # noqa
                                    pass
            return name, msgs[:3], frag, r["outcomes"]
    return None, [], "", r["outcomes"]


# ============================================================================ xop model ~ xmlchemy (tree level)
def xop_correspondence(V, rng, ntrees, nops):
    """Random sequences of the tree-level operation language on real lxml elements built from the
    library's own templates, through the metaclass-generated methods (_insert_x, get_or_add_x,
    _remove_x) and the attribute properties; the same sequences on the extracted model.
    -> (cases, diffs, admissible_cases, notes)"""
    import tx_c03
    import tx_c10
    import tx_c11
    from pptx.oxml.xmlchemy import OxmlElement

    unm = []
    els = [(n, e) for n, e, _t, c in tx_c03.element_templates(unm) if c]
    tmeta = {t["name"]: t for t in V.meta["templates"]}
    els = [(n, e) for n, e in els if n in tmeta]
    tag_ids, attr_ids = V.tag_ids, V.attr_ids
    cases, expect = [], []

    def path_of(root, el):
        p = []
        while el is not root:
            par = el.getparent()
            p.append([k for k in par if isinstance(k.tag, str)].index(el))
            el = par
        return p[::-1]

    for _ in range(ntrees):
        name, el0 = els[rng.randrange(len(els))]
        root = copy.deepcopy(el0)
        start = V.stream(root)
        ops_stream, trace = [], []
        for _j in range(nops):
            cands = [e for e in root.iter() if isinstance(e.tag, str) and hasattr(e, "insert_element_before")]
            e = cands[rng.randrange(len(cands))]
            path = path_of(root, e)
            ds = {k: v for k, v in tx_c10.class_decls(type(e)).items() if not v[3]}
            ads = tx_c11.attr_decls(type(e))
            choice = rng.random()
            if ds and choice < 0.6:
                mname = sorted(ds)[rng.randrange(len(ds))]
                ctag, S, kind, _c = ds[mname]
                x = mname[len("_insert_"):]
                Sids = [tag_ids.get(t, 999999) for t in S]
                what = rng.choice(["ins", "goa", "rem"])
                try:
                    if what == "ins":
                        child = OxmlElement(ctag)
                        getattr(e, "_insert_" + x)(child)
                        ops_stream += [len(path)] + path + [1] + V.stream(child) + [len(Sids)] + Sids
                    elif what == "goa" and hasattr(e, "get_or_add_" + x) and hasattr(e, "_new_" + x):
                        child = getattr(e, "_new_" + x)()
                        cs = V.stream(child)
                        getattr(e, "get_or_add_" + x)()
                        ops_stream += [len(path)] + path + [2] + cs + [len(Sids)] + Sids
                    elif what == "rem" and hasattr(e, "_remove_" + x):
                        getattr(e, "_remove_" + x)()
                        ops_stream += [len(path)] + path + [3, 1, tag_ids.get(ctag, 999999)]
                    else:
                        continue
                    trace.append((what, ctag, path))
                except Exception as ex:  # noqa
                    trace.append(("exc", what, ctag, repr(ex)[:60]))
                    break
            elif ads:
                pname = sorted(ads)[rng.randrange(len(ads))]
                aname, st, akind, _d = ads[pname]
                val = rng.choice([0, 1, 5, 914400, -3, "x", "ctr", True, None, 2.5, "FF0000", 100000])
                try:
                    txt = st.to_xml(val) if val is not None else None
                    refused = 0
                except Exception:  # noqa
                    txt, refused = "", 1
                a_id = attr_ids.get(aname, 999999)
                try:
                    setattr(e, pname, val)
                    did = "ok"
                except Exception as ex:  # noqa
                    did = "exc"
                if val is None:
                    if did == "exc":      # required attribute refuses None before touching the tree
                        continue
                    ops_stream += [len(path)] + path + [6, a_id]
                else:
                    if (did == "exc") != (refused == 1):
                        trace.append(("setter/to_xml mismatch", pname, repr(val)))
                        break
                    # OptionalAttribute assigned its default removes the attribute
                    from pptx.oxml.ns import qn
                    present = e.get(qn(aname) if ":" in aname else aname)
                    if refused == 0 and present is None:
                        ops_stream += [len(path)] + path + [6, a_id]
                    else:
                        ops_stream += [len(path)] + path + [5, a_id, refused, len(txt)] + [ord(ch) for ch in txt]
                trace.append(("set", pname, repr(val), did))
        f = lambda s_: ",".join(str(ord(ch)) for ch in s_)
        cases.append("%s\t%s\t%s\t%s" % (f("ops"), f(str(tmeta[name]["ty"])), ",".join(map(str, start)), ",".join(map(str, ops_stream)) or "-"))
        expect.append((name, trace, V.stream(root)))
    import subprocess
    p = subprocess.run([os.path.join(COQ, "extract", "run_c03")], input=("\n".join(cases) + "\n").encode("ascii"),
                       stdout=subprocess.PIPE, stderr=subprocess.PIPE, timeout=1800)
    outs = p.stdout.decode().split("\n")[:-1]
    diffs, adm, notes, broken_thm = 0, 0, [], 0
    for (name, trace, want), o in zip(expect, outs):
        parts = o.split("|")
        if len(parts) != 4:
            diffs += 1
            notes.append("badcase on %s %s: %s" % (name, trace[:4], o[:60]))
            continue
        before, alladm, after, tree = parts
        got = [int(x) for x in tree.split()]
        if got != want:
            diffs += 1
            if len(notes) < 5:
                notes.append("tree diff on %s after %s" % (name, trace))
        if before == "True" and alladm == "True":
            adm += 1
            if after != "True":
                broken_thm += 1
    return len(cases), diffs, adm, broken_thm, notes


# ============================================================================ Coq side: diagnostics
def diag_rows():
    """diag/Diag_C03.v prints, per template the validator rejects, id :: 7701 :: errors; rows of
    the declaration instance that fail: 7702 / 7703"""
    rc, out = _run(["timeout", "900", "coqc", "-Q", ".", "V", "diag/Diag_C03.v"], cwd=COQ)
    if rc != 0:
        return None, out
    res = {"tpl": [], "decl": [], "attr": [], "attr_nj": []}
    for blk in re.split(r"\n\s*=\s", "\n" + out):
        nums = [int(x) for x in re.findall(r"(\d+)%N", blk)]
        rows = []
        for m in re.finditer(r"\[([^\[\]]*)\]", blk):
            ns = [int(x) for x in re.findall(r"(\d+)%N", m.group(1))]
            if ns:
                rows.append(ns)
        for ns in rows:
            if len(ns) >= 2 and ns[1] == 7701:
                res["tpl"].append((ns[0], ns[2:]))
            elif ns[0] == 7702:
                res["decl"] = ns[1:]
            elif ns[0] == 7703:
                res["attr"] = ns[1:]
            elif ns[0] == 7704:
                res["attr_nj"] = ns[1:]
    return res, out


def ensure_runner(ck):
    """the validator runner does not depend on the instance proofs: keep it current even when an
    obligation fails (coq_build only rebuilds it after a successful build)"""
    ml = os.path.join(COQ, "extract", "c03.ml")
    exe = os.path.join(COQ, "extract", "run_c03")
    if os.path.exists(ml) and ((not os.path.exists(exe)) or os.path.getmtime(exe) < os.path.getmtime(ml)):
        rc, o = _run(["./extract/build.sh", "c03"], cwd=COQ)
        if rc != 0:
            ck.notes.append("runner build failed: " + o[-300:])


def jobs_for(tier, seed):
    decks = corpus_decks()
    default = decks[0]
    jobs = []
    if tier == "quick":
        nseq, nops = 480, 10
    else:
        nseq, nops = 12000, 10
    others = decks[1:]
    for i in range(nseq):
        if i % 8 == 5:
            deck = GENERATED
        elif tier == "quick":
            deck = default if i % 3 == 0 else others[(i - i // 3 - 1) % len(others)]
        else:
            deck = default if i % 4 == 0 else others[i % len(others)]
        jobs.append((i, deck, seed * 1000003 + i, nops if i % 7 else nops * 2))
    # every ordered pair of operations of one selector, back to back on the same object
    jobs += pair_jobs(len(jobs), seed, 2 if tier == "quick" else 8, 2 if tier == "quick" else 4)
    # states only other producers write (path gradients, custom dashes, system / preset colours), then every operation
    for what in sorted(FOREIGN):
        for k in ((0, 3, 7) if tier == "quick" else range(14)):      # background fills first, then shapes, cells, fonts, series
            jobs.append((len(jobs), GENERATED, seed * 1000003 + 104729 * len(jobs), ("foreign", what, k)))
    return jobs


def run(ck, tier, rng):
    t_start = time.time()
    # 1. translate
    rc, out = _run(["/venv/bin/python", os.path.join(VERIF, "tx", "tx_c03.py")], cwd=VERIF)
    if rc != 0:
        ck.violation("translator", "tx_c03 failed on the current tree: " + out[-600:],
                     {"theorem_or_correspondence": "translator tx_c03 (model regeneration)"}, concrete=False)
        return ck.finish("translator failed", TB, ASSUME)
    ck.notes.append(out.strip().split("\n")[-1])
    # 2. prove
    ck.build = coq_build("C03", extra_targets=["gen/GenC03.vo"])
    ensure_runner(ck)
    init_tables()
    V = Validators()
    meta = V.meta
    tnames = {t["id"]: t for t in meta["templates"]}
    concrete = 0
    for u in meta["unmodelled"]:
        ck.violation("unmodelled:" + u[:100], "translator met a construct outside the model: " + u,
                     {"theorem_or_correspondence": "C03_no_unmodelled", "construct": u}, concrete=False)
    # 3. diagnostics: templates the validator rejects, replayed with libxml2
    diag, dout = diag_rows()
    if diag is None:
        ck.notes.append("diagnostics did not compile: " + dout[-300:])
        diag = {"tpl": [], "decl": [], "attr": [], "attr_nj": []}
    tpl_findings = {}
    els = None
    for tid, nums in diag["tpl"]:
        t = tnames.get(tid)
        if t is None or not t["complete"]:
            continue
        for i in range(0, len(nums) - 3, 4):
            k, el, what, _pos = nums[i:i + 4]
            eln = meta["tag_names"].get(str(el), "?")
            if k in (2, 3, 4):
                sig = "template-attr:%s/@%s" % (eln, meta["attr_names"].get(str(what), "?"))
            elif k == 1:
                sig = "template-content:%s/%s" % (eln, meta["tag_names"].get(str(what), "end") if what else "end")
            else:
                sig = "template-%s:%s" % (KIND.get(k, "other"), eln)
            tpl_findings.setdefault(sig, []).append(t["name"])
    if tpl_findings:
        import tx_c03
        unm = []
        els = {n: e for n, e, _t, _c in tx_c03.file_templates(unm) + tx_c03.element_templates(unm) + tx_c03.chart_templates(unm)}
    for sig, names in sorted(tpl_findings.items()):
        t = next(x for x in meta["templates"] if x["name"] == names[0])
        lx = None
        try:
            pre = V.tx.mc_preprocess(els[names[0]])
            lx = V.lx_by_type(pre, t["type"])
        except Exception as e:  # noqa
            lx = [("other", repr(e))]
        rec = {"entry_point": names[0], "input": {"template": names[0], "xsd_type": t["type"], "all_templates": names[:40]},
               "model_outcome": "valid_node = false: " + sig, "impl_outcome": {"libxml2": lx}, "replay_kind": "template"}
        if lx:
            concrete += 1
            ck.violation(sig, "%d template(s) the library builds are not schema-valid (%s), e.g. %s: libxml2 says %s" % (
                len(names), sig, names[0], lx[:3]), rec)
        else:
            ck.violation("template-unconfirmed:" + sig, "Coq validator rejects template %s (%s) but libxml2 accepts it" % (names[0], sig),
                         dict(rec, theorem_or_correspondence="C03_templates_valid"), concrete=False)
    # declaration / attribute rows of the operation-theorem instance that fail
    for did in diag["decl"]:
        d = meta["decls"][did]
        ck.violation("decl:" + d["sig"], "declaration %s (successors %s) is rejected by decl_ok against %s: an insertion can land out of schema order "
                     "(see C10 for the witness context)" % (d["sig"], d["succ"], d["type"]),
                     {"theorem_or_correspondence": "C03_decls_admissible", "input": d}, concrete=False)
    for aid in diag["attr"]:
        a = meta["adecls"][aid]
        ck.violation("attr-write:" + a["sig"], "attribute %s: descriptor %s can write outside the lexical space of %s (see C11)" % (
            a["sig"], a["desc"][:60], a["type"]), {"theorem_or_correspondence": "C03_attrs_admissible", "input": a}, concrete=False)
    # 3b. the tree-level operation model against the real xmlchemy methods
    xo = (0, 0, 0, 0, [])
    try:
        xo = xop_correspondence(V, rng, 400 if tier == "quick" else 3000, 6)
        for i in range(xo[0]):
            ck.count(("xop", i), True, "xop-sequence")
        if xo[1] or xo[3]:
            ck.violation("correspondence-xop", "model/XmlValid.v apply_op and the generated xmlchemy methods disagree on %d of %d operation sequences "
                         "(%d admissible sequences broke order_valid): %s" % (xo[1], xo[0], xo[3], xo[4][:2]),
                         {"theorem_or_correspondence": "correspondence XmlValid.apply_op ~ oxml/xmlchemy.py on real lxml trees", "notes": xo[4]},
                         concrete=False)
    except Exception:  # noqa
        ck.notes.append("xop correspondence crashed: " + traceback.format_exc()[-400:])
    # 4. observed part
    jobs = jobs_for(tier, ck.seed)
    nproc = 8 if tier == "quick" else 16
    ctx = multiprocessing.get_context("fork")
    with ctx.Pool(nproc, initializer=_worker_init) as pool:
        results = pool.map(_worker, jobs, chunksize=max(1, len(jobs) // (nproc * 6)))
    known_sites = known_site_keys()
    sites, set_sites, rem_sites = {}, {}, {}
    findings = {}
    dis_bad, dis_expl, nsnap = [], 0, 0
    base_bad = {}
    mutated = {}
    save_new = {}
    ood_accepted = {}
    for r in results:
        if "crash" in r:
            ck.violation("harness-sequence-crash", "sequence %d on %s crashed the harness: %s" % (r["idx"], r["deck"], r["crash"][-300:]),
                         {"theorem_or_correspondence": "observed part (harness)", "traceback": r["crash"]}, concrete=False)
            continue
        for op, outc in zip(r["ops"], r["outcomes"]):
            klass = op_name(op) + (":rejected" if outc.startswith("exc") else ":skipped" if outc == "skip" else "")
            ck.count((r["deck"], json.dumps(op, sort_keys=True, default=str)), outc != "skip", klass)
        for hb in r.get("harness_bad", [])[:1]:
            ck.violation("harness-foreign-state", "the start state %s put in place by the harness is itself not schema-valid in %s: %s" % tuple(hb),
                         {"theorem_or_correspondence": "observed part (harness: foreign start states)", "detail": hb}, concrete=False)
        for f in r["found"]:
            findings.setdefault(f["sig"], []).append((len(f["min_ops"]), r["deck"], f))
        for k, v in r["sites"].items():
            prim = k.split("|")[2]
            tgt = set_sites if prim == "set" else rem_sites if prim == "remove" else sites
            tgt[k] = max(tgt.get(k, 0), v)
        for d in r["disagreements"]:
            if d["explained"]:
                dis_expl += 1
            else:
                dis_bad.append((r["deck"], d))
        for n, cl in r["base_bad"].items():
            base_bad.setdefault(r["deck"], {})[n] = cl
        for nm in r.get("ood_accepted", []):
            ood_accepted[nm] = ood_accepted.get(nm, 0) + 1
        for (i, nm, outc) in r["mutated"]:
            mutated["%s %s" % (nm, outc)] = mutated.get("%s %s" % (nm, outc), 0) + 1
        for m, cl in r["save_new"]:
            for c in cl:
                save_new.setdefault("save|%s|%s" % (c[0], c[1]), (r["deck"], m, r["ops"]))
    for r in results[:3] + results[len(results) // 2: len(results) // 2 + 2]:
        if "ops" in r:
            ck.sample({"deck": r["deck"], "ops": [op_name(o) for o in r["ops"]], "outcomes": r["outcomes"]}, limit=6)
    snap = Snap(V)
    for sig, lst in sorted(findings.items()):
        lst.sort(key=lambda x: (x[0], x[1] != corpus_decks()[0], x[1]))
        n, deck, f = lst[0]
        part, msgs, frag, outcomes = find_part_for(V, snap, deck, f["min_ops"], f["error"])
        rejected = bool(outcomes) and outcomes[-1].startswith("exc")
        what = "%s: after %s %s part %s newly fails %s at %s%s; libxml2: %s" % (
            sig, "the REJECTED call" if rejected else "the call", op_name(f["min_ops"][-1]), part or f["part"], f["error"][0], f["error"][1],
            " (call raised %s)" % outcomes[-1][4:] if rejected else "", (msgs or ["?"])[0])
        concrete += 1
        ck.violation(sig, what, {"entry_point": "public API: " + " ; ".join(op_name(o) for o in f["min_ops"]),
                                 "input": {"deck": deck, "ops": f["min_ops"], "error": f["error"]},
                                 "impl_outcome": {"part": part, "libxml2": msgs, "element": frag, "outcomes": outcomes},
                                 "occurrences": len(lst), "replay_kind": "sequence"})
    for sig, (deck, member, ops) in sorted(save_new.items()):
        concrete += 1
        ck.violation(sig, "member %s of the saved package fails validation (%s) though the in-memory parts did not" % (member, sig),
                     {"entry_point": "Presentation.save", "input": {"deck": deck, "ops": ops, "member": member}, "replay_kind": "save"})
    # correspondence Coq validator ~ libxml2
    if dis_bad:
        deck, d = dis_bad[0]
        ck.violation("correspondence", "the extracted Coq validator and libxml2 disagree on %d exported parts (not covered by a documented model limit), "
                     "e.g. a part of %s: libxml2=%s coq_valid=%s coq=%s" % (len(dis_bad), deck, d["lx"][:3], d["coq_valid"], d["coq"][:3]),
                     {"theorem_or_correspondence": "correspondence model/XmlValid.v + tx_c03 ~ libxml2 XSD validation",
                      "input": {"deck": deck}, "model_outcome": d["coq"], "impl_outcome": d["lx"]}, concrete=False)
    # mutation paths
    unknown = sorted(k for k in sites if k not in known_sites)
    for k in unknown:
        ck.violation("unmodelled-mutation-path:" + k, "unmodelled mutation path: the public API inserted into the tree through %s, a site "
                     "tx/c10_sites_known.json does not know" % k,
                     {"theorem_or_correspondence": "decomposition of the public API into modelled primitives (C10 site table)", "site": k},
                     concrete=False)
    any_concrete = concrete > 0
    ck.broken_build(oracle_found_concrete=any_concrete)
    nseq = len([r for r in results if "ops" in r])
    return ck.finish(
        rule="random public-API operation sequences (%d sequences x 10 or 20 operations, generated against the live state so that most operations have a target; "
             "default template every 3rd/4th sequence, every corpus deck round-robin, every 8th sequence a generated start deck whose slides and layouts carry p:bg/p:bgRef; "
             "background operations on slide, layout and master have their own share of the alphabet; plus, per kind of object, walks on a populated slide in which every ORDERED PAIR of that kind's setters and methods is applied back to back to the same object, and every operation of fills, stops, colours and lines applied to objects the harness first puts into a schema-valid state only other producers write: path gradient, custom dash, system colour, preset colour); after EVERY operation every XML part is serialised and validated "
             "(libxml2 oracle; Coq validator for correspondence), and the saved package at the end of every sequence; non-trivial = the operation had a target "
             "(was executed or rejected)" % nseq,
        trusted_base=TB, assumptions=ASSUME,
        extra={"sequences": nseq, "decks": len(corpus_decks()), "templates_checked": len(meta["templates"]),
               "template_elements": sum(t["size"] for t in meta["templates"]),
               "schema_types": meta["n_types"], "lexical_limits": meta["lex_limits"], "xsd_not_compiled_by_libxml2": V.not_compiled,
               "correspondence_parts_compared": sum(r.get("nsnap", 0) for r in results),
               "correspondence_diffs": len(dis_bad), "correspondence_explained_by_model_limits": dis_expl,
               "preexisting_invalid_parts": {d: v for d, v in sorted(base_bad.items())},
               "mutated_after_exception": mutated, "out_of_domain_accepted": ood_accepted,
               "mutation_sites_seen": sorted(sites), "direct_set_sites": sorted(set_sites), "direct_remove_sites": sorted(rem_sites),
               "decl_rows": len(meta["decls"]), "attr_rows": len(meta["adecls"]), "attr_rows_not_judged": len(diag["attr_nj"]),
               "observed_findings": sorted(findings), "exhaustive": False,
               "xop_sequences": xo[0], "xop_tree_diffs": xo[1], "xop_admissible_sequences": xo[2], "wall_observed_s": round(time.time() - t_start, 1)},
    )


def replay(rec):
    init_tables()
    V = Validators()
    kind = rec.get("replay_kind")
    inp = rec.get("input", {})
    if kind == "template":
        import tx_c03
        unm = []
        els = {n: e for n, e, _t, _c in tx_c03.file_templates(unm) + tx_c03.element_templates(unm) + tx_c03.chart_templates(unm)}
        el = V.tx.mc_preprocess(els[inp["template"]])
        lx = V.lx_by_type(el, inp["xsd_type"])
        tid = V.meta["types"][inp["xsd_type"]]
        cq = V.coq_cases([(tid, V.stream(el))])[0]
        print("template", inp["template"], "at", inp["xsd_type"])
        print("libxml2:", lx or "valid")
        print("coq    :", "valid" if cq[0] else cq[1])
        return 1 if lx else 0
    if kind in ("sequence", "save"):
        snap = Snap(V)
        if kind == "save":
            r = {}
            run_sequence(V, snap, inp["deck"], inp["ops"], record=r)
            bad = final_save_check(V, r["prs"])
            print(bad)
            return 1 if bad else 0
        part, msgs, frag, outcomes = find_part_for(V, snap, inp["deck"], inp["ops"], inp["error"])
        print("deck     :", inp["deck"])
        for o, oc in zip(inp["ops"], outcomes):
            print("op       :", json.dumps(o, default=str), "->", oc)
        print("part     :", part)
        print("libxml2  :", msgs)
        print("element  :", frag)
        return 1 if part else 0
    print("nothing to replay for", rec.get("signature"))
    return 0


CLAIM = {
    "tech": "PARTIAL. Coq: verified-by-computation validator over schema tables regenerated from the XSDs (vm_compute over every shipped/constant-built template), generic invariant theorem for the xmlchemy operation language at tree level (from C10 decl_ok_sound and C11 write_ok_sound) with its instance over the live declarations. Observed: random public-API operation sequences with libxml2 XSD validation after every operation + Coq-validator/libxml2 correspondence.",
    "text": "C03_templates_valid: every XML part of default.pptx, templates/*.xml, every parse_xml/new_* element template (benign arguments) and the chart XML of all 29 writable chart types x data grid is accepted by valid_node (children match the content model via cm_match, attributes declared, lexically valid and required ones present, recursively), modulo recorded deviations which are proved real. C03_ops_preserve_order: for every tree, every path and every sequence of InsertChild/GetOrAdd/Remove/ChangeTo/SetAttr/DelAttr operations that are admissible (decl_ok / write_ok), the order invariant (rank-sorted children, exclusive choice members, lexically valid declared attributes) is preserved; C03_rejected_noop: a refused attribute write leaves the tree unchanged. Whether each PUBLIC API call decomposes into those primitives and keeps occurrence constraints is OBSERVED: after every operation of random sequences over the default template and all corpus decks each part is validated by libxml2 against the ISO/IEC 29500-4 XSDs; the Coq validator runs on the same parts and must agree.",
    "note": "Partial by design (DESIGN 6/C03): public-API histories are sampled, not quantified over. Coq validator limits: unmodelled pattern facets, string-like builtin types, no identity constraints, lax handling of undeclared wildcard content; libxml2 cannot compile opc-coreProperties.xsd offline (core.xml judged by the Coq validator only).",
    "ref": "6/C03",
}
