From Coq Require Import Extraction ExtrOcamlBasic.
From V.model Require Import IdsRun.
Extraction Language OCaml.
Cd "extract".
Extraction "c06.ml" run_c06.
Cd "..".
