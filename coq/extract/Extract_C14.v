From Coq Require Import Extraction ExtrOcamlBasic.
From V.model Require Import TableRun.
Extraction Language OCaml.
Cd "extract".
Extraction "c14.ml" run_c14.
Cd "..".
