(** Diagnostics: which declarations the decision procedure rejects, with witness
    contexts.  Contains no obligations, so it compiles whenever gen does. *)
From V.lib Require Import Prelude.
From V.model Require Import Schema Xmlchemy.
From V.proofs Require Import C10_proofs.
From V.gen Require Import GenC10.
Definition failing := filter (fun ck => negb (ck_decl_ok ck)) checks.
(* one row per failing check: id :: 7777 :: witness context *)
Eval vm_compute in map (fun ck => ck_id ck :: 7777%N :: ck_witness ck) failing.
