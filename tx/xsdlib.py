"""Structural reading of the ISO/IEC 29500 XSDs shipped in /repo/spec (shared by the
translators).  Syntax-directed and low-trust: groups and extension bases are inlined,
nothing is interpreted — ranks, validity etc. are computed in Coq from the emitted terms.
"""
import collections
import os

from lxml import etree

REPO = os.environ.get("VERIF_REPO", "/repo")
XS = "{http://www.w3.org/2001/XMLSchema}"
XSD_DIRS = [
    (REPO + "/spec/ISO-IEC-29500-4/xsd/", [
        "pml.xsd", "dml-main.xsd", "dml-chart.xsd", "dml-picture.xsd", "shared-commonSimpleTypes.xsd",
        "shared-relationshipReference.xsd", "dml-chartDrawing.xsd",
        "shared-documentPropertiesExtended.xsd", "shared-documentPropertiesVariantTypes.xsd"]),
    (REPO + "/spec/ISO-IEC-29500-2/opc-xsd/", [
        "opc-contentTypes.xsd", "opc-coreProperties.xsd", "opc-relationships.xsd"]),
]
NSPFX = {
    "http://schemas.openxmlformats.org/presentationml/2006/main": "p",
    "http://schemas.openxmlformats.org/drawingml/2006/main": "a",
    "http://schemas.openxmlformats.org/drawingml/2006/chart": "c",
    "http://schemas.openxmlformats.org/drawingml/2006/picture": "pic",
    "http://schemas.openxmlformats.org/officeDocument/2006/relationships": "r",
    "http://schemas.openxmlformats.org/officeDocument/2006/sharedTypes": "s",
    "http://schemas.openxmlformats.org/drawingml/2006/chartDrawing": "cdr",
    "http://schemas.openxmlformats.org/package/2006/content-types": "ct",
    "http://schemas.openxmlformats.org/package/2006/metadata/core-properties": "cp",
    "http://schemas.openxmlformats.org/package/2006/relationships": "pr",
    "http://schemas.openxmlformats.org/officeDocument/2006/extended-properties": "ep",
    "http://schemas.openxmlformats.org/officeDocument/2006/docPropsVTypes": "vt",
    "http://purl.org/dc/elements/1.1/": "dc",
    "http://purl.org/dc/terms/": "dcterms",
    "http://www.w3.org/XML/1998/namespace": "xml",
}


class Schemas:
    def __init__(self):
        self.ctypes = {}   # (pfx, name) -> (elem, nsmap, pfx)
        self.stypes = {}
        self.groups = {}
        self.gelems = {}
        self.agroups = {}
        self.gattrs = {}
        self.unmodelled = []
        for d, files in XSD_DIRS:
            for f in files:
                root = etree.parse(d + f).getroot()
                tns = root.get("targetNamespace")
                pfx = NSPFX.get(tns)
                if pfx is None:
                    self.unmodelled.append("xsd namespace without prefix: %s" % tns)
                    continue
                form = root.get("elementFormDefault", "unqualified")
                for e in root:
                    if not isinstance(e.tag, str):
                        continue
                    key = (pfx, e.get("name"))
                    rec = (e, root.nsmap, pfx, form)
                    if e.tag == XS + "complexType":
                        self.ctypes[key] = rec
                    elif e.tag == XS + "simpleType":
                        self.stypes[key] = rec
                    elif e.tag == XS + "group":
                        self.groups[key] = rec
                    elif e.tag == XS + "element":
                        self.gelems[key] = rec
                    elif e.tag == XS + "attributeGroup":
                        self.agroups[key] = rec
                    elif e.tag == XS + "attribute":
                        self.gattrs[key] = rec
        self._cm_cache = {}
        self.tag_types = collections.defaultdict(set)  # "a:pPr" -> {(pfx, typename)}
        for q in self.ctypes:
            acc = {}
            self._child_types(self.ctype_cm(q), acc)
            for t, tys in acc.items():
                for ty in tys:
                    if ty:
                        self.tag_types[t].add(ty)
        for q, (e, nsmap, pfx, _f) in self.gelems.items():
            if e.get("type"):
                self.tag_types["%s:%s" % q].add(self.qn(e.get("type"), nsmap, pfx))

    def qn(self, s, nsmap, pfx):
        if ":" in s:
            p, n = s.split(":")
            uri = nsmap[p]
            if uri == "http://www.w3.org/2001/XMLSchema":
                return ("xsd", n)
            return (NSPFX.get(uri, "?" + uri), n)
        # unprefixed QName: default namespace if declared, else target namespace
        if None in nsmap and nsmap[None] != "http://www.w3.org/2001/XMLSchema":
            return (NSPFX.get(nsmap[None], pfx), s)
        if None in nsmap:
            return ("xsd", s)
        return (pfx, s)

    @staticmethod
    def occ(e):
        mn = int(e.get("minOccurs", "1"))
        mx = e.get("maxOccurs", "1")
        return mn, (None if mx == "unbounded" else int(mx))

    def cm_of(self, e, nsmap, pfx):
        """('elt', tag, type) | ('seq', [..]) | ('alt', [..]) | ('rep', mn, mx, cm) | ('any',)"""
        tag = e.tag

        def wrap(c):
            mn, mx = self.occ(e)
            return c if (mn, mx) == (1, 1) else ("rep", mn, mx, c)

        kids = [c for c in e if isinstance(c.tag, str) and c.tag != XS + "annotation"]
        if tag == XS + "element":
            if e.get("ref"):
                q = self.qn(e.get("ref"), nsmap, pfx)
                if q in self.gelems:
                    ge, gn, gp, _f = self.gelems[q]
                    ty = self.qn(ge.get("type"), gn, gp) if ge.get("type") else None
                else:
                    ty = None  # element of a schema we do not load (dc:, dcterms:)
                return wrap(("elt", "%s:%s" % q, ty))
            ty = self.qn(e.get("type"), nsmap, pfx) if e.get("type") else None
            return wrap(("elt", "%s:%s" % (pfx, e.get("name")), ty))
        if tag == XS + "sequence":
            return wrap(("seq", [self.cm_of(c, nsmap, pfx) for c in kids]))
        if tag == XS + "choice":
            return wrap(("alt", [self.cm_of(c, nsmap, pfx) for c in kids]))
        if tag == XS + "all":
            # xsd:all = each child at most once, any order: a repeatable choice is a superset
            return ("rep", 0, None, ("alt", [self.cm_of(c, nsmap, pfx) for c in kids]))
        if tag == XS + "group":
            q = self.qn(e.get("ref"), nsmap, pfx)
            g, gn, gp, _f = self.groups[q]
            inner = [c for c in g if c.tag in (XS + "sequence", XS + "choice", XS + "all")][0]
            return wrap(self.cm_of(inner, gn, gp))
        if tag == XS + "any":
            return wrap(("any",))
        raise ValueError("unexpected particle " + tag)

    def ctype_cm(self, q):
        if q in self._cm_cache:
            return self._cm_cache[q]
        e, nsmap, pfx, _f = self.ctypes[q]
        res = ("seq", [])
        for c in e:
            if c.tag in (XS + "sequence", XS + "choice", XS + "group", XS + "all"):
                res = self.cm_of(c, nsmap, pfx)
                break
            if c.tag == XS + "complexContent":
                ext = [x for x in c if isinstance(x.tag, str) and x.tag != XS + "annotation"][0]
                base = self.qn(ext.get("base"), nsmap, pfx)
                parts = [self.ctype_cm(base)] if base in self.ctypes else []
                if ext.tag == XS + "restriction":
                    parts = []
                for cc in ext:
                    if cc.tag in (XS + "sequence", XS + "choice", XS + "group", XS + "all"):
                        parts.append(self.cm_of(cc, nsmap, pfx))
                res = ("seq", [p for p in parts if p])
                break
        self._cm_cache[q] = res
        return res

    def _child_types(self, cm, acc):
        if cm[0] == "elt":
            acc.setdefault(cm[1], set()).add(cm[2])
        elif cm[0] == "rep":
            self._child_types(cm[3], acc)
        elif cm[0] in ("seq", "alt"):
            for c in cm[1]:
                self._child_types(c, acc)

    def cm_tags(self, cm, out=None):
        out = [] if out is None else out
        if cm[0] == "elt":
            out.append(cm[1])
        elif cm[0] == "any":
            out.append("#any")
        elif cm[0] == "rep":
            self.cm_tags(cm[3], out)
        else:
            for c in cm[1]:
                self.cm_tags(c, out)
        return out


class Interner:
    """tag string -> N (0 is reserved for xsd:any)"""

    def __init__(self):
        self.ids = {"#any": 0}

    def __call__(self, t):
        if t not in self.ids:
            self.ids[t] = len(self.ids)
        return self.ids[t]


def coq_cm(cm, intern):
    k = cm[0]
    if k == "elt":
        return "Elt %d" % intern(cm[1])
    if k == "any":
        return "Elt 0"
    if k == "seq":
        return "Seq [%s]" % "; ".join(coq_cm(c, intern) for c in cm[1])
    if k == "alt":
        return "Alt [%s]" % "; ".join(coq_cm(c, intern) for c in cm[1])
    if k == "rep":
        mx = "None" if cm[2] is None else "(Some %d%%nat)" % cm[2]
        return "Rep %d%%nat %s (%s)" % (cm[1], mx, coq_cm(cm[3], intern))
    raise ValueError(k)


def write_if_changed(path, text):
    try:
        if open(path, encoding="utf-8").read() == text:
            return False
    except OSError:
        pass
    os.makedirs(os.path.dirname(path), exist_ok=True)
    with open(path, "w", encoding="utf-8") as f:
        f.write(text)
    return True
