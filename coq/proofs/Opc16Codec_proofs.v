(** C16 (model/Opc.v) under the codec hypothesis a reader of XML can meet, and the
    saved form of an irregular package.

    Part A.  c16_regularise / c16_preserved of proofs/Opc_proofs.v assume [codec_ok E]
    (dec (enc x) = Some x for every list), which no reader of XML meets
    (codec_ok_too_strong in proofs/OpcCodec_proofs.v).  Here they are proved under
    [codec_rt_on P Q E] together with [reg_writes_ok P E p]: every list [regularise]
    hands to the encoder lies in [P].  Method: the simulation of OpcCodec_proofs.v (the env
    [xenv] over a larger blob type meets the full [codec_ok]; loading under it is loading
    under [E]); what is added is that [regularise] commutes with the embedding.  Then the
    corollaries for packages whose kept relationships are made of XML strings with a
    mode the writer can express, and for the concrete codec [cenv] (nothing assumed of
    lxml).

    Part B.  [save] depends only on the set of parts it is given (save_parts_set); hence
    an irregular package and its regularised form are saved with the same members and
    the same bytes (c16_save and its _on / _xml / _concrete forms). *)
From V.lib Require Import Prelude.
From V.model Require Import Escape PackUri Opc OpcCodec.
From V.proofs Require Import Prelude_proofs PackUri_proofs Escape_proofs Opc_proofs OpcCodec_proofs.
From Coq Require Import Permutation.
Require Import Lia ZifyBool.

(** ---- vocabulary ---- *)

(** the relationships of source [n] that the loader keeps (dangling internal ones
    dropped): what [regularise] writes into the rels item of [n] *)
Definition kept_rels {blob} (E : env blob) (p : phys blob) (n : str) : list rel :=
  filter (kept_rel n (fun t => mem_str t (part_names E p))) (rels_or_nil E p n).

(** everything [regularise] hands to the relationships encoder is an input the codec is
    exact on *)
Definition reg_writes_ok {blob} (P : list rel -> bool) (E : env blob) (p : phys blob) : Prop :=
  forall n, n = root \/ In n (part_names E p) -> P (kept_rels E p n) = true.

(** only this half of [codec_rt_on] is used by the C16 theorems *)
Definition rels_rt_on {blob} (P : list rel -> bool) (E : env blob) : Prop :=
  forall l, P l = true -> dec_rels E (enc_rels E l) = Some l.

(** the kept relationships of the package root and of every instantiated part have ids,
    types and targets made of XML characters and a mode the writer can express (absent,
    Internal or External) *)
Definition xml_kept_rels {blob} (E : env blob) (p : phys blob) : Prop :=
  forall n r, n = root \/ In n (part_names E p) -> In r (kept_rels E p n) -> xml_rel r = true.

(** no relationship of the package root or of an instantiated part carries a TargetMode
    other than Internal / External *)
Definition no_other_mode {blob} (E : env blob) (p : phys blob) : Prop :=
  forall n r, n = root \/ In n (part_names E p) -> In r (rels_or_nil E p n) -> r_mode r <> MOther.

(** decidable form of [xml_kept_rels] *)
Definition xml_kept_relsb {blob} (E : env blob) (p : phys blob) : bool :=
  forallb (fun n => xml_rels (kept_rels E p n)) (root :: part_names E p).

Lemma codec_rt_rels {blob} P Q (E : env blob) : codec_rt_on P Q E -> rels_rt_on P E.
Proof. intros [H _]. exact H. Qed.

Lemma reg_writes_ok_xml {blob} (E : env blob) p : xml_kept_rels E p -> reg_writes_ok xml_rels E p.
Proof.
  intros H n Hn. unfold xml_rels. apply forallb_forall. intros r Hr. apply (H n r Hn Hr).
Qed.

Lemma xml_kept_relsb_sound {blob} (E : env blob) p : xml_kept_relsb E p = true -> xml_kept_rels E p.
Proof.
  unfold xml_kept_relsb. intros H n r Hn Hr. rewrite forallb_forall in H.
  assert (Hin : In n (root :: part_names E p)) by (destruct Hn as [->|Hn]; [left; reflexivity|right; exact Hn]).
  specialize (H n Hin). unfold xml_rels in H. rewrite forallb_forall in H. apply H. exact Hr.
Qed.

(** ---- Part A: regularise commutes with the embedding into the larger env ---- *)

Lemma mapv_app {A B} (f : A -> B) a b : mapv f (a ++ b) = mapv f a ++ mapv f b.
Proof. unfold mapv. apply map_app. Qed.

Section RegX.
Context {blob : Type}.
Variable E : env blob.
Variable P : list rel -> bool.
Variable Q : cts -> bool.
Variable tagged : bool.

Notation X := (xenv E P Q tagged).

Lemma reg_members_x p l : (forall n, In n l -> P (kept_rels E p n) = true) ->
  flat_map (fun n =>
      match lookup n (mapv XB p) with
      | Some b => [(n, b);
                   (rels_item_name n,
                    enc_rels X (filter (kept_rel n (fun t => mem_str t (part_names E p)))
                                       (rels_or_nil X (mapv XB p) n)))]
      | None => []
      end) l
  = mapv XB (flat_map (fun n =>
      match lookup n p with
      | Some b => [(n, b); (rels_item_name n, enc_rels E (kept_rels E p n))]
      | None => []
      end) l).
Proof.
  induction l as [|n l IH]; intros Hl; [reflexivity|].
  cbn [flat_map]. rewrite mapv_app.
  rewrite <- IH by (intros m Hm; apply Hl; right; exact Hm). f_equal.
  rewrite lookup_mapv. destruct (lookup n p) as [b|]; [|reflexivity].
  cbn [option_map map fst snd]. rewrite rels_or_nil_x. fold (kept_rels E p n).
  cbn [enc_rels xenv]. rewrite (Hl n (or_introl eq_refl)). reflexivity.
Qed.

Lemma regularise_x p : reg_writes_ok P E p ->
  regularise X (mapv XB p) = mapv XB (regularise E p).
Proof.
  intros Hw. unfold regularise. rewrite lookup_mapv.
  destruct (lookup ct_uri p) as [cb|]; [|reflexivity]. cbn [option_map]. cbv zeta.
  rewrite part_names_x. cbn [mapv map fst snd]. f_equal. f_equal.
  - rewrite rels_or_nil_x. fold (kept_rels E p root). cbn [enc_rels xenv].
    rewrite (Hw root (or_introl eq_refl)). reflexivity.
  - fold (@mapv blob xblob XB). apply reg_members_x. intros n Hn. apply Hw. right. exact Hn.
Qed.

Lemma emb_blob_inj ct a b : emb_blob E tagged ct a = emb_blob E tagged ct b -> a = b.
Proof.
  unfold emb_blob, xtag. destruct (is_xml_ct E ct); [destruct tagged|]; intros H; inversion H; reflexivity.
Qed.

Lemma emb_part_inj a b : emb_part E tagged a = emb_part E tagged b -> a = b.
Proof.
  destruct a as [n1 c1 b1 r1], b as [n2 c2 b2 r2]. unfold emb_part. cbn [p_name p_ct p_blob p_rels].
  intros H. inversion H as [[Hn Hc Hb Hr]]. subst n2 c2 r2. apply emb_blob_inj in Hb. subst b2. reflexivity.
Qed.

Lemma in_emb_parts pt l : In (emb_part E tagged pt) (map (emb_part E tagged) l) -> In pt l.
Proof.
  intros H. apply in_map_iff in H as (pt0 & He & Hin). apply emb_part_inj in He. subst pt0. exact Hin.
Qed.
End RegX.

(** C16_regularise with the codec hypothesis restricted to the lists regularise writes *)
Theorem c16_regularise_rt {blob} (E : env blob) P p k :
  rels_rt_on P E -> reg_writes_ok P E p -> load E p = Ok k ->
  (forall n, In n (part_names E p) -> part_name n) -> wf E (regularise E p) ->
  exists k', load E (regularise E p) = Ok k' /\ k_rels k' = k_rels k /\
             (forall pt, In pt (iter_parts k') <-> In pt (iter_parts k)).
Proof.
  intros Hrt Hw Hload Hnames Hwfq.
  set (Q := fun _ : cts => false).
  assert (Hc : codec_rt_on P Q E) by (split; [exact Hrt|intros c Hc; discriminate]).
  pose proof (codec_x E P Q true Hc (or_introl eq_refl)) as Hcx.
  assert (Hlx : load (xenv E P Q true) (mapv XB p) = Ok (emb_pkg E true k))
    by (rewrite load_x, Hload; reflexivity).
  assert (Hnx : forall n, In n (part_names (xenv E P Q true) (mapv XB p)) -> part_name n)
    by (intros n; rewrite part_names_x; apply Hnames).
  assert (Hwx : wf (xenv E P Q true) (regularise (xenv E P Q true) (mapv XB p)))
    by (rewrite regularise_x by exact Hw; apply wf_x; exact Hwfq).
  destruct (c16_regularise (xenv E P Q true) (mapv XB p) (emb_pkg E true k) Hcx Hlx Hnx Hwx)
    as (k'' & Hl'' & Hr'' & Hp'').
  rewrite regularise_x in Hl'' by exact Hw.
  destruct (load_x_inv E P Q true _ k'' Hl'') as (k' & Hk' & ->).
  exists k'. split; [exact Hk'|]. split; [exact Hr''|].
  intros pt. specialize (Hp'' (emb_part E true pt)). rewrite !iter_parts_x in Hp''. split; intros H.
  - apply (in_emb_parts E true). apply Hp''. apply in_map. exact H.
  - apply (in_emb_parts E true). apply Hp''. apply in_map. exact H.
Qed.

Theorem c16_regularise_on {blob} (E : env blob) P Q p k :
  codec_rt_on P Q E -> reg_writes_ok P E p -> load E p = Ok k ->
  (forall n, In n (part_names E p) -> part_name n) -> wf E (regularise E p) ->
  exists k', load E (regularise E p) = Ok k' /\ k_rels k' = k_rels k /\
             (forall pt, In pt (iter_parts k') <-> In pt (iter_parts k)).
Proof. intros Hc. apply c16_regularise_rt. exact (codec_rt_rels P Q E Hc). Qed.

(** C16_preserved follows from the conclusion of C16_regularise and from facts about the
    well-formed regularised package that use no codec hypothesis *)
Lemma c16_preserved_from {blob} (E : env blob) p k : wf E (regularise E p) ->
  (exists k', load E (regularise E p) = Ok k' /\ k_rels k' = k_rels k /\
              (forall pt, In pt (iter_parts k') <-> In pt (iter_parts k))) ->
  (forall x, In x (map p_name (iter_parts k)) <-> (reachable E (regularise E p) x /\ x <> root)) /\
  (forall r, In r (k_rels k) -> l_ext r = false -> In (l_target r) (map p_name (iter_parts k))) /\
  (forall pt r, In pt (iter_parts k) -> In r (p_rels pt) -> l_ext r = false ->
                In (l_target r) (map p_name (iter_parts k))).
Proof.
  intros Hwfq (k' & Hl' & Hkr & Hparts).
  destruct (c01_reach E _ Hwfq) as (k2 & Hl2 & _ & Hreach). rewrite Hl' in Hl2. inversion Hl2; subst k2.
  assert (Hnm : forall x, In x (map p_name (iter_parts k)) <-> In x (map p_name (iter_parts k'))).
  { intros x. rewrite !in_map_iff. split; intros (pt & He & Hpt); exists pt; split; auto; apply Hparts; auto. }
  split; [|split].
  - intros x. rewrite Hnm. apply Hreach.
  - intros r Hr He. rewrite Hnm, Hreach. rewrite <- Hkr in Hr.
    destruct (load_wf E _ Hwfq) as (cb & c & Hcb & Hc & Hl). rewrite Hl' in Hl. inversion Hl; subst k'.
    assert (Hin : In (l_target r) (lint_targets (k_rels (spec_pkg E (regularise E p) c)))).
    { unfold lint_targets. apply in_map. apply filter_In. split; auto. rewrite He; auto. }
    rewrite (k_rels_targets E _ Hwfq c) in Hin.
    apply (proj1 (part_names_spec E _ Hwfq)). eapply (succs_part_names E _ Hwfq); [apply r0|exact Hin].
  - intros pt r Hpt Hr He. rewrite Hnm, Hreach. apply Hparts in Hpt.
    destruct (load_wf E _ Hwfq) as (cb & c & Hcb & Hc & Hl). rewrite Hl' in Hl. inversion Hl; subst k'.
    rewrite (iter_parts_spec E _ Hwfq c) in Hpt. apply in_map_iff in Hpt as (n & <- & Hn).
    apply (names_reach E _ Hwfq c) in Hn as [Hrn Hne].
    assert (Hin : In (l_target r) (lsuccs (spec_pkg E (regularise E p) c) n)).
    { unfold lsuccs. rewrite (find_part_spec E _ c).
      rewrite (proj2 (mem_str_In _ _)) by (apply (proj1 (part_names_spec E _ Hwfq)); auto).
      unfold lint_targets. apply in_map. apply filter_In. split; auto. rewrite He; auto. }
    rewrite (lsuccs_spec E _ Hwfq c) in Hin.
    rewrite (proj2 (mem_str_In _ _)) in Hin by (apply (proj1 (part_names_spec E _ Hwfq)); auto).
    apply (proj1 (part_names_spec E _ Hwfq)). eapply (succs_part_names E _ Hwfq); eauto.
Qed.

Theorem c16_preserved_rt {blob} (E : env blob) P p k :
  rels_rt_on P E -> reg_writes_ok P E p -> load E p = Ok k ->
  (forall n, In n (part_names E p) -> part_name n) -> wf E (regularise E p) ->
  (forall x, In x (map p_name (iter_parts k)) <-> (reachable E (regularise E p) x /\ x <> root)) /\
  (forall r, In r (k_rels k) -> l_ext r = false -> In (l_target r) (map p_name (iter_parts k))) /\
  (forall pt r, In pt (iter_parts k) -> In r (p_rels pt) -> l_ext r = false ->
                In (l_target r) (map p_name (iter_parts k))).
Proof.
  intros Hrt Hw Hload Hnames Hwfq. apply c16_preserved_from; [exact Hwfq|].
  apply (c16_regularise_rt E P p k); auto.
Qed.

Theorem c16_preserved_on {blob} (E : env blob) P Q p k :
  codec_rt_on P Q E -> reg_writes_ok P E p -> load E p = Ok k ->
  (forall n, In n (part_names E p) -> part_name n) -> wf E (regularise E p) ->
  (forall x, In x (map p_name (iter_parts k)) <-> (reachable E (regularise E p) x /\ x <> root)) /\
  (forall r, In r (k_rels k) -> l_ext r = false -> In (l_target r) (map p_name (iter_parts k))) /\
  (forall pt r, In pt (iter_parts k) -> In r (p_rels pt) -> l_ext r = false ->
                In (l_target r) (map p_name (iter_parts k))).
Proof. intros Hc. apply c16_preserved_rt. exact (codec_rt_rels P Q E Hc). Qed.

(** ---- packages whose kept relationships are XML strings; the concrete codec ---- *)

Theorem c16_regularise_xml {blob} (E : env blob) p k :
  codec_rt_on xml_rels xml_cts E -> xml_kept_rels E p -> load E p = Ok k ->
  (forall n, In n (part_names E p) -> part_name n) -> wf E (regularise E p) ->
  exists k', load E (regularise E p) = Ok k' /\ k_rels k' = k_rels k /\
             (forall pt, In pt (iter_parts k') <-> In pt (iter_parts k)).
Proof. intros Hc Hx. apply (c16_regularise_on E xml_rels xml_cts); auto. apply reg_writes_ok_xml; auto. Qed.

Theorem c16_preserved_xml {blob} (E : env blob) p k :
  codec_rt_on xml_rels xml_cts E -> xml_kept_rels E p -> load E p = Ok k ->
  (forall n, In n (part_names E p) -> part_name n) -> wf E (regularise E p) ->
  (forall x, In x (map p_name (iter_parts k)) <-> (reachable E (regularise E p) x /\ x <> root)) /\
  (forall r, In r (k_rels k) -> l_ext r = false -> In (l_target r) (map p_name (iter_parts k))) /\
  (forall pt r, In pt (iter_parts k) -> In r (p_rels pt) -> l_ext r = false ->
                In (l_target r) (map p_name (iter_parts k))).
Proof. intros Hc Hx. apply (c16_preserved_on E xml_rels xml_cts); auto. apply reg_writes_ok_xml; auto. Qed.

(** for the concrete codec the fields are XML strings as soon as the items decode: what
    is left is that no TargetMode is a third word *)
Lemma cenv_rels_or_nil_xml rs dt xc idf pc od (p : phys str) n :
  forallb xml_fields (rels_or_nil (cenv rs dt xc idf pc od) p n) = true.
Proof.
  unfold rels_or_nil, rels_for. destruct (rels_uri n) as [u|e]; [|reflexivity].
  destruct (lookup u p) as [b|]; [|reflexivity].
  cbn [dec_rels cenv]. destruct (dec_rels_c b) as [l|] eqn:Ed; [|reflexivity].
  apply (dec_rels_c_xml b l Ed).
Qed.

Theorem cenv_xml_kept_rels rs dt xc idf pc od (p : phys str) :
  let E := cenv rs dt xc idf pc od in no_other_mode E p -> xml_kept_rels E p.
Proof.
  intros E Hm n r Hn Hr. unfold kept_rels in Hr. apply filter_In in Hr as [Hr _].
  pose proof (cenv_rels_or_nil_xml rs dt xc idf pc od p n) as Hf. rewrite forallb_forall in Hf.
  specialize (Hf r Hr). unfold xml_fields in Hf. unfold xml_rel. rewrite Hf. cbn [andb].
  specialize (Hm n r Hn Hr). destruct (r_mode r); [reflexivity|reflexivity|congruence].
Qed.

Theorem c16_regularise_concrete rs dt xc idf pc od (p : phys str) k :
  let E := cenv rs dt xc idf pc od in
  no_other_mode E p -> load E p = Ok k ->
  (forall n, In n (part_names E p) -> part_name n) -> wf E (regularise E p) ->
  exists k', load E (regularise E p) = Ok k' /\ k_rels k' = k_rels k /\
             (forall pt, In pt (iter_parts k') <-> In pt (iter_parts k)).
Proof.
  intros E Hm. apply c16_regularise_xml; [apply cenv_codec_rt_on|apply cenv_xml_kept_rels; exact Hm].
Qed.

Theorem c16_preserved_concrete rs dt xc idf pc od (p : phys str) k :
  let E := cenv rs dt xc idf pc od in
  no_other_mode E p -> load E p = Ok k ->
  (forall n, In n (part_names E p) -> part_name n) -> wf E (regularise E p) ->
  (forall x, In x (map p_name (iter_parts k)) <-> (reachable E (regularise E p) x /\ x <> root)) /\
  (forall r, In r (k_rels k) -> l_ext r = false -> In (l_target r) (map p_name (iter_parts k))) /\
  (forall pt r, In pt (iter_parts k) -> In r (p_rels pt) -> l_ext r = false ->
                In (l_target r) (map p_name (iter_parts k))).
Proof.
  intros E Hm. apply c16_preserved_xml; [apply cenv_codec_rt_on|apply cenv_xml_kept_rels; exact Hm].
Qed.

(** ---- Part B: save depends only on the set of parts ---- *)

Lemma walk_nodup g fuel ys : forall vis, NoDup vis -> NoDup (walk g fuel vis ys).
Proof.
  unfold walk. induction ys as [|y ys IH]; intros vis Hv; [exact Hv|].
  cbn [fold_left]. apply IH. unfold step. destruct (mem_str y vis) eqn:Em; [exact Hv|].
  apply dfs_nodup; [exact Hv|]. apply mem_str_nIn. exact Em.
Qed.

Lemma iter_part_names_NoDup {blob} (k : pkg blob) : NoDup (iter_part_names k).
Proof. unfold iter_part_names. apply NoDup_rev, walk_nodup. constructor. Qed.

Lemma find_part_name {blob} (k : pkg blob) n pt : find_part k n = Some pt -> p_name pt = n.
Proof. unfold find_part. intros H. apply find_some in H as [_ H]. apply str_eqb_eq. exact H. Qed.

Lemma in_found_names {blob} (k : pkg blob) x l :
  In x (map p_name (flat_map (fun n => match find_part k n with Some pt => [pt] | None => [] end) l)) ->
  In x l.
Proof.
  intros H. apply in_map_iff in H as (pt & <- & Hpt). apply in_flat_map in Hpt as (n & Hn & Hpt).
  destruct (find_part k n) as [pt0|] eqn:Ef; [|destruct Hpt]. destruct Hpt as [<-|[]].
  rewrite (find_part_name k n pt0 Ef). exact Hn.
Qed.

(** iter_parts yields each part once: no two of them share a name *)
Lemma iter_parts_names_NoDup {blob} (k : pkg blob) : NoDup (map p_name (iter_parts k)).
Proof.
  unfold iter_parts. pose proof (iter_part_names_NoDup k) as H.
  induction H as [|n l Hn Hl IH]; [constructor|].
  cbn [flat_map]. rewrite map_app. destruct (find_part k n) as [pt|] eqn:Ef; cbn [map app]; [|exact IH].
  constructor; [|exact IH]. rewrite (find_part_name k n pt Ef). intros Hin. apply Hn.
  apply (in_found_names k n l Hin).
Qed.

Lemma iter_parts_NoDup {blob} (k : pkg blob) : NoDup (iter_parts k).
Proof. apply (NoDup_map_inv p_name). apply iter_parts_names_NoDup. Qed.

(** an extension is given a Default for at most one content type, whatever the parts *)
Lemma clashfree_always {blob} (E : env blob) (L : list (part blob)) : clashfree E L.
Proof.
  intros a b _ _ Ha Hb He. unfold intab in Ha, Hb. rewrite He in Ha.
  exact (in_table_unique _ _ _ _ Ha Hb).
Qed.

Lemma lookup_incl_NoDup {V} (a b : list (str * V)) :
  NoDup (map fst b) -> incl a b -> (forall n, In n (map fst b) -> In n (map fst a)) ->
  forall n, lookup n a = lookup n b.
Proof.
  intros Hnd Hab Hk n. destruct (lookup n a) as [v|] eqn:Ea.
  - symmetry. apply lookup_NoDup_In; [exact Hnd|]. apply Hab. apply lookup_In. exact Ea.
  - symmetry. apply lookup_None. intros Hin. apply Hk in Hin. apply lookup_None in Ea. auto.
Qed.

Lemma incl_names {V} (a b : list (str * V)) : incl a b -> forall n, In n (map fst a) -> In n (map fst b).
Proof. intros H n Hn. apply in_map_iff in Hn as (kv & <- & Hkv). apply in_map. apply H. exact Hkv. Qed.

(** the members written for two package states that agree on the package relationships
    and on the set of parts iter_parts yields, whatever the order it yields them in *)
Lemma save_incl {blob} (E : env blob) (k1 k2 : pkg blob) :
  k_rels k1 = k_rels k2 ->
  content_types_item E (iter_parts k1) = content_types_item E (iter_parts k2) ->
  (forall pt, In pt (iter_parts k1) -> In pt (iter_parts k2)) ->
  incl (save E k1) (save E k2).
Proof.
  intros Hr Hct Hsub. unfold save. cbv zeta. rewrite Hr, Hct.
  intros z [Hz|[Hz|Hz]]; [left; exact Hz|right; left; exact Hz|right; right].
  apply in_flat_map in Hz as (pt & Hpt & Hz). apply in_flat_map. exists pt. split; [apply Hsub; exact Hpt|exact Hz].
Qed.

(** save depends only on the package relationships and on the SET of parts: member
    names being unique, the two saved packages have the same members with the same bytes.
    (The content types item sorts its Default and Override entries; the rels item and
    the payload member of a part depend on that part alone.) *)
Theorem save_parts_set {blob} (E : env blob) (k1 k2 : pkg blob) :
  env_ok E -> k_rels k1 = k_rels k2 ->
  (forall pt, In pt (iter_parts k1) <-> In pt (iter_parts k2)) ->
  NoDup (map fst (save E k2)) ->
  same_package (save E k1) (save E k2).
Proof.
  intros Henv Hr Hiff Hnd.
  assert (HP : Permutation (iter_parts k1) (iter_parts k2)).
  { apply NoDup_Permutation; [apply iter_parts_NoDup|apply iter_parts_NoDup|exact Hiff]. }
  assert (Hct : content_types_item E (iter_parts k1) = content_types_item E (iter_parts k2)).
  { apply (cti_perm E Henv); [exact HP|apply iter_parts_names_NoDup|apply clashfree_always]. }
  assert (H12 : incl (save E k1) (save E k2)).
  { apply save_incl; [exact Hr|exact Hct|intros pt; apply Hiff]. }
  assert (H21 : incl (save E k2) (save E k1)).
  { apply save_incl; [symmetry; exact Hr|symmetry; exact Hct|intros pt; apply Hiff]. }
  split.
  - intros n. split; apply incl_names; assumption.
  - apply lookup_incl_NoDup; [exact Hnd|exact H12|apply incl_names; exact H21].
Qed.

(** the same with the parts given up to permutation *)
Corollary save_parts_perm {blob} (E : env blob) (k1 k2 : pkg blob) :
  env_ok E -> k_rels k1 = k_rels k2 -> Permutation (iter_parts k1) (iter_parts k2) ->
  NoDup (map fst (save E k2)) ->
  same_package (save E k1) (save E k2).
Proof.
  intros Henv Hr HP Hnd. apply save_parts_set; auto.
  intros pt. split; intros H; [eapply Permutation_in; eauto|eapply Permutation_in; [apply Permutation_sym|]; eauto].
Qed.

(** C16_save: an irregular package is saved with the same members and the same bytes as
    its regularised form.  From the conclusion of C16_regularise. *)
Lemma c16_save_from {blob} (E : env blob) p k : env_ok E -> wf E (regularise E p) ->
  (exists k', load E (regularise E p) = Ok k' /\ k_rels k' = k_rels k /\
              (forall pt, In pt (iter_parts k') <-> In pt (iter_parts k))) ->
  exists k', load E (regularise E p) = Ok k' /\ same_package (save E k) (save E k').
Proof.
  intros Henv Hwfq (k' & Hl' & Hkr & Hparts). exists k'. split; [exact Hl'|].
  apply save_parts_set; [exact Henv|symmetry; exact Hkr|intros pt; symmetry; apply Hparts|].
  destruct (c01_members E _ Hwfq) as (k2 & Hl2 & Hnd & _). rewrite Hl' in Hl2. inversion Hl2; subst k2. exact Hnd.
Qed.

Theorem c16_save {blob} (E : env blob) p k :
  codec_ok E -> env_ok E -> load E p = Ok k ->
  (forall n, In n (part_names E p) -> part_name n) -> wf E (regularise E p) ->
  exists k', load E (regularise E p) = Ok k' /\ same_package (save E k) (save E k').
Proof.
  intros Hc Henv Hload Hnames Hwfq. apply c16_save_from; [exact Henv|exact Hwfq|].
  apply c16_regularise; auto.
Qed.

Theorem c16_save_on {blob} (E : env blob) P Q p k :
  codec_rt_on P Q E -> reg_writes_ok P E p -> env_ok E -> load E p = Ok k ->
  (forall n, In n (part_names E p) -> part_name n) -> wf E (regularise E p) ->
  exists k', load E (regularise E p) = Ok k' /\ same_package (save E k) (save E k').
Proof.
  intros Hc Hw Henv Hload Hnames Hwfq. apply c16_save_from; [exact Henv|exact Hwfq|].
  apply (c16_regularise_on E P Q); auto.
Qed.

Theorem c16_save_xml {blob} (E : env blob) p k :
  codec_rt_on xml_rels xml_cts E -> xml_kept_rels E p -> env_ok E -> load E p = Ok k ->
  (forall n, In n (part_names E p) -> part_name n) -> wf E (regularise E p) ->
  exists k', load E (regularise E p) = Ok k' /\ same_package (save E k) (save E k').
Proof. intros Hc Hx. apply (c16_save_on E xml_rels xml_cts); auto. apply reg_writes_ok_xml; auto. Qed.

Theorem c16_save_concrete rs dt xc idf pc od (p : phys str) k :
  let E := cenv rs dt xc idf pc od in
  no_other_mode E p -> env_ok E -> load E p = Ok k ->
  (forall n, In n (part_names E p) -> part_name n) -> wf E (regularise E p) ->
  exists k', load E (regularise E p) = Ok k' /\ same_package (save E k) (save E k').
Proof.
  intros E Hm. apply c16_save_xml; [apply cenv_codec_rt_on|apply cenv_xml_kept_rels; exact Hm].
Qed.

(** ---- decidable form of [no_other_mode] ---- *)
Definition no_other_modeb {blob} (E : env blob) (p : phys blob) : bool :=
  forallb (fun n => forallb (fun r => match r_mode r with MOther => false | _ => true end)
                            (rels_or_nil E p n)) (root :: part_names E p).

Lemma no_other_modeb_sound {blob} (E : env blob) p : no_other_modeb E p = true -> no_other_mode E p.
Proof.
  unfold no_other_modeb. intros H n r Hn Hr. rewrite forallb_forall in H.
  assert (Hin : In n (root :: part_names E p)) by (destruct Hn as [->|Hn]; [left; reflexivity|right; exact Hn]).
  specialize (H n Hin). rewrite forallb_forall in H. specialize (H r Hr).
  destruct (r_mode r); [discriminate|discriminate|discriminate H].
Qed.

(** ---- non-vacuity: the irregular package of C16 as real XML text, under the concrete
    codec (tenv of proofs/OpcCodec_proofs.v: dec_rels_c / enc_rels_c / dec_ct_c / enc_ct_c,
    identity re-serialiser, the tables of gen/GenC01.v) ---- *)
From V.model Require Import OpcRun.
From V.gen Require Import GenC01.

Definition ex_irregular_text : phys str := mapv text_of_wblob ex_irregular.

Definition n_docProps_core_xml : str :=
  [47; 100; 111; 99; 80; 114; 111; 112; 115; 47; 99; 111; 114; 101; 46; 120; 109; 108]%N.
Definition s_rId1 : str := [114; 73; 100; 49]%N.
Definition s_ppt_presentation_xml : str :=
  [112; 112; 116; 47; 112; 114; 101; 115; 101; 110; 116; 97; 116; 105; 111; 110; 46; 120; 109; 108]%N.
Definition rel_main : rel := mkRel s_rId1 gen_rt_office_document s_ppt_presentation_xml MInt.

(* the irregularities, read off the text: the package rels item holds two relationships
   and the target of the second (docProps/core.xml) is no member; the thumbnail is a
   member no relationship leads to; slide1 has no rels item; the absent slide NULL has one *)
Lemma ex_irr_text_irregular :
  match lookup (rels_item_name root) ex_irregular_text with
  | Some t => match dec_rels_c t with
              | Some [ra; rb] => ra = rel_main /\ resolve (baseURI root) (r_target rb) = n_docProps_core_xml
              | _ => False
              end
  | None => False
  end
  /\ has n_docProps_core_xml ex_irregular_text = false
  /\ has n_docProps_thumbnail_jpeg ex_irregular_text = true
  /\ mem_str n_docProps_thumbnail_jpeg (xml_rels_names tenv ex_irregular_text) = false
  /\ has n_ppt_slides__rels_slide1_xml_rels ex_irregular_text = false
  /\ has n_ppt_slides_NULL ex_irregular_text = false
  /\ has (rels_item_name n_ppt_slides_NULL) ex_irregular_text = true.
Proof. vm_compute. repeat split. Qed.

Lemma ex_irr_text_loads :
  match load tenv ex_irregular_text with
  | Ok k => map p_name (iter_parts k) = [n_ppt_presentation_xml; n_ppt_slides_slide1_xml]
            /\ map p_name (k_parts k) = [n_ppt_presentation_xml; n_ppt_slides_slide1_xml; n_ppt_media_image1_png]
            /\ map l_id (k_rels k) = [s_rId1]
  | Err _ => False
  end.
Proof. vm_compute. repeat split. Qed.

Lemma ex_irr_text_names : forall n, In n (part_names tenv ex_irregular_text) -> part_name n.
Proof.
  assert (H : forallb part_nameb (part_names tenv ex_irregular_text) = true) by (vm_compute; reflexivity).
  intros n Hn. apply part_nameb_sound. exact (proj1 (forallb_forall _ _) H n Hn).
Qed.

Lemma ex_irr_text_reg_wf : wf tenv (regularise tenv ex_irregular_text).
Proof. apply wfb_sound. vm_compute. reflexivity. Qed.

Lemma ex_irr_text_no_other_mode : no_other_mode tenv ex_irregular_text.
Proof. apply no_other_modeb_sound. vm_compute. reflexivity. Qed.

Lemma ex_irr_text_kept_xml : xml_kept_rels tenv ex_irregular_text.
Proof. apply xml_kept_relsb_sound. vm_compute. reflexivity. Qed.

Lemma ex_irr_text_reg_writes_ok : reg_writes_ok xml_rels tenv ex_irregular_text.
Proof. apply reg_writes_ok_xml, ex_irr_text_kept_xml. Qed.

(* the regularised form, as text: eight members; the thumbnail and the rels item of the
   absent slide are gone; the package rels item reads back as the one kept relationship;
   slide1 now owns a rels item, the empty-element document *)
Lemma ex_irr_text_regularised :
  length (regularise tenv ex_irregular_text) = 8%nat
  /\ has n_docProps_thumbnail_jpeg (regularise tenv ex_irregular_text) = false
  /\ has (rels_item_name n_ppt_slides_NULL) (regularise tenv ex_irregular_text) = false
  /\ match lookup (rels_item_name root) (regularise tenv ex_irregular_text) with
     | Some t => t = enc_rels_c [rel_main] /\ dec_rels_c t = Some [rel_main]
     | None => False
     end
  /\ lookup n_ppt_slides__rels_slide1_xml_rels (regularise tenv ex_irregular_text)
     = Some (x_decl ++ x_rels_open ++ [c_quot] ++ x_rels_ns ++ [c_quot] ++ x_end).
Proof. vm_compute. repeat split. Qed.

(* both saves, computed: the irregular package and its regularised form are written as
   the same five members with the same text (here even in the same order); the saved
   package rels item is the text of the one kept relationship *)
Lemma ex_irr_text_saves :
  match load tenv ex_irregular_text, load tenv (regularise tenv ex_irregular_text) with
  | Ok k, Ok k' =>
      save tenv k = save tenv k'
      /\ map fst (save tenv k) = [ct_uri; rels_item_name root; n_ppt_presentation_xml;
                                  rels_item_name n_ppt_presentation_xml; n_ppt_slides_slide1_xml]
      /\ lookup (rels_item_name root) (save tenv k) = Some (enc_rels_c [rel_main])
  | _, _ => False
  end.
Proof. vm_compute. repeat split. Qed.

(* ... and by the theorems: their hypotheses are met *)
Lemma ex_irr_text_regularise_thm :
  match load tenv ex_irregular_text with
  | Ok k => exists k', load tenv (regularise tenv ex_irregular_text) = Ok k' /\ k_rels k' = k_rels k /\
                       (forall pt, In pt (iter_parts k') <-> In pt (iter_parts k))
  | Err _ => False
  end.
Proof.
  destruct (load tenv ex_irregular_text) as [k|e] eqn:El.
  - apply (c16_regularise_concrete (fun b => Some b) gen_default_table gen_xml_cts gen_init_defaults
             gen_pres_cts gen_rt_office_document ex_irregular_text k ex_irr_text_no_other_mode El
             ex_irr_text_names ex_irr_text_reg_wf).
  - pose proof ex_irr_text_loads as H. rewrite El in H. exact H.
Qed.

Lemma ex_irr_text_save_thm :
  match load tenv ex_irregular_text with
  | Ok k => exists k', load tenv (regularise tenv ex_irregular_text) = Ok k' /\
                       same_package (save tenv k) (save tenv k')
  | Err _ => False
  end.
Proof.
  destruct (load tenv ex_irregular_text) as [k|e] eqn:El.
  - apply (c16_save_concrete (fun b => Some b) gen_default_table gen_xml_cts gen_init_defaults
             gen_pres_cts gen_rt_office_document ex_irregular_text k ex_irr_text_no_other_mode tenv_env_ok El
             ex_irr_text_names ex_irr_text_reg_wf).
  - pose proof ex_irr_text_loads as H. rewrite El in H. exact H.
Qed.

(* the extracted instance (wenv meets the full codec_ok) *)
Lemma ex_irregular_save_thm :
  match load wenv ex_irregular with
  | Ok k => exists k', load wenv (regularise wenv ex_irregular) = Ok k' /\
                       same_package (save wenv k) (save wenv k')
  | Err _ => False
  end.
Proof.
  destruct (load wenv ex_irregular) as [k|e] eqn:El.
  - apply (c16_save wenv ex_irregular k wenv_codec_ok wenv_env_ok El ex_irregular_names ex_irregular_reg_wf).
  - assert (H : match load wenv ex_irregular with Ok _ => True | Err _ => False end) by (vm_compute; exact I).
    rewrite El in H. exact H.
Qed.
