(** Lemmas about lib/PyFloat.v.  The model itself is tied to CPython by the bit-exact
    validation corr/validate_pyfloat.py; the lemmas below are the facts that the
    properties using floats need (exactness of integer-valued floats, comparison by
    exact value, round is the nearest integer, ties to even, and is monotone). *)
From V.lib Require Import Prelude PyFloat.
Local Open Scope Z_scope.

(** * Denominators are positive powers of two *)

Lemma f_den_pos x : 0 < f_den x.
Proof. destruct x; cbn [f_den]; [apply Z.pow_pos_nonneg; lia | lia ..]. Qed.

(** * [round_dy] is the identity on dyadics that already fit *)

Lemma round_dy_fits m e :
  m <> 0 ->
  -1075 <= Z.log2 (Z.abs m) + e ->
  Z.max (Z.log2 (Z.abs m) + e - 52) (-1074) <= e ->
  Z.log2 (Z.abs m) + e < 1024 ->
  round_dy m e = Fin m e.
Proof.
  intros Hm Hlo Hfit Hhi. unfold round_dy.
  destruct (Z.eqb_spec m 0) as [->|_]; [contradiction|].
  destruct (Z.ltb_spec (Z.log2 (Z.abs m) + e) (-1075)); [lia|].
  destruct (Z.leb_spec (Z.max (Z.log2 (Z.abs m) + e - 52) (-1074)) e); [|lia].
  destruct (Z.leb_spec 1024 (Z.log2 (Z.abs m) + e)); [lia|reflexivity].
Qed.

(** * python float(z) is exact up to 2^53 in magnitude *)

Lemma f_of_Z_small z :
  Z.abs z < 2 ^ 53 -> f_of_Z z = Ok (if z =? 0 then Fin 0 0 else Fin z 0).
Proof.
  intros Hz. destruct (Z.eqb_spec z 0) as [->|Hnz]; [reflexivity|].
  unfold f_of_Z.
  assert (Hl : Z.log2 (Z.abs z) < 53) by (apply Z.log2_lt_pow2; lia).
  assert (Hl0 : 0 <= Z.log2 (Z.abs z)) by apply Z.log2_nonneg.
  rewrite round_dy_fits by lia. reflexivity.
Qed.

(** full statement: by value, including the two end points *)
Lemma f_of_Z_exact z :
  Z.abs z <= 2 ^ 53 ->
  exists x, f_of_Z z = Ok x /\ f_is_finite x = true /\ f_num x = z /\ f_den x = 1.
Proof.
  intros Hz.
  destruct (Z.eq_dec (Z.abs z) (2 ^ 53)) as [He|Hne].
  - assert (Hc : z = 2 ^ 53 \/ z = - 2 ^ 53) by lia.
    destruct Hc as [-> | ->]; eexists; (split; [vm_compute; reflexivity|]);
      vm_compute; auto.
  - rewrite f_of_Z_small by lia.
    destruct (Z.eqb_spec z 0) as [->|Hnz]; eexists; (split; [reflexivity|]).
    + vm_compute; auto.
    + cbn [f_is_finite f_num f_den]. rewrite Z.max_id. cbn [Z.opp].
      rewrite Z.max_id. cbn [Z.pow Z.pow_pos]. repeat split; lia.
Qed.

Example f_of_Z_exact_nonvacuous :
  f_of_Z 9007199254740991 = Ok (Fin 9007199254740991 0)
  /\ f_of_Z 9007199254740993 = Ok (Fin 4503599627370496 1).
Proof. vm_compute. split; reflexivity. Qed.

(** * round of an integer-valued float *)

Lemma f_round_int m e : 0 <= e -> f_round (Fin m e) = Ok (m * 2 ^ e).
Proof.
  intros He. unfold f_round.
  destruct (Z.leb_spec 0 e); [|lia]. now rewrite Z.shiftl_mul_pow2.
Qed.

Lemma f_trunc_int m e : 0 <= e -> f_trunc (Fin m e) = Ok (m * 2 ^ e).
Proof.
  intros He. unfold f_trunc.
  destruct (Z.leb_spec 0 e); [|lia]. now rewrite Z.shiftl_mul_pow2.
Qed.

Example f_round_int_nonvacuous : f_round (Fin 45 3) = Ok 360.
Proof. reflexivity. Qed.

(** * Comparison is comparison of the exact values *)

Lemma f_cmp_fin m1 e1 m2 e2 :
  f_cmp (Fin m1 e1) (Fin m2 e2) =
  Some (f_num (Fin m1 e1) * f_den (Fin m2 e2) ?= f_num (Fin m2 e2) * f_den (Fin m1 e1)).
Proof.
  unfold f_cmp, f_num, f_den. f_equal.
  remember (Z.min e1 e2) as e eqn:He.
  rewrite !Z.shiftl_mul_pow2 by lia.
  remember (Z.max (- e1) 0 + Z.max (- e2) 0 + e) as P eqn:HP.
  assert (HP0 : 0 <= P) by lia.
  replace (m1 * 2 ^ Z.max e1 0 * 2 ^ Z.max (- e2) 0) with (m1 * 2 ^ (e1 - e) * 2 ^ P).
  2:{ rewrite <- !Z.mul_assoc, <- !Z.pow_add_r by lia. do 2 f_equal. lia. }
  replace (m2 * 2 ^ Z.max e2 0 * 2 ^ Z.max (- e1) 0) with (m2 * 2 ^ (e2 - e) * 2 ^ P).
  2:{ rewrite <- !Z.mul_assoc, <- !Z.pow_add_r by lia. do 2 f_equal. lia. }
  apply Zmult_compare_compat_r. apply Z.lt_gt. apply Z.pow_pos_nonneg; lia.
Qed.

Lemma f_cmp_finite a b :
  f_is_finite a = true -> f_is_finite b = true ->
  f_cmp a b = Some (f_num a * f_den b ?= f_num b * f_den a).
Proof.
  destruct a, b; cbn [f_is_finite]; try discriminate. intros _ _. apply f_cmp_fin.
Qed.

Lemma f_ltb_exact a b :
  f_is_finite a = true -> f_is_finite b = true ->
  f_ltb a b = (f_num a * f_den b <? f_num b * f_den a).
Proof.
  intros Ha Hb. unfold f_ltb. rewrite (f_cmp_finite a b Ha Hb). unfold Z.ltb.
  destruct (f_num a * f_den b ?= f_num b * f_den a); reflexivity.
Qed.

Lemma f_leb_exact a b :
  f_is_finite a = true -> f_is_finite b = true ->
  f_leb a b = (f_num a * f_den b <=? f_num b * f_den a).
Proof.
  intros Ha Hb. unfold f_leb. rewrite (f_cmp_finite a b Ha Hb). unfold Z.leb.
  destruct (f_num a * f_den b ?= f_num b * f_den a); reflexivity.
Qed.

Lemma f_eqb_exact a b :
  f_is_finite a = true -> f_is_finite b = true ->
  f_eqb a b = (f_num a * f_den b =? f_num b * f_den a).
Proof.
  intros Ha Hb. unfold f_eqb. rewrite (f_cmp_finite a b Ha Hb), Z.eqb_compare.
  destruct (f_num a * f_den b ?= f_num b * f_den a); reflexivity.
Qed.

(** comparisons involving a NaN are all false *)
Lemma f_cmp_nan_l b : f_ltb NaN b = false /\ f_leb NaN b = false /\ f_eqb NaN b = false.
Proof. destruct b; repeat split; reflexivity. Qed.
Lemma f_cmp_nan_r a : f_ltb a NaN = false /\ f_leb a NaN = false /\ f_eqb a NaN = false.
Proof. destruct a; repeat split; reflexivity. Qed.

Example f_ltb_exact_nonvacuous :
  f_ltb (Fin 3 (-1)) (Fin 1 1) = true /\ f_leb (Fin 4 (-1)) (Fin 1 1) = true
  /\ f_ltb (Fin 4 (-1)) (Fin 1 1) = false.
Proof. vm_compute. auto. Qed.

(** * round(x): nearest integer, ties to even *)

(** With n/d the exact value: |n/d - r| <= 1/2, and r is even when the distance is
    exactly 1/2. *)
Lemma f_round_spec x r :
  f_round x = Ok r ->
  (2 * r - 1) * f_den x <= 2 * f_num x <= (2 * r + 1) * f_den x
  /\ (2 * f_num x = (2 * r - 1) * f_den x \/ 2 * f_num x = (2 * r + 1) * f_den x ->
      Z.even r = true).
Proof.
  destruct x as [m e| | |]; cbn [f_round]; try discriminate.
  destruct (Z.leb_spec 0 e) as [He|He].
  - intros [= <-]. cbn [f_num f_den].
    rewrite Z.shiftl_mul_pow2 by lia.
    replace (Z.max e 0) with e by lia. replace (Z.max (- e) 0) with 0 by lia.
    change (2 ^ 0) with 1. split; [lia|]. intros [H|H]; exfalso; lia.
  - cbn [f_num f_den].
    replace (Z.max e 0) with 0 by lia. replace (Z.max (- e) 0) with (- e) by lia.
    change (2 ^ 0) with 1. rewrite Z.mul_1_r.
    remember (- e) as sh eqn:Hsh.
    assert (Hsh0 : 0 < sh) by lia.
    rewrite Z.shiftr_div_pow2 by lia.
    rewrite !Z.shiftl_mul_pow2 by lia. rewrite Z.mul_1_l.
    assert (Hd : 2 ^ sh = 2 * 2 ^ (sh - 1)).
    { replace sh with (Z.succ (sh - 1)) at 1 by lia. rewrite Z.pow_succ_r by lia. reflexivity. }
    assert (Hh : 0 < 2 ^ (sh - 1)) by (apply Z.pow_pos_nonneg; lia).
    remember (2 ^ (sh - 1)) as half eqn:Hhalf.
    remember (2 ^ sh) as d eqn:Hdd.
    assert (Hdm := Z.div_mod m d ltac:(lia)).
    assert (Hmb := Z.mod_pos_bound m d ltac:(lia)).
    remember (m / d) as q eqn:Hq.
    remember (m mod d) as rm eqn:Hrm.
    assert (Hrem : m - q * d = rm) by lia.
    rewrite Hrem.
    assert (Hqd : d * q = q * d) by apply Z.mul_comm.
    destruct (Z.ltb_spec half rm) as [Hlt|Hge]; cbn [orb].
    + intros [= <-]. split; [lia|]. intros [H|H]; exfalso; lia.
    + destruct (Z.eqb_spec half rm) as [Heq|Hne]; cbn [andb].
      * destruct (Z.odd q) eqn:Hodd.
        -- intros [= <-]. split; [lia|]. intros _.
           rewrite Z.add_1_r, Z.even_succ. exact Hodd.
        -- intros [= <-]. split; [lia|]. intros _.
           rewrite <- Z.negb_odd, Hodd. reflexivity.
      * intros [= <-]. split; [lia|]. intros [H|H]; exfalso; lia.
Qed.

Lemma f_round_half x r :
  f_round x = Ok r ->
  Z.abs (2 * f_num x - 2 * r * f_den x) <= f_den x.
Proof.
  intros H. destruct (f_round_spec x r H) as [[H1 H2] _]. lia.
Qed.

Lemma f_round_finite x r : f_round x = Ok r -> f_is_finite x = true.
Proof. destruct x; cbn [f_round]; try discriminate; reflexivity. Qed.

(** monotone with respect to the exact values *)
Lemma f_round_mono a b ra rb :
  f_round a = Ok ra -> f_round b = Ok rb ->
  f_num a * f_den b <= f_num b * f_den a ->
  ra <= rb.
Proof.
  intros Ha Hb Hle.
  destruct (f_round_spec a ra Ha) as [[A1 _] TA].
  destruct (f_round_spec b rb Hb) as [[_ B2] TB].
  assert (Da := f_den_pos a). assert (Db := f_den_pos b).
  remember (f_num a) as Na. remember (f_den a) as DA.
  remember (f_num b) as Nb. remember (f_den b) as DB.
  destruct (Z_le_gt_dec ra rb) as [|Hgt]; [assumption|exfalso].
  assert (S1 : (2 * ra - 1) * DA * DB <= 2 * Na * DB)
    by (apply Z.mul_le_mono_nonneg_r; lia).
  assert (S2 : 2 * Nb * DA <= (2 * rb + 1) * DB * DA)
    by (apply Z.mul_le_mono_nonneg_r; lia).
  assert (K : 0 < DA * DB) by (apply Z.mul_pos_pos; lia).
  assert (S3 : (2 * ra - 1) * (DA * DB) <= (2 * rb + 1) * (DA * DB)).
  { replace ((2 * ra - 1) * (DA * DB)) with ((2 * ra - 1) * DA * DB) by ring.
    replace ((2 * rb + 1) * (DA * DB)) with ((2 * rb + 1) * DB * DA) by ring.
    replace (2 * Na * DB) with (2 * (Na * DB)) in S1 by ring.
    replace (2 * Nb * DA) with (2 * (Nb * DA)) in S2 by ring. lia. }
  apply Z.mul_le_mono_pos_r in S3; [|assumption].
  assert (Hra : ra = rb + 1) by lia. subst ra.
  (* all inequalities are equalities: both values sit exactly on the tie rb + 1/2 *)
  assert (E1 : 2 * Na * DB = (2 * rb + 1) * DA * DB).
  { replace (2 * (rb + 1) - 1) with (2 * rb + 1) in S1 by ring.
    replace ((2 * rb + 1) * DB * DA) with ((2 * rb + 1) * DA * DB) in S2 by ring.
    replace (2 * Na * DB) with (2 * (Na * DB)) in * by ring.
    replace (2 * Nb * DA) with (2 * (Nb * DA)) in S2 by ring. lia. }
  assert (E2 : 2 * Nb * DA = (2 * rb + 1) * DB * DA).
  { replace (2 * (rb + 1) - 1) with (2 * rb + 1) in S1 by ring.
    replace ((2 * rb + 1) * DA * DB) with ((2 * rb + 1) * DB * DA) in S1 by ring.
    replace (2 * Na * DB) with (2 * (Na * DB)) in S1 by ring.
    replace (2 * Nb * DA) with (2 * (Nb * DA)) in * by ring. lia. }
  apply Z.mul_cancel_r in E1; [|lia]. apply Z.mul_cancel_r in E2; [|lia].
  assert (Ea : Z.even (rb + 1) = true).
  { apply TA. left. rewrite E1. ring. }
  assert (Eb : Z.even rb = true) by (apply TB; right; exact E2).
  rewrite Z.add_1_r, Z.even_succ, <- Z.negb_even, Eb in Ea. discriminate.
Qed.

Example f_round_mono_nonvacuous :
  f_round (Fin 5 (-1)) = Ok 2 /\ f_round (Fin 7 (-1)) = Ok 4
  /\ f_num (Fin 5 (-1)) * f_den (Fin 7 (-1)) <= f_num (Fin 7 (-1)) * f_den (Fin 5 (-1)).
Proof. vm_compute. repeat split; discriminate. Qed.

Example f_round_ties_even :
  f_round (Fin 1 (-1)) = Ok 0 /\ f_round (Fin 3 (-1)) = Ok 2 /\ f_round (Fin (-5) (-1)) = Ok (-2)
  /\ f_round (Fin (-7) (-1)) = Ok (-4) /\ f_round (Fin 5 (-2)) = Ok 1.
Proof. vm_compute. repeat split. Qed.

(** * int(x) is truncation of the exact value toward zero *)

Lemma f_trunc_exact x :
  f_is_finite x = true -> f_trunc x = Ok (Z.quot (f_num x) (f_den x)).
Proof.
  destruct x as [m e| | |]; cbn [f_is_finite]; try discriminate. intros _.
  unfold f_trunc. cbn [f_num f_den]. destruct (Z.leb_spec 0 e) as [He|He].
  - rewrite Z.shiftl_mul_pow2 by lia.
    replace (Z.max e 0) with e by lia. replace (Z.max (- e) 0) with 0 by lia.
    change (2 ^ 0) with 1. now rewrite Z.quot_1_r.
  - rewrite Z.shiftl_mul_pow2 by lia.
    replace (Z.max e 0) with 0 by lia. replace (Z.max (- e) 0) with (- e) by lia.
    change (2 ^ 0) with 1. now rewrite Z.mul_1_r, Z.mul_1_l.
Qed.

Example f_trunc_toward_zero :
  f_trunc (Fin 7 (-1)) = Ok 3 /\ f_trunc (Fin (-7) (-1)) = Ok (-3).
Proof. vm_compute. split; reflexivity. Qed.

(** * negation and absolute value are exact *)

Lemma f_neg_value x : f_num (f_neg x) = - f_num x /\ f_den (f_neg x) = f_den x.
Proof. destruct x; cbn [f_neg f_num f_den]; split; try reflexivity. ring. Qed.

Lemma f_abs_value x : f_num (f_abs x) = Z.abs (f_num x) /\ f_den (f_abs x) = f_den x.
Proof.
  destruct x as [m e| | |]; cbn [f_abs f_num f_den]; split; try reflexivity.
  rewrite Z.abs_mul. f_equal. symmetry. apply Z.abs_eq. apply Z.pow_nonneg. lia.
Qed.

(** * canonical form keeps the value *)

Lemma pos_ctz_spec p : forall q k, pos_ctz p = (q, k) -> 0 <= k /\ Zpos p = Zpos q * 2 ^ k.
Proof.
  induction p as [p IH|p IH|]; cbn [pos_ctz]; intros q k.
  - intros [= <- <-]. split; [lia|]. change (2 ^ 0) with 1. lia.
  - destruct (pos_ctz p) as [q' k'] eqn:E. intros [= <- <-].
    destruct (IH q' k' eq_refl) as [Hk Hv]. split; [lia|].
    rewrite Z.pow_add_r by lia. change (2 ^ 1) with 2.
    change (Z.pos p~0) with (2 * Z.pos p). rewrite Hv. ring.
  - intros [= <- <-]. split; [lia|]. reflexivity.
Qed.

Lemma f_canon_value x :
  f_num (f_canon x) * f_den x = f_num x * f_den (f_canon x)
  /\ f_is_finite (f_canon x) = f_is_finite x.
Proof.
  destruct x as [m e| | |]; try (split; reflexivity).
  assert (G : forall m' k, 0 <= k ->
            (m' * 2 ^ Z.max (e + k) 0) * 2 ^ Z.max (- e) 0
            = (m' * 2 ^ k * 2 ^ Z.max e 0) * 2 ^ Z.max (- (e + k)) 0).
  { intros m' k Hk. rewrite <- !Z.mul_assoc, <- !Z.pow_add_r by lia. do 2 f_equal. lia. }
  destruct m as [|p|p]; cbn [f_canon].
  - split; reflexivity.
  - destruct (pos_ctz p) as [q k] eqn:E. destruct (pos_ctz_spec p q k E) as [Hk Hv].
    split; [|reflexivity]. cbn [f_num f_den]. rewrite Hv. apply G; assumption.
  - destruct (pos_ctz p) as [q k] eqn:E. destruct (pos_ctz_spec p q k E) as [Hk Hv].
    split; [|reflexivity]. cbn [f_num f_den].
    change (Z.neg p) with (- Z.pos p). change (Z.neg q) with (- Z.pos q). rewrite Hv.
    replace (- (Z.pos q * 2 ^ k)) with (- Z.pos q * 2 ^ k) by ring. apply G; assumption.
Qed.

Print Assumptions f_of_Z_exact.
Print Assumptions f_round_int.
Print Assumptions f_ltb_exact.
Print Assumptions f_leb_exact.
Print Assumptions f_eqb_exact.
Print Assumptions f_round_spec.
Print Assumptions f_round_half.
Print Assumptions f_round_mono.
Print Assumptions f_canon_value.
Print Assumptions f_trunc_exact.
Print Assumptions f_neg_value.
Print Assumptions f_abs_value.

(** * Decimal text of integers: [str_of_Z], [int_of_str], and the schema lexer *)
From V.model Require Import SimpleTypeLib.

Definition dstep (acc c : N) : N := (acc * 10 + (c - 48))%N.

Lemma dec_value_fold s : dec_value s = fold_left dstep s 0%N.
Proof. reflexivity. Qed.

Lemma is_digit_bounds c : is_digit c = true <-> (48 <= c <= 57)%N.
Proof.
  unfold is_digit. rewrite andb_true_iff, !N.leb_le. tauto.
Qed.

Lemma digit_char_is_digit n : is_digit (48 + n mod 10) = true.
Proof.
  apply is_digit_bounds. assert (H : (n mod 10 < 10)%N) by (apply N.mod_lt; lia).
  revert H. generalize (n mod 10)%N. intros; lia.
Qed.

(** every character produced is a digit, and at least one is produced *)
Lemma dec_digits_fuel_digits fuel : forall n acc,
  forallb is_digit acc = true -> forallb is_digit (dec_digits_fuel fuel n acc) = true.
Proof.
  induction fuel as [|f IH]; intros n acc Hacc; cbn [dec_digits_fuel]; [assumption|].
  destruct (n <? 10)%N.
  - cbn [forallb]. now rewrite digit_char_is_digit.
  - apply IH. cbn [forallb]. now rewrite digit_char_is_digit.
Qed.

Lemma dec_digits_fuel_length fuel : forall n acc,
  (length acc <= length (dec_digits_fuel fuel n acc))%nat.
Proof.
  induction fuel as [|f IH]; intros n acc; cbn [dec_digits_fuel]; [lia|].
  destruct (n <? 10)%N; cbn [length]; [lia|].
  specialize (IH (n / 10)%N ((48 + n mod 10)%N :: acc)). cbn [length] in IH. lia.
Qed.

Lemma dec_of_N_all_digits n : all_digits (dec_of_N n) = true.
Proof.
  unfold all_digits, dec_of_N.
  assert (L := dec_digits_fuel_length (S (N.to_nat (N.size n))) n []).
  assert (D := dec_digits_fuel_digits (S (N.to_nat (N.size n))) n [] eq_refl).
  destruct (dec_digits_fuel (S (N.to_nat (N.size n))) n []) eqn:E; [|exact D].
  cbn [dec_digits_fuel] in E. destruct (n <? 10)%N.
  - discriminate.
  - assert (L2 := dec_digits_fuel_length (N.to_nat (N.size n)) (n / 10)%N [(48 + n mod 10)%N]).
    rewrite E in L2. cbn [length] in L2. lia.
Qed.

(** the fuel suffices: reading the digits back gives the number *)
Lemma dec_digits_fuel_value fuel : forall n acc,
  (n < 2 ^ N.of_nat fuel)%N ->
  fold_left dstep (dec_digits_fuel fuel n acc) 0%N = fold_left dstep acc n.
Proof.
  induction fuel as [|f IH]; intros n acc Hn.
  - cbn [dec_digits_fuel]. change (2 ^ N.of_nat 0)%N with 1%N in Hn.
    replace n with 0%N by lia. reflexivity.
  - cbn [dec_digits_fuel].
    assert (Hdm := N.div_mod n 10 ltac:(lia)).
    assert (Hmb : (n mod 10 < 10)%N) by (apply N.mod_lt; lia).
    destruct (N.ltb_spec n 10) as [Hlt|Hge].
    + cbn [fold_left]. f_equal. unfold dstep.
      rewrite N.mod_small by assumption. lia.
    + rewrite IH.
      * cbn [fold_left]. f_equal. unfold dstep.
        revert Hdm Hmb. generalize (n / 10)%N (n mod 10)%N. intros; lia.
      * rewrite Nat2N.inj_succ, N.pow_succ_r' in Hn.
        apply N.div_lt_upper_bound; [lia|]. lia.
Qed.

Lemma dec_value_dec_of_N n : dec_value (dec_of_N n) = n.
Proof.
  rewrite dec_value_fold. unfold dec_of_N. rewrite dec_digits_fuel_value; [reflexivity|].
  rewrite Nat2N.inj_succ, N2Nat.id, N.pow_succ_r'.
  assert (H := N.size_gt n). lia.
Qed.

(** the number of digits is bounded by the magnitude *)
Lemma dec_digits_fuel_count fuel : forall n acc k,
  (1 <= k)%N -> (n < 10 ^ k)%N ->
  (N.of_nat (length (dec_digits_fuel fuel n acc)) <= k + N.of_nat (length acc))%N.
Proof.
  induction fuel as [|f IH]; intros n acc k Hk Hn; cbn [dec_digits_fuel]; [lia|].
  destruct (N.ltb_spec n 10) as [Hlt|Hge].
  - cbn [length]. lia.
  - assert (Hk2 : (2 <= k)%N).
    { destruct (N.le_gt_cases 2 k) as [|Hk1]; [assumption|exfalso].
      assert (k = 1)%N by lia. subst k. change (10 ^ 1)%N with 10%N in Hn. lia. }
    specialize (IH (n / 10)%N ((48 + n mod 10)%N :: acc) (k - 1)%N ltac:(lia)).
    cbn [length] in IH. rewrite Nat2N.inj_succ in IH.
    assert (Hd : (n / 10 < 10 ^ (k - 1))%N).
    { apply N.div_lt_upper_bound; [lia|].
      replace k with (N.succ (k - 1)) in Hn by lia. now rewrite N.pow_succ_r' in Hn. }
    specialize (IH Hd). lia.
Qed.

Lemma dec_of_N_count n k :
  (1 <= k)%N -> (n < 10 ^ k)%N -> (N.of_nat (length (dec_of_N n)) <= k)%N.
Proof.
  intros Hk Hn. unfold dec_of_N.
  assert (H := dec_digits_fuel_count (S (N.to_nat (N.size n))) n [] k Hk Hn).
  cbn [length] in H. lia.
Qed.

(** shape of python str(int) *)
Lemma str_of_Z_digits z :
  (0 <= z -> all_digits (str_of_Z z) = true)
  /\ (z < 0 -> exists ds, str_of_Z z = 45%N :: ds /\ all_digits ds = true).
Proof.
  destruct z as [|p|p]; cbn [str_of_Z]; split; intros H; try lia.
  - reflexivity.
  - apply dec_of_N_all_digits.
  - eexists; split; [reflexivity|apply dec_of_N_all_digits].
Qed.

Lemma all_digits_cons s : all_digits s = true ->
  exists c r, s = c :: r /\ is_digit c = true /\ forallb is_digit s = true.
Proof.
  destruct s as [|c r]; cbn [all_digits]; [discriminate|]. intros H.
  exists c, r. split; [reflexivity|]. split; [|exact H].
  cbn [forallb] in H. now apply andb_true_iff in H.
Qed.

Lemma digit_not_sign c : is_digit c = true ->
  (c =? 45)%N = false /\ (c =? 43)%N = false /\ (c =? c_us)%N = false /\ is_pyspace c = false.
Proof.
  intros H. apply is_digit_bounds in H. unfold c_us, is_pyspace.
  repeat split; repeat (apply orb_false_iff; split); try (apply N.eqb_neq; lia);
    apply andb_false_iff; [right|left]; apply N.leb_gt; lia.
Qed.

(** the schema lexer reads back python str(int) *)
Lemma lex_integer_str_of_Z z : lex_integer (str_of_Z z) = Some z.
Proof.
  destruct z as [|p|p]; cbn [str_of_Z].
  - reflexivity.
  - assert (A := dec_of_N_all_digits (N.pos p)).
    destruct (all_digits_cons _ A) as (c & r & E & Hc & _).
    assert (V := dec_value_dec_of_N (N.pos p)). rewrite E in A, V |- *.
    destruct (digit_not_sign c Hc) as (H1 & H2 & _).
    unfold lex_integer. change c_minus with 45%N. change c_plus with 43%N.
    rewrite H1, H2, A, V. reflexivity.
  - unfold lex_integer. change c_minus with 45%N. rewrite N.eqb_refl.
    rewrite dec_of_N_all_digits, dec_value_dec_of_N. reflexivity.
Qed.

(** [int_of_str] on sign + digits *)
Lemma scan_digits_all_digits ds : forall prev acc cnt,
  forallb is_digit ds = true -> (ds = [] -> (prev =? c_us)%N = false) ->
  scan_digits false prev ds acc cnt
  = Some (fold_left dstep ds acc, (cnt + N.of_nat (length ds))%N).
Proof.
  induction ds as [|c r IH]; intros prev acc cnt Hd Hp.
  - cbn [scan_digits fold_left length]. rewrite (Hp eq_refl). f_equal. f_equal. lia.
  - cbn [forallb] in Hd. apply andb_true_iff in Hd. destruct Hd as [Hc Hr].
    destruct (digit_not_sign c Hc) as (_ & _ & Hus & _).
    cbn [scan_digits]. rewrite Hus. unfold dig_val. rewrite Hc.
    rewrite IH; [|assumption|intros _; exact Hus].
    cbn [fold_left length]. f_equal. f_equal. rewrite Nat2N.inj_succ. lia.
Qed.

Lemma drop_while_head {A} (f : A -> bool) c r : f c = false -> drop_while f (c :: r) = c :: r.
Proof. intros H. cbn [drop_while]. now rewrite H. Qed.

Lemma py_strip_id s c r l t :
  s = c :: r -> rev s = l :: t -> is_pyspace c = false -> is_pyspace l = false ->
  py_strip s = s.
Proof.
  intros Es Er Hc Hl. unfold py_strip. rewrite Es at 1. rewrite drop_while_head by assumption.
  rewrite <- Es, Er, drop_while_head by assumption. rewrite <- Er. apply rev_involutive.
Qed.

Lemma all_digits_rev_head ds : all_digits ds = true ->
  exists l t, rev ds = l :: t /\ is_digit l = true.
Proof.
  intros A. destruct (all_digits_cons _ A) as (c & r & E & _ & F).
  destruct (rev ds) as [|l t] eqn:Er.
  - apply (f_equal (@rev N)) in Er. rewrite rev_involutive in Er. subst ds. discriminate.
  - exists l, t. split; [reflexivity|].
    rewrite forallb_forall in F. apply F. apply in_rev. rewrite Er. now left.
Qed.

(** digits (after the optional sign) that the 4300-digit guard of [int_of_str] counts *)
Definition int_digits (s : str) : N := N.of_nat (length (snd (take_sign s))).

Lemma int_of_str_signed_digits (sg : list N) ds :
  (sg = [] \/ sg = [45%N] \/ sg = [43%N]) -> all_digits ds = true ->
  int_of_str false (sg ++ ds)
  = if (int_max_str_digits <? N.of_nat (length ds))%N then Err ValueErr
    else Ok (if str_eqb sg [45%N] then - Z.of_N (dec_value ds) else Z.of_N (dec_value ds)).
Proof.
  intros Hsg A.
  destruct (all_digits_cons _ A) as (c & r & E & Hc & F).
  destruct (all_digits_rev_head _ A) as (l & t & Er & Hl).
  destruct (digit_not_sign c Hc) as (H45 & H43 & Hus & Hsp).
  destruct (digit_not_sign l Hl) as (_ & _ & _ & Hlsp).
  assert (Hscan : scan_digits false 0%N ds 0%N 0%N
                  = Some (dec_value ds, N.of_nat (length ds))).
  { rewrite scan_digits_all_digits; [reflexivity|exact F|]. rewrite E. discriminate. }
  subst ds. unfold int_of_str.
  destruct Hsg as [-> | [-> | ->]]; cbn [app str_eqb].
  - rewrite (py_strip_id (c :: r) c r l t eq_refl Er Hsp Hlsp).
    cbn [take_sign]. rewrite H45, H43. cbv beta iota zeta.
    rewrite Hus, Hscan. cbn [negb andb].
    destruct (int_max_str_digits <? N.of_nat (length (c :: r)))%N; reflexivity.
  - rewrite (py_strip_id (45%N :: c :: r) 45%N (c :: r) l (t ++ [45%N]) eq_refl);
      [|cbn [rev] in *; rewrite Er; reflexivity|reflexivity|exact Hlsp].
    cbn [take_sign]. change (45 =? 45)%N with true. cbv beta iota zeta.
    rewrite Hus, Hscan. cbn [negb andb].
    destruct (int_max_str_digits <? N.of_nat (length (c :: r)))%N; reflexivity.
  - rewrite (py_strip_id (43%N :: c :: r) 43%N (c :: r) l (t ++ [43%N]) eq_refl);
      [|cbn [rev] in *; rewrite Er; reflexivity|reflexivity|exact Hlsp].
    cbn [take_sign]. change (43 =? 45)%N with false. change (43 =? 43)%N with true.
    cbv beta iota zeta.
    rewrite Hus, Hscan. cbn [negb andb].
    destruct (int_max_str_digits <? N.of_nat (length (c :: r)))%N; reflexivity.
Qed.

(** the shape the schema lexer accepts: sign list and digits *)
Lemma lex_integer_shape s z :
  lex_integer s = Some z ->
  exists sg ds, s = sg ++ ds /\ (sg = [] \/ sg = [45%N] \/ sg = [43%N])
    /\ all_digits ds = true /\ int_digits s = N.of_nat (length ds)
    /\ z = (if str_eqb sg [45%N] then - Z.of_N (dec_value ds) else Z.of_N (dec_value ds)).
Proof.
  unfold lex_integer, int_digits. destruct s as [|c r]; [discriminate|].
  change c_minus with 45%N. change c_plus with 43%N. cbn [take_sign].
  destruct (N.eqb_spec c 45) as [->|Hm].
  - destruct (all_digits r) eqn:A; [|discriminate]. intros [= <-].
    exists [45%N], r. cbn [snd]. repeat split; auto.
  - destruct (N.eqb_spec c 43) as [->|Hp].
    + destruct (all_digits r) eqn:A; [|discriminate]. intros [= <-].
      exists [43%N], r. cbn [snd]. repeat split; auto.
    + destruct (all_digits (c :: r)) eqn:A; [|discriminate]. intros [= <-].
      exists [], (c :: r). cbn [snd]. repeat split; auto.
Qed.

(** whatever the schema lexer accepts as an integer, python int() reads as the same
    number, provided the number of digits after the sign is within the interpreter
    limit *)
Lemma int_of_str_lex s z :
  lex_integer s = Some z -> (int_digits s <= int_max_str_digits)%N ->
  int_of_str false s = Ok z.
Proof.
  intros H Hlen. destruct (lex_integer_shape s z H) as (sg & ds & -> & Hsg & A & Hd & ->).
  rewrite int_of_str_signed_digits by assumption. rewrite Hd in Hlen.
  destruct (N.ltb_spec int_max_str_digits (N.of_nat (length ds))); [lia|reflexivity].
Qed.

(** sufficient guard on the whole length *)
Lemma int_of_str_lex_len s z :
  lex_integer s = Some z -> (N.of_nat (length s) <= int_max_str_digits)%N ->
  int_of_str false s = Ok z.
Proof.
  intros H Hlen. apply int_of_str_lex; [assumption|].
  unfold int_digits. destruct s as [|c r]; [discriminate|]. cbn [take_sign].
  destruct (c =? 45)%N; [|destruct (c =? 43)%N]; cbn [snd length] in *; lia.
Qed.

(** with more digits than the limit after the sign, the model raises like python *)
Lemma int_of_str_lex_over s z :
  lex_integer s = Some z -> (int_max_str_digits < int_digits s)%N ->
  int_of_str false s = Err ValueErr.
Proof.
  intros H Hlen. destruct (lex_integer_shape s z H) as (sg & ds & -> & Hsg & A & Hd & ->).
  rewrite int_of_str_signed_digits by assumption. rewrite Hd in Hlen.
  destruct (N.ltb_spec int_max_str_digits (N.of_nat (length ds))); [reflexivity|lia].
Qed.

(** python int(str(z)) = z.  The bound is the interpreter digit limit: for larger z
    python str(z) itself raises, and int() of that many digits raises too. *)
Lemma int_of_str_of_Z z :
  Z.abs z < 10 ^ Z.of_N int_max_str_digits -> int_of_str false (str_of_Z z) = Ok z.
Proof.
  intros Hz. apply int_of_str_lex; [apply lex_integer_str_of_Z|].
  assert (G : forall p, Z.pos p < 10 ^ Z.of_N int_max_str_digits ->
              (N.of_nat (length (dec_of_N (N.pos p))) <= int_max_str_digits)%N).
  { intros p Hp. apply dec_of_N_count; [unfold int_max_str_digits; lia|].
    apply N2Z.inj_lt. rewrite N2Z.inj_pow. exact Hp. }
  unfold int_digits. destruct z as [|p|p]; cbn [str_of_Z].
  - cbn. unfold int_max_str_digits. lia.
  - assert (A := dec_of_N_all_digits (N.pos p)).
    destruct (all_digits_cons _ A) as (c & r & E & Hc & _).
    destruct (digit_not_sign c Hc) as (H45 & H43 & _).
    specialize (G p Hz). rewrite E in G |- *. cbn [take_sign]. rewrite H45, H43. exact G.
  - cbn [take_sign]. change (45 =? 45)%N with true. cbn [snd]. apply G. exact Hz.
Qed.

Example int_of_str_of_Z_nonvacuous :
  int_of_str false (str_of_Z (-9144000)) = Ok (-9144000)
  /\ lex_integer (str_of_Z (-9144000)) = Some (-9144000)
  /\ str_of_Z (-9144000) = [45; 57; 49; 52; 52; 48; 48; 48]%N.
Proof. vm_compute. repeat split. Qed.

Example int_of_str_lex_nonvacuous :
  lex_integer [43; 48; 52; 50]%N = Some 42
  /\ (int_digits [43; 48; 52; 50]%N <= int_max_str_digits)%N
  /\ int_of_str false [43; 48; 52; 50]%N = Ok 42.
Proof. vm_compute. repeat split; discriminate. Qed.

Print Assumptions int_of_str_of_Z.
Print Assumptions lex_integer_str_of_Z.
Print Assumptions int_of_str_lex.
Print Assumptions int_of_str_lex_len.
Print Assumptions int_of_str_lex_over.
Print Assumptions str_of_Z_digits.

(** * Order by exact value: scaling, reflexivity, symmetry, transitivity *)

Lemma pow2_pos k : 0 <= k -> 0 < 2 ^ k.
Proof. intros; apply Z.pow_pos_nonneg; lia. Qed.

(** comparison of two finite floats on any common scale 2^K below both exponents *)
Lemma f_cmp_scale m1 e1 m2 e2 K :
  K <= e1 -> K <= e2 ->
  f_cmp (Fin m1 e1) (Fin m2 e2) = Some (m1 * 2 ^ (e1 - K) ?= m2 * 2 ^ (e2 - K)).
Proof.
  intros H1 H2. cbn [f_cmp]. f_equal.
  remember (Z.min e1 e2) as e eqn:He.
  rewrite !Z.shiftl_mul_pow2 by lia.
  replace (e1 - K) with ((e1 - e) + (e - K)) by lia.
  replace (e2 - K) with ((e2 - e) + (e - K)) by lia.
  rewrite !Z.pow_add_r, !Z.mul_assoc by lia.
  apply Zmult_compare_compat_r. apply Z.lt_gt. apply pow2_pos. lia.
Qed.

Lemma fin_leb_scale m1 e1 m2 e2 K :
  K <= e1 -> K <= e2 ->
  f_leb (Fin m1 e1) (Fin m2 e2) = (m1 * 2 ^ (e1 - K) <=? m2 * 2 ^ (e2 - K)).
Proof.
  intros H1 H2. unfold f_leb. rewrite (f_cmp_scale m1 e1 m2 e2 K H1 H2). unfold Z.leb.
  destruct (m1 * 2 ^ (e1 - K) ?= m2 * 2 ^ (e2 - K)); reflexivity.
Qed.

Lemma fin_eqb_scale m1 e1 m2 e2 K :
  K <= e1 -> K <= e2 ->
  f_eqb (Fin m1 e1) (Fin m2 e2) = (m1 * 2 ^ (e1 - K) =? m2 * 2 ^ (e2 - K)).
Proof.
  intros H1 H2. unfold f_eqb. rewrite (f_cmp_scale m1 e1 m2 e2 K H1 H2), Z.eqb_compare.
  destruct (m1 * 2 ^ (e1 - K) ?= m2 * 2 ^ (e2 - K)); reflexivity.
Qed.

Lemma f_cmp_opp a b :
  f_cmp b a = match f_cmp a b with Some c => Some (CompOpp c) | None => None end.
Proof.
  destruct a as [m1 e1| | |], b as [m2 e2| | |]; try reflexivity.
  rewrite (f_cmp_scale m2 e2 m1 e1 (Z.min e1 e2)), (f_cmp_scale m1 e1 m2 e2 (Z.min e1 e2)) by lia.
  f_equal. apply Z.compare_antisym.
Qed.

Lemma f_eqb_refl x : x <> NaN -> f_eqb x x = true.
Proof.
  destruct x as [m e| | |]; try reflexivity; [|congruence]. intros _.
  rewrite (fin_eqb_scale m e m e e) by lia. apply Z.eqb_refl.
Qed.

Lemma f_eqb_leb a b : f_eqb a b = true -> f_leb a b = true /\ f_leb b a = true.
Proof.
  unfold f_eqb, f_leb. rewrite (f_cmp_opp a b).
  destruct (f_cmp a b) as [[]|]; try discriminate. auto.
Qed.

Lemma f_leb_not_nan a b : f_leb a b = true -> a <> NaN /\ b <> NaN.
Proof. destruct a, b; cbn; try discriminate; split; congruence. Qed.

Lemma f_leb_trans a b c : f_leb a b = true -> f_leb b c = true -> f_leb a c = true.
Proof.
  destruct a as [m1 e1| | |], b as [m2 e2| | |], c as [m3 e3| | |];
    try reflexivity; try discriminate.
  remember (Z.min e1 (Z.min e2 e3)) as K eqn:HK.
  rewrite (fin_leb_scale m1 e1 m2 e2 K), (fin_leb_scale m2 e2 m3 e3 K),
          (fin_leb_scale m1 e1 m3 e3 K) by lia.
  rewrite !Z.leb_le. lia.
Qed.

Lemma f_leb_refl x : x <> NaN -> f_leb x x = true.
Proof. intros H. apply (f_eqb_leb x x). now apply f_eqb_refl. Qed.

Lemma f_leb_neg a b : f_leb (f_neg a) (f_neg b) = f_leb b a.
Proof.
  destruct a as [m1 e1| | |], b as [m2 e2| | |]; try reflexivity.
  cbn [f_neg].
  rewrite (fin_leb_scale (- m1) e1 (- m2) e2 (Z.min e1 e2)),
          (fin_leb_scale m2 e2 m1 e1 (Z.min e1 e2)) by lia.
  apply Bool.eq_true_iff_eq. rewrite !Z.leb_le. lia.
Qed.

(** connection with the cross-multiplied form used by f_round_mono *)
Lemma f_leb_cross a b :
  f_leb a b = true -> f_is_finite a = true -> f_is_finite b = true ->
  f_num a * f_den b <= f_num b * f_den a.
Proof.
  intros H Ha Hb. rewrite (f_leb_exact a b Ha Hb) in H. now apply Z.leb_le.
Qed.

(** * The integer rounding inside [round_dy] and [f_round] *)

(** a / 2^sh rounded to the nearest integer, ties to even *)
Definition rne (a sh : Z) : Z :=
  let q := Z.shiftr a sh in
  let rem := a - Z.shiftl q sh in
  let half := Z.shiftl 1 (sh - 1) in
  if (half <? rem) || ((half =? rem) && Z.odd q) then q + 1 else q.

Lemma f_round_rne a sh : 0 < sh -> f_round (Fin a (- sh)) = Ok (rne a sh).
Proof.
  intros H. unfold f_round, rne. destruct (Z.leb_spec 0 (- sh)); [lia|].
  rewrite Z.opp_involutive. reflexivity.
Qed.

Lemma rne_mono a1 sh1 a2 sh2 :
  0 < sh1 -> 0 < sh2 -> a1 * 2 ^ sh2 <= a2 * 2 ^ sh1 -> rne a1 sh1 <= rne a2 sh2.
Proof.
  intros H1 H2 H.
  apply (f_round_mono (Fin a1 (- sh1)) (Fin a2 (- sh2))); try (apply f_round_rne; assumption).
  cbn [f_num f_den]. rewrite !Z.opp_involutive.
  replace (Z.max (- sh1) 0) with 0 by lia. replace (Z.max (- sh2) 0) with 0 by lia.
  replace (Z.max sh1 0) with sh1 by lia. replace (Z.max sh2 0) with sh2 by lia.
  change (2 ^ 0) with 1. lia.
Qed.

Lemma rne_exact k sh : 0 < sh -> rne (k * 2 ^ sh) sh = k.
Proof.
  intros H.
  assert (R : f_round (Fin k 0) = Ok k).
  { rewrite f_round_int by lia. change (2 ^ 0) with 1. f_equal. lia. }
  assert (P := pow2_pos sh ltac:(lia)).
  apply Z.le_antisymm.
  - apply (f_round_mono (Fin (k * 2 ^ sh) (- sh)) (Fin k 0) _ _ (f_round_rne _ _ H) R).
    cbn [f_num f_den]. rewrite Z.opp_involutive.
    replace (Z.max (- sh) 0) with 0 by lia. replace (Z.max sh 0) with sh by lia.
    change (Z.max 0 0) with 0. change (Z.max (- 0) 0) with 0. change (2 ^ 0) with 1. lia.
  - apply (f_round_mono (Fin k 0) (Fin (k * 2 ^ sh) (- sh)) _ _ R (f_round_rne _ _ H)).
    cbn [f_num f_den]. rewrite Z.opp_involutive.
    replace (Z.max (- sh) 0) with 0 by lia. replace (Z.max sh 0) with sh by lia.
    change (Z.max 0 0) with 0. change (Z.max (- 0) 0) with 0. change (2 ^ 0) with 1. lia.
Qed.

Lemma rne_nonneg a sh : 0 < sh -> 0 <= a -> 0 <= rne a sh.
Proof.
  intros H Ha. rewrite <- (rne_exact 0 sh H). apply rne_mono; try assumption.
  assert (P := pow2_pos sh ltac:(lia)). nia.
Qed.

(** [round_dy] of a positive mantissa in its rounding branch *)
Lemma round_dy_pos_unfold m e :
  0 < m ->
  round_dy m e =
    let lm := Z.log2 m in
    if lm + e <? -1075 then Fin 0 0 else
    let e' := Z.max (lm + e - 52) (-1074) in
    if e' <=? e then (if 1024 <=? lm + e then PInf else Fin m e)
    else let q := rne m (e' - e) in
         if 1024 <=? Z.log2 q + e' then PInf else Fin q e'.
Proof.
  intros H. unfold round_dy, rne.
  destruct (Z.eqb_spec m 0); [lia|]. destruct (Z.ltb_spec m 0); [lia|].
  rewrite Z.abs_eq by lia. reflexivity.
Qed.

Lemma round_dy_opp m e : round_dy (- m) e = f_neg (round_dy m e).
Proof.
  unfold round_dy. rewrite Z.abs_opp.
  destruct (Z.eqb_spec m 0) as [->|Hm]; [reflexivity|].
  destruct (Z.eqb_spec (- m) 0); [lia|].
  destruct (Z.log2 (Z.abs m) + e <? -1075); [reflexivity|].
  assert (Hs : (- m <? 0) = negb (m <? 0)).
  { destruct (Z.ltb_spec (- m) 0), (Z.ltb_spec m 0); try reflexivity; lia. }
  rewrite Hs. cbv zeta.
  destruct (Z.max (Z.log2 (Z.abs m) + e - 52) (-1074) <=? e).
  - destruct (1024 <=? Z.log2 (Z.abs m) + e); [destruct (m <? 0); reflexivity|reflexivity].
  - match goal with |- context [1024 <=? ?x] => destruct (1024 <=? x) end;
      [destruct (m <? 0); reflexivity|].
    destruct (m <? 0); cbn [negb f_neg]; [now rewrite Z.opp_involutive|reflexivity].
Qed.

Lemma round_dy_not_nan m e : round_dy m e <> NaN.
Proof.
  unfold round_dy, inf_of_sign.
  repeat match goal with
         | |- context [if ?b then _ else _] => destruct b
         end; cbv zeta; try discriminate;
  repeat match goal with
         | |- context [if ?b then _ else _] => destruct b
         end; discriminate.
Qed.

(** * [round_dy] does not depend on the representation of its argument *)

Lemma round_dy_scale m e k :
  0 < m -> 0 <= k -> f_eqb (round_dy m e) (round_dy (m * 2 ^ k) (e - k)) = true.
Proof.
  intros Hm Hk.
  assert (Pk := pow2_pos k Hk).
  assert (Hm' : 0 < m * 2 ^ k) by (apply Z.mul_pos_pos; assumption).
  rewrite (round_dy_pos_unfold m e Hm), (round_dy_pos_unfold (m * 2 ^ k) (e - k) Hm').
  rewrite Z.log2_mul_pow2 by lia. cbv zeta.
  replace (k + Z.log2 m + (e - k)) with (Z.log2 m + e) by lia.
  remember (Z.log2 m) as lm eqn:Hlm.
  destruct (Z.ltb_spec (lm + e) (-1075)); [reflexivity|].
  remember (Z.max (lm + e - 52) (-1074)) as E eqn:HE.
  destruct (Z.leb_spec E (e - k)) as [F2|F2].
  - (* both fit *)
    destruct (Z.leb_spec E e); [|lia].
    destruct (1024 <=? lm + e); [reflexivity|].
    rewrite (fin_eqb_scale m e (m * 2 ^ k) (e - k) (e - k)) by lia.
    apply Z.eqb_eq. replace (e - (e - k)) with k by lia.
    replace (e - k - (e - k)) with 0 by lia. change (2 ^ 0) with 1. lia.
  - destruct (Z.leb_spec E e) as [F1|F1].
    + (* the original fits, the scaled one is rounded, exactly *)
      assert (Hq : rne (m * 2 ^ k) (E - (e - k)) = m * 2 ^ (e - E)).
      { replace (m * 2 ^ k) with (m * 2 ^ (e - E) * 2 ^ (E - (e - k))).
        - apply rne_exact. lia.
        - rewrite <- Z.mul_assoc, <- Z.pow_add_r by lia. do 2 f_equal. lia. }
      rewrite Hq. rewrite Z.log2_mul_pow2 by lia.
      replace (e - E + Z.log2 m + E) with (lm + e) by lia.
      destruct (1024 <=? lm + e); [reflexivity|].
      rewrite (fin_eqb_scale m e (m * 2 ^ (e - E)) E E) by lia.
      apply Z.eqb_eq. replace (E - E) with 0 by lia. change (2 ^ 0) with 1. lia.
    + (* both rounded: same quotient *)
      assert (Hq : rne (m * 2 ^ k) (E - (e - k)) = rne m (E - e)).
      { assert (Hp : 2 ^ (E - (e - k)) = 2 ^ (E - e) * 2 ^ k).
        { rewrite <- Z.pow_add_r by lia. f_equal. lia. }
        apply Z.le_antisymm; apply rne_mono; try lia; rewrite Hp; lia. }
      rewrite Hq.
      destruct (1024 <=? Z.log2 (rne m (E - e)) + E); [reflexivity|].
      apply f_eqb_refl. discriminate.
Qed.

(** closed form on a scale 2^K below every binary64 exponent *)
Definition rd_form (X K : Z) : pyfloat :=
  let lx := Z.log2 X in
  if lx + K <? -1075 then Fin 0 0 else
  let E := Z.max (lx + K - 52) (-1074) in
  let q := rne X (E - K) in
  if 1024 <=? Z.log2 q + E then PInf else Fin q E.

Lemma round_dy_deep X K : 0 < X -> K <= -1075 -> round_dy X K = rd_form X K.
Proof.
  intros HX HK. rewrite (round_dy_pos_unfold X K HX). unfold rd_form. cbv zeta.
  destruct (Z.log2 X + K <? -1075); [reflexivity|].
  destruct (Z.leb_spec (Z.max (Z.log2 X + K - 52) (-1074)) K); [lia|reflexivity].
Qed.

Lemma round_dy_to_form m e K :
  0 < m -> K <= e -> K <= -1075 ->
  f_eqb (round_dy m e) (rd_form (m * 2 ^ (e - K)) K) = true.
Proof.
  intros Hm H1 H2.
  rewrite <- round_dy_deep; [|apply Z.mul_pos_pos; [assumption|apply pow2_pos; lia]|assumption].
  replace K with (e - (e - K)) at 2 by lia. apply round_dy_scale; lia.
Qed.

Lemma rd_form_nonneg X K : 0 < X -> K <= -1075 -> f_leb (Fin 0 0) (rd_form X K) = true.
Proof.
  intros HX HK. unfold rd_form. cbv zeta.
  destruct (Z.log2 X + K <? -1075); [reflexivity|].
  remember (Z.max (Z.log2 X + K - 52) (-1074)) as E eqn:HE.
  destruct (1024 <=? Z.log2 (rne X (E - K)) + E); [reflexivity|].
  assert (Q : 0 <= rne X (E - K)) by (apply rne_nonneg; lia).
  rewrite (fin_leb_scale 0 0 (rne X (E - K)) E (Z.min 0 E)) by lia.
  apply Z.leb_le. assert (P := pow2_pos (E - Z.min 0 E) ltac:(lia)). nia.
Qed.

(** * Monotonicity of [round_dy] *)

Lemma log2_bounds a : 0 < a -> 2 ^ Z.log2 a <= a < 2 ^ (Z.log2 a + 1).
Proof. intros H. replace (Z.log2 a + 1) with (Z.succ (Z.log2 a)) by lia. now apply Z.log2_spec. Qed.

(** the rounded quotient has at most 53 bits (2^53 itself is possible) *)
Lemma rne_upper X sh : 0 < X -> 0 < sh -> Z.log2 X - 52 <= sh -> rne X sh <= 2 ^ 53.
Proof.
  intros HX Hsh H. rewrite <- (rne_exact (2 ^ 53) sh Hsh). apply rne_mono; try assumption.
  apply Z.mul_le_mono_nonneg_r; [apply Z.lt_le_incl, pow2_pos; lia|].
  rewrite <- Z.pow_add_r by lia.
  destruct (log2_bounds X HX) as [_ Hu].
  apply Z.lt_le_incl. eapply Z.lt_le_trans; [exact Hu|].
  apply Z.pow_le_mono_r; [lia|]. assert (0 <= Z.log2 X) by apply Z.log2_nonneg. lia.
Qed.

(** and at least 53 bits in the normal range *)
Lemma rne_lower X sh : 0 < X -> 0 < sh -> sh = Z.log2 X - 52 -> 2 ^ 52 <= rne X sh.
Proof.
  intros HX Hsh H. rewrite <- (rne_exact (2 ^ 52) sh Hsh). apply rne_mono; try assumption.
  apply Z.mul_le_mono_nonneg_r; [apply Z.lt_le_incl, pow2_pos; lia|].
  rewrite <- Z.pow_add_r by lia.
  destruct (log2_bounds X HX) as [Hl _].
  replace (52 + sh) with (Z.log2 X) by lia. exact Hl.
Qed.

Lemma rd_form_mono X1 X2 K :
  0 < X1 -> X1 <= X2 -> K <= -1075 -> f_leb (rd_form X1 K) (rd_form X2 K) = true.
Proof.
  intros H1 H12 HK.
  assert (H2 : 0 < X2) by lia.
  assert (Hl : Z.log2 X1 <= Z.log2 X2) by (apply Z.log2_le_mono; lia).
  assert (N2 := rd_form_nonneg X2 K H2 HK).
  unfold rd_form in *. cbv zeta in *.
  remember (Z.log2 X1) as l1 eqn:Hl1. remember (Z.log2 X2) as l2 eqn:Hl2.
  destruct (Z.ltb_spec (l1 + K) (-1075)) as [U1|U1]; [exact N2|]. clear N2.
  destruct (Z.ltb_spec (l2 + K) (-1075)) as [U2|U2]; [lia|].
  remember (Z.max (l1 + K - 52) (-1074)) as E1 eqn:HE1.
  remember (Z.max (l2 + K - 52) (-1074)) as E2 eqn:HE2.
  assert (P0 := pow2_pos (E1 - K) ltac:(lia)).
  assert (P0' := pow2_pos (E2 - K) ltac:(lia)).
  destruct (Z.eq_dec E1 E2) as [EE|EN].
  - (* same grid *)
    rewrite <- EE in *.
    assert (Q : rne X1 (E1 - K) <= rne X2 (E1 - K)).
    { apply rne_mono; try lia. apply Z.mul_le_mono_nonneg_r; lia. }
    assert (Q0 : 0 <= rne X1 (E1 - K)) by (apply rne_nonneg; lia).
    assert (LQ := Z.log2_le_mono _ _ Q).
    destruct (Z.leb_spec 1024 (Z.log2 (rne X1 (E1 - K)) + E1)) as [O1|O1];
    destruct (Z.leb_spec 1024 (Z.log2 (rne X2 (E1 - K)) + E1)) as [O2|O2];
      try reflexivity; [lia|].
    rewrite (fin_leb_scale _ E1 _ E1 E1) by lia. apply Z.leb_le.
    replace (E1 - E1) with 0 by lia. change (2 ^ 0) with 1. lia.
  - (* the larger argument lives on a strictly coarser grid *)
    assert (EL : E1 < E2) by lia.
    assert (QU : rne X1 (E1 - K) <= 2 ^ 53) by (apply rne_upper; lia).
    assert (QL : 2 ^ 52 <= rne X2 (E2 - K)) by (apply rne_lower; lia).
    assert (Q0 : 0 <= rne X1 (E1 - K)) by (apply rne_nonneg; lia).
    assert (LU : Z.log2 (rne X1 (E1 - K)) <= 53).
    { replace 53 with (Z.log2 (2 ^ 53)) by (apply Z.log2_pow2; lia). now apply Z.log2_le_mono. }
    assert (LL : 52 <= Z.log2 (rne X2 (E2 - K))).
    { replace 52 with (Z.log2 (2 ^ 52)) at 1 by (apply Z.log2_pow2; lia). now apply Z.log2_le_mono. }
    destruct (Z.leb_spec 1024 (Z.log2 (rne X1 (E1 - K)) + E1)) as [O1|O1];
    destruct (Z.leb_spec 1024 (Z.log2 (rne X2 (E2 - K)) + E2)) as [O2|O2];
      try reflexivity; [lia|].
    rewrite (fin_leb_scale _ E1 _ E2 E1) by lia. apply Z.leb_le.
    replace (E1 - E1) with 0 by lia. change (2 ^ 0) with 1. rewrite Z.mul_1_r.
    assert (P2 : 2 ^ 1 <= 2 ^ (E2 - E1)) by (apply Z.pow_le_mono_r; lia).
    change (2 ^ 1) with 2 in P2. change (2 ^ 53) with (2 ^ 52 * 2) in QU.
    eapply Z.le_trans; [exact QU|]. apply Z.mul_le_mono_nonneg; lia.
Qed.

Lemma round_dy_mono_pos m1 e1 m2 e2 :
  0 < m1 -> 0 < m2 -> f_leb (Fin m1 e1) (Fin m2 e2) = true ->
  f_leb (round_dy m1 e1) (round_dy m2 e2) = true.
Proof.
  intros H1 H2 H.
  remember (Z.min (Z.min e1 e2) (-1075)) as K eqn:HK.
  rewrite (fin_leb_scale m1 e1 m2 e2 K) in H by lia. apply Z.leb_le in H.
  destruct (f_eqb_leb _ _ (round_dy_to_form m1 e1 K H1 ltac:(lia) ltac:(lia))) as [A _].
  destruct (f_eqb_leb _ _ (round_dy_to_form m2 e2 K H2 ltac:(lia) ltac:(lia))) as [_ B].
  eapply f_leb_trans; [exact A|]. eapply f_leb_trans; [|exact B].
  apply rd_form_mono; [|assumption|lia].
  apply Z.mul_pos_pos; [assumption|apply pow2_pos; lia].
Qed.

Lemma round_dy_nonneg m e : 0 <= m -> f_leb (Fin 0 0) (round_dy m e) = true.
Proof.
  intros H. destruct (Z.eq_dec m 0) as [->|Hn]; [reflexivity|].
  remember (Z.min e (-1075)) as K eqn:HK.
  destruct (f_eqb_leb _ _ (round_dy_to_form m e K ltac:(lia) ltac:(lia) ltac:(lia))) as [_ B].
  eapply f_leb_trans; [|exact B]. apply rd_form_nonneg; [|lia].
  apply Z.mul_pos_pos; [lia|apply pow2_pos; lia].
Qed.

Lemma round_dy_nonpos m e : m <= 0 -> f_leb (round_dy m e) (Fin 0 0) = true.
Proof.
  intros H. replace m with (- - m) by lia. rewrite round_dy_opp.
  change (Fin 0 0) with (f_neg (Fin 0 0)). rewrite f_leb_neg. apply round_dy_nonneg. lia.
Qed.

(** rounding to binary64 is monotone with respect to the exact values *)
Theorem round_dy_mono m1 e1 m2 e2 :
  f_leb (Fin m1 e1) (Fin m2 e2) = true ->
  f_leb (round_dy m1 e1) (round_dy m2 e2) = true.
Proof.
  intros H.
  assert (S : m1 * 2 ^ (e1 - Z.min e1 e2) <= m2 * 2 ^ (e2 - Z.min e1 e2)).
  { rewrite (fin_leb_scale m1 e1 m2 e2 (Z.min e1 e2)) in H by lia. now apply Z.leb_le. }
  assert (Pa := pow2_pos (e1 - Z.min e1 e2) ltac:(lia)).
  assert (Pb := pow2_pos (e2 - Z.min e1 e2) ltac:(lia)).
  destruct (Z.lt_trichotomy m1 0) as [N1|[Z1|P1]];
  destruct (Z.lt_trichotomy m2 0) as [N2|[Z2|P2]].
  - (* both negative: mirror *)
    replace m1 with (- - m1) by lia. replace m2 with (- - m2) by lia.
    rewrite (round_dy_opp (- m1)), (round_dy_opp (- m2)), f_leb_neg.
    apply round_dy_mono_pos; try lia.
    change (Fin (- m2) e2) with (f_neg (Fin m2 e2)). change (Fin (- m1) e1) with (f_neg (Fin m1 e1)).
    now rewrite f_leb_neg.
  - eapply f_leb_trans; [apply round_dy_nonpos; lia|apply round_dy_nonneg; lia].
  - eapply f_leb_trans; [apply round_dy_nonpos; lia|apply round_dy_nonneg; lia].
  - exfalso. subst m1. nia.
  - eapply f_leb_trans; [apply round_dy_nonpos; lia|apply round_dy_nonneg; lia].
  - eapply f_leb_trans; [apply round_dy_nonpos; lia|apply round_dy_nonneg; lia].
  - exfalso. nia.
  - exfalso. subst m2. nia.
  - now apply round_dy_mono_pos.
Qed.

(** * Consequences: int -> float, multiplication by a positive constant, truncation *)

Lemma f_of_Z_round z x : f_of_Z z = Ok x -> x = round_dy z 0.
Proof. unfold f_of_Z. destruct (round_dy z 0); intros [= <-]; reflexivity. Qed.

(** python float(int) is monotone *)
Lemma f_of_Z_mono z1 z2 a b :
  z1 <= z2 -> f_of_Z z1 = Ok a -> f_of_Z z2 = Ok b -> f_leb a b = true.
Proof.
  intros H Ha Hb. rewrite (f_of_Z_round _ _ Ha), (f_of_Z_round _ _ Hb).
  apply round_dy_mono. rewrite (fin_leb_scale z1 0 z2 0 0) by lia.
  apply Z.leb_le. change (2 ^ (0 - 0)) with 1. lia.
Qed.

(** a float that is already representable is a fixed point of float(int)-style rounding:
    rounding the exact integer z keeps it on the same side of any representable bound *)
Lemma round_dy_mono_lower lo_m lo_e m e :
  round_dy lo_m lo_e = Fin lo_m lo_e ->
  f_leb (Fin lo_m lo_e) (Fin m e) = true -> f_leb (Fin lo_m lo_e) (round_dy m e) = true.
Proof. intros R H. rewrite <- R at 1. now apply round_dy_mono. Qed.

Lemma round_dy_mono_upper hi_m hi_e m e :
  round_dy hi_m hi_e = Fin hi_m hi_e ->
  f_leb (Fin m e) (Fin hi_m hi_e) = true -> f_leb (round_dy m e) (Fin hi_m hi_e) = true.
Proof. intros R H. rewrite <- R. now apply round_dy_mono. Qed.

(** x * c is monotone in x for a fixed positive finite c *)
Lemma f_mul_mono_l a b mc ec :
  f_is_finite a = true -> f_is_finite b = true -> 0 < mc ->
  f_leb a b = true -> f_leb (f_mul a (Fin mc ec)) (f_mul b (Fin mc ec)) = true.
Proof.
  destruct a as [m1 e1| | |], b as [m2 e2| | |]; cbn [f_is_finite]; try discriminate.
  intros _ _ Hc H. cbn [f_mul]. apply round_dy_mono.
  remember (Z.min e1 e2) as K eqn:HK.
  rewrite (fin_leb_scale m1 e1 m2 e2 K) in H by lia. apply Z.leb_le in H.
  rewrite (fin_leb_scale (m1 * mc) (e1 + ec) (m2 * mc) (e2 + ec) (K + ec)) by lia.
  apply Z.leb_le.
  replace (e1 + ec - (K + ec)) with (e1 - K) by lia.
  replace (e2 + ec - (K + ec)) with (e2 - K) by lia.
  replace (m1 * mc * 2 ^ (e1 - K)) with (m1 * 2 ^ (e1 - K) * mc) by ring.
  replace (m2 * mc * 2 ^ (e2 - K)) with (m2 * 2 ^ (e2 - K) * mc) by ring.
  apply Z.mul_le_mono_nonneg_r; lia.
Qed.

Lemma f_mul_fin_not_nan a mc ec : f_is_finite a = true -> f_mul a (Fin mc ec) <> NaN.
Proof. destruct a; cbn [f_is_finite f_mul]; try discriminate. intros _. apply round_dy_not_nan. Qed.

(** python int(float) is monotone *)
Lemma f_trunc_mono a b ta tb :
  f_trunc a = Ok ta -> f_trunc b = Ok tb ->
  f_num a * f_den b <= f_num b * f_den a -> ta <= tb.
Proof.
  intros Ha Hb H.
  assert (Fa : f_is_finite a = true) by (destruct a; cbn in Ha |- *; try discriminate; reflexivity).
  assert (Fb : f_is_finite b = true) by (destruct b; cbn in Hb |- *; try discriminate; reflexivity).
  rewrite (f_trunc_exact a Fa) in Ha. rewrite (f_trunc_exact b Fb) in Hb.
  injection Ha as <-. injection Hb as <-.
  assert (Da := f_den_pos a). assert (Db := f_den_pos b).
  rewrite <- (Z.quot_mul_cancel_r (f_num a) (f_den a) (f_den b)) by lia.
  rewrite <- (Z.quot_mul_cancel_r (f_num b) (f_den b) (f_den a)) by lia.
  rewrite (Z.mul_comm (f_den b) (f_den a)).
  apply Z.quot_le_mono; [apply Z.mul_pos_pos; lia|assumption].
Qed.

Lemma f_trunc_mono_leb a b ta tb :
  f_trunc a = Ok ta -> f_trunc b = Ok tb -> f_leb a b = true -> ta <= tb.
Proof.
  intros Ha Hb H. apply (f_trunc_mono a b ta tb Ha Hb). apply f_leb_cross; [assumption| |];
    [destruct a|destruct b]; cbn in *; try discriminate; reflexivity.
Qed.

Lemma f_round_mono_leb a b ra rb :
  f_round a = Ok ra -> f_round b = Ok rb -> f_leb a b = true -> ra <= rb.
Proof.
  intros Ha Hb H. apply (f_round_mono a b ra rb Ha Hb). apply f_leb_cross; [assumption| |];
    eapply f_round_finite; eassumption.
Qed.

Example round_dy_mono_nonvacuous :
  f_leb (Fin 9007199254740993 0) (Fin 9007199254740995 0) = true
  /\ round_dy 9007199254740993 0 = Fin 4503599627370496 1
  /\ round_dy 9007199254740995 0 = Fin 4503599627370498 1.
Proof. vm_compute. repeat split. Qed.

Example f_mul_mono_l_nonvacuous :
  f_leb (Fin 1 (-1)) (Fin 3 (-2)) = true
  /\ f_mul (Fin 1 (-1)) (Fin 100000 0) = Fin 100000 (-1)
  /\ f_mul (Fin 3 (-2)) (Fin 100000 0) = Fin 300000 (-2).
Proof. vm_compute. repeat split. Qed.

Print Assumptions round_dy_mono.
Print Assumptions round_dy_scale.
Print Assumptions f_of_Z_mono.
Print Assumptions f_mul_mono_l.
Print Assumptions f_trunc_mono.
Print Assumptions f_leb_trans.
Print Assumptions f_cmp_opp.
