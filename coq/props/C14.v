From V.lib Require Import Prelude.
From V.model Require Import Table.
From V.proofs Require Import Table_proofs.

Example C14_smoke : exists t, new_tbl 2 3 100 101 = Ok t.
Proof. exact new_tbl_smoke. Qed.
Print Assumptions C14_smoke.
