(** Proofs about model/Geom.v.  Each statement is re-stated in props/C17.v and closed
    there by [exact <this lemma>]. *)
From V.lib Require Import Prelude.
From V.model Require Import Geom.
From Coq Require Import ZifyBool.
Open Scope Z_scope.

(* ================================================================== connector *)

Definition Inv (c : conn) : Prop := 0 <= c_cx c /\ 0 <= c_cy c.

Lemma conn_new bx by_ ex ey :
  let c := add_cxn bx by_ ex ey in
  begin_x c = bx /\ begin_y c = by_ /\ end_x c = ex /\ end_y c = ey /\ Inv c.
Proof.
  unfold add_cxn, begin_x, begin_y, end_x, end_y, Inv; cbn.
  destruct (Z.ltb_spec ex bx), (Z.ltb_spec ey by_); lia.
Qed.

Ltac conn_crush :=
  repeat (cbn [do_writes wr_ok wr_apply fst snd];
          match goal with
          | |- context [if (?a <=? ?b) then _ else _] => destruct (Z.leb_spec0 a b)
          | |- context [if coord_ok ?a then _ else _] =>
              let E := fresh "E" in destruct (coord_ok a) eqn:E
          | |- context [if pos_ok ?a then _ else _] =>
              let E := fresh "E" in destruct (pos_ok a) eqn:E
          end);
  cbn [do_writes wr_ok wr_apply fst snd].

Ltac conn_finish :=
  intros H; inversion H; subst; clear H;
  unfold begin_x, begin_y, end_x, end_y; cbn;
  unfold pos_ok, coord_ok in *; repeat split; try reflexivity; try lia.

(** One successful assignment, stated for each of the four setters. *)
Lemma set_begin_x_ok c v c' :
  set_begin_x c v = (c', None) ->
  begin_x c' = v /\ end_x c' = end_x c /\ begin_y c' = begin_y c /\ end_y c' = end_y c /\
  0 <= c_cx c' /\ c_y c' = c_y c /\ c_cy c' = c_cy c /\ c_fv c' = c_fv c.
Proof.
  destruct c as [x y cx cy fh fv].
  unfold set_begin_x, cstep, cop_writes, begin_writes; cbn [c_x c_y c_cx c_cy c_fh c_fv].
  destruct fh; cbn zeta; conn_crush; try discriminate; conn_finish.
Qed.

Lemma set_end_x_ok c v c' :
  set_end_x c v = (c', None) ->
  end_x c' = v /\ begin_x c' = begin_x c /\ begin_y c' = begin_y c /\ end_y c' = end_y c /\
  0 <= c_cx c' /\ c_y c' = c_y c /\ c_cy c' = c_cy c /\ c_fv c' = c_fv c.
Proof.
  destruct c as [x y cx cy fh fv].
  unfold set_end_x, cstep, cop_writes, end_writes; cbn [c_x c_y c_cx c_cy c_fh c_fv].
  destruct fh; cbn zeta; conn_crush; try discriminate; conn_finish.
Qed.

Lemma set_begin_y_ok c v c' :
  set_begin_y c v = (c', None) ->
  begin_y c' = v /\ end_y c' = end_y c /\ begin_x c' = begin_x c /\ end_x c' = end_x c /\
  0 <= c_cy c' /\ c_x c' = c_x c /\ c_cx c' = c_cx c /\ c_fh c' = c_fh c.
Proof.
  destruct c as [x y cx cy fh fv].
  unfold set_begin_y, cstep, cop_writes, begin_writes; cbn [c_x c_y c_cx c_cy c_fh c_fv].
  destruct fv; cbn zeta; conn_crush; try discriminate; conn_finish.
Qed.

Lemma set_end_y_ok c v c' :
  set_end_y c v = (c', None) ->
  end_y c' = v /\ begin_y c' = begin_y c /\ begin_x c' = begin_x c /\ end_x c' = end_x c /\
  0 <= c_cy c' /\ c_x c' = c_x c /\ c_cx c' = c_cx c /\ c_fh c' = c_fh c.
Proof.
  destruct c as [x y cx cy fh fv].
  unfold set_end_y, cstep, cop_writes, end_writes; cbn [c_x c_y c_cx c_cy c_fh c_fv].
  destruct fv; cbn zeta; conn_crush; try discriminate; conn_finish.
Qed.

(** Any successful assignment refines the abstract step and keeps the invariant. *)
Lemma cstep_ok c op c' :
  Inv c -> cstep c op = (c', None) -> abs_conn c' = seg_step (abs_conn c) op /\ Inv c'.
Proof.
  intros [Hx Hy] H; destruct op as [v|v|v|v].
  - apply set_begin_x_ok in H. unfold abs_conn, seg_step, Inv; cbn.
    destruct H as (-> & -> & -> & -> & ? & ? & -> & ?); auto.
  - apply set_begin_y_ok in H. unfold abs_conn, seg_step, Inv; cbn.
    destruct H as (-> & -> & -> & -> & ? & ? & -> & ?); auto.
  - apply set_end_x_ok in H. unfold abs_conn, seg_step, Inv; cbn.
    destruct H as (-> & -> & -> & -> & ? & ? & -> & ?); auto.
  - apply set_end_y_ok in H. unfold abs_conn, seg_step, Inv; cbn.
    destruct H as (-> & -> & -> & -> & ? & ? & -> & ?); auto.
Qed.

(** Every history of successful assignments: the connector reads as the two end points
    obtained by performing the assignments on an abstract segment. *)
Lemma conn_history_ok ops : forall c c',
  Inv c -> conn_run_ok c ops = Some c' ->
  abs_conn c' = fold_left seg_step ops (abs_conn c) /\ Inv c'.
Proof.
  induction ops as [|op ops IH]; intros c c' HI H; cbn in *.
  - inversion H; subst; auto.
  - destruct (cstep c op) as [c1 [e|]] eqn:E; try discriminate.
    destruct (cstep_ok _ _ _ HI E) as [Ha HI1].
    destruct (IH _ _ HI1 H) as [Hb HI2]. rewrite Hb, Ha; auto.
Qed.

(** Values for which no attribute validation can fail: half of the coordinate range. *)
Definition BOUND : Z := 13636521158450.
Definition inb (v : Z) : Prop := - BOUND <= v <= BOUND.
Definition seg_bounded (s : seg) : Prop := inb (s_bx s) /\ inb (s_by s) /\ inb (s_ex s) /\ inb (s_ey s).
Definition cop_val (op : cop) : Z := match op with SetBX v | SetBY v | SetEX v | SetEY v => v end.

Lemma cstep_succeeds c op :
  Inv c -> seg_bounded (abs_conn c) -> inb (cop_val op) -> snd (cstep c op) = None.
Proof.
  destruct c as [x y cx cy fh fv]; unfold Inv, seg_bounded, abs_conn, inb, BOUND; cbn.
  unfold begin_x, begin_y, end_x, end_y; cbn.
  intros [Hx Hy] (Hbx & Hby & Hex & Hey) Hv.
  destruct op as [v|v|v|v]; cbn in Hv;
    unfold cstep, cop_writes, begin_writes, end_writes; cbn [c_x c_y c_cx c_cy c_fh c_fv].
  - destruct fh; cbn zeta; conn_crush; try reflexivity;
      exfalso; unfold pos_ok, coord_ok, COORD_LO, COORD_HI in *; lia.
  - destruct fv; cbn zeta; conn_crush; try reflexivity;
      exfalso; unfold pos_ok, coord_ok, COORD_LO, COORD_HI in *; lia.
  - destruct fh; cbn zeta; conn_crush; try reflexivity;
      exfalso; unfold pos_ok, coord_ok, COORD_LO, COORD_HI in *; lia.
  - destruct fv; cbn zeta; conn_crush; try reflexivity;
      exfalso; unfold pos_ok, coord_ok, COORD_LO, COORD_HI in *; lia.
Qed.

Lemma seg_step_bounded s op : seg_bounded s -> inb (cop_val op) -> seg_bounded (seg_step s op).
Proof.
  unfold seg_bounded; destruct op; cbn; intuition.
Qed.

(** Total version: on bounded values no assignment raises, so the history as the
    implementation runs it refines the abstract history. *)
Lemma conn_history_total ops : forall c,
  Inv c -> seg_bounded (abs_conn c) -> Forall (fun op => inb (cop_val op)) ops ->
  conn_run_ok c ops = Some (conn_run c ops) /\
  abs_conn (conn_run c ops) = fold_left seg_step ops (abs_conn c) /\ Inv (conn_run c ops).
Proof.
  induction ops as [|op ops IH]; intros c HI HB HF.
  - cbn; auto.
  - inversion HF as [|? ? Hop HF']; subst.
    pose proof (cstep_succeeds c op HI HB Hop) as Hs.
    change (conn_run c (op :: ops)) with (conn_run (fst (cstep c op)) ops).
    cbn [conn_run_ok fold_left].
    destruct (cstep c op) as [c1 e] eqn:E; cbn in Hs; subst e; cbn [fst].
    destruct (cstep_ok _ _ _ HI E) as [Ha HI1].
    assert (HB1 : seg_bounded (abs_conn c1)) by (rewrite Ha; apply seg_step_bounded; auto).
    destruct (IH c1 HI1 HB1 HF') as (H1 & H2 & H3).
    rewrite H1, H2, Ha; auto.
Qed.

(** A refused assignment is not atomic: an end point that was not assigned moves. *)
Lemma conn_set_failure_not_atomic :
  exists c v c' e, Inv c /\ set_begin_x c v = (c', Some e) /\ end_x c' <> end_x c.
Proof.
  exists (add_cxn 0 0 COORD_HI 5), (-1).
  eexists; eexists; split; [|split].
  - unfold Inv; cbn; lia.
  - vm_compute; reflexivity.
  - vm_compute; discriminate.
Qed.

Lemma conn_set_failure_swaps :
  exists c v c' e, Inv c /\ set_begin_x c v = (c', Some e) /\
                   begin_x c' = end_x c /\ end_x c' = begin_x c /\ begin_x c <> end_x c.
Proof.
  exists (add_cxn 10 0 0 5), (COORD_LO - 1).
  eexists; eexists; split; [|split; [|split; [|split]]].
  - unfold Inv; cbn; lia.
  - vm_compute; reflexivity.
  - vm_compute; reflexivity.
  - vm_compute; reflexivity.
  - vm_compute; discriminate.
Qed.

(* ================================================================== groups *)

Definition Consistent (s : shape) : Prop := consistentb s = true.
Definition AllConsistent (sl : list shape) : Prop := forallb consistentb sl = true.

Lemma recalc_g_box kids g : recalc_g kids = Ok g -> box_okb g kids = true.
Proof.
  unfold recalc_g, box_okb.
  destruct (child_extents kids) as [[[x y] cx] cy].
  destruct (coord_ok x && coord_ok y && pos_ok cx && pos_ok cy); intros H; inversion H; subst.
  cbn. rewrite !Z.eqb_refl. reflexivity.
Qed.

Lemma forallb_firstn {A} (f : A -> bool) l : forall i,
  forallb f l = true -> forallb f (firstn i l) = true.
Proof.
  induction l as [|a l IH]; intros [|i] H; cbn in *; auto.
  apply andb_true_iff in H as [Ha Hl]. rewrite Ha; cbn; auto.
Qed.

Lemma forallb_skipn {A} (f : A -> bool) l : forall i,
  forallb f l = true -> forallb f (skipn i l) = true.
Proof.
  induction l as [|a l IH]; intros [|i] H; cbn in *; auto.
  apply andb_true_iff in H as [Ha Hl]. auto.
Qed.

Lemma forallb_set_nth {A} (f : A -> bool) l i a :
  forallb f l = true -> f a = true -> forallb f (set_nth i a l) = true.
Proof.
  intros Hl Ha. unfold set_nth. rewrite forallb_app.
  change (forallb f (a :: skipn (S i) l)) with (f a && forallb f (skipn (S i) l)).
  rewrite forallb_firstn, Ha, forallb_skipn; auto.
Qed.

Lemma forallb_nth_error {A} (f : A -> bool) l i a :
  forallb f l = true -> nth_error l i = Some a -> f a = true.
Proof.
  intros Hl Hn. rewrite forallb_forall in Hl. apply Hl. eapply nth_error_In; eauto.
Qed.

Lemma nth_error_set_nth {A} (l : list A) : forall i a k,
  nth_error l i = Some k -> nth_error (set_nth i a l) i = Some a.
Proof.
  unfold set_nth.
  induction l as [|b l IH]; intros [|i] a k H; cbn in *; try discriminate; auto.
  eapply IH; eauto.
Qed.

(** Which parts of the tree an addition leaves literally unchanged: along the path
    exactly one member of each group is replaced (same position), every other member
    is the same term, and the new member is the last one of the receiving group. *)
Fixpoint frame_ok (p : list nat) (new s s' : shape) {struct p} : Prop :=
  match s, s' with
  | Grp g kids, Grp g' kids' =>
      match p with
      | [] => kids' = kids ++ [new]
      | i :: p' => exists k k', nth_error kids i = Some k /\ kids' = set_nth i k' kids /\
                                frame_ok p' new k k'
      end
  | _, _ => False
  end.

Lemma add_in_frame p : forall new s s', add_in p new s = Ok s' -> frame_ok p new s s'.
Proof.
  induction p as [|i p IH]; intros new [x y cx cy|g kids] s' H; cbn in H; try discriminate.
  - destruct (recalc_g (kids ++ [new])); cbn in H; inversion H; subst; cbn; auto.
  - destruct (nth_error kids i) as [k|] eqn:En; try discriminate.
    destruct (add_in p new k) as [k'|e] eqn:Ea; cbn in H; try discriminate.
    destruct (recalc_g (set_nth i k' kids)) as [g'|]; cbn in H; inversion H; subst.
    cbn. exists k, k'. repeat split; eauto.
Qed.

(** Every group on the path, from [s] down to the receiving group, has the bounding
    box of its members. *)
Fixpoint on_path_okb (p : list nat) (s : shape) {struct p} : bool :=
  match s with
  | Leaf _ _ _ _ => false
  | Grp g kids =>
      box_okb g kids &&
      match p with
      | [] => true
      | i :: p' => match nth_error kids i with Some k => on_path_okb p' k | None => false end
      end
  end.

Lemma add_in_path_ok p : forall new s s',
  add_in p new s = Ok s' -> on_path_okb p s' = true.
Proof.
  induction p as [|i p IH]; intros new [x y cx cy|g kids] s' H; cbn in H; try discriminate.
  - destruct (recalc_g (kids ++ [new])) as [g'|] eqn:Er; cbn in H; inversion H; subst.
    cbn. rewrite (recalc_g_box _ _ Er). reflexivity.
  - destruct (nth_error kids i) as [k|] eqn:En; try discriminate.
    destruct (add_in p new k) as [k'|e] eqn:Ea; cbn in H; try discriminate.
    destruct (recalc_g (set_nth i k' kids)) as [g'|] eqn:Er; cbn in H; inversion H; subst.
    cbn. rewrite (recalc_g_box _ _ Er), (nth_error_set_nth _ _ _ _ En). cbn. eapply IH; eauto.
Qed.

(** An addition preserves consistency of the whole tree. *)
Lemma add_in_consistent p : forall new s s',
  Consistent s -> Consistent new -> add_in p new s = Ok s' -> Consistent s'.
Proof.
  unfold Consistent.
  induction p as [|i p IH]; intros new [x y cx cy|g kids] s' Hs Hn H; cbn in H; try discriminate;
    cbn in Hs; apply andb_true_iff in Hs as [Hb Hk].
  - destruct (recalc_g (kids ++ [new])) as [g'|] eqn:Er; cbn in H; inversion H; subst.
    cbn. rewrite (recalc_g_box _ _ Er), forallb_app, Hk; cbn. rewrite Hn; reflexivity.
  - destruct (nth_error kids i) as [k|] eqn:En; try discriminate.
    destruct (add_in p new k) as [k'|e] eqn:Ea; cbn in H; try discriminate.
    destruct (recalc_g (set_nth i k' kids)) as [g'|] eqn:Er; cbn in H; inversion H; subst.
    cbn. rewrite (recalc_g_box _ _ Er); cbn.
    apply forallb_set_nth; auto.
    apply (IH new k k'); auto. eapply forallb_nth_error; eauto.
Qed.

Lemma member_consistent m : Consistent (member_shape m).
Proof. destruct m; reflexivity. Qed.

(** Slide level: every kind of addition, at every path, keeps every group of the
    slide equal to the bounding box of its members. *)
Lemma gstep_consistent sl op sl' :
  AllConsistent sl -> gstep sl op = Ok sl' -> AllConsistent sl'.
Proof.
  unfold AllConsistent, gstep, slide_add.
  destruct op as [p m]; cbn [go_path go_new].
  pose proof (member_consistent m) as Hn. set (new := member_shape m) in *.
  intros Hs H.
  destruct p as [|i p].
  - inversion H; subst. rewrite forallb_app, Hs; cbn. unfold Consistent in Hn; rewrite Hn; reflexivity.
  - destruct (nth_error sl i) as [k|] eqn:En; try discriminate.
    destruct (add_in p new k) as [k'|e] eqn:Ea; cbn in H; try discriminate.
    inversion H; subst.
    apply forallb_set_nth; auto.
    pose proof (forallb_nth_error _ _ _ _ Hs En) as Hk.
    exact (add_in_consistent p new k k' Hk Hn Ea).
Qed.

Lemma slide_history_consistent ops : forall sl sl',
  AllConsistent sl -> slide_run sl ops = Ok sl' -> AllConsistent sl'.
Proof.
  induction ops as [|op ops IH]; intros sl sl' Hs H; cbn in *.
  - inversion H; subst; auto.
  - destruct (gstep sl op) as [sl1|e] eqn:E; cbn in H; try discriminate.
    apply (IH sl1 sl'); auto. exact (gstep_consistent sl op sl1 Hs E).
Qed.

Lemma slide_history_from_empty ops sl' : slide_run [] ops = Ok sl' -> AllConsistent sl'.
Proof. apply slide_history_consistent. reflexivity. Qed.

(** Slide-level frame and path statements for one addition. *)
Definition slide_frame_ok (p : list nat) (new : shape) (sl sl' : slide) : Prop :=
  match p with
  | [] => sl' = sl ++ [new]
  | i :: p' => exists k k', nth_error sl i = Some k /\ sl' = set_nth i k' sl /\ frame_ok p' new k k'
  end.

Definition slide_path_okb (p : list nat) (sl : slide) : bool :=
  match p with
  | [] => true
  | i :: p' => match nth_error sl i with Some k => on_path_okb p' k | None => false end
  end.

Lemma slide_add_spec p new sl sl' :
  slide_add p new sl = Ok sl' ->
  slide_frame_ok p new sl sl' /\ slide_path_okb p sl' = true.
Proof.
  unfold slide_add, slide_frame_ok, slide_path_okb. destruct p as [|i p]; intros H.
  - inversion H; auto.
  - destruct (nth_error sl i) as [k|] eqn:En; try discriminate.
    destruct (add_in p new k) as [k'|e] eqn:Ea; cbn in H; try discriminate.
    inversion H; subst. split.
    + exists k, k'. repeat split; auto. eapply add_in_frame; eauto.
    + rewrite (nth_error_set_nth _ _ _ _ En). eapply add_in_path_ok; eauto.
Qed.

(** Regression witnesses.  Before the repair of add_group_shape and convert_to_shape
    these two additions inserted the member without any recalculation ([add_stale]
    below is that old behaviour); on the witnesses the old behaviour leaves the group
    stale, the present one does not. *)
Fixpoint add_stale (p : list nat) (new : shape) (s : shape) {struct p} : res shape :=
  match s with
  | Leaf _ _ _ _ => Err IndexErr
  | Grp g kids =>
      match p with
      | [] => Ok (Grp g (kids ++ [new]))
      | i :: p' =>
          match nth_error kids i with
          | None => Err IndexErr
          | Some k => bind (add_stale p' new k) (fun k' => Ok (Grp g (set_nth i k' kids)))
          end
      end
  end.

Definition witness_group : shape := Grp (mkG 100 100 50 50 100 100 50 50) [Leaf 100 100 50 50].

Lemma regression_empty_group :
  Consistent witness_group /\
  (exists s', add_stale [] (Grp gxf0 []) witness_group = Ok s' /\ consistentb s' = false) /\
  add_in [] (Grp gxf0 []) witness_group
  = Ok (Grp (mkG 0 0 150 150 0 0 150 150) [Leaf 100 100 50 50; Grp gxf0 []]) /\
  consistentb (Grp (mkG 0 0 150 150 0 0 150 150) [Leaf 100 100 50 50; Grp gxf0 []]) = true.
Proof.
  split; [reflexivity|]. split; [eexists; split; vm_compute; reflexivity|].
  split; vm_compute; reflexivity.
Qed.

Lemma regression_freeform :
  (exists s', add_stale [] (Leaf 10 10 500 500) witness_group = Ok s' /\ consistentb s' = false) /\
  add_in [] (Leaf 10 10 500 500) witness_group
  = Ok (Grp (mkG 10 10 500 500 10 10 500 500) [Leaf 100 100 50 50; Leaf 10 10 500 500]) /\
  consistentb (Grp (mkG 10 10 500 500 10 10 500 500) [Leaf 100 100 50 50; Leaf 10 10 500 500]) = true.
Proof.
  split; [eexists; split; vm_compute; reflexivity|].
  split; vm_compute; reflexivity.
Qed.

(* ================================================= assignments and foreign frames *)

(** Once a member can be moved or resized (BaseShape.left / top / width / height, on a
    shape or on a group) or a group frame comes from another producer, a group need not
    be the bounding box of its members any more, and python-pptx does not make it so at
    that moment.  What the code maintains is this: a group is seen by the group that
    contains it through its own a:off / a:ext (never through its members or its
    a:chOff / a:chExt); an addition at path p gives every group on the path from the
    receiving group up to the slide the bounding box of its members' own frames
    (off = chOff, ext = chExt); an assignment at path p writes one number of the member
    at p and nothing else.  Hence the only groups that can differ from the bounding box
    of their members' frames are those whose own frame or whose member's frame was
    assigned since the last addition at or below them: the dirty set below. *)

Fixpoint is_prefix (q p : list nat) : bool :=
  match q, p with
  | [], _ => true
  | i :: q', j :: p' => Nat.eqb i j && is_prefix q' p'
  | _ :: _, [] => false
  end.

(** The shape at path [q], when there is one, has the box of its members' frames. *)
Definition okq (q : list nat) (s : shape) : bool :=
  match sub_at q s with Some t => shape_okb t | None => true end.
Definition slide_okq (q : list nat) (sl : slide) : bool :=
  match slide_at q sl with Some t => shape_okb t | None => true end.

Lemma okq_cons i q s :
  okq (i :: q) s = match nth_error (kids_of s) i with Some k => okq q k | None => true end.
Proof. unfold okq. cbn. destruct (nth_error (kids_of s) i); reflexivity. Qed.

Lemma slide_okq_cons i q sl :
  slide_okq (i :: q) sl = match nth_error sl i with Some k => okq q k | None => true end.
Proof. unfold slide_okq, okq. cbn. destruct (nth_error sl i); reflexivity. Qed.

Lemma nth_error_set_nth_other {A} (l : list A) : forall i j a k,
  nth_error l j = Some k -> i <> j -> nth_error (set_nth j a l) i = nth_error l i.
Proof.
  unfold set_nth.
  induction l as [|b l IH]; intros [|i] [|j] a k H Hij; cbn in *;
    try discriminate; try congruence; auto.
  eapply IH; eauto.
Qed.

Lemma consistent_sub q : forall s t,
  consistentb s = true -> sub_at q s = Some t -> consistentb t = true.
Proof.
  induction q as [|i q IH]; intros s t Hs H; cbn in H.
  - inversion H; subst; auto.
  - destruct (nth_error (kids_of s) i) as [k|] eqn:En; try discriminate.
    destruct s as [x y cx cy|g kids]; cbn in En; [destruct i; discriminate|].
    cbn in Hs. apply andb_true_iff in Hs as [_ Hk].
    eapply IH; eauto. eapply forallb_nth_error; eauto.
Qed.

Lemma consistent_shape_ok t : consistentb t = true -> shape_okb t = true.
Proof. destruct t as [x y cx cy|g kids]; cbn; auto. intros H. apply andb_true_iff in H as [H _]. exact H. Qed.

Lemma consistent_okq s : consistentb s = true -> forall q, okq q s = true.
Proof.
  intros Hs q. unfold okq. destruct (sub_at q s) as [t|] eqn:E; auto.
  apply consistent_shape_ok. eapply consistent_sub; eauto.
Qed.

Lemma okq_consistent : forall s, (forall q, okq q s = true) -> consistentb s = true.
Proof.
  fix IH 1. intros [x y cx cy|g kids] H; [reflexivity|].
  cbn. apply andb_true_iff. split.
  - exact (H []).
  - assert (Hk : forall i k, nth_error kids i = Some k -> forall q, okq q k = true).
    { intros i k E q. specialize (H (i :: q)). rewrite okq_cons in H. cbn in H.
      rewrite E in H. exact H. }
    clear H. induction kids as [|k r IHr]; [reflexivity|].
    cbn. apply andb_true_iff. split.
    + apply IH. exact (Hk 0%nat k eq_refl).
    + apply IHr. intros i k' E. exact (Hk (S i) k' E).
Qed.

(** Recursive consistency of a slide says the same as: every path is clean. *)
Lemma all_consistent_iff sl :
  forallb consistentb sl = true <-> (forall q, slide_okq q sl = true).
Proof.
  split.
  - intros Hs [|i q]; [reflexivity|]. rewrite slide_okq_cons.
    destruct (nth_error sl i) as [k|] eqn:En; auto.
    apply consistent_okq. eapply forallb_nth_error; eauto.
  - intros H. apply forallb_forall. intros s Hin.
    apply In_nth_error in Hin as [i En].
    apply okq_consistent. intros q. specialize (H (i :: q)).
    rewrite slide_okq_cons, En in H. exact H.
Qed.

(** An addition, on any tree whatsoever: every group on the path (the prefixes of [p])
    ends up clean; every other path that was clean stays clean, the paths into the new
    member being as clean as the new member is. *)
Lemma add_in_okq p : forall new s s' q,
  add_in p new s = Ok s' ->
  (is_prefix q p = true \/ (okq q s = true /\ forall r, okq r new = true)) ->
  okq q s' = true.
Proof.
  induction p as [|j p IH]; intros new [x y cx cy|g kids] s' q H Hq; cbn in H; try discriminate.
  - destruct (recalc_g (kids ++ [new])) as [g'|] eqn:Er; cbn in H; inversion H; subst; clear H.
    destruct q as [|i q].
    + unfold okq; cbn. exact (recalc_g_box _ _ Er).
    + destruct Hq as [Hq|[Hq Hn]]; [cbn in Hq; discriminate|].
      rewrite okq_cons in *. cbn [kids_of] in *.
      destruct (Nat.lt_ge_cases i (length kids)) as [Hi|Hi].
      * rewrite nth_error_app1 by exact Hi. exact Hq.
      * rewrite nth_error_app2 by exact Hi.
        destruct (i - length kids)%nat as [|n]; cbn; [apply Hn|]. destruct n; reflexivity.
  - destruct (nth_error kids j) as [k|] eqn:En; try discriminate.
    destruct (add_in p new k) as [k'|e] eqn:Ea; cbn in H; try discriminate.
    destruct (recalc_g (set_nth j k' kids)) as [g'|] eqn:Er; cbn in H; inversion H; subst; clear H.
    destruct q as [|i q].
    + unfold okq; cbn. exact (recalc_g_box _ _ Er).
    + rewrite okq_cons in *. cbn [kids_of is_prefix] in *.
      destruct (Nat.eq_dec i j) as [->|Hij].
      * rewrite (nth_error_set_nth _ _ _ _ En). rewrite En, Nat.eqb_refl in Hq. cbn in Hq.
        eapply IH; eauto.
      * rewrite (nth_error_set_nth_other _ _ _ _ _ En Hij).
        destruct Hq as [Hq|[Hq _]]; [|exact Hq].
        apply Nat.eqb_neq in Hij. rewrite Hij in Hq. cbn in Hq. discriminate.
Qed.

Lemma slide_add_okq p new sl sl' q :
  slide_add p new sl = Ok sl' ->
  (is_prefix q p = true \/ (slide_okq q sl = true /\ forall r, okq r new = true)) ->
  slide_okq q sl' = true.
Proof.
  unfold slide_add. destruct q as [|i q]; [reflexivity|].
  destruct p as [|j p]; intros H Hq.
  - inversion H; subst; clear H.
    destruct Hq as [Hq|[Hq Hn]]; [cbn in Hq; discriminate|].
    rewrite slide_okq_cons in *.
    destruct (Nat.lt_ge_cases i (length sl)) as [Hi|Hi].
    + rewrite nth_error_app1 by exact Hi. exact Hq.
    + rewrite nth_error_app2 by exact Hi.
      destruct (i - length sl)%nat as [|n]; cbn; [apply Hn|]. destruct n; reflexivity.
  - destruct (nth_error sl j) as [k|] eqn:En; try discriminate.
    destruct (add_in p new k) as [k'|e] eqn:Ea; cbn in H; try discriminate.
    inversion H; subst; clear H.
    rewrite slide_okq_cons in *. cbn [is_prefix] in Hq.
    destruct (Nat.eq_dec i j) as [->|Hij].
    + rewrite (nth_error_set_nth _ _ _ _ En). rewrite En, Nat.eqb_refl in Hq. cbn in Hq.
      eapply add_in_okq; eauto.
    + rewrite (nth_error_set_nth_other _ _ _ _ _ En Hij).
      destruct Hq as [Hq|[Hq _]]; [|exact Hq].
      apply Nat.eqb_neq in Hij. rewrite Hij in Hq. cbn in Hq. discriminate.
Qed.

(** ---- an update of the member at a path that keeps its members ---- *)

Definition keeps_kids (u : shape -> res shape) : Prop :=
  forall s s', u s = Ok s' -> kids_of s' = kids_of s.

Lemma assign_node_keeps f v : keeps_kids (assign_node f v).
Proof.
  intros s s'. unfold assign_node. destruct (fld_ok f v); try discriminate.
  intros H; inversion H; subst. destruct s; destruct f; reflexivity.
Qed.

Lemma reframe_node_keeps g0 : keeps_kids (reframe_node g0).
Proof. intros [x y cx cy|g kids] s' H; cbn in H; try discriminate. inversion H; reflexivity. Qed.

Lemma assign_reframe_keep f v g : keeps_kids (assign_node f v) /\ keeps_kids (reframe_node g).
Proof. exact (conj (assign_node_keeps f v) (reframe_node_keeps g)). Qed.

(** What an update leaves literally unchanged: every group walked through keeps its
    xfrm (nothing is recalculated) and all its members but the one on the path; the
    member at the path becomes what [u] makes of it. *)
Fixpoint upd_frame (p : list nat) (u : shape -> res shape) (s s' : shape) {struct p} : Prop :=
  match p with
  | [] => u s = Ok s'
  | i :: p' =>
      match s, s' with
      | Grp g kids, Grp g' kids' =>
          g' = g /\ exists k k', nth_error kids i = Some k /\ kids' = set_nth i k' kids /\
                                 upd_frame p' u k k'
      | _, _ => False
      end
  end.

Lemma upd_in_frame p : forall u s s', upd_in p u s = Ok s' -> upd_frame p u s s'.
Proof.
  induction p as [|i p IH]; intros u s s' H; cbn in *; auto.
  destruct s as [x y cx cy|g kids]; try discriminate.
  destruct (nth_error kids i) as [k|] eqn:En; try discriminate.
  destruct (upd_in p u k) as [k'|e] eqn:Eu; cbn in H; try discriminate.
  inversion H; subst. split; auto. exists k, k'. repeat split; auto.
Qed.

(** The same in terms of paths: the member at [p] is updated ... *)
Lemma upd_in_at p : forall u s s',
  upd_in p u s = Ok s' -> exists t t', sub_at p s = Some t /\ u t = Ok t' /\ sub_at p s' = Some t'.
Proof.
  induction p as [|i p IH]; intros u s s' H; cbn in H.
  - exists s, s'. auto.
  - destruct s as [x y cx cy|g kids]; try discriminate.
    destruct (nth_error kids i) as [k|] eqn:En; try discriminate.
    destruct (upd_in p u k) as [k'|e] eqn:Eu; cbn in H; try discriminate.
    inversion H; subst; clear H. destruct (IH _ _ _ Eu) as (t & t' & A & B & C).
    exists t, t'. cbn. rewrite En, (nth_error_set_nth _ _ _ _ En). auto.
Qed.

(** ... every path that does not lead through [p] on the way down (it branches off, or
    it continues below [p]) reaches the same term as before ... *)
Lemma upd_in_off_path p : forall u s s' q,
  keeps_kids u -> upd_in p u s = Ok s' -> is_prefix q p = false -> sub_at q s' = sub_at q s.
Proof.
  induction p as [|j p IH]; intros u s s' q Hu H Hq; cbn in H.
  - destruct q as [|i q]; [cbn in Hq; discriminate|]. cbn. rewrite (Hu _ _ H). reflexivity.
  - destruct s as [x y cx cy|g kids]; try discriminate.
    destruct (nth_error kids j) as [k|] eqn:En; try discriminate.
    destruct (upd_in p u k) as [k'|e] eqn:Eu; cbn in H; try discriminate.
    inversion H; subst; clear H.
    destruct q as [|i q]; [cbn in Hq; discriminate|]. cbn [is_prefix] in Hq. cbn.
    destruct (Nat.eq_dec i j) as [->|Hij].
    + rewrite (nth_error_set_nth _ _ _ _ En), En. rewrite Nat.eqb_refl in Hq. cbn in Hq.
      eapply IH; eauto.
    + rewrite (nth_error_set_nth_other _ _ _ _ _ En Hij). reflexivity.
Qed.

(** ... and every group strictly above [p] keeps its xfrm, whatever happened below. *)
Lemma upd_in_above p : forall u s s' q,
  upd_in p u s = Ok s' -> is_prefix q p = true -> q <> p ->
  exists g kids kids', sub_at q s = Some (Grp g kids) /\ sub_at q s' = Some (Grp g kids').
Proof.
  induction p as [|j p IH]; intros u s s' q H Hq Hne; cbn in H.
  - destruct q; [congruence|cbn in Hq; discriminate].
  - destruct s as [x y cx cy|g kids]; try discriminate.
    destruct (nth_error kids j) as [k|] eqn:En; try discriminate.
    destruct (upd_in p u k) as [k'|e] eqn:Eu; cbn in H; try discriminate.
    inversion H; subst; clear H.
    destruct q as [|i q]; [exists g, kids, (set_nth j k' kids); cbn; auto|].
    cbn [is_prefix] in Hq. apply andb_true_iff in Hq as [Hij Hq].
    apply Nat.eqb_eq in Hij. subst i. cbn.
    rewrite En, (nth_error_set_nth _ _ _ _ En). eapply IH; eauto. congruence.
Qed.

(** The box a group computes depends on its members only through their own frames. *)
Definition ce_of (xs ys xr yb : list Z) : Z * Z * Z * Z :=
  match xs, ys, xr, yb with
  | x :: xs', y :: ys', r :: xr', b :: yb' =>
      (min_list x xs', min_list y ys', max_list r xr' - min_list x xs', max_list b yb' - min_list y ys')
  | _, _, _, _ => (0, 0, 0, 0)
  end.

Lemma child_extents_maps kids :
  child_extents kids = ce_of (map sh_x kids) (map sh_y kids)
                             (map (fun s => sh_x s + sh_cx s) kids) (map (fun s => sh_y s + sh_cy s) kids).
Proof. destruct kids; reflexivity. Qed.

Lemma map_set_nth_same {A B} (f : A -> B) (l : list A) : forall j k k',
  nth_error l j = Some k -> f k' = f k -> map f (set_nth j k' l) = map f l.
Proof.
  unfold set_nth.
  induction l as [|b l IH]; intros [|j] k k' H E; cbn in *; try discriminate.
  - inversion H; subst. rewrite E. reflexivity.
  - f_equal. eapply IH; eauto.
Qed.

Lemma box_okb_set_nth g kids j k k' :
  nth_error kids j = Some k ->
  sh_x k' = sh_x k -> sh_y k' = sh_y k -> sh_cx k' = sh_cx k -> sh_cy k' = sh_cy k ->
  box_okb g (set_nth j k' kids) = box_okb g kids.
Proof.
  intros En Ex Ey Ecx Ecy. unfold box_okb. rewrite !child_extents_maps.
  rewrite (map_set_nth_same sh_x _ _ _ _ En Ex), (map_set_nth_same sh_y _ _ _ _ En Ey).
  rewrite (map_set_nth_same (fun s => sh_x s + sh_cx s) _ _ _ _ En) by congruence.
  rewrite (map_set_nth_same (fun s => sh_y s + sh_cy s) _ _ _ _ En) by congruence.
  reflexivity.
Qed.

Lemma upd_in_own_frame : forall p u s s',
  p <> [] -> upd_in p u s = Ok s' ->
  sh_x s' = sh_x s /\ sh_y s' = sh_y s /\ sh_cx s' = sh_cx s /\ sh_cy s' = sh_cy s.
Proof.
  intros [|i p] u s s' Hp H; [congruence|]. cbn in H.
  destruct s as [x y cx cy|g kids]; try discriminate.
  destruct (nth_error kids i) as [k|]; try discriminate.
  destruct (upd_in p u k) as [k'|e]; cbn in H; try discriminate.
  inversion H; subst. cbn. auto.
Qed.

Lemma removelast_cons {A} (a : A) l : l <> [] -> removelast (a :: l) = a :: removelast l.
Proof. destruct l; [congruence|reflexivity]. Qed.

(** An update at [p] can make at most two paths dirty: [p] itself (its own frame
    changed: it may now differ from the box of its members) and the group that contains
    it (one of its members changed frame).  Every other path is exactly as clean as
    before, in particular every group further up. *)
Lemma upd_in_okq p : forall u s s' q,
  keeps_kids u -> upd_in p u s = Ok s' -> q <> p -> q <> removelast p ->
  okq q s' = okq q s.
Proof.
  induction p as [|j p IH]; intros u s s' q Hu H Hne Hpar; cbn in H.
  - destruct q as [|i q]; [congruence|]. rewrite !okq_cons, (Hu _ _ H). reflexivity.
  - destruct s as [x y cx cy|g kids]; try discriminate.
    destruct (nth_error kids j) as [k|] eqn:En; try discriminate.
    destruct (upd_in p u k) as [k'|e] eqn:Eu; cbn in H; try discriminate.
    inversion H; subst; clear H.
    destruct q as [|i q].
    + assert (Hp : p <> []) by (intros ->; apply Hpar; reflexivity).
      destruct (upd_in_own_frame p u k k' Hp Eu) as (Ex & Ey & Ecx & Ecy).
      unfold okq; cbn. apply box_okb_set_nth with (k := k); auto.
    + rewrite !okq_cons. cbn [kids_of].
      destruct (Nat.eq_dec i j) as [->|Hij].
      * rewrite (nth_error_set_nth _ _ _ _ En), En.
        apply (IH u k k' q Hu Eu); [congruence|].
        destruct p as [|j2 p2]; [cbn; congruence|].
        rewrite removelast_cons in Hpar by discriminate. congruence.
      * rewrite (nth_error_set_nth_other _ _ _ _ _ En Hij). reflexivity.
Qed.

Lemma slide_upd_okq p u sl sl' q :
  keeps_kids u -> slide_upd p u sl = Ok sl' -> q <> p -> q <> removelast p ->
  slide_okq q sl' = slide_okq q sl.
Proof.
  unfold slide_upd. intros Hu H Hne Hpar.
  destruct p as [|j p]; try discriminate.
  destruct (nth_error sl j) as [k|] eqn:En; try discriminate.
  destruct (upd_in p u k) as [k'|e] eqn:Eu; cbn in H; try discriminate.
  inversion H; subst; clear H.
  destruct q as [|i q]; [reflexivity|]. rewrite !slide_okq_cons.
  destruct (Nat.eq_dec i j) as [->|Hij].
  - rewrite (nth_error_set_nth _ _ _ _ En), En.
    apply (upd_in_okq p u k k' q Hu Eu); [congruence|].
    destruct p as [|j2 p2]; [cbn; congruence|].
    rewrite removelast_cons in Hpar by discriminate. congruence.
  - rewrite (nth_error_set_nth_other _ _ _ _ _ En Hij). reflexivity.
Qed.

(** ---- histories ---- *)

(** The paths that may be unclean, carried along a history: an assignment or a foreign
    frame at [p] adds [p] and the group containing it; an addition at [p] removes every
    group on its path (the prefixes of [p]); paths are stable because members are only
    ever appended. *)
Definition dirty_step (d : list (list nat)) (op : hop) : list (list nat) :=
  match op with
  | HAdd p _ => filter (fun q => negb (is_prefix q p)) d
  | HSet p _ _ | HFrame p _ => p :: removelast p :: d
  | HReopen => d
  end.
Definition dirty_after (ops : list hop) (d : list (list nat)) : list (list nat) :=
  fold_left dirty_step ops d.

(** The members the add_* methods create are consistent in themselves (a shape with an
    xfrm, or an empty group of zeros); the theorem takes any consistent new member. *)
Definition hop_wf (op : hop) : Prop :=
  match op with HAdd _ new => consistentb new = true | _ => True end.

Definition clean_except (d : list (list nat)) (sl : slide) : Prop :=
  forall q, ~ In q d -> slide_okq q sl = true.

Lemma hstep_clean sl op sl' d :
  hop_wf op -> clean_except d sl -> hstep sl op = Ok sl' -> clean_except (dirty_step d op) sl'.
Proof.
  intros Hwf Hc H q Hq. destruct op as [p new|p f v|p g|]; cbn in *.
  - eapply slide_add_okq; eauto.
    destruct (is_prefix q p) eqn:Ep; [left; reflexivity|right]. split.
    + apply Hc. intros Hin. apply Hq. apply filter_In. rewrite Ep. auto.
    + apply consistent_okq. exact Hwf.
  - rewrite (slide_upd_okq p _ sl sl' q (assign_node_keeps f v) H); [apply Hc|..]; intuition congruence.
  - rewrite (slide_upd_okq p _ sl sl' q (reframe_node_keeps g) H); [apply Hc|..]; intuition congruence.
  - inversion H; subst. auto.
Qed.

(** Every history of additions, assignments (to shapes and to groups), foreign frames
    and re-opens, from any start state: every group that is not in the dirty set has
    off = chOff, ext = chExt = the bounding box of its members' own frames. *)
Lemma hist_clean ops : forall sl sl' d,
  Forall hop_wf ops -> clean_except d sl -> hist_run sl ops = Ok sl' ->
  clean_except (dirty_after ops d) sl'.
Proof.
  induction ops as [|op ops IH]; intros sl sl' d Hwf Hc H; cbn in *.
  - inversion H; subst; auto.
  - inversion Hwf; subst.
    destruct (hstep sl op) as [sl1|e] eqn:E; cbn in H; try discriminate.
    eapply IH; eauto. eapply hstep_clean; eauto.
Qed.

(** The special case of before: a history of additions only never makes anything
    dirty, so from a consistent slide (the empty one, say) every group stays the
    bounding box of its members, recursively. *)
Definition is_add (op : hop) : Prop := match op with HAdd _ _ => True | _ => False end.

Lemma dirty_adds ops : Forall is_add ops -> dirty_after ops [] = [].
Proof.
  induction ops as [|op ops IH]; intros H; [reflexivity|].
  inversion H; subst. destruct op; cbn in *; try tauto; try (apply IH; auto).
Qed.

Lemma hist_adds_consistent ops sl sl' :
  Forall is_add ops -> Forall hop_wf ops ->
  forallb consistentb sl = true -> hist_run sl ops = Ok sl' -> forallb consistentb sl' = true.
Proof.
  intros Ha Hwf Hs H. apply all_consistent_iff. intros q.
  assert (Hc : clean_except [] sl) by (intros q' _; apply all_consistent_iff; auto).
  pose proof (hist_clean ops sl sl' [] Hwf Hc H) as Hc'.
  rewrite (dirty_adds ops Ha) in Hc'. apply Hc'. intros [].
Qed.

Lemma hist_run_gops ops : forall sl, hist_run sl (map hop_of_gop ops) = slide_run sl ops.
Proof.
  induction ops as [|op ops IH]; intros sl; cbn; auto.
  unfold gstep. destruct (slide_add (go_path op) (member_shape (go_new op)) sl); cbn; auto.
Qed.

(** [slide_history_consistent] again, this time as the instance of [hist_clean]. *)
Lemma slide_history_consistent_as_instance ops sl sl' :
  forallb consistentb sl = true -> slide_run sl ops = Ok sl' -> forallb consistentb sl' = true.
Proof.
  intros Hs H. rewrite <- hist_run_gops in H.
  apply (hist_adds_consistent (map hop_of_gop ops) sl sl'); auto.
  - apply Forall_forall. intros op Hin. apply in_map_iff in Hin as (o & <- & _). exact I.
  - apply Forall_forall. intros op Hin. apply in_map_iff in Hin as (o & <- & _).
    apply member_consistent.
Qed.

(** After any history whatsoever, one more addition at [p] settles every group on the
    path of [p], dirty or not. *)
Lemma hist_then_add ops sl sl1 p new sl2 q :
  hist_run sl ops = Ok sl1 -> hstep sl1 (HAdd p new) = Ok sl2 ->
  is_prefix q p = true -> slide_okq q sl2 = true.
Proof. intros _ H Hq. cbn in H. eapply slide_add_okq; eauto. Qed.

(** Non-vacuity: a nested group scaled and moved as a whole by another producer
    (shown at 1000000,1000000 with half the size of its child space), the deck
    re-opened, then a text box added to the OUTER group.  The outer group becomes the
    bounding box of its three members, the nested group counting with its own frame
    (not with the 4000000 x 2000000 child space of its members), the nested group is
    untouched and is the one path left dirty; the slide is not recursively consistent. *)
Definition scaled_inner : gxf := mkG 1000000 1000000 2000000 1000000 0 0 4000000 2000000.
Definition scaled_ops : list hop :=
  [HAdd [] (Grp gxf0 []);
   HAdd [0%nat] (Leaf 1500000 1200000 500000 500000);
   HAdd [0%nat] (Grp gxf0 []);
   HAdd [0%nat; 1%nat] (Leaf 0 0 4000000 2000000);
   HAdd [0%nat; 1%nat] (Leaf 1000000 0 3000000 2000000);
   HFrame [0%nat; 1%nat] scaled_inner;
   HReopen;
   HAdd [0%nat] (Leaf 2500000 1500000 1000000 300000)].
Definition scaled_result : slide :=
  [Grp (mkG 1000000 1000000 2500000 1000000 1000000 1000000 2500000 1000000)
     [Leaf 1500000 1200000 500000 500000;
      Grp scaled_inner [Leaf 0 0 4000000 2000000; Leaf 1000000 0 3000000 2000000];
      Leaf 2500000 1500000 1000000 300000]].

Lemma scaled_example :
  hist_run [] scaled_ops = Ok scaled_result /\ Forall hop_wf scaled_ops /\
  dirty_after scaled_ops [] = [[0%nat; 1%nat]] /\
  slide_okq [0%nat] scaled_result = true /\ slide_okq [0%nat; 1%nat] scaled_result = false /\
  forallb consistentb scaled_result = false.
Proof.
  split; [vm_compute; reflexivity|]. split; [repeat constructor|].
  repeat split; vm_compute; reflexivity.
Qed.

(** Non-vacuity for assignments through the public API: the nested group is moved and
    widened (group.left, group.width: a:off / a:ext only), one of its members is moved
    (shape.top); none of this recalculates anything.  An addition to the outer group
    then settles the outer group only; a later addition inside the nested group settles
    the nested group too (its frame snaps back to the box of its members) and the
    outer group again. *)
Definition moved_ops : list hop :=
  [HAdd [] (Grp gxf0 []);
   HAdd [0%nat] (Leaf 100 100 50 50);
   HAdd [0%nat] (Grp gxf0 []);
   HAdd [0%nat; 1%nat] (Leaf 10 20 30 40);
   HSet [0%nat; 1%nat] FLeft 500;
   HSet [0%nat; 1%nat] FWidth 7;
   HSet [0%nat; 1%nat; 0%nat] FTop (-5)].

Lemma moved_example :
  hist_run [] moved_ops
  = Ok [Grp (mkG 10 20 140 130 10 20 140 130)
          [Leaf 100 100 50 50; Grp (mkG 500 20 7 40 10 20 30 40) [Leaf 10 (-5) 30 40]]] /\
  dirty_after moved_ops [] = [[0%nat; 1%nat; 0%nat]; [0%nat; 1%nat]; [0%nat; 1%nat]; [0%nat]; [0%nat; 1%nat]; [0%nat]] /\
  hist_run [] (moved_ops ++ [HAdd [0%nat] (Leaf 0 0 1 1)])
  = Ok [Grp (mkG 0 0 507 150 0 0 507 150)
          [Leaf 100 100 50 50; Grp (mkG 500 20 7 40 10 20 30 40) [Leaf 10 (-5) 30 40]; Leaf 0 0 1 1]] /\
  dirty_after (moved_ops ++ [HAdd [0%nat] (Leaf 0 0 1 1)]) []
  = [[0%nat; 1%nat; 0%nat]; [0%nat; 1%nat]; [0%nat; 1%nat]; [0%nat; 1%nat]] /\
  hist_run [] (moved_ops ++ [HAdd [0%nat; 1%nat] (Leaf 0 0 1 1)])
  = Ok [Grp (mkG 0 (-5) 150 155 0 (-5) 150 155)
          [Leaf 100 100 50 50; Grp (mkG 0 (-5) 40 40 0 (-5) 40 40) [Leaf 10 (-5) 30 40; Leaf 0 0 1 1]]] /\
  dirty_after (moved_ops ++ [HAdd [0%nat; 1%nat] (Leaf 0 0 1 1)]) [] = [[0%nat; 1%nat; 0%nat]].
Proof. repeat split; vm_compute; reflexivity. Qed.

(* ---- min / max over a non-empty list, and the bounding box in the usual sense ---- *)

Lemma min_list_spec t : forall h,
  min_list h t <= h /\ (forall x, In x t -> min_list h t <= x) /\ (min_list h t = h \/ In (min_list h t) t).
Proof.
  unfold min_list. induction t as [|a t IH]; intros h; cbn.
  - split; [lia|]. split; [intros x []|auto].
  - destruct (IH (Z.min h a)) as (H1 & H2 & H3). split; [lia|]. split.
    + intros x [->|Hx]; [lia|auto].
    + destruct H3 as [H3|H3]; auto.
      destruct (Z.min_spec h a) as [[_ E]|[_ E]]; rewrite E in H3; [left|right; left]; congruence.
Qed.

Lemma max_list_spec t : forall h,
  h <= max_list h t /\ (forall x, In x t -> x <= max_list h t) /\ (max_list h t = h \/ In (max_list h t) t).
Proof.
  unfold max_list. induction t as [|a t IH]; intros h; cbn.
  - split; [lia|]. split; [intros x []|auto].
  - destruct (IH (Z.max h a)) as (H1 & H2 & H3). split; [lia|]. split.
    + intros x [->|Hx]; [lia|auto].
    + destruct H3 as [H3|H3]; auto.
      destruct (Z.max_spec h a) as [[_ E]|[_ E]]; rewrite E in H3; [right; left|left]; congruence.
Qed.

(** [child_extents] of a non-empty member list is the least rectangle that contains
    every member rectangle: it contains them all and each of its four sides is
    attained by some member. *)
Lemma child_extents_bbox kids x y cx cy :
  kids <> [] -> child_extents kids = (x, y, cx, cy) ->
  (forall k, In k kids -> x <= sh_x k /\ sh_x k + sh_cx k <= x + cx /\
                          y <= sh_y k /\ sh_y k + sh_cy k <= y + cy) /\
  (exists k, In k kids /\ sh_x k = x) /\ (exists k, In k kids /\ sh_x k + sh_cx k = x + cx) /\
  (exists k, In k kids /\ sh_y k = y) /\ (exists k, In k kids /\ sh_y k + sh_cy k = y + cy).
Proof.
  destruct kids as [|k0 r]; [congruence|]. intros _ H. cbn in H.
  pose proof (min_list_spec (map sh_x r) (sh_x k0)) as (A1 & A2 & A3).
  pose proof (min_list_spec (map sh_y r) (sh_y k0)) as (B1 & B2 & B3).
  pose proof (max_list_spec (map (fun s => sh_x s + sh_cx s) r) (sh_x k0 + sh_cx k0)) as (C1 & C2 & C3).
  pose proof (max_list_spec (map (fun s => sh_y s + sh_cy s) r) (sh_y k0 + sh_cy k0)) as (D1 & D2 & D3).
  inversion H; subst; clear H.
  split; [|split; [|split; [|split]]].
  - intros k [<-|Hk]; [lia|].
    pose proof (A2 _ (in_map sh_x _ _ Hk)). pose proof (B2 _ (in_map sh_y _ _ Hk)).
    pose proof (C2 _ (in_map (fun s => sh_x s + sh_cx s) _ _ Hk)).
    pose proof (D2 _ (in_map (fun s => sh_y s + sh_cy s) _ _ Hk)). lia.
  - destruct A3 as [E|E]; [exists k0; cbn; auto|].
    apply in_map_iff in E as (k & E & Hk). exists k; cbn; auto.
  - destruct C3 as [E|E]; [exists k0; cbn; split; auto; lia|].
    apply in_map_iff in E as (k & E & Hk). exists k; cbn; split; auto; lia.
  - destruct B3 as [E|E]; [exists k0; cbn; auto|].
    apply in_map_iff in E as (k & E & Hk). exists k; cbn; auto.
  - destruct D3 as [E|E]; [exists k0; cbn; split; auto; lia|].
    apply in_map_iff in E as (k & E & Hk). exists k; cbn; split; auto; lia.
Qed.

(* ================================================================== freeform *)

Lemma fold_fmin_x ops : forall s, fold_left fmin_x ops s = min_list s (map fst (op_pts ops)).
Proof. unfold min_list. induction ops as [|[x y|x y|] ops IH]; intros s; cbn; auto. Qed.
Lemma fold_fmin_y ops : forall s, fold_left fmin_y ops s = min_list s (map snd (op_pts ops)).
Proof. unfold min_list. induction ops as [|[x y|x y|] ops IH]; intros s; cbn; auto. Qed.
Lemma fold_fmax_x ops : forall s, fold_left fmax_x ops s = max_list s (map fst (op_pts ops)).
Proof. unfold max_list. induction ops as [|[x y|x y|] ops IH]; intros s; cbn; auto. Qed.
Lemma fold_fmax_y ops : forall s, fold_left fmax_y ops s = max_list s (map snd (op_pts ops)).
Proof. unfold max_list. induction ops as [|[x y|x y|] ops IH]; intros s; cbn; auto. Qed.

(** The four extreme values are the minimum / maximum over all pen positions. *)
Lemma pen_extents b :
  (forall p, In p (pen_pts b) -> off_x b <= fst p <= hi_x b /\ off_y b <= snd p <= hi_y b) /\
  (exists p, In p (pen_pts b) /\ fst p = off_x b) /\ (exists p, In p (pen_pts b) /\ fst p = hi_x b) /\
  (exists p, In p (pen_pts b) /\ snd p = off_y b) /\ (exists p, In p (pen_pts b) /\ snd p = hi_y b).
Proof.
  unfold off_x, off_y, hi_x, hi_y, pen_pts.
  rewrite fold_fmin_x, fold_fmin_y, fold_fmax_x, fold_fmax_y.
  set (P := op_pts (fb_ops b)).
  pose proof (min_list_spec (map fst P) (fb_sx b)) as (A1 & A2 & A3).
  pose proof (min_list_spec (map snd P) (fb_sy b)) as (B1 & B2 & B3).
  pose proof (max_list_spec (map fst P) (fb_sx b)) as (C1 & C2 & C3).
  pose proof (max_list_spec (map snd P) (fb_sy b)) as (D1 & D2 & D3).
  split; [|split; [|split; [|split]]].
  - intros p [<-|Hp]; cbn; [lia|].
    pose proof (A2 _ (in_map fst _ _ Hp)). pose proof (B2 _ (in_map snd _ _ Hp)).
    pose proof (C2 _ (in_map fst _ _ Hp)). pose proof (D2 _ (in_map snd _ _ Hp)). lia.
  - destruct A3 as [E|E]; [exists (fb_sx b, fb_sy b); cbn; auto|].
    apply in_map_iff in E as (p & E & Hp). exists p; cbn; auto.
  - destruct C3 as [E|E]; [exists (fb_sx b, fb_sy b); cbn; auto|].
    apply in_map_iff in E as (p & E & Hp). exists p; cbn; auto.
  - destruct B3 as [E|E]; [exists (fb_sx b, fb_sy b); cbn; auto|].
    apply in_map_iff in E as (p & E & Hp). exists p; cbn; auto.
  - destruct D3 as [E|E]; [exists (fb_sx b, fb_sy b); cbn; auto|].
    apply in_map_iff in E as (p & E & Hp). exists p; cbn; auto.
Qed.

Lemma op_pts_shift ox oy ops :
  op_pts (map (shift_op ox oy) ops) = map (fun p => (fst p - ox, snd p - oy)) (op_pts ops).
Proof. induction ops as [|[x y|x y|] ops IH]; cbn; congruence. Qed.

(** What convert_to_shape writes, in terms of the pen positions of the builder. *)
Lemma convert_spec b ox oy f :
  convert b ox oy = Ok f ->
  mul_scale (off_x b) (fb_xs b) = Ok (f_left f - ox) /\
  mul_scale (off_y b) (fb_ys b) = Ok (f_top f - oy) /\
  mul_scale (hi_x b - off_x b) (fb_xs b) = Ok (f_width f) /\
  mul_scale (hi_y b - off_y b) (fb_ys b) = Ok (f_height f) /\
  f_w f = hi_x b - off_x b /\ f_h f = hi_y b - off_y b /\
  f_path f = FMove (fb_sx b - off_x b) (fb_sy b - off_y b)
             :: map (shift_op (off_x b) (off_y b)) (fb_ops b) /\
  op_pts (f_path f) = map (fun p => (fst p - off_x b, snd p - off_y b)) (pen_pts b) /\
  (forall p, In p (op_pts (f_path f)) -> 0 <= fst p <= f_w f /\ 0 <= snd p <= f_h f).
Proof.
  unfold convert, fdx, fdy.
  destruct (mul_scale (off_x b) (fb_xs b)) as [l|] eqn:El; cbn; try discriminate.
  destruct (mul_scale (off_y b) (fb_ys b)) as [t|] eqn:Et; cbn; try discriminate.
  destruct (mul_scale (hi_x b - off_x b) (fb_xs b)) as [w|] eqn:Ew; cbn; try discriminate.
  destruct (mul_scale (hi_y b - off_y b) (fb_ys b)) as [h|] eqn:Eh; cbn; try discriminate.
  destruct (pos_ok (hi_x b - off_x b) && pos_ok (hi_y b - off_y b)); try discriminate.
  intros H; inversion H; subst; clear H; cbn.
  assert (Hpts : op_pts (FMove (fb_sx b - off_x b) (fb_sy b - off_y b)
                         :: map (shift_op (off_x b) (off_y b)) (fb_ops b))
                 = map (fun p => (fst p - off_x b, snd p - off_y b)) (pen_pts b)).
  { cbn. rewrite op_pts_shift. reflexivity. }
  split; [f_equal; lia|]. split; [f_equal; lia|].
  split; [reflexivity|]. split; [reflexivity|]. split; [reflexivity|]. split; [reflexivity|].
  split; [reflexivity|]. split; [exact Hpts|].
  intros p Hp0.
  assert (Hp : In p (map (fun p => (fst p - off_x b, snd p - off_y b)) (pen_pts b)))
    by (rewrite <- Hpts; exact Hp0).
  apply in_map_iff in Hp as (q & <- & Hq).
  destruct (pen_extents b) as (Hall & _). destruct (Hall q Hq). cbn. lia.
Qed.

(* ---- the scaled integer: exact for an int scale, bounded error for a float scale ---- *)

Lemma mul_scale_int v z : mul_scale v (SInt z) = Ok (v * z).
Proof. reflexivity. Qed.

Lemma rhe_bound n d : 0 < d -> - d <= 2 * (rhe n d * d - n) <= d.
Proof.
  intros Hd. unfold rhe.
  pose proof (Z.div_mod n d ltac:(lia)) as E. pose proof (Z.mod_pos_bound n d Hd) as B.
  set (q := n / d) in *. set (r := n mod d) in *.
  destruct (Z.ltb_spec (2 * r) d); [nia|].
  destruct (Z.ltb_spec d (2 * r)); [nia|].
  destruct (Z.even q); nia.
Qed.

Lemma rhe_nonneg n d : 0 < d -> 0 <= n -> 0 <= rhe n d.
Proof.
  intros Hd Hn. unfold rhe.
  pose proof (Z.div_pos n d Hn Hd).
  destruct (2 * (n mod d) <? d); [lia|].
  destruct (d <? 2 * (n mod d)); [lia|].
  destruct (Z.even (n / d)); lia.
Qed.

Lemma fl53_small m e : Z.abs m < 2 ^ 53 -> fl53 (m, e) = (m, e).
Proof.
  intros H. unfold fl53.
  assert (Z.log2 (Z.abs m) + 1 <= 53).
  { destruct (Z.eq_dec (Z.abs m) 0) as [->|Hn]; [cbn; lia|].
    assert (Z.log2 (Z.abs m) < 53) by (apply Z.log2_lt_pow2; lia). lia. }
  destruct (Z.leb_spec (Z.log2 (Z.abs m) + 1) 53); [reflexivity|lia].
Qed.

Lemma dy_ovf_small m e : Z.abs m < 2 ^ 53 -> e <= 971 -> dy_ovf (m, e) = false.
Proof.
  intros H He. unfold dy_ovf.
  destruct (Z.eqb_spec m 0) as [->|Hn]; [reflexivity|]. cbn [negb andb].
  assert (Z.log2 (Z.abs m) < 53) by (apply Z.log2_lt_pow2; lia).
  destruct (Z.leb_spec 1024 (Z.log2 (Z.abs m) + e)); [lia|reflexivity].
Qed.

(** When neither the conversion nor the product needs rounding (always the case for
    EMU-sized extents and short mantissas) the result is the exact product rounded
    half-even once. *)
Lemma mul_scale_float_exact v m e :
  Z.abs v < 2 ^ 53 -> Z.abs (v * m) < 2 ^ 53 -> e <= 971 ->
  mul_scale v (SFlt m e) = Ok (dy_to_int (v * m, e)).
Proof.
  intros Hv Hp He. unfold mul_scale.
  rewrite (fl53_small v 0 Hv). rewrite (dy_ovf_small v 0 Hv ltac:(lia)). cbn [fst snd].
  rewrite Z.add_0_l. rewrite (fl53_small _ e Hp), (dy_ovf_small _ e Hp He). reflexivity.
Qed.

Lemma fl53_nonneg m e : 0 <= m -> 0 <= fst (fl53 (m, e)).
Proof.
  intros Hm. unfold fl53.
  destruct (Z.leb_spec (Z.log2 (Z.abs m) + 1) 53); cbn; [lia|].
  apply rhe_nonneg; auto. apply Z.pow_pos_nonneg; lia.
Qed.

Lemma dy_to_int_nonneg m e : 0 <= m -> 0 <= dy_to_int (m, e).
Proof.
  intros Hm. unfold dy_to_int.
  destruct (Z.leb_spec 0 e).
  - apply Z.mul_nonneg_nonneg; auto. apply Z.pow_nonneg; lia.
  - apply rhe_nonneg; auto. apply Z.pow_pos_nonneg; lia.
Qed.

Definition scale_nonneg (s : scale) : Prop :=
  match s with SInt z => 0 <= z | SFlt m _ => 0 <= m end.

Lemma mul_scale_nonneg v s w : 0 <= v -> scale_nonneg s -> mul_scale v s = Ok w -> 0 <= w.
Proof.
  intros Hv Hs. destruct s as [z|m e]; cbn [scale_nonneg] in Hs; unfold mul_scale.
  - intros H; inversion H; subst. apply Z.mul_nonneg_nonneg; auto.
  - pose proof (fl53_nonneg v 0 Hv) as Ha.
    destruct (fl53 (v, 0)) as [ma ea]; cbn [fst snd] in *.
    destruct (dy_ovf (ma, ea)); try discriminate.
    assert (Hm : 0 <= ma * m) by (apply Z.mul_nonneg_nonneg; auto).
    pose proof (fl53_nonneg (ma * m) (ea + e) Hm) as Hp.
    destruct (fl53 (ma * m, ea + e)) as [mp ep]; cbn [fst] in Hp.
    destruct (dy_ovf (mp, ep)); try discriminate.
    intros H; inversion H; subst. apply dy_to_int_nonneg; auto.
Qed.

(** The 53-bit rounding moves the mantissa by at most 2^-53 of itself. *)
Lemma fl53_err_Z m e :
  exists k, 0 <= k /\ snd (fl53 (m, e)) = e + k /\
            2 ^ 53 * Z.abs (fst (fl53 (m, e)) * 2 ^ k - m) <= Z.abs m.
Proof.
  unfold fl53.
  destruct (Z.leb_spec (Z.log2 (Z.abs m) + 1) 53) as [Hn|Hn].
  - exists 0. cbn. split; [lia|]. split; [lia|]. rewrite Z.mul_1_r, Z.sub_diag. cbn. lia.
  - set (k := Z.log2 (Z.abs m) + 1 - 53). exists k. cbn [fst snd].
    assert (Hk : 0 < k) by (unfold k; lia).
    split; [lia|]. split; [reflexivity|].
    assert (Hd : 0 < 2 ^ k) by (apply Z.pow_pos_nonneg; lia).
    pose proof (rhe_bound m (2 ^ k) Hd) as B.
    assert (Hm : 0 < Z.abs m).
    { destruct (Z.eq_dec (Z.abs m) 0) as [E|]; [rewrite E in Hn; cbn in Hn|]; lia. }
    pose proof (Z.log2_spec _ Hm) as [L _].
    assert (E : 2 ^ Z.log2 (Z.abs m) = 2 ^ k * 2 ^ 52).
    { rewrite <- Z.pow_add_r by lia. f_equal. unfold k. lia. }
    rewrite E in L. change (2 ^ 52) with 4503599627370496 in L.
    change (2 ^ 53) with 9007199254740992.
    set (P := 2 ^ k) in *. set (R := rhe m P) in *. lia.
Qed.

(* ---- float scale: the value-level error bound, in exact rationals ---- *)
From Coq Require Import QArith Qabs Qpower Lqa.
Open Scope Z_scope.

(** The rational value of a dyadic number and of a scale argument. *)
Definition two_p (e : Z) : Q := ((2 # 1) ^ e)%Q.
Definition dval (x : dyad) : Q := (inject_Z (fst x) * two_p (snd x))%Q.
Definition scale_val (s : scale) : Q :=
  match s with SInt z => inject_Z z | SFlt m e => dval (m, e) end.

Lemma two_p_pos e : (0 < two_p e)%Q.
Proof. apply Qpower_0_lt. reflexivity. Qed.

Lemma two_p_add a b : (two_p (a + b) == two_p a * two_p b)%Q.
Proof. apply Qpower_plus. discriminate. Qed.

Lemma two_p_Z k : 0 <= k -> (two_p k == inject_Z (2 ^ k))%Q.
Proof. intros H. unfold two_p. rewrite (Zpower_Qpower 2 k H). reflexivity. Qed.

Lemma Qabs_inject z : (Qabs (inject_Z z) == inject_Z (Z.abs z))%Q.
Proof. unfold Qabs, inject_Z. reflexivity. Qed.

Lemma fl53_err x : (Qabs (dval (fl53 x) - dval x) <= Qabs (dval x) * (1 # 2 ^ 53))%Q.
Proof.
  destruct x as [m e].
  destruct (fl53_err_Z m e) as (k & Hk & Es & B).
  destruct (fl53 (m, e)) as [m' e'] eqn:E. cbn [fst snd] in *. subst e'.
  unfold dval; cbn [fst snd].
  assert (Eq : (inject_Z m' * two_p (e + k) - inject_Z m * two_p e
                == inject_Z (m' * 2 ^ k - m) * two_p e)%Q).
  { rewrite two_p_add, (two_p_Z k Hk). unfold Z.sub. rewrite inject_Z_plus, inject_Z_opp, inject_Z_mult. ring. }
  rewrite Eq. rewrite !Qabs_Qmult, !Qabs_inject.
  rewrite (Qabs_pos (two_p e)) by (apply Qlt_le_weak, two_p_pos).
  pose proof (two_p_pos e) as Ht.
  assert (B' : (inject_Z (2 ^ 53) * inject_Z (Z.abs (m' * 2 ^ k - m)) <= inject_Z (Z.abs m))%Q).
  { rewrite <- inject_Z_mult. rewrite <- Zle_Qle. exact B. }
  set (a := inject_Z (Z.abs (m' * 2 ^ k - m))) in *. set (M := inject_Z (Z.abs m)) in *.
  set (t := two_p e) in *.
  change (inject_Z (2 ^ 53)) with (9007199254740992 # 1)%Q in B'.
  change (1 # 2 ^ 53)%Q with (1 # 9007199254740992)%Q.
  nra.
Qed.

Lemma dy_to_int_err x : (Qabs (inject_Z (dy_to_int x) - dval x) <= 1 # 2)%Q.
Proof.
  destruct x as [m e]. unfold dy_to_int, dval; cbn [fst snd].
  destruct (Z.leb_spec 0 e) as [He|He].
  - rewrite (two_p_Z e He), inject_Z_mult.
    setoid_replace (inject_Z m * inject_Z (2 ^ e) - inject_Z m * inject_Z (2 ^ e))%Q with 0%Q by ring.
    cbn. discriminate.
  - set (d := 2 ^ (- e)).
    assert (Hd : 0 < d) by (apply Z.pow_pos_nonneg; lia).
    pose proof (rhe_bound m d Hd) as B. set (w := rhe m d) in *.
    assert (Et : (two_p e * inject_Z d == 1)%Q).
    { unfold d. rewrite <- (two_p_Z (- e)) by lia. rewrite <- two_p_add.
      replace (e + - e) with 0 by lia. reflexivity. }
    pose proof (two_p_pos e) as Ht. set (t := two_p e) in *.
    destruct B as [B1 B2]. unfold Z.sub in B1, B2.
    rewrite Zle_Qle in B1, B2.
    repeat (rewrite inject_Z_plus in B1 || rewrite inject_Z_mult in B1 || rewrite inject_Z_opp in B1).
    repeat (rewrite inject_Z_plus in B2 || rewrite inject_Z_mult in B2 || rewrite inject_Z_opp in B2).
    change (inject_Z 2) with 2%Q in B1, B2.
    set (D := inject_Z d) in *. set (W := inject_Z w) in *. set (M := inject_Z m) in *.
    pose proof (Qmult_le_compat_r _ _ t B1 (Qlt_le_weak _ _ Ht)) as C1.
    pose proof (Qmult_le_compat_r _ _ t B2 (Qlt_le_weak _ _ Ht)) as C2.
    setoid_replace (2 * (W * D + - M) * t)%Q with (2 * (W * (t * D) - M * t))%Q in C1 by ring.
    setoid_replace (2 * (W * D + - M) * t)%Q with (2 * (W * (t * D) - M * t))%Q in C2 by ring.
    setoid_replace (- D * t)%Q with (- (t * D))%Q in C1 by ring.
    setoid_replace (D * t)%Q with (t * D)%Q in C2 by ring.
    rewrite Et in C1, C2.
    apply Qabs_Qle_condition. split; lra.
Qed.

Lemma mul_scale_float_bound v m e w :
  mul_scale v (SFlt m e) = Ok w ->
  (Qabs (inject_Z w - inject_Z v * scale_val (SFlt m e))
   <= (1 # 2) + Qabs (inject_Z v * scale_val (SFlt m e)) * (1 # 2 ^ 51))%Q.
Proof.
  unfold mul_scale. cbn [scale_val].
  pose proof (fl53_err (v, 0)) as Ea.
  destruct (fl53 (v, 0)) as [ma ea] eqn:Efa.
  destruct (dy_ovf (ma, ea)); try discriminate. cbn [fst snd].
  pose proof (fl53_err (ma * m, ea + e)) as Ep.
  destruct (fl53 (ma * m, ea + e)) as [mp ep] eqn:Efp.
  destruct (dy_ovf (mp, ep)); try discriminate.
  intros H. assert (Hw : w = dy_to_int (mp, ep)) by congruence. clear H. subst w.
  pose proof (dy_to_int_err (mp, ep)) as Ew.
  assert (Ev : (dval (v, 0%Z) == inject_Z v)%Q).
  { unfold dval; cbn [fst snd]. unfold two_p. rewrite Qpower_0_r. ring. }
  assert (Em : (dval ((ma * m)%Z, (ea + e)%Z) == dval (ma, ea) * dval (m, e))%Q).
  { unfold dval; cbn [fst snd]. rewrite two_p_add, inject_Z_mult. ring. }
  rewrite Ev in Ea. rewrite Em in Ep.
  set (W := inject_Z (dy_to_int (mp, ep))) in *. set (P := dval (mp, ep)) in *.
  set (A := dval (ma, ea)) in *. set (S := dval (m, e)) in *. set (V := inject_Z v) in *.
  (* W - V S = (W - P) + (P - A S) + (A - V) S *)
  assert (T : (Qabs (W - V * S) <= Qabs (W - P) + Qabs (P - A * S) + Qabs ((A - V) * S))%Q).
  { setoid_replace (W - V * S)%Q with ((W - P) + (P - A * S) + (A - V) * S)%Q by ring.
    eapply Qle_trans; [apply Qabs_triangle|]. apply Qplus_le_l. apply Qabs_triangle. }
  rewrite Qabs_Qmult in T. rewrite !Qabs_Qmult in Ep. rewrite Qabs_Qmult.
  assert (TA : (Qabs A <= Qabs V + Qabs (A - V))%Q).
  { setoid_replace A with (V + (A - V))%Q at 1 by ring. apply Qabs_triangle. }
  pose proof (Qabs_nonneg V). pose proof (Qabs_nonneg S). pose proof (Qabs_nonneg (A - V)).
  pose proof (Qabs_nonneg A).
  set (aV := Qabs V) in *. set (aS := Qabs S) in *. set (d := Qabs (A - V)) in *.
  set (aA := Qabs A) in *. set (x1 := Qabs (W - P)) in *. set (x2 := Qabs (P - A * S)) in *.
  set (x := Qabs (W - V * S)) in *.
  change (1 # 2 ^ 53)%Q with (1 # 9007199254740992)%Q in *.
  change (1 # 2 ^ 51)%Q with (1 # 2251799813685248)%Q.
  pose proof (Qmult_le_compat_r _ _ aS Ea H0) as P1.
  pose proof (Qmult_le_compat_r _ _ aS TA H0) as P2.
  pose proof (Qmult_le_0_compat _ _ H H0) as P3.
  lra.
Qed.

(** What int(round(v * scale)) is allowed to be: the exact product for an int scale;
    within one half plus 2^-51 of the exact product for a float scale. *)
Definition scaled_ok (v : Z) (s : scale) (w : Z) : Prop :=
  match s with
  | SInt z => w = v * z
  | SFlt _ _ =>
      (Qabs (inject_Z w - inject_Z v * scale_val s)
       <= (1 # 2) + Qabs (inject_Z v * scale_val s) * (1 # 2 ^ 51))%Q
  end.

Lemma mul_scale_ok v s w : mul_scale v s = Ok w -> scaled_ok v s w.
Proof.
  destruct s as [z|m e]; intros H.
  - cbn in *. congruence.
  - apply mul_scale_float_bound; auto.
Qed.

(** The freeform sentence of the property, for every builder, origin and scale. *)
Lemma freeform_main b ox oy f :
  convert b ox oy = Ok f ->
  let P := pen_pts b in
  (* the extents are the extreme coordinates of the pen positions *)
  ((forall p, In p P -> off_x b <= fst p <= hi_x b /\ off_y b <= snd p <= hi_y b) /\
   (exists p, In p P /\ fst p = off_x b) /\ (exists p, In p P /\ fst p = hi_x b) /\
   (exists p, In p P /\ snd p = off_y b) /\ (exists p, In p P /\ snd p = hi_y b)) /\
  (* position = origin + scaled minimum, size = scaled (maximum - minimum) *)
  scaled_ok (off_x b) (fb_xs b) (f_left f - ox) /\
  scaled_ok (off_y b) (fb_ys b) (f_top f - oy) /\
  scaled_ok (hi_x b - off_x b) (fb_xs b) (f_width f) /\
  scaled_ok (hi_y b - off_y b) (fb_ys b) (f_height f) /\
  (scale_nonneg (fb_xs b) -> 0 <= f_width f) /\
  (scale_nonneg (fb_ys b) -> 0 <= f_height f) /\
  (* the path: extents, children in order, every point inside the extents *)
  f_w f = hi_x b - off_x b /\ f_h f = hi_y b - off_y b /\
  f_path f = FMove (fb_sx b - off_x b) (fb_sy b - off_y b)
             :: map (shift_op (off_x b) (off_y b)) (fb_ops b) /\
  op_pts (f_path f) = map (fun p => (fst p - off_x b, snd p - off_y b)) P /\
  (forall p, In p (op_pts (f_path f)) -> 0 <= fst p <= f_w f /\ 0 <= snd p <= f_h f).
Proof.
  intros H. destruct (convert_spec _ _ _ _ H) as (Hl & Ht & Hw & Hh & Ew & Eh & Ep & Epts & Hin).
  pose proof (pen_extents b) as Hext.
  assert (Hdx : 0 <= hi_x b - off_x b /\ 0 <= hi_y b - off_y b).
  { destruct Hext as (Hall & _). specialize (Hall (fb_sx b, fb_sy b) (or_introl eq_refl)).
    cbn in Hall. lia. }
  split; [exact Hext|].
  split; [eapply mul_scale_ok; eauto|]. split; [eapply mul_scale_ok; eauto|].
  split; [eapply mul_scale_ok; eauto|]. split; [eapply mul_scale_ok; eauto|].
  split; [intros Hs; eapply mul_scale_nonneg; [| exact Hs | exact Hw]; lia|].
  split; [intros Hs; eapply mul_scale_nonneg; [| exact Hs | exact Hh]; lia|].
  auto 10.
Qed.

(** Non-vacuity: a builder with two contours, a tie vertex, negative and repeated
    vertices, placed at a negative origin with the non-uniform scale (0.1, 3). *)
Definition fb_example : fbuilder :=
  mkFb (rhe 5 2) (-3) (SFlt 3602879701896397 (-55)) (SInt 3)
       [FLine 10 (-3); FLine 10 40; FLine (-7) 40; FClose; FMove 100 100; FLine 10 40; FLine 105 (-20)].

Lemma fb_example_converts :
  convert fb_example (-1000) 25
  = Ok (mkFs (-1001) (-35) 11 360 112 120
             [FMove 9 17; FLine 17 17; FLine 17 60; FLine 0 60; FClose; FMove 107 120; FLine 17 60;
              FLine 112 0]).
Proof. vm_compute. reflexivity. Qed.

(** Non-vacuity for the connector history theorems. *)
Lemma conn_example :
  conn_run_ok (add_cxn 0 0 10 5) [SetBX 20; SetEY (-3); SetEX 25; SetBY (-9); SetBX 20]
  = Some (mkConn 20 (-9) 5 6 false false).
Proof. vm_compute. reflexivity. Qed.

(** Non-vacuity for the group theorems: a nest of depth four created empty (every
    add_group_shape recalculates upward) and then filled from the inside. *)
Definition nest_ops : list gop :=
  [mkGop [] MGroup; mkGop [0%nat] MGroup; mkGop [0%nat; 0%nat] MGroup;
   mkGop [0%nat; 0%nat; 0%nat] MGroup;
   mkGop [0%nat; 0%nat; 0%nat; 0%nat] (MLeaf (-100) 50 10 20);
   mkGop [0%nat; 0%nat; 0%nat] (MLeaf 7 (-7) 3 3);
   mkGop [0%nat; 0%nat; 0%nat] MGroup;
   mkGop [0%nat] (MLeaf 1000 1000 5 5);
   mkGop [] (MLeaf 1 2 3 4)].

Lemma nest_example :
  slide_run [] nest_ops
  = Ok [Grp (mkG (-100) (-7) 1105 1012 (-100) (-7) 1105 1012)
          [Grp (mkG (-100) (-7) 110 77 (-100) (-7) 110 77)
             [Grp (mkG (-100) (-7) 110 77 (-100) (-7) 110 77)
                [Grp (mkG (-100) 50 10 20 (-100) 50 10 20) [Leaf (-100) 50 10 20];
                 Leaf 7 (-7) 3 3; Grp gxf0 []]];
           Leaf 1000 1000 5 5];
        Leaf 1 2 3 4].
Proof. vm_compute. reflexivity. Qed.
