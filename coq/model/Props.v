(** C09 model: the object-model layer on top of the typed attribute setters (C11).

    An element state is the flattened subtree below the proxy's anchor element:
    a finite map from keys to text.  A key is (path of child tags, None) for the
    presence of the (unique) child element at that path, or (path, Some attr) for an
    attribute of that element.  The anchor itself is the empty path and always present.

    A public property is a getter expression [gexp] and a setter program [prog] over
    this state, built from the few things the proxy classes and the oxml helper methods
    do: require / get_or_add / remove / add a child, assign a typed attribute
    (OptionalAttribute / RequiredAttribute of oxml/xmlchemy.py, exactly: default and None
    handling, deletion), test the assigned value, map it, and -- for the geometry of placeholders --
    read before the assignment what the object inherits for the readings it has no own value for and
    assign those values after it (Keep).  A setter returns the NEW STATE
    TOGETHER WITH the outcome, because python-pptx setters may mutate before they raise.

    Definitions only. *)
From V.lib Require Import Prelude PyFloat PyVal.
From V.model Require Import SimpleTypeLib.
From Coq Require Import Strings.Byte.

(** ASCII literals: a private literal type (so that the extracted code does not define a
    type called string), converted to python strings / element paths written with slashes *)
Inductive lit := Lit (b : list Byte.byte).
Definition lit_of (b : list Byte.byte) : lit := Lit b.
Definition lit_to (l : lit) : list Byte.byte := match l with Lit b => b end.
Declare Scope lit_scope.
Delimit Scope lit_scope with lit.
String Notation lit lit_of lit_to : lit_scope.

Definition s2l (l : lit) : str := map Byte.to_N (lit_to l).
Definition pth (l : lit) : list str :=
  match s2l l with
  | [] => []
  | s => split_on 47%N s
  end.
Definition leqb (a b : lit) : bool := str_eqb (s2l a) (s2l b).
Definition sub (a b : lit) : lit := Lit (lit_to a ++ [Byte.x2f] ++ lit_to b).

(** * keys and states *)
Definition path := list str.
Definition key := (path * option str)%type.
Definition st := list (key * str).

Fixpoint path_eqb (a b : path) : bool :=
  match a, b with
  | [], [] => true
  | x :: a', y :: b' => str_eqb x y && path_eqb a' b'
  | _, _ => false
  end.
Definition oattr_eqb (a b : option str) : bool :=
  match a, b with
  | None, None => true
  | Some x, Some y => str_eqb x y
  | _, _ => false
  end.
Definition key_eqb (a b : key) : bool := path_eqb (fst a) (fst b) && oattr_eqb (snd a) (snd b).

Fixpoint lookup (k : key) (s : st) : option str :=
  match s with
  | [] => None
  | (k', v) :: r => if key_eqb k k' then Some v else lookup k r
  end.
Definition del (k : key) (s : st) : st := filter (fun e => negb (key_eqb k (fst e))) s.
Definition put (k : key) (v : str) (s : st) : st := (k, v) :: del k s.

Fixpoint is_prefix (p q : path) : bool :=
  match p, q with
  | [], _ => true
  | x :: p', y :: q' => str_eqb x y && is_prefix p' q'
  | _ :: _, [] => false
  end.
(** remove the element at [p] with everything below it *)
Definition del_sub (p : path) (s : st) : st :=
  filter (fun e => negb (is_prefix p (fst (fst e)))) s.

Definition present (p : path) (s : st) : bool :=
  match p with
  | [] => true
  | _ => match lookup (p, None) s with Some _ => true | None => false end
  end.
Definition parent (p : path) : path := removelast p.

(** a new, empty element at [p] carrying the attributes [init] (as _new_x / _add_x do) *)
Definition add_elem (p : path) (init : list (str * str)) (s : st) : st :=
  fold_left (fun acc at_ => put (p, Some (fst at_)) (snd at_) acc) init
            (put (p, None) [] (del_sub p s)).

(** well-formed = the keys describe a tree: an attribute key needs its element, an
    element needs its parent *)
Definition wf_key (s : st) (k : key) : bool :=
  match k with
  | (p, Some _) => present p s
  | (p, None) => match p with [] => false | _ => present (parent p) s end
  end.
Definition wf (s : st) : bool := forallb (fun e => wf_key s (fst e)) s.

(** * assigned values *)
(** What the code can tell about an assigned object beyond its value: identity with an
    enumeration member ([is] tests) and being an instance of pptx.util.Length.
    Enumeration members and lengths are ints, so their [pyval] is a [PInt]. *)
Inductive vtag := TPlain | TMember | TLength.
Record aval := AV { av_tag : vtag; av_val : pyval }.
Definition plain (v : pyval) : aval := AV TPlain v.
Definition a_none : aval := plain PNone.

(** * value codecs *)
Record codec := { enc : pyval -> res str; dec : str -> res pyval }.

(** a simple-type class of oxml/simpletypes.py as translated in gen/GenC11.v *)
Definition row_codec (to_xml from_xml : pyval -> res pyval) : codec :=
  {| enc := fun v => match to_xml v with
                     | Ok (PStr s) => Ok s
                     | Ok _ => Err OtherErr
                     | Err e => Err e
                     end;
     dec := fun s => from_xml (PStr s) |}.

(** XML-mapped enumerations (BaseXmlEnum): table of (MS API value, xml token) in
    definition order; token [] = no XML representation.  to_xml is cls(value) then the
    token: any object that is not == to a member value gives ValueError. *)
Definition int_value (v : pyval) : option Z :=
  match v with
  | PInt z => Some z
  | PBool b => Some (if b then 1 else 0)%Z
  | PFloat f => match f_canon f with
                | Fin m e => if (0 <=? e)%Z then Some (m * 2 ^ e)%Z else None
                | _ => None
                end
  | _ => None
  end.
Fixpoint enum_by_value (t : list (Z * str)) (z : Z) : option str :=
  match t with
  | [] => None
  | (v, tok) :: r => if Z.eqb v z then Some tok else enum_by_value r z
  end.
Fixpoint enum_by_token (t : list (Z * str)) (s : str) : option Z :=
  match t with
  | [] => None
  | (v, tok) :: r => if str_eqb tok s then Some v else enum_by_token r s
  end.
Definition enum_codec (t : list (Z * str)) : codec :=
  {| enc := fun v => match int_value v with
                     | None => Err ValueErr
                     | Some z => match enum_by_value t z with
                                 | Some (c :: r) => Ok (c :: r)
                                 | _ => Err ValueErr
                                 end
                     end;
     dec := fun s => match s with
                     | [] => Err ValueErr
                     | _ => match enum_by_token t s with
                            | Some z => Ok (PInt z)
                            | None => Err ValueErr
                            end
                     end |}.

(** xsd:double attributes: str(float(v)) is not modelled digit by digit (PyVal.repr_float
    writes a marker followed by mantissa and exponent); reading such a text gives the same
    float back (repr round trip, trusted base); other texts go through float(). *)
Definition parse_Zs (s : str) : option Z :=
  match s with
  | 45%N :: r => if all_digits r then Some (- Z.of_N (dec_value r))%Z else None
  | _ => if all_digits s then Some (Z.of_N (dec_value s)) else None
  end.
Definition dec_marked (s : str) : option pyfloat :=
  match s with
  | c :: r =>
      if N.eqb c float_marker then
        match split_on c_space r with
        | [ms; es] => match parse_Zs ms, parse_Zs es with
                      | Some m, Some e => Some (Fin m e)
                      | _, _ => None
                      end
        | _ => None
        end
      else None
  | [] => None
  end.
Definition double_codec (to_xml from_xml : pyval -> res pyval) : codec :=
  {| enc := enc (row_codec to_xml from_xml);
     dec := fun s => match dec_marked s with
                     | Some f => Ok (PFloat f)
                     | None => from_xml (PStr s)
                     end |}.

(** * typed attributes (oxml/xmlchemy.py OptionalAttribute / RequiredAttribute) *)
Inductive akind := AOpt (dflt : pyval) | AReq.

Definition attr_get (p : path) (a : str) (c : codec) (k : akind) (s : st) : res pyval :=
  match lookup (p, Some a) s with
  | None => match k with AOpt d => Ok d | AReq => Err OtherErr end   (* InvalidXmlError *)
  | Some t => dec c t
  end.

(** OptionalAttribute setter: value == default deletes the attribute; otherwise
    to_xml (validate then convert) and set.  RequiredAttribute: to_xml and set. *)
Definition attr_set (p : path) (a : str) (c : codec) (k : akind) (v : pyval) (s : st) : st * res unit :=
  match k with
  | AOpt d =>
      if py_eqb v d then (del (p, Some a) s, Ok tt)
      else match enc c v with
           | Ok t => (put (p, Some a) t s, Ok tt)
           | Err e => (s, Err e)
           end
  | AReq =>
      match enc c v with
      | Ok t => (put (p, Some a) t s, Ok tt)
      | Err e => (s, Err e)
      end
  end.

(** one attribute declaration of an element class, as recovered by the translator *)
Record attr_decl := { ad_attr : str; ad_row : N; ad_kind : akind; ad_codec : codec }.

(** * getter expressions *)
Inductive gexp :=
| GConst (r : res pyval)
| GIfAbsent (p : path) (d k : gexp)            (* the child at p is None ? d : k *)
| GAttr (p : path) (a : str) (c : codec) (k : akind)
| GPresent (p : path)                          (* child is not None, as a bool *)
| GMap (f : pyval -> res pyval) (g : gexp)
| GOrElse (g h : gexp).                        (* g if it is not None, else h *)

Fixpoint eval (g : gexp) (s : st) : res pyval :=
  match g with
  | GConst r => r
  | GIfAbsent p d k => if present p s then eval k s else eval d s
  | GAttr p a c k => attr_get p a c k s
  | GPresent p => Ok (PBool (present p s))
  | GMap f g' => match eval g' s with Ok v => f v | Err e => Err e end
  | GOrElse g' h => match eval g' s with
                    | Ok PNone => eval h s
                    | r => r
                    end
  end.

(** * setter programs *)
Inductive cond :=
| CNone                       (* value is None *)
| CEq (v : pyval)             (* value == v *)
| CIsMember (z : Z)           (* value is <the enumeration member whose value is z> *)
| CIsBool (b : bool)          (* value is True / value is False *)
| CIsLength                   (* isinstance(value, Length) *)
| CTruthy                     (* bool(value) *)
| CIn (l : list pyval)        (* value in (tuple of constants) *)
| CPred (f : aval -> bool)    (* any other test of the value alone *)
| CAbsent (p : path)          (* the child element at p is None *)
| CNot (c : cond)
| CAnd (a b : cond)
| COr (a b : cond).

Fixpoint cond_eval (c : cond) (v : aval) (s : st) : bool :=
  match c with
  | CNone => match av_val v with PNone => true | _ => false end
  | CEq x => py_eqb (av_val v) x
  | CIsMember z => match av_tag v, av_val v with
                   | TMember, PInt z' => Z.eqb z z'
                   | _, _ => false
                   end
  | CIsBool b => match av_tag v, av_val v with
                 | TPlain, PBool b' => Bool.eqb b b'
                 | _, _ => false
                 end
  | CIsLength => match av_tag v with TLength => true | _ => false end
  | CTruthy => py_truth (av_val v)
  | CIn l => existsb (py_eqb (av_val v)) l
  | CPred f => f v
  | CAbsent p => negb (present p s)
  | CNot c' => negb (cond_eval c' v s)
  | CAnd a b => cond_eval a v s && cond_eval b v s
  | COr a b => cond_eval a v s || cond_eval b v s
  end.

Inductive step :=
| SRequire (p : path)                          (* the element is dereferenced: None raises AttributeError *)
| SEnsure (p : path) (init : list (str * str)) (* get_or_add_x *)
| SRemove (p : path)                           (* _remove_x *)
| SAdd (p : path) (init : list (str * str))    (* _add_x, after the old one was removed *)
| SMap (f : aval -> res aval)                  (* the value is converted; may raise *)
| SCheck (c : codec) (k : akind)               (* the attribute assignment on a loose element: only its exceptions matter *)
| SGuard (f : st -> aval -> res aval)          (* a test that reads the element; no write *)
| SSetAttr (p : path) (a : str) (c : codec) (k : akind)
| SPutAttr (p : path) (a : str) (t : str)      (* a constant attribute text *)
| SDelAttr (p : path) (a : str)
| SWith (f : aval -> res aval) (x : step).     (* x on a value derived from the assigned one *)

(** a reading that a setter keeps (placeholder geometry, _InheritsDimensions._set_dimension):
    [kp_own] the object's own value, [kp_inh] what is read instead while the own value is None,
    [kp_wr] the straight-line setter that makes a value the own one *)
Record keep := { kp_own : gexp; kp_inh : gexp; kp_wr : list step }.

Inductive prog :=
| Done
| Raise (e : pyerr)
| Seq (s : step) (k : prog)
| If (c : cond) (th el : prog)
| Keep (rs : list keep) (k : prog).  (* read, in order, the inherited value of every listed reading that has
                                        no own value; then k; then write, in order, those that are not None *)

Definition nonroot (p : path) : bool := match p with [] => false | _ => true end.

Fixpoint do_step (x : step) (v : aval) (s : st) : st * res aval :=
  match x with
  | SRequire p => if present p s then (s, Ok v) else (s, Err OtherErr)
  | SEnsure p init =>
      if present p s then (s, Ok v)
      else if present (parent p) s then (add_elem p init s, Ok v) else (s, Err OtherErr)
  | SRemove p => if nonroot p && present (parent p) s then (del_sub p s, Ok v) else (s, Err OtherErr)
  | SAdd p init => if nonroot p && present (parent p) s then (add_elem p init s, Ok v) else (s, Err OtherErr)
  | SMap f => match f v with Ok v' => (s, Ok v') | Err e => (s, Err e) end
  | SCheck c k =>
      match k with
      | AOpt d => if py_eqb (av_val v) d then (s, Ok v)
                  else match enc c (av_val v) with Ok _ => (s, Ok v) | Err e => (s, Err e) end
      | AReq => match enc c (av_val v) with Ok _ => (s, Ok v) | Err e => (s, Err e) end
      end
  | SGuard f => match f s v with Ok v' => (s, Ok v') | Err e => (s, Err e) end
  | SSetAttr p a c k =>
      if present p s then
        match attr_set p a c k (av_val v) s with
        | (s', Ok _) => (s', Ok v)
        | (s', Err e) => (s', Err e)
        end
      else (s, Err OtherErr)
  | SPutAttr p a t => if present p s then (put (p, Some a) t s, Ok v) else (s, Err OtherErr)
  | SDelAttr p a => if present p s then (del (p, Some a) s, Ok v) else (s, Err OtherErr)
  | SWith f x' => match f v with
                  | Ok v' => match do_step x' v' s with
                             | (s', Ok _) => (s', Ok v)
                             | (s', Err e) => (s', Err e)
                             end
                  | Err e => (s, Err e)
                  end
  end.

(** a straight-line list of steps *)
Fixpoint run_steps (xs : list step) (v : aval) (s : st) : st * res aval :=
  match xs with
  | [] => (s, Ok v)
  | x :: r => match do_step x v s with
              | (s', Ok v') => run_steps r v' s'
              | (s', Err e) => (s', Err e)
              end
  end.
Fixpoint seqs (xs : list step) (k : prog) : prog :=
  match xs with
  | [] => k
  | x :: r => Seq x (seqs r k)
  end.

(** the readings to keep: for each listed reading in order, the own value is read (an exception
    propagates); only when it is None the inherited value is read (likewise) and remembered, None
    included; nothing is written *)
Definition kept_of (s : st) (r : keep) : res (list (list step * pyval)) :=
  match eval (kp_own r) s with
  | Err e => Err e
  | Ok PNone => match eval (kp_inh r) s with
                | Err e => Err e
                | Ok x => Ok [(kp_wr r, x)]
                end
  | Ok _ => Ok []
  end.
Fixpoint collect (rs : list keep) (s : st) : res (list (list step * pyval)) :=
  match rs with
  | [] => Ok []
  | r :: rest => match kept_of s r with
                 | Err e => Err e
                 | Ok l => match collect rest s with
                           | Err e => Err e
                           | Ok l' => Ok (l ++ l')
                           end
                 end
  end.
(** the remembered values that are not None are assigned in order; the first refusal ends it *)
Fixpoint write_back (vals : list (list step * pyval)) (s : st) : st * res unit :=
  match vals with
  | [] => (s, Ok tt)
  | (wr, x) :: rest =>
      match x with
      | PNone => write_back rest s
      | _ => match run_steps wr (plain x) s with
             | (s', Ok _) => write_back rest s'
             | (s', Err e) => (s', Err e)
             end
      end
  end.

Fixpoint run (p : prog) (v : aval) (s : st) : st * res unit :=
  match p with
  | Done => (s, Ok tt)
  | Raise e => (s, Err e)
  | Seq x k => match do_step x v s with
               | (s', Ok v') => run k v' s'
               | (s', Err e) => (s', Err e)
               end
  | If c th el => if cond_eval c v s then run th v s else run el v s
  | Keep rs k => match collect rs s with
                 | Err e => (s, Err e)
                 | Ok vals => match run k v s with
                              | (s1, Ok _) => write_back vals s1
                              | (s1, Err e) => (s1, Err e)
                              end
                 end
  end.

(** * footprints *)
Inductive region := RKey (k : key) | RSub (p : path).
Definition in_region (k : key) (r : region) : bool :=
  match r with
  | RKey k' => key_eqb k k'
  | RSub p => is_prefix p (fst k)
  end.

Fixpoint step_writes (x : step) : list region :=
  match x with
  | SRequire _ | SMap _ | SCheck _ _ | SGuard _ => []
  | SEnsure p init => RKey (p, None) :: map (fun at_ => RKey (p, Some (fst at_))) init
  | SRemove p => [RSub p]
  | SAdd p _ => [RSub p]
  | SSetAttr p a _ _ | SPutAttr p a _ | SDelAttr p a => [RKey (p, Some a)]
  | SWith _ x' => step_writes x'
  end.
Definition steps_writes (xs : list step) : list region := flat_map step_writes xs.
Fixpoint writes (p : prog) : list region :=
  match p with
  | Done | Raise _ => []
  | Seq x k => step_writes x ++ writes k
  | If _ th el => writes th ++ writes el
  | Keep rs k => writes k ++ flat_map (fun r => steps_writes (kp_wr r)) rs
  end.

Fixpoint reads (g : gexp) : list key :=
  match g with
  | GConst _ => []
  | GIfAbsent p d k => (p, None) :: reads d ++ reads k
  | GAttr p a _ _ => [(p, Some a)]
  | GPresent p => [(p, None)]
  | GMap _ g' => reads g'
  | GOrElse g' h => reads g' ++ reads h
  end.

(** the getter [g] cannot observe what the program [p] may modify *)
Definition indep (p : prog) (g : gexp) : bool :=
  forallb (fun k => forallb (fun r => negb (in_region k r)) (writes p)) (reads g).

(** * removing presence tests that cannot matter on a well-formed state *)
(** value of [g] on a state in which nothing exists at or below [p] *)
Fixpoint absent_value (p : path) (g : gexp) : option (res pyval) :=
  match g with
  | GConst r => Some r
  | GIfAbsent q d k => if is_prefix p q then absent_value p d else None
  | GAttr q a c k => if is_prefix p q
                     then Some (match k with AOpt d => Ok d | AReq => Err OtherErr end)
                     else None
  | GPresent q => match q with
                  | [] => None
                  | _ => if is_prefix p q then Some (Ok (PBool false)) else None
                  end
  | GMap _ _ => None
  | GOrElse _ _ => None
  end.
Definition res_pyval_eqb (a b : res pyval) : bool :=
  match a, b with
  | Ok x, Ok y => match x, y with
                  | PNone, PNone => true
                  | PBool u, PBool w => Bool.eqb u w
                  | PInt u, PInt w => Z.eqb u w
                  | PFloat (Fin m e), PFloat (Fin m' e') => Z.eqb m m' && Z.eqb e e'
                  | _, _ => false
                  end
  | Err e, Err e' => pyerr_eqb e e'
  | _, _ => false
  end.
Fixpoint simplify (g : gexp) : gexp :=
  match g with
  | GIfAbsent p d k =>
      let k' := simplify k in
      match p, d with
      | _ :: _, GConst r =>
          match absent_value p k' with
          | Some r' => if res_pyval_eqb r r' then k' else GIfAbsent p d k'
          | None => GIfAbsent p d k'
          end
      | _, _ => GIfAbsent p (simplify d) k'
      end
  | GMap f g' => GMap f (simplify g')
  | GOrElse g' h => GOrElse (simplify g') (simplify h)
  | _ => g
  end.

(** * builders: the recurring shapes of property code *)
(** the chain of elements from the anchor down to the element that carries the attribute:
    dereferenced (must exist) or obtained with get_or_add_x; [lv_absent] is what the getter
    returns when it finds the element missing *)
Inductive lmode := LMust | LEnsure (init : list (str * str)).
Record level := { lv_path : path; lv_mode : lmode; lv_absent : res pyval }.

Definition chain_steps (ch : list level) : list step :=
  map (fun l => match lv_mode l with
                | LMust => SRequire (lv_path l)
                | LEnsure i => SEnsure (lv_path l) i
                end) ch.
Fixpoint chain_prog (ch : list level) (k : prog) : prog :=
  match ch with
  | [] => k
  | l :: r => Seq (match lv_mode l with
                   | LMust => SRequire (lv_path l)
                   | LEnsure i => SEnsure (lv_path l) i
                   end) (chain_prog r k)
  end.
Fixpoint chain_get (ch : list level) (k : gexp) : gexp :=
  match ch with
  | [] => k
  | l :: r => GIfAbsent (lv_path l) (GConst (lv_absent l)) (chain_get r k)
  end.

(** (A) value conversion, get_or_add down the chain, typed attribute assignment *)
Definition attr_prog (pre : aval -> res aval) (ch : list level) (p : path) (d : attr_decl) : prog :=
  Seq (SMap pre) (chain_prog ch (Seq (SSetAttr p (ad_attr d) (ad_codec d) (ad_kind d)) Done)).
Definition attr_gexp (post : pyval -> res pyval) (ch : list level) (p : path) (d : attr_decl) : gexp :=
  GMap post (chain_get ch (GAttr p (ad_attr d) (ad_codec d) (ad_kind d))).

(** (B) the child is removed first; unless [skip], a new child is added and its attribute
    assigned.  [loose = true]: the attribute is assigned BEFORE the child is inserted
    (_add_x(val=v)), so a refused value leaves no child at all. *)
Definition fresh_prog (pre : aval -> res aval) (ch : list level) (c : path) (init : list (str * str))
           (skip : cond) (loose : bool) (d : attr_decl) : prog :=
  Seq (SMap pre) (chain_prog ch (Seq (SRemove c)
    (If skip Done
      (if loose
       then Seq (SCheck (ad_codec d) (ad_kind d)) (Seq (SAdd c init) (Seq (SSetAttr c (ad_attr d) (ad_codec d) (ad_kind d)) Done))
       else Seq (SAdd c init) (Seq (SSetAttr c (ad_attr d) (ad_codec d) (ad_kind d)) Done))))).

(** (C) [skip] removes the child; otherwise get_or_add and assign *)
Definition ensure_or_remove_prog (pre : aval -> res aval) (ch : list level) (c : path) (init : list (str * str))
           (skip : cond) (d : attr_decl) : prog :=
  Seq (SMap pre) (chain_prog ch
    (If skip (Seq (SRemove c) Done)
       (Seq (SEnsure c init) (Seq (SSetAttr c (ad_attr d) (ad_codec d) (ad_kind d)) Done)))).

(** getter of (B) and (C): the child is one more level *)
Definition child_gexp (post : pyval -> res pyval) (ch : list level) (c : path) (absent : res pyval) (d : attr_decl) : gexp :=
  GMap post (chain_get ch (GIfAbsent c (GConst absent) (GAttr c (ad_attr d) (ad_codec d) (ad_kind d)))).

(** (D) presence of a child as a boolean property *)
Definition flag_prog (ch : list level) (c : path) (init : list (str * str)) (neg : bool) : prog :=
  chain_prog ch (If (if neg then CNot CTruthy else CTruthy)
                    (Seq (SEnsure c init) Done) (Seq (SRemove c) Done)).
Definition flag_gexp (ch : list level) (c : path) (neg : bool) : gexp :=
  GMap (fun v => match v with PBool b => Ok (PBool (if neg then negb b else b)) | _ => Err OtherErr end)
       (chain_get ch (GPresent c)).

(** (E) a value child that counts only while a sibling mode child reads [on] (manual layout of a chart
    element: c:xMode + c:x below c:layout/c:manualLayout).  The setter validates the value first, get_or_adds
    the chain, removes the box on [zero]; otherwise it get_or_adds the box and the mode child, ASSIGNS [on] TO
    THE MODE ATTRIBUTE (a typed attribute: assigning its default deletes it), get_or_adds the value child and
    assigns the value.  The getter reads [off] unless box, value child and mode child exist and the mode
    attribute reads [on]; then it reads the value attribute. *)
Definition mode_gate (on : pyval) (off : res pyval) (mode : pyval) : res pyval :=
  if py_eqb mode on then Ok PNone else off.
Definition moded_prog (ch : list level) (box m x : path) (zero : cond) (md : attr_decl) (on : pyval) (d : attr_decl) : prog :=
  Seq (SCheck (ad_codec d) (ad_kind d))
    (chain_prog ch
       (If zero (Seq (SRemove box) Done)
          (Seq (SEnsure box [])
             (Seq (SEnsure m [])
                (Seq (SWith (fun _ => Ok (plain on)) (SSetAttr m (ad_attr md) (ad_codec md) (ad_kind md)))
                   (Seq (SEnsure x [])
                      (Seq (SSetAttr x (ad_attr d) (ad_codec d) (ad_kind d)) Done))))))).
Definition moded_gexp (ch : list level) (box m x : path) (off : res pyval) (md : attr_decl) (on : pyval) (d : attr_decl) : gexp :=
  chain_get ch
    (GIfAbsent box (GConst off)
       (GIfAbsent x (GConst off)
          (GIfAbsent m (GConst off)
             (GOrElse (GMap (mode_gate on off) (GAttr m (ad_attr md) (ad_codec md) (ad_kind md)))
                      (GAttr x (ad_attr d) (ad_codec d) (ad_kind d)))))).

Definition pre_id (v : aval) : res aval := Ok v.
Definition post_id (v : pyval) : res pyval := Ok v.

(** * a catalogue entry *)
Record entry := {
  e_cls : str;                 (* proxy class that defines the property *)
  e_name : str;                (* property name *)
  e_variant : str;             (* element flavour the paths are written for *)
  e_get : gexp;
  e_set : prog
}.

Definition e_indep (a b : entry) : bool := indep (e_set a) (simplify (e_get b)).

(** * operation histories *)
Definition assign := (nat * aval)%type.      (* index into a family of entries, value *)

Definition apply_assign (fam : list entry) (s : st) (op : assign) : st :=
  match nth_error fam (fst op) with
  | Some e => fst (run (e_set e) (snd op) s)
  | None => s
  end.
Definition run_history (fam : list entry) (ops : list assign) (s : st) : st :=
  fold_left (apply_assign fam) ops s.
