"""T8 for C12: regenerate coq/gen/GenC12.v + gen/c12_meta.json from /repo's current tree.

For every public `property` / `lazyproperty` (and the sequence protocol / a few read methods)
of every proxy class of python-pptx, predict statically what evaluating it can do to the XML:

  Pure                      no tree / relationship / part mutation reachable
  AddsEmpty [tags]          the only reachable mutations are `get_or_add_x()` of declared
                            ZeroOrOne children whose `_new_x` is the metaclass default
                            (OxmlElement(tag): no attributes, no text, no children)
  Creates what              anything else (custom `_new_x`, `_add_x(**attrs)`, insert, remove,
                            attribute assignment on an element, relationship / part creation)

by an AST call graph resolved BY NAME inside src/pptx: `self.x` through the MRO of the concrete
class, every other `recv.x` to every class of pptx that has a member `x` (join of the effects).
Metaclass-generated members of the oxml element classes are read from the live classes
(closures of the generated functions).  Fail-closed: a call that resolves to nothing known goes
to `unresolved` and the accessor leaves the instance theorem (the check judges it by dynamic
observation only: `observed-pure` or a violation).
"""
import ast
import importlib
import inspect
import json
import os
import pkgutil
import sys
import textwrap

sys.path.insert(0, os.path.dirname(os.path.abspath(__file__)))
from xsdlib import REPO, Schemas, write_if_changed  # noqa: E402

sys.path.insert(0, REPO + "/src")
VERIF = os.path.dirname(os.path.dirname(os.path.abspath(__file__)))

# ----------------------------------------------------------------------------- configuration
# modules whose classes are the object model a reader walks (proxy side)
PROXY_MODULES = [
    "pptx.presentation", "pptx.slide", "pptx.shared", "pptx.action", "pptx.table", "pptx.text.text",
    "pptx.shapes", "pptx.shapes.base", "pptx.shapes.autoshape", "pptx.shapes.connector", "pptx.shapes.graphfrm",
    "pptx.shapes.group", "pptx.shapes.picture", "pptx.shapes.placeholder", "pptx.shapes.shapetree",
    "pptx.chart.axis", "pptx.chart.category", "pptx.chart.chart", "pptx.chart.datalabel", "pptx.chart.legend",
    "pptx.chart.marker", "pptx.chart.plot", "pptx.chart.point", "pptx.chart.series",
    "pptx.dml.chtfmt", "pptx.dml.color", "pptx.dml.effect", "pptx.dml.fill", "pptx.dml.line",
    "pptx.parts.chart", "pptx.parts.coreprops", "pptx.parts.embeddedpackage", "pptx.parts.image",
    "pptx.parts.media", "pptx.parts.presentation", "pptx.parts.slide", "pptx.package", "pptx.opc.package",
]
# modules whose classes are never the receiver of an attribute access met while READING a loaded
# presentation unless the source names the class explicitly (then it is resolved exactly):
# chart-XML / workbook writers, chart-data builders, freeform builder, text fitting, package
# reader/writer, enumerations and value types.  Excluded from by-name resolution only.
BYNAME_EXCLUDED = ("pptx.chart.xmlwriter", "pptx.chart.data", "pptx.chart.xlsx", "pptx.shapes.freeform",
                   "pptx.text.layout", "pptx.text.fonts", "pptx.media", "pptx.opc.serialized", "pptx.opc.spec",
                   "pptx.enum.", "pptx.spec", "pptx.util", "pptx.types", "pptx.exc", "pptx.api",
                   "pptx.oxml.simpletypes", "pptx.oxml.ns", "pptx.opc.packuri", "pptx.opc.constants",
                   "pptx.opc.shared")
# writer-side helpers living in those modules: never handed to a reader
NOT_PROXY = {"_MoviePicElementCreator", "_OleObjectElementCreator", "_NotesSlideShapeFactory", "PartFactory",
             "_PackageLoader", "_ContentTypeMap"}
# read methods that belong to the iteration named by the property (not properties)
READ_METHODS = {("Table", "iter_cells"), ("Table", "cell")}
SEQ_PROTO = ("__iter__", "__len__", "__getitem__")

# Presence-insensitive containers: an element of one of these tags with no attribute, no text and
# no child says nothing (every attribute and child of its schema type is optional and its absence
# means `inherit / default`; the list holders mean `no entries`).  Audited by hand against
# ISO/IEC 29500; the translator re-checks the `all optional` half against /repo/spec (fail-closed).
CONTAINERS = [
    "a:pPr", "a:rPr", "a:endParaRPr", "a:defRPr", "a:tcPr", "a:ln", "a:bodyPr", "a:lstStyle",
    "c:spPr", "p:spPr", "p:grpSpPr",
    "p:sldIdLst", "p:sldMasterIdLst", "p:sldLayoutIdLst",
]
# accessors the property itself names as documented creating ones: (class that defines it, name)
DOCUMENTED = [
    ("Slide", "notes_slide"), ("SlidePart", "notes_slide"),
    ("_Background", "fill"),
    ("Font", "color"),
    ("Chart", "chart_title"),
    ("Presentation", "notes_master"), ("PresentationPart", "notes_master"),
    ("Presentation", "core_properties"), ("PresentationPart", "core_properties"), ("Package", "core_properties"),
]

BUILTIN_PURE = set("""len tuple list dict set frozenset isinstance issubclass int str bool float bytes sorted enumerate zip
iter next min max sum any all range super cast type repr id abs round map filter reversed hash divmod ord chr
hasattr callable format bytearray memoryview object property staticmethod classmethod print vars
ValueError TypeError KeyError IndexError NotImplementedError AttributeError InvalidXmlError StopIteration
PackageNotFoundError Exception AssertionError OSError IOError
Length Emu Pt Inches Cm Mm Centipoints""".split())
# methods of python / lxml / stdlib values that never change an XML tree
NAME_PURE = set("""find findall findtext xpath get iter iterchildren iterancestors iterdescendants itersiblings
getparent getnext getprevious getroottree getroot getpath index items keys values count startswith endswith split
rsplit join strip lstrip rstrip lower upper format encode decode hexdigest digest read seek tell getvalue group groups
match search sub copy deepcopy isdigit zfill ljust rjust partition rpartition title capitalize tobytes splitlines
fromkeys from_xml to_xml isoformat strftime strptime utcfromtimestamp timestamp total_seconds bit_length
from_clark_name qn tostring fromstring parse XPath hex lstrip open close namelist getinfo sha1 md5 utcoffset
as_integer_ratio is_integer nsmap local_part nspfx nsuri clark_name basename dirname splitext normpath
relpath exists isdir isfile walk listdir abspath cache_clear writestr write warn
""".split())
# names that mutate their receiver when it is an lxml element / a shared collection
NAME_MUTATING = set("""append extend insert remove pop clear add update discard addprevious addnext set setdefault
sort reverse popitem remove_all insert_element_before""".split())


# ----------------------------------------------------------------------------- effect lattice
class Eff:
    __slots__ = ("tags", "whats", "unres", "prov")

    def __init__(self, tags=(), whats=(), unres=(), prov=None):
        self.tags = frozenset(tags)
        self.whats = frozenset(whats)
        self.unres = frozenset(unres)
        self.prov = prov or {}      # atom -> call chain that reaches it (diagnostics only)

    def join(self, o):
        if o is PURE:
            return self
        if self is PURE:
            return o
        pv = dict(o.prov)
        pv.update(self.prov)
        return Eff(self.tags | o.tags, self.whats | o.whats, self.unres | o.unres, pv)

    def via(self, step):
        if self is PURE:
            return self
        pv = {}
        for a in list(self.tags) + list(self.whats) + list(self.unres):
            pv[a] = (step,) + tuple(self.prov.get(a, ()))[:12]
        return Eff(self.tags, self.whats, self.unres, pv)

    def __eq__(self, o):
        if not isinstance(o, Eff):
            return False
        return self.tags == o.tags and self.whats == o.whats and self.unres == o.unres

    def __hash__(self):
        return hash((self.tags, self.whats, self.unres))

    @property
    def level(self):
        if self.whats:
            return "Creates"
        if self.tags:
            return "AddsEmpty"
        return "Pure"

    def __repr__(self):
        return "Eff(%s %s %s %s)" % (self.level, sorted(self.tags), sorted(self.whats), sorted(self.unres))


PURE = Eff()


def creates(what):
    return Eff(whats=[what])


# ----------------------------------------------------------------------------- universe
class Universe:
    def __init__(self):
        import pptx  # noqa
        self.classes = {}        # live class -> ast.ClassDef
        self.by_name = {}        # class name -> [live classes]
        self.funcs = {}          # module-level function name -> [(module, ast.FunctionDef)]
        self.modtrees = {}
        self.notes = []
        for mi in pkgutil.walk_packages(pptx.__path__, "pptx."):
            try:
                mod = importlib.import_module(mi.name)
            except Exception as e:  # noqa
                self.notes.append("module not importable: %s (%r)" % (mi.name, e))
                continue
            path = getattr(mod, "__file__", None)
            if not path or not path.endswith(".py"):
                continue
            tree = ast.parse(open(path, encoding="utf-8").read())
            self.modtrees[mi.name] = tree
            for node in tree.body:
                if isinstance(node, ast.FunctionDef):
                    self.funcs.setdefault(node.name, []).append((mi.name, node))
                elif isinstance(node, ast.ClassDef):
                    live = getattr(mod, node.name, None)
                    if inspect.isclass(live) and live.__module__ == mi.name:
                        self.classes[live] = node
                        self.by_name.setdefault(node.name, []).append(live)
        # members defined in the source text of each class
        self.src_members = {}    # live class -> {name: {"get": fn, "set": fn, "kind": ...}}
        for live, node in self.classes.items():
            mem = {}
            for st in node.body:
                if not isinstance(st, ast.FunctionDef):
                    continue
                decos = [ast.unparse(d) for d in st.decorator_list]
                if any(d.endswith(".setter") for d in decos):
                    mem.setdefault(st.name, {"kind": "property"})["set"] = st
                elif any(d.endswith(".deleter") for d in decos):
                    continue
                elif "property" in decos:
                    mem.setdefault(st.name, {})["kind"] = "property"
                    mem[st.name]["get"] = st
                elif "lazyproperty" in decos:
                    mem[st.name] = {"kind": "lazyproperty", "get": st}
                else:
                    mem[st.name] = {"kind": "method", "get": st}
            self.src_members[live] = mem
        # name index over everything a class exposes (source or metaclass-generated), own dict only
        self.name_index = {}     # member name -> set of live classes having it in their MRO
        for live in self.classes:
            if live.__module__.startswith(BYNAME_EXCLUDED):
                continue
            for k in live.__mro__:
                if k in self.classes:
                    for n in vars(k):
                        self.name_index.setdefault(n, set()).add(live)

    def is_pptx(self, cls):
        return cls in self.classes

    def lookup(self, ctx, name):
        """Resolve `name` through the MRO of live class ctx: (owner, descriptor) or None."""
        for k in ctx.__mro__:
            if name in vars(k):
                return k, vars(k)[name]
        return None


def generated_info(fn):
    """A metaclass-generated function: (role, child-declaration object) from its closure."""
    from pptx.oxml.xmlchemy import _BaseChildElement, BaseAttribute

    q = getattr(fn, "__qualname__", "")
    if "<locals>" not in q:
        return None
    decl = None
    for cell in (fn.__closure__ or ()):
        try:
            c = cell.cell_contents
        except ValueError:
            continue
        if isinstance(c, (_BaseChildElement, BaseAttribute)):
            decl = c
    if decl is None:
        return None
    return q.split(".")[-1], decl


class Analyzer:
    def __init__(self, U):
        self.U = U
        self.memo = {}
        self.inprog = set()
        self.done = set()
        self.changed = False
        self.unknown_calls = {}

    # -- metaclass-generated members ------------------------------------------------------
    def generated_effect(self, ctx, owner, name, desc, as_store=False, kwargs=False):
        from pptx.util import lazyproperty

        if isinstance(desc, property) and desc.fget is not None and generated_info(desc.fget):
            if as_store:
                return creates("attribute assignment")
            return PURE
        if not inspect.isfunction(desc):
            return None
        gi = generated_info(desc)
        if gi is None:
            return None
        role, decl = gi
        tag = getattr(decl, "_nsptagname", None)
        if role in ("new_child_element", "get_child_element", "get_child_element_list", "get_group_member_element",
                    "get_attr_value"):
            return PURE
        if role in ("_insert_child",):
            return creates("insert <%s>" % tag)
        if role in ("_remove_child", "_remove_choice_group"):
            return creates("remove child")
        if role in ("get_or_change_to_child",):
            return creates("change choice to <%s>" % tag)
        if role in ("_add_child", "add_child", "get_or_add_child"):
            prop = decl._prop_name
            parts = []
            # the pieces the generated body calls through getattr(obj, name)
            for piece in (("_add_" + prop,) if role != "_add_child" else ()) + ("_new_" + prop, "_insert_" + prop):
                r = self.U.lookup(ctx, piece)
                if r is None:
                    return Eff(unres=["generated %s: no %s" % (name, piece)])
                parts.append((piece,) + r)
            default_new = True
            eff = PURE
            for piece, k, d in parts:
                g = generated_info(d) if inspect.isfunction(d) else None
                if g is None:
                    # hand-written override: analyse it, and the new element is not known to be empty
                    default_new = False
                    eff = eff.join(self.member_effect(ctx, piece, call=True))
            if role == "add_child":
                return eff.join(creates("add <%s>" % tag))
            if kwargs:
                return eff.join(creates("add <%s> with attributes" % tag))
            if default_new:
                return eff.join(Eff(tags=[tag]))
            return eff.join(creates("add <%s> (non-empty default)" % tag))
        return Eff(unres=["generated role %s" % role])

    # -- resolution -----------------------------------------------------------------------
    def member_effect(self, ctx, name, call=False, store=False, kwargs=False):
        """Effect of evaluating ctx_instance.name (load / call / store) with self : ctx."""
        from pptx.util import lazyproperty

        r = self.U.lookup(ctx, name)
        if r is None:
            return None
        owner, desc = r
        if not self.U.is_pptx(owner):
            return None
        g = self.generated_effect(ctx, owner, name, desc, as_store=store, kwargs=kwargs)
        if g is not None:
            return g
        mem = self.U.src_members.get(owner, {}).get(name)
        if mem is None:
            # class attribute that is not a function (constant, declaration object, alias)
            if isinstance(desc, (staticmethod, classmethod)) or inspect.isfunction(desc):
                return Eff(unres=["%s.%s has no source" % (owner.__name__, name)])
            return PURE
        if store:
            if mem["kind"] == "property" and "set" in mem:
                return self.func_effect(ctx, owner, name, "set", mem["set"])
            if mem["kind"] in ("property", "lazyproperty"):
                return creates("assignment to read-only property")
            return PURE
        if mem["kind"] in ("property", "lazyproperty"):
            return self.func_effect(ctx, owner, name, "get", mem["get"])
        if call:
            return self.func_effect(ctx, owner, name, "get", mem["get"])
        return PURE   # bound-method reference without a call

    def by_name_effect(self, name, call=False, store=False, kwargs=False):
        cands = self.U.name_index.get(name)
        if not cands:
            return None
        eff = PURE
        hit = False
        for ctx in sorted(cands, key=lambda c: (c.__module__, c.__qualname__)):
            e = self.member_effect(ctx, name, call=call, store=store, kwargs=kwargs)
            if e is not None:
                hit = True
                eff = eff.join(e)
        return eff if hit else None

    def class_ctor_effect(self, cls):
        eff = PURE
        for nm in ("__new__", "__init__"):
            r = self.U.lookup(cls, nm)
            if r and self.U.is_pptx(r[0]):
                mem = self.U.src_members[r[0]].get(nm)
                if mem:
                    eff = eff.join(self.func_effect(cls, r[0], nm, "get", mem["get"]))
        return eff

    # -- function bodies ------------------------------------------------------------------
    def func_effect(self, ctx, owner, name, which, fn):
        key = (ctx, owner, name, which)
        if key in self.inprog or key in self.done:
            return self.memo.get(key, PURE)
        self.inprog.add(key)
        try:
            eff = self.body_effect(ctx, fn).via("%s.%s" % (getattr(owner, "__name__", owner), name))
        finally:
            self.inprog.discard(key)
        self.done.add(key)
        if self.memo.get(key) != eff:
            self.memo[key] = eff
            self.changed = True
        return eff

    def modfunc_effect(self, name):
        eff = PURE
        for mod, fn in self.U.funcs[name]:
            eff = eff.join(self.func_effect(None, mod, name, "fn", fn))
        return eff

    def body_effect(self, ctx, fn):
        eff = PURE
        fresh = set()      # local names bound to fresh python containers
        localcls = {}      # local names bound to (a choice of) pptx classes
        args = {a.arg for a in fn.args.args + fn.args.kwonlyargs}
        selfname = fn.args.args[0].arg if (fn.args.args and ctx is not None) else None
        is_cls = any(ast.unparse(d) == "classmethod" for d in fn.decorator_list)

        def fresh_expr(e):
            if isinstance(e, (ast.List, ast.Dict, ast.Set, ast.ListComp, ast.DictComp, ast.SetComp, ast.Tuple,
                              ast.Constant, ast.JoinedStr)):
                return True
            if isinstance(e, ast.Call) and isinstance(e.func, ast.Name) and e.func.id in (
                    "list", "dict", "set", "tuple", "sorted", "bytearray", "OrderedDict", "defaultdict", "Counter",
                    "BytesIO", "StringIO"):
                return True
            if isinstance(e, ast.Call) and isinstance(e.func, ast.Attribute) and e.func.attr in (
                    "split", "findall", "xpath", "values", "keys", "items", "copy", "OrderedDict", "BytesIO"):
                return True
            return False

        def classes_of(e):
            """pptx classes an expression may denote (Name of a class, dict-of-classes subscript, IfExp)."""
            if isinstance(e, ast.Name) and e.id in self.U.by_name:
                return list(self.U.by_name[e.id])
            if isinstance(e, ast.Name) and e.id in localcls:
                return localcls[e.id]
            if isinstance(e, ast.Subscript) and isinstance(e.value, ast.Dict):
                out = []
                for v in e.value.values:
                    c = classes_of(v)
                    if not c:
                        return []
                    out += c
                return out
            if isinstance(e, ast.IfExp):
                a, b = classes_of(e.body), classes_of(e.orelse)
                return a + b if a and b else []
            if isinstance(e, ast.Call) and isinstance(e.func, ast.Name) and e.func.id in self.U.by_name \
                    and e.func.id not in args:
                return list(self.U.by_name[e.func.id])     # an instance of the class: same member table
            if isinstance(e, ast.Call) and isinstance(e.func, ast.Attribute) and e.func.attr == "get" \
                    and isinstance(e.func.value, ast.Dict):
                out = []
                for v in list(e.func.value.values) + list(e.args[1:]):
                    c = classes_of(v)
                    if not c:
                        return []
                    out += c
                return out
            return []

        # pre-pass: local bindings
        for node in ast.walk(fn):
            if isinstance(node, ast.Assign) and len(node.targets) == 1 and isinstance(node.targets[0], ast.Name):
                t = node.targets[0].id
                if fresh_expr(node.value):
                    fresh.add(t)
                cs = classes_of(node.value)
                if cs:
                    localcls[t] = cs
            elif isinstance(node, ast.AnnAssign) and isinstance(node.target, ast.Name) and node.value is not None:
                if fresh_expr(node.value):
                    fresh.add(node.target.id)
        # a name also assigned from something not fresh is not fresh
        for node in ast.walk(fn):
            if isinstance(node, ast.Assign):
                for t in node.targets:
                    if isinstance(t, ast.Name) and t.id in fresh and not fresh_expr(node.value):
                        fresh.discard(t.id)

        def is_self(e):
            if isinstance(e, ast.Name) and selfname and e.id == selfname:
                return True
            if isinstance(e, ast.Call) and isinstance(e.func, ast.Name) and e.func.id == "super":
                return True
            return False

        def recv_effect(recv, name, call=False, store=False, kwargs=False):
            """effect of recv.name"""
            if ctx is not None and is_self(recv):
                if is_cls:
                    # cls.name inside a classmethod
                    e = self.member_effect(ctx, name, call=call, store=store, kwargs=kwargs)
                else:
                    e = self.member_effect(ctx, name, call=call, store=store, kwargs=kwargs)
                if e is not None:
                    return e
                if store:
                    return PURE          # plain instance attribute of the proxy object
                if call:
                    return Eff(unres=["call of instance attribute self.%s" % name])
                return PURE
            cs = classes_of(recv)
            if cs:
                eff = PURE
                for c in cs:
                    e = self.member_effect(c, name, call=call, store=store, kwargs=kwargs)
                    eff = eff.join(e if e is not None else Eff(unres=["%s.%s" % (c.__name__, name)]))
                return eff
            if isinstance(recv, ast.Name) and recv.id in fresh and not store:
                return PURE
            if name.startswith("__") and name.endswith("__"):
                return PURE              # int.__new__(cls, v), object.__init__: not pptx code
            e = self.by_name_effect(name, call=call, store=store, kwargs=kwargs)
            if store:
                if e is None or e is PURE:
                    if isinstance(recv, ast.Name) and recv.id in fresh:
                        return PURE
                    return creates("assignment to .%s of a non-self object" % name)
                return e
            if name in NAME_MUTATING and call:
                m = creates("call of mutating .%s() on a shared object" % name)
                return m if e is None else e.join(m)
            if e is not None:
                return e
            if not call or name in NAME_PURE:
                return PURE
            self.unknown_calls.setdefault(name, 0)
            self.unknown_calls[name] += 1
            return Eff(unres=["call .%s()" % name])

        call_funcs = set()
        for node in ast.walk(fn):
            if isinstance(node, ast.Call):
                call_funcs.add(id(node.func))
        for node in ast.walk(fn):
            if isinstance(node, ast.Call):
                f = node.func
                kw = bool(node.keywords)
                if isinstance(f, ast.Attribute):
                    eff = eff.join(recv_effect(f.value, f.attr, call=True, kwargs=kw))
                elif isinstance(f, ast.Name):
                    nm = f.id
                    if nm == "getattr" or nm == "setattr":
                        if len(node.args) >= 2 and isinstance(node.args[1], ast.Constant):
                            eff = eff.join(recv_effect(node.args[0], node.args[1].value, store=(nm == "setattr")))
                        else:
                            eff = eff.join(Eff(unres=["dynamic %s" % nm]))
                    elif nm in localcls or (nm in self.U.by_name and nm not in args):
                        for c in classes_of(f):
                            eff = eff.join(self.class_ctor_effect(c))
                    elif nm in self.U.funcs and nm not in args:
                        eff = eff.join(self.modfunc_effect(nm))
                    elif nm in BUILTIN_PURE:
                        pass
                    elif nm == (selfname if is_cls else None):
                        eff = eff.join(self.class_ctor_effect(ctx))
                    else:
                        eff = eff.join(Eff(unres=["call %s()" % nm]))
                elif isinstance(f, ast.Subscript) or isinstance(f, ast.Call) or isinstance(f, ast.IfExp):
                    cs = classes_of(f)
                    if cs:
                        for c in cs:
                            eff = eff.join(self.class_ctor_effect(c))
                    else:
                        eff = eff.join(Eff(unres=["call of computed callee %s" % ast.unparse(f)[:40]]))
                else:
                    eff = eff.join(Eff(unres=["call of %s" % type(f).__name__]))
            elif isinstance(node, ast.Attribute):
                if id(node) in call_funcs:
                    continue
                if isinstance(node.ctx, ast.Load):
                    eff = eff.join(recv_effect(node.value, node.attr))
                else:
                    eff = eff.join(recv_effect(node.value, node.attr, store=True))
            elif isinstance(node, ast.Subscript) and isinstance(node.ctx, (ast.Store, ast.Del)):
                base = node.value
                if isinstance(base, ast.Name) and base.id in fresh:
                    continue
                if isinstance(base, ast.Attribute) and is_self(base.value) and ctx is not None \
                        and self.U.lookup(ctx, base.attr) is None:
                    # self._cache[k] = v : python-side state of the proxy / part object
                    eff = eff.join(creates("item assignment on self.%s" % base.attr))
                    continue
                eff = eff.join(creates("item assignment on a shared object"))
        return eff


# ----------------------------------------------------------------------------- accessor table
def return_kind(U, fn):
    """Static part of the read-surface rule: what a getter hands back."""
    plain_names = {"str", "int", "float", "bool", "bytes", "None", "Length", "datetime", "dt.datetime", "date",
                   "RGBColor", "PackURI", "Emu"}
    ann = ast.unparse(fn.returns) if fn.returns is not None else None

    def ann_kind(a):
        a = a.strip().strip("'\"")
        parts = [p.strip() for p in a.split("|")]
        kinds = set()
        for p in parts:
            if p in plain_names or p.startswith("MSO_") or p.startswith("PP_") or p.startswith("XL_") or p.startswith("PROG_ID"):
                kinds.add("plain")
            elif p.startswith("tuple[") or p.startswith("Iterator[") or p.startswith("list[") or p.startswith("Sequence["):
                inner = p[p.index("[") + 1:-1].replace("...", "").strip(" ,")
                ik = {ann_kind(x) for x in inner.split(",") if x.strip()}
                kinds.add("plain" if ik <= {"plain"} else "coll")
            elif p in U.by_name:
                c = U.by_name[p][0]
                kinds.add("plain" if issubclass(c, (str, int, tuple)) else
                          ("coll" if any(hasattr(c, m) for m in ("__iter__", "__getitem__")) else "proxy"))
            else:
                kinds.add("unknown")
        if kinds <= {"plain"}:
            return "plain"
        if "unknown" in kinds:
            return "unknown"
        return "coll" if "coll" in kinds else "proxy"

    if ann:
        k = ann_kind(ann)
        if k != "unknown":
            return k
    rets = [n.value for n in ast.walk(fn) if isinstance(n, ast.Return) and n.value is not None]
    if rets:
        ks = set()
        for r in rets:
            if isinstance(r, ast.Call):
                f = r.func
                nm = f.id if isinstance(f, ast.Name) else (f.value.id if isinstance(f, ast.Attribute) and isinstance(f.value, ast.Name) else None)
                if nm in U.by_name:
                    c = U.by_name[nm][0]
                    ks.add("plain" if issubclass(c, (str, int, tuple)) else
                           ("coll" if any(hasattr(c, m) for m in ("__iter__", "__getitem__")) else "proxy"))
                    continue
            if isinstance(r, ast.Constant):
                ks.add("plain")
                continue
            ks.add("unknown")
        if "unknown" not in ks:
            if ks <= {"plain"}:
                return "plain"
            return "coll" if "coll" in ks else "proxy"
    return "unknown"


def proxy_classes(U):
    from pptx.util import lazyproperty

    out = []
    for live in U.classes:
        if live.__module__ not in PROXY_MODULES or live.__name__ in NOT_PROXY:
            continue
        if issubclass(live, BaseException):
            continue
        out.append(live)
    return sorted(out, key=lambda c: (c.__module__, c.__qualname__))


def class_accessors(U, cls):
    from pptx.util import lazyproperty

    out = {}
    for k in cls.__mro__:
        if not U.is_pptx(k):
            continue
        for n, v in vars(k).items():
            if n in out:
                continue
            if n in SEQ_PROTO and inspect.isfunction(v):
                out[n] = (k, "seq")
            elif (k.__name__, n) in READ_METHODS and inspect.isfunction(v):
                out[n] = (k, "method")
            elif n.startswith("_"):
                continue
            elif isinstance(v, property):
                out[n] = (k, "property")
            elif isinstance(v, lazyproperty):
                out[n] = (k, "lazyproperty")
    return sorted(out.items())


def audit_containers(unmodelled):
    """The `all optional` half of the container whitelist, re-read from the XSDs."""
    try:
        sch = Schemas()
    except Exception as e:  # noqa
        unmodelled.append("XSDs unreadable for the container audit: %r" % e)
        return {}
    res = {}
    for tag in CONTAINERS:
        tys = [t for t in sch.tag_types.get(tag, ()) if t in sch.ctypes]
        if not tys:
            unmodelled.append("container %s: no XSD type found" % tag)
            continue
        ok = True
        for ty in tys:
            e = sch.ctypes[ty][0]
            xml = __import__("lxml.etree", fromlist=["x"]).tostring(e).decode()
            if 'use="required"' in xml:
                ok = False
            cm = sch.ctype_cm(ty)
            if not nullable(cm):
                ok = False
        res[tag] = ["%s:%s" % t for t in tys]
        if not ok:
            unmodelled.append("container %s: its schema type has a required attribute or child" % tag)
    return res


def nullable(cm):
    k = cm[0]
    if k in ("elt", "any"):
        return False
    if k == "rep":
        return cm[1] == 0 or nullable(cm[3])
    if k == "seq":
        return all(nullable(x) for x in cm[1])
    if k == "alt":
        return any(nullable(x) for x in cm[1]) or not cm[1]
    return False


def main():
    U = Universe()
    A = Analyzer(U)
    unmodelled = list(U.notes)
    rows = []
    classes = proxy_classes(U)
    # fixpoint over the memo table (recursion is cut by `inprog`; iterate until stable)
    for _round in range(6):
        A.changed = False
        A.done = set()
        tmp = []
        for cls in classes:
            for name, (owner, kind) in class_accessors(U, cls):
                eff = A.member_effect(cls, name, call=(kind in ("seq", "method")))
                tmp.append((cls, name, owner, kind, eff if eff is not None else Eff(unres=["no source"])))
        rows = tmp
        if not A.changed:
            break
    else:
        unmodelled.append("effect analysis did not reach a fixpoint in 6 rounds")
    kf_path = os.path.join(VERIF, "known_findings.json")
    known = set()
    if os.path.exists(kf_path):
        for e in json.load(open(kf_path)):
            if e.get("property") == "C12" and e.get("status") == "known" and e.get("signature", "").startswith("accessor:"):
                known.add(e["signature"][len("accessor:"):])
    documented = set(DOCUMENTED)
    cont_types = audit_containers(unmodelled)
    tag_ids, what_ids, name_ids = {}, {}, {}

    def intern(d, s):
        if s not in d:
            d[s] = len(d) + 1
        return d[s]

    for t in CONTAINERS:
        intern(tag_ids, t)
    meta_rows, coq_rows, unresolved = [], [], []
    for cls, name, owner, kind, eff in rows:
        mem = U.src_members.get(owner, {}).get(name)
        fn = mem.get("get") if mem else None
        rk = return_kind(U, fn) if fn is not None else "unknown"
        if kind == "seq":
            rk = "coll"
        doc = (fn and ast.get_docstring(fn)) or ""
        sig = "%s.%s" % (owner.__name__, name)
        rec = {"cls": cls.__name__, "module": cls.__module__, "name": name, "owner": owner.__name__, "kind": kind,
               "ret": rk, "level": eff.level, "tags": sorted(eff.tags), "whats": sorted(eff.whats),
               "unres": sorted(eff.unres), "why": {a: " > ".join(c) for a, c in sorted(eff.prov.items())}, "documented": (owner.__name__, name) in documented,
               "sig": sig, "known": sig in known, "doc1": doc.strip().split("\n")[0][:160],
               "line": getattr(fn, "lineno", 0), "file": (owner.__module__.replace(".", "/") + ".py")}
        # static part of the surface rule: collections and plain data are judged, proxies are gateways
        rec["surface"] = rk != "proxy"
        if eff.unres:
            rec["id"] = None
            unresolved.append(rec)
        else:
            rec["id"] = len(coq_rows)
            if eff.level == "Pure":
                e = "Pure"
            elif eff.level == "AddsEmpty":
                e = "AddsEmpty [%s]" % "; ".join(str(intern(tag_ids, t)) for t in sorted(eff.tags))
            else:
                e = "Creates %d" % intern(what_ids, sorted(eff.whats)[0])
            coq_rows.append("  {| acc_id := %d; acc_surface := %s; acc_documented := %s; acc_eff := %s |}" % (
                rec["id"], "true" if rec["surface"] else "false", "true" if rec["documented"] else "false", e))
        meta_rows.append(rec)
    lines = ["(* GENERATED by tx/tx_c12.py from /repo -- do not edit *)",
             "From V.lib Require Import Prelude.",
             "From V.model Require Import Access.",
             "Open Scope N_scope.",
             "Definition containers : list tag := [%s]." % "; ".join(str(tag_ids[t]) for t in CONTAINERS),
             "Definition effects : list accessor := [\n%s\n]." % ";\n".join(coq_rows),
             "Definition known_failing : list N := [%s]." % "; ".join(
                 str(r["id"]) for r in meta_rows if r["known"] and r["id"] is not None),
             "Close Scope N_scope.",
             "Definition n_unmodelled : nat := %d%%nat." % len(unmodelled),
             "Definition n_unresolved : nat := %d%%nat." % len(unresolved),
             "Definition n_classes : nat := %d%%nat." % len(classes)]
    write_if_changed(os.path.join(VERIF, "coq", "gen", "GenC12.v"), "\n".join(lines) + "\n")
    meta = {"rows": meta_rows, "containers": CONTAINERS, "container_types": cont_types,
            "tag_ids": tag_ids, "what_ids": what_ids, "unmodelled": unmodelled,
            "documented": [list(d) for d in DOCUMENTED], "classes": [c.__module__ + "." + c.__name__ for c in classes],
            "unknown_call_names": A.unknown_calls, "proxy_modules": PROXY_MODULES}
    with open(os.path.join(VERIF, "coq", "gen", "c12_meta.json"), "w") as f:
        json.dump(meta, f, indent=1, sort_keys=True)
    lv = {}
    for r in meta_rows:
        lv[r["level"]] = lv.get(r["level"], 0) + 1
    print("tx_c12: %d classes, %d accessor rows (%s), %d unresolved, %d known, %d unmodelled" % (
        len(classes), len(meta_rows), ", ".join("%s %d" % kv for kv in sorted(lv.items())), len(unresolved),
        sum(1 for r in meta_rows if r["known"]), len(unmodelled)))


if __name__ == "__main__":
    main()
