(** Runner entry point for the C15 correspondence: [run_c15 args], first field = the
    operation name.

    Single calls (numbers are decimal text):
      fl|num|den             fl64 of num/den                 -> num|den (reduced)
      rhe|num|den            round half even                 -> int
      dpi|D                  int_dpi of one dpi component    -> res int
      nat|M                  native size from a meta         -> res (cx;cy)
      scl|icx|icy|cx|cy      ImagePart.scale                 -> res (cx;cy)   (None or int)
      crp|iw|ih|vw|vh        _fill_cropping as l;t           -> res (l;t)
      pn|ext|name...         next_image_partname             -> res name
    Histories:
      his|k|blob_1..blob_k|meta_1..meta_k|p|part_1..part_p|s|slide_1..slide_s|op...
    where a blob field is the byte string itself, and the other fields are texts:
      D     = q<num>/<den> | nan | inf | non
      meta  = U | M;<format or ~>;w;h;X;n | M;<format or ~>;w;h;X;t;D;D   (X = 1 when tag 282 was read)
      part  = name;content type;blob index or ~;cls;rel;fix   (identities are given in order: 1, 2, ...)
      slide = rid=target;rid=target;...    (empty target: not an image relationship; a target is the
                                            name of a listed part and is resolved to its identity)
      op    = a | r | o;s;k | i;s;blob;P;cx;cy | i;s;blob;H;vw;vh | i;s;blob;R
            | x;s (slide s deleted) | d;s;k (relationship rIdk of slide s dropped)
    Outcome of a removal: the names of the parts the image relationships still lead to.
    The digest function is instantiated with the identity (two blobs have the same
    digest exactly when they are the same bytes) and fl with fl64. *)
From Coq Require Import QArith.
From V.lib Require Import Prelude Wire.
From V.model Require Import PackUri Image.
Local Open Scope Z_scope.

Definition c_semi : N := 59%N.
Definition c_comma : N := 44%N.
Definition c_eq : N := 61%N.
Definition c_tilde : N := 126%N.

Definition op_fl  : str := [102; 108]%N.          (* fl *)
Definition op_rhe : str := [114; 104; 101]%N.     (* rhe *)
Definition op_dpi : str := [100; 112; 105]%N.     (* dpi *)
Definition op_nat : str := [110; 97; 116]%N.      (* nat *)
Definition op_scl : str := [115; 99; 108]%N.      (* scl *)
Definition op_crp : str := [99; 114; 112]%N.      (* crp *)
Definition op_pn  : str := [112; 110]%N.          (* pn *)
Definition op_his : str := [104; 105; 115]%N.     (* his *)

Definition s_nan : str := [110; 97; 110]%N.
Definition s_inf : str := [105; 110; 102]%N.
Definition s_non : str := [110; 111; 110]%N.

Definition semis (l : list str) : str := join_with [c_semi] l.

Definition parse_Q (num den : str) : option Q :=
  match parse_Z num, parse_Z den with
  | Some n, Some (Zpos d) => Some (n # d)
  | _, _ => None
  end.

Definition parse_optZ (s : str) : option (option Z) :=
  if str_eqb s w_none then Some None
  else match parse_Z s with Some z => Some (Some z) | None => None end.

(** q<num>/<den> | nan | inf | non *)
Definition parse_dpival (s : str) : option dpival :=
  if str_eqb s s_nan then Some DNan
  else if str_eqb s s_inf then Some DInf
  else if str_eqb s s_non then Some DNonNum
  else match s with
       | 113%N :: r =>
           match split_on c_slash r with
           | [n; d] => match parse_Q n d with Some q => Some (DQ q) | None => None end
           | _ => None
           end
       | _ => None
       end.

Definition parse_bool (s : str) : option bool :=
  match s with [49%N] => Some true | [48%N] => Some false | _ => None end.

Definition parse_fmt (s : str) : option str :=
  match s with [126%N] => None | _ => Some s end.

Definition parse_meta (s : str) : option pilmeta :=
  match split_on c_semi s with
  | [[85%N]] => Some Unidentified
  | [[77%N]; f; w; h; xr; [110%N]] =>
      match parse_Z w, parse_Z h, parse_bool xr with
      | Some w', Some h', Some xb => Some (Meta (parse_fmt f) w' h' PNoTuple xb)
      | _, _, _ => None
      end
  | [[77%N]; f; w; h; xr; [116%N]; d1; d2] =>
      match parse_Z w, parse_Z h, parse_dpival d1, parse_dpival d2, parse_bool xr with
      | Some w', Some h', Some x, Some y, Some xb => Some (Meta (parse_fmt f) w' h' (PTuple x y) xb)
      | _, _, _, _, _ => None
      end
  | _ => None
  end.

Fixpoint take_n (n : nat) (l : list str) : option (list str * list str) :=
  match n with
  | O => Some ([], l)
  | S k => match l with
           | [] => None
           | x :: r => match take_n k r with
                       | Some (a, b) => Some (x :: a, b)
                       | None => None
                       end
           end
  end.

Fixpoint parse_all {A} (f : str -> option A) (l : list str) : option (list A) :=
  match l with
  | [] => Some []
  | x :: r => match f x, parse_all f r with
              | Some a, Some b => Some (a :: b)
              | _, _ => None
              end
  end.

Definition parse_part (imgs : list image) (id : N) (s : str) : option part :=
  match split_on c_semi s with
  | [name; ct; b; cls; rel; fx] =>
      let im := match b with
                | [126%N] => Some (mkImage [] Unidentified)
                | _ => match parse_nat b with Some i => nth_error imgs i | None => None end
                end in
      match im, parse_bool cls, parse_bool rel, parse_bool fx with
      | Some i, Some c, Some r, Some f => Some (mkPart id name ct (i_blob i) c f r (i_meta i))
      | _, _, _, _ => None
      end
  | _ => None
  end.

(** parts get the identities id, id + 1, ... in the order listed *)
Fixpoint parse_parts (imgs : list image) (id : N) (l : list str) : option (list part) :=
  match l with
  | [] => Some []
  | x :: r => match parse_part imgs id x, parse_parts imgs (N.succ id) r with
              | Some a, Some b => Some (a :: b)
              | _, _ => None
              end
  end.

Definition id_of_name (ps : list part) (nm : str) : option N :=
  match find (fun p => str_eqb (p_name p) nm) ps with Some p => Some (p_id p) | None => None end.

Definition parse_rel (ps : list part) (s : str) : option rel :=
  match split_on c_eq s with
  | [k; t] => match parse_N k with
              | Some n => match t with
                          | [] => Some (n, None)
                          | _ => match id_of_name ps t with Some i => Some (n, Some i) | None => None end
                          end
              | None => None
              end
  | _ => None
  end.

Definition parse_slide (ps : list part) (s : str) : option (list rel) :=
  match s with
  | [] => Some []
  | _ => parse_all (parse_rel ps) (split_on c_semi s)
  end.

Definition parse_op (imgs : list image) (s : str) : option op :=
  match split_on c_semi s with
  | [[97%N]] => Some OAddSlide
  | [[114%N]] => Some OReload
  | [[120%N]; sl] => match parse_nat sl with Some a => Some (ODelSlide a) | None => None end
  | [[100%N]; sl; k] =>
      match parse_nat sl, parse_N k with
      | Some a, Some b => Some (ODropRel a b)
      | _, _ => None
      end
  | [[111%N]; sl; k] =>
      match parse_nat sl, parse_nat k with
      | Some a, Some b => Some (OOccupy a b)
      | _, _ => None
      end
  | [105%N] :: sl :: b :: [80%N] :: cx :: cy :: [] =>
      match parse_nat sl, parse_nat b, parse_optZ cx, parse_optZ cy with
      | Some a, Some i, Some x, Some y =>
          match nth_error imgs i with Some im => Some (OImage a im (UPicture x y)) | None => None end
      | _, _, _, _ => None
      end
  | [105%N] :: sl :: b :: [72%N] :: vw :: vh :: [] =>
      match parse_nat sl, parse_nat b, parse_Z vw, parse_Z vh with
      | Some a, Some i, Some x, Some y =>
          match nth_error imgs i with Some im => Some (OImage a im (UPlaceholder x y)) | None => None end
      | _, _, _, _ => None
      end
  | [105%N] :: sl :: b :: [82%N] :: [] =>
      match parse_nat sl, parse_nat b with
      | Some a, Some i =>
          match nth_error imgs i with Some im => Some (OImage a im URelOnly) | None => None end
      | _, _ => None
      end
  | _ => None
  end.

Definition show_pair (p : Z * Z) : str := semis [show_Z (fst p); show_Z (snd p)].

Definition show_outcome (o : outcome) : str :=
  match o with
  | OutUnit => [117%N]                                     (* u *)
  | OutImg _ name rid e ct a b =>
      semis [show_str name; show_N rid; show_str e; show_str ct; show_Z a; show_Z b]
  | OutStore names => semis (map show_str names)
  end.

Definition show_part (p : part) : str :=
  semis [show_str (p_name p); show_str (p_ct p); show_bool (p_cls p); show_str (p_blob p)].

(** the digest of the runner: the bytes themselves *)
Definition H_id (b : blob) : str := b.

Definition zip_images (blobs : list str) (metas : list pilmeta) : list image :=
  map (fun bm => mkImage (fst bm) (snd bm)) (combine blobs metas).

Definition run_history (rest : list str) : str :=
  match rest with
  | kf :: r0 =>
    match parse_nat kf with
    | None => w_badcase
    | Some k =>
      match take_n k r0 with
      | None => w_badcase
      | Some (blobs, r1) =>
        match take_n k r1 with
        | None => w_badcase
        | Some (metas_s, r2) =>
          match parse_all parse_meta metas_s, r2 with
          | Some metas, pf :: r3 =>
            let imgs := zip_images blobs metas in
            match parse_nat pf with
            | None => w_badcase
            | Some np =>
              match take_n np r3 with
              | Some (parts_s, sf :: r4) =>
                match parse_nat sf with
                | None => w_badcase
                | Some ns =>
                  match take_n ns r4 with
                  | None => w_badcase
                  | Some (slides_s, ops_s) =>
                    match parse_parts imgs 1%N parts_s with
                    | None => w_badcase
                    | Some ps =>
                      match parse_all (parse_slide ps) slides_s, parse_all (parse_op imgs) ops_s with
                      | Some sls, Some ops =>
                          let (st, outs) := run H_id fl64 (mkState ps sls (N.of_nat (length ps) + 1)%N) ops in
                          fields [ join_with [c_comma] (map (show_res show_outcome) outs);
                                   join_with [c_comma] (map show_part (filter (imgrel (st_slides st)) (st_heap st))) ]
                      | _, _ => w_badcase
                      end
                    end
                  end
                end
              | _ => w_badcase
              end
            end
          | _, _ => w_badcase
          end
        end
      end
    end
  | [] => w_badcase
  end.

Definition run_c15 (args : list str) : str :=
  match args with
  | op :: rest =>
      if str_eqb op op_his then run_history rest
      else if str_eqb op op_fl then
        match rest with
        | [n; d] => match parse_Q n d with
                    | Some q => let r := Qred (fl64 q) in
                                fields [show_Z (Qnum r); show_Z (Zpos (Qden r))]
                    | None => w_badcase
                    end
        | _ => w_badcase
        end
      else if str_eqb op op_rhe then
        match rest with
        | [n; d] => match parse_Q n d with Some q => show_Z (rhe q) | None => w_badcase end
        | _ => w_badcase
        end
      else if str_eqb op op_dpi then
        match rest with
        | [d] => match parse_dpival d with
                 | Some v => show_res show_Z (int_dpi v)
                 | None => w_badcase
                 end
        | _ => w_badcase
        end
      else if str_eqb op op_nat then
        match rest with
        | [m] => match parse_meta m with
                 | Some v => show_res show_pair (native_size v)
                 | None => w_badcase
                 end
        | _ => w_badcase
        end
      else if str_eqb op op_scl then
        match rest with
        | [a; b; c; d] =>
            match parse_Z a, parse_Z b, parse_optZ c, parse_optZ d with
            | Some icx, Some icy, Some cx, Some cy => show_res show_pair (scale fl64 icx icy cx cy)
            | _, _, _, _ => w_badcase
            end
        | _ => w_badcase
        end
      else if str_eqb op op_crp then
        match rest with
        | [a; b; c; d] =>
            match parse_Z a, parse_Z b, parse_Z c, parse_Z d with
            | Some iw, Some ih, Some vw, Some vh => show_res show_pair (fill_cropping fl64 iw ih vw vh)
            | _, _, _, _ => w_badcase
            end
        | _ => w_badcase
        end
      else if str_eqb op op_pn then
        match rest with
        | e :: names => show_res show_str (next_image_partname names e)
        | [] => w_badcase
        end
      else w_badcase
  | [] => w_badcase
  end.
