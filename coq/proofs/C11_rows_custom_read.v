(** Read side, row level, for the simple-type classes WITHOUT a canonical descriptor: the
    class-level R theorems of C11_read_instance.v, proved on the Gallina regenerated from
    simpletypes.py for ALL strings, are lifted to every attribute row whose reader is that
    class, against the lexical space of the row's OWN schema type ( gen/GenC11.v: rows,
    row_classes, rows_classes_ok, row_unknowns ).

    class theorem:   every string of the space  T_c  ( a lexspec, the transcribed pattern facets
                     listed beside it, xsd:double as the transcription re_double ) no longer than
                     the class's limit is read by  C.from_xml
    row obligation:  every string of the attribute's schema type is in  T_c  ( lex_sub, decided
                     by computation on the regenerated facets; each LUnknown member of the type
                     must have its pattern text among the patterns the class theorem covers )
    conclusion:      every schema-valid value of THAT attribute can be read.

    A row of such a class whose type has a form outside  T_c  gets verdict 1. *)
From V.lib Require Import Prelude PyFloat PyVal.
From V.model Require Import SimpleTypeLib.
From V.proofs Require Import Prelude_proofs PyFloat_proofs SimpleTypeLib_proofs C11_regex C11_patterns C11_read_instance.
From V.gen Require Import GenC11.
From Coq Require Import Lia ZifyBool.
Local Open Scope Z_scope.

(** ---- the space of strings a row or a class theorem speaks about ---- *)
Definition pat_match (t : str) (s : str) : bool :=
  match pattern_lookup pattern_table t with Some re => re_matches re s | None => false end.
Definition pat_ok (pats : list str) (s : str) : bool := existsb (fun t => pat_match t s) pats.

Definition is_double (t : lexspec) : bool := match t with LDouble => true | _ => false end.
(** lex_ok LDouble accepts everything ( the harness judges it through float ); here xsd:double is
    its transcribed lexical space *)
Definition base_ok (t : lexspec) (s : str) : bool :=
  match t with LDouble => re_matches re_double s | _ => lex_ok t s end.
Definition space_ok (t : lexspec) (pats : list str) (s : str) : bool := base_ok t s || pat_ok pats s.

Lemma base_ok_lex t s : is_double t = false -> base_ok t s = lex_ok t s.
Proof. destruct t; try reflexivity. discriminate. Qed.

(** ---- inclusion of lexical spaces, decided structurally ---- *)
Fixpoint has_member (x t : lexspec) : bool :=
  match t with
  | LUnion l => (fix any (l : list lexspec) := match l with [] => false | t' :: l' => has_member x t' || any l' end) l
  | LPercent b => match x with LPercent a => Bool.eqb a b | _ => false end
  | LUnivMeasure b => match x with LUnivMeasure a => Bool.eqb a b | _ => false end
  | _ => false
  end.

Lemma has_member_union x l : has_member x (LUnion l) = existsb (has_member x) l.
Proof.
  induction l as [|t l IH]; [reflexivity|].
  change (has_member x (LUnion (t :: l))) with (has_member x t || has_member x (LUnion l)). now rewrite IH.
Qed.

Lemma has_member_sound x t : has_member x t = true -> forall s, lex_ok x s = true -> lex_ok t s = true.
Proof.
  induction t using lexspec_ind'; intros Hm s Hs; try discriminate Hm.
  - destruct x; try discriminate Hm. cbn [has_member] in Hm. apply Bool.eqb_prop in Hm. now subst.
  - destruct x; try discriminate Hm. cbn [has_member] in Hm. apply Bool.eqb_prop in Hm. now subst.
  - rewrite has_member_union in Hm. rewrite lex_ok_union.
    apply existsb_exists in Hm as [t [Ht Hm]]. apply existsb_exists. exists t. split; [exact Ht|].
    rewrite Forall_forall in H. eapply H; eauto.
Qed.

(** every string of t1 is a string of t2 *)
Fixpoint lex_sub (t1 t2 : lexspec) : bool :=
  match t1 with
  | LInt lo hi => covers_int t2 lo hi
  | LPercent _ | LUnivMeasure _ => has_member t1 t2
  | LUnion l => (fix all (l : list lexspec) := match l with [] => true | t :: l' => lex_sub t t2 && all l' end) l
  | LUnknown => true       (* no string of lex_ok; its pattern facet is accounted for separately *)
  | _ => false
  end.

Lemma lex_sub_union l t2 : lex_sub (LUnion l) t2 = forallb (fun t => lex_sub t t2) l.
Proof.
  induction l as [|t l IH]; [reflexivity|].
  change (lex_sub (LUnion (t :: l)) t2) with (lex_sub t t2 && lex_sub (LUnion l) t2). now rewrite IH.
Qed.

Lemma lex_int_weaken' t : forall lo hi s,
  covers_int t lo hi = true -> lex_ok (LInt lo hi) s = true -> lex_ok t s = true.
Proof.
  induction t using lexspec_ind'; intros lo' hi' s Hc Hs; try discriminate Hc.
  - cbn [covers_int] in Hc. cbn [lex_ok] in *. destruct (lex_integer s) as [z|]; [|discriminate Hs].
    apply andb_true_iff in Hc as [H1 H2]. apply andb_true_iff in Hs as [H3 H4].
    apply Z.leb_le in H1, H2, H3, H4. apply andb_true_iff; split; apply Z.leb_le; lia.
  - rewrite covers_int_union in Hc. rewrite lex_ok_union.
    apply existsb_exists in Hc as [t [Ht Hc]]. apply existsb_exists. exists t; split; auto.
    rewrite Forall_forall in H. eapply H; eauto.
Qed.

Theorem lex_sub_sound t1 t2 : lex_sub t1 t2 = true -> forall s, lex_ok t1 s = true -> lex_ok t2 s = true.
Proof.
  induction t1 using lexspec_ind'; intros Hs s Hl; try discriminate Hs; try discriminate Hl.
  - eapply lex_int_weaken'; [exact Hs|exact Hl].
  - eapply has_member_sound; [exact Hs|exact Hl].
  - eapply has_member_sound; [exact Hs|exact Hl].
  - rewrite lex_sub_union in Hs. rewrite lex_ok_union in Hl.
    apply existsb_exists in Hl as [t [Ht Hl]]. rewrite forallb_forall in Hs.
    rewrite Forall_forall in H. eapply H; eauto.
Qed.

Example lex_sub_examples :
  lex_sub (LUnion [LInt 0 100000; LUnknown]) (LUnion [LInt (-5) 200000; LPercent true]) = true
  /\ lex_sub (LUnion [LInt 0 100000; LPercent false]) (LUnion [LInt (-5) 200000; LPercent true]) = false
  /\ lex_sub (LUnion [LUnion [LInt 0 5; LUnivMeasure true]; LString]) (LUnion [LInt 0 5; LUnivMeasure true]) = false
  /\ lex_sub (LUnion [LInt 0 5; LUnivMeasure true]) (LUnion [LInt 0 5; LUnivMeasure true]) = true
  /\ lex_sub (LInt 0 6) (LUnion [LInt 0 5; LUnivMeasure true]) = false.
Proof. vm_compute. repeat split. Qed.

(** ---- the class-level read theorems as a table ---- *)
Definition n_Angle : str := [83; 84; 95; 65; 110; 103; 108; 101]%N.
Definition n_PositiveFixedAngle : str := [83; 84; 95; 80; 111; 115; 105; 116; 105; 118; 101; 70; 105; 120; 101; 100; 65; 110; 103; 108; 101]%N.
Definition n_TextSpacingPoint : str := [83; 84; 95; 84; 101; 120; 116; 83; 112; 97; 99; 105; 110; 103; 80; 111; 105; 110; 116]%N.
Definition n_Percentage : str := [83; 84; 95; 80; 101; 114; 99; 101; 110; 116; 97; 103; 101]%N.
Definition n_PositiveFixedPercentage : str := [83; 84; 95; 80; 111; 115; 105; 116; 105; 118; 101; 70; 105; 120; 101; 100; 80; 101; 114; 99; 101; 110; 116; 97; 103; 101]%N.
Definition n_TextSpacingPercent : str := [83; 84; 95; 84; 101; 120; 116; 83; 112; 97; 99; 105; 110; 103; 80; 101; 114; 99; 101; 110; 116; 79; 114; 80; 101; 114; 99; 101; 110; 116; 83; 116; 114; 105; 110; 103]%N.
Definition n_TextFontScalePercent : str := [83; 84; 95; 84; 101; 120; 116; 70; 111; 110; 116; 83; 99; 97; 108; 101; 80; 101; 114; 99; 101; 110; 116; 79; 114; 80; 101; 114; 99; 101; 110; 116; 83; 116; 114; 105; 110; 103]%N.
Definition n_BubbleScale : str := [83; 84; 95; 66; 117; 98; 98; 108; 101; 83; 99; 97; 108; 101]%N.
Definition n_GapAmount : str := [83; 84; 95; 71; 97; 112; 65; 109; 111; 117; 110; 116]%N.
Definition n_Overlap : str := [83; 84; 95; 79; 118; 101; 114; 108; 97; 112]%N.
Definition n_LblOffset : str := [83; 84; 95; 76; 98; 108; 79; 102; 102; 115; 101; 116]%N.
Definition n_Coordinate : str := [83; 84; 95; 67; 111; 111; 114; 100; 105; 110; 97; 116; 101]%N.
Definition n_Coordinate32 : str := [83; 84; 95; 67; 111; 111; 114; 100; 105; 110; 97; 116; 101; 51; 50]%N.
Definition n_XsdDouble : str := [88; 115; 100; 68; 111; 117; 98; 108; 101]%N.
Definition n_AxisUnit : str := [83; 84; 95; 65; 120; 105; 115; 85; 110; 105; 116]%N.

Definition n_ContentType : str := [83; 84; 95; 67; 111; 110; 116; 101; 110; 116; 84; 121; 112; 101]%N.
Definition n_Extension : str := [83; 84; 95; 69; 120; 116; 101; 110; 115; 105; 111; 110]%N.

(** any integer literal python int() accepts: within the 4300-digit limit *)
Definition big4300 : Z := 10 ^ 4300.
Definition any_int : lexspec := LInt (- big4300) big4300.
Definition int_or_pct : lexspec := LUnion [int300; LPercent true].
Definition int_or_um : lexspec := LUnion [any_int; LUnivMeasure true].
(** readers that cannot fail: the limit is beyond any string *)
Definition no_len_limit : N := (2 ^ 64)%N.

(** class name, ( lexical space, pattern facets, length limit ) the class theorem covers *)
Definition rspec : Type := (lexspec * list str * N)%type.
Definition class_reads : list (str * rspec) :=
  [ (n_Angle, (any_int, [], int_max_str_digits));
    (n_PositiveFixedAngle, (any_int, [], int_max_str_digits));
    (n_TextSpacingPoint, (any_int, [], int_max_str_digits));
    (n_Percentage, (int_or_pct, [], int_max_str_digits));
    (n_PositiveFixedPercentage, (int_or_pct, [txt_fixedpct], int_max_str_digits));
    (n_TextSpacingPercent, (int_or_pct, [], int_max_str_digits));
    (n_TextFontScalePercent, (int_or_pct, [], int_max_str_digits));
    (n_BubbleScale, (any_int, [txt_bubble], int_max_str_digits));
    (n_GapAmount, (any_int, [txt_gap], int_max_str_digits));
    (n_Overlap, (any_int, [txt_overlap], int_max_str_digits));
    (n_LblOffset, (any_int, [txt_lbloff], int_max_str_digits));
    (n_Coordinate, (int_or_um, [], um_max_len));
    (n_Coordinate32, (int_or_um, [], um_max_len));
    (n_XsdDouble, (LDouble, [], no_len_limit));
    (n_AxisUnit, (LDouble, [], no_len_limit));
    (n_ContentType, (LString, [txt_ctype], no_len_limit));
    (n_Extension, (LString, [txt_ext], no_len_limit)) ].

Definition class_read_holds (e : str * rspec) : Prop :=
  forall s, space_ok (fst (fst (snd e))) (snd (fst (snd e))) s = true ->
    (N.of_nat (length s) <= snd (snd e))%N -> exists v, dispatch_from_xml (fst e) (PStr s) = Ok v.

Lemma space_nopat t s : space_ok t [] s = true -> base_ok t s = true.
Proof. unfold space_ok. cbn [pat_ok existsb]. now rewrite orb_false_r. Qed.

Lemma space_onepat t p re s : pattern_lookup pattern_table p = Some re ->
  space_ok t [p] s = true -> base_ok t s = true \/ re_matches re s = true.
Proof.
  intros Hp. unfold space_ok. cbn [pat_ok existsb]. unfold pat_match. rewrite Hp, orb_false_r.
  apply orb_true_iff.
Qed.

Lemma class_reads_sound : Forall class_read_holds class_reads.
Proof.
  unfold class_reads. repeat constructor; unfold class_read_holds; cbn [fst snd]; intros s H L.
  - change (dispatch_from_xml n_Angle) with ST_Angle__from_xml.
    apply space_nopat in H. eapply R_Angle; [exact H|exact L].
  - change (dispatch_from_xml n_PositiveFixedAngle) with ST_PositiveFixedAngle__from_xml.
    apply space_nopat in H. eapply R_PositiveFixedAngle; [exact H|exact L].
  - change (dispatch_from_xml n_TextSpacingPoint) with ST_TextSpacingPoint__from_xml.
    apply space_nopat in H. eapply R_TextSpacingPoint; [exact H|exact L].
  - change (dispatch_from_xml n_Percentage) with ST_Percentage__from_xml.
    apply space_nopat in H. eapply R_Percentage; [exact H|exact L].
  - change (dispatch_from_xml n_PositiveFixedPercentage) with ST_PositiveFixedPercentage__from_xml.
    apply (space_onepat _ txt_fixedpct re_fixedpct s eq_refl) in H. eapply R_PositiveFixedPercentage; [exact H|exact L].
  - change (dispatch_from_xml n_TextSpacingPercent) with ST_TextSpacingPercentOrPercentString__from_xml.
    apply space_nopat in H. eapply R_TextSpacingPercent; [exact H|exact L].
  - change (dispatch_from_xml n_TextFontScalePercent) with ST_TextFontScalePercentOrPercentString__from_xml.
    apply space_nopat in H. eapply R_TextFontScalePercent; [exact H|exact L].
  - change (dispatch_from_xml n_BubbleScale) with ST_BubbleScale__from_xml.
    apply (space_onepat _ txt_bubble re_bubble s eq_refl) in H. eapply R_BubbleScale; [exact H|exact L].
  - change (dispatch_from_xml n_GapAmount) with ST_GapAmount__from_xml.
    apply (space_onepat _ txt_gap re_gap s eq_refl) in H. eapply R_GapAmount; [exact H|exact L].
  - change (dispatch_from_xml n_Overlap) with ST_Overlap__from_xml.
    apply (space_onepat _ txt_overlap re_overlap s eq_refl) in H. eapply R_Overlap; [exact H|exact L].
  - change (dispatch_from_xml n_LblOffset) with ST_LblOffset__from_xml.
    apply (space_onepat _ txt_lbloff re_lbloff s eq_refl) in H. eapply R_LblOffset; [exact H|exact L].
  - change (dispatch_from_xml n_Coordinate) with ST_Coordinate__from_xml.
    apply space_nopat in H. eapply R_Coordinate; [exact H|exact L].
  - change (dispatch_from_xml n_Coordinate32) with ST_Coordinate32__from_xml.
    apply space_nopat in H. eapply R_Coordinate32; [exact H|exact L].
  - change (dispatch_from_xml n_XsdDouble) with XsdDouble__from_xml.
    apply space_nopat in H. now apply R_XsdDouble.
  - change (dispatch_from_xml n_AxisUnit) with ST_AxisUnit__from_xml.
    apply space_nopat in H. now apply R_AxisUnit.
  - change (dispatch_from_xml n_ContentType) with ST_ContentType__from_xml. apply R_ContentType.
  - change (dispatch_from_xml n_Extension) with ST_Extension__from_xml. apply R_Extension.
Qed.

Fixpoint rspec_of (c : str) (l : list (str * rspec)) : option rspec :=
  match l with
  | [] => None
  | (n, r) :: l' => if str_eqb c n then Some r else rspec_of c l'
  end.

Lemma rspec_of_sound c l t pats lim : Forall class_read_holds l -> rspec_of c l = Some (t, pats, lim) ->
  forall s, space_ok t pats s = true -> (N.of_nat (length s) <= lim)%N ->
  exists v, dispatch_from_xml c (PStr s) = Ok v.
Proof.
  induction l as [|[n r] l IH]; cbn [rspec_of]; [discriminate|]. intros HF.
  inversion HF as [|? ? Hh Ht]; subst. destruct (str_eqb c n) eqn:E.
  - intros [= ->]. apply str_eqb_eq in E. subst n. exact Hh.
  - apply IH; assumption.
Qed.

(** ---- rows ---- *)
Fixpoint unknowns_of (id : N) (l : list (N * list str)) : list str :=
  match l with
  | [] => []
  | (i, us) :: l' => if N.eqb id i then us else unknowns_of id l'
  end.

Fixpoint count_unknown (t : lexspec) : nat :=
  match t with
  | LUnknown => 1
  | LUnion l => (fix sum (l : list lexspec) := match l with [] => O | t' :: l' => (count_unknown t' + sum l')%nat end) l
  | _ => 0
  end.

(** the strings the row's schema type allows: its lexspec ( xsd:double transcribed ) and the pattern
    facets behind its LUnknown members *)
Definition row_space (r : attr_row) (s : str) : bool :=
  space_ok (ar_lex r) (unknowns_of (ar_id r) row_unknowns) s.

(** the row's type is inside what the class theorem covers *)
Definition row_covered (r : attr_row) (sp : rspec) : bool :=
  let us := unknowns_of (ar_id r) row_unknowns in
  Bool.eqb (is_double (ar_lex r)) (is_double (fst (fst sp)))
  && (is_double (ar_lex r) || lex_sub (ar_lex r) (fst (fst sp)))
  && Nat.eqb (count_unknown (ar_lex r)) (length us)
  && forallb (fun u => mem_str u (snd (fst sp))) us.

(** verdict of a ( row, class ) pair: 0 = every string of the attribute's type is read;
    1 = the type has a form the class theorem does not cover; 2 = no class-level read theorem
    for this class ( rows of classes with a canonical descriptor and enumeration rows: judged by
    R_rows ) *)
Definition r_custom_verdict (r : attr_row) (c : str) : N :=
  match rspec_of c class_reads with
  | Some sp => if row_covered r sp then 0%N else 1%N
  | None => 2%N
  end.

Definition r_custom_limit (c : str) : N :=
  match rspec_of c class_reads with Some sp => snd sp | None => 0%N end.

Fixpoint rverdicts2 (rs : list attr_row) (cs : list str) : list (N * N) :=
  match rs, cs with
  | r :: rs', c :: cs' => (ar_id r, r_custom_verdict r c) :: rverdicts2 rs' cs'
  | _, _ => []
  end.
Definition custom_read_verdicts : list (N * N) := rverdicts2 rows row_classes.

Lemma pat_ok_weaken us pats s : forallb (fun u => mem_str u pats) us = true -> pat_ok us s = true -> pat_ok pats s = true.
Proof.
  intros Hf H. unfold pat_ok in *. apply existsb_exists in H as [u [Hu Hm]]. apply existsb_exists.
  exists u. split; [|exact Hm]. rewrite forallb_forall in Hf. apply mem_str_In. now apply Hf.
Qed.

Lemma row_covered_sound r t pats lim s : row_covered r (t, pats, lim) = true ->
  row_space r s = true -> space_ok t pats s = true.
Proof.
  unfold row_covered, row_space, space_ok. cbn [fst snd]. intros Hc Hs.
  apply andb_true_iff in Hc as [Hc Hp]. apply andb_true_iff in Hc as [Hc _].
  apply andb_true_iff in Hc as [Hd Hsub]. apply Bool.eqb_prop in Hd.
  apply orb_true_iff in Hs as [Hs|Hs]; apply orb_true_iff.
  - left. destruct (is_double (ar_lex r)) eqn:Ed.
    + destruct (ar_lex r); try discriminate Ed. destruct t; try discriminate Hd. exact Hs.
    + cbn [orb] in Hsub. symmetry in Hd. rewrite base_ok_lex in * by assumption. eapply lex_sub_sound; eauto.
  - right. eapply pat_ok_weaken; eauto.
Qed.

Lemma R_rows_custom_gen rs cs : Forall2 row_is rs cs ->
  forall r c, In (r, c) (combine rs cs) -> r_custom_verdict r c = 0%N ->
  forall s, row_space r s = true -> (N.of_nat (length s) <= r_custom_limit c)%N ->
  exists v, ar_from_xml r (PStr s) = Ok v.
Proof.
  induction 1 as [|r0 c0 rs cs H0 HF IH]; cbn [combine]; [intros ? ? []|].
  intros r c [E|Hin] Hv s Hs Hl.
  - injection E as <- <-. unfold r_custom_verdict in Hv. unfold r_custom_limit in Hl.
    destruct (rspec_of c0 class_reads) as [[[t pats] lim]|] eqn:Ew; [|discriminate Hv].
    destruct (row_covered r0 (t, pats, lim)) eqn:Ec; [|discriminate Hv].
    destruct H0 as [->|[_ Hfrom]]; [vm_compute in Ew; discriminate Ew|].
    rewrite Hfrom. cbn [snd] in Hl.
    eapply rspec_of_sound; [apply class_reads_sound|exact Ew|eapply row_covered_sound; eauto|exact Hl].
  - eapply IH; eauto.
Qed.

(** R for the custom classes, per attribute row: every string of the attribute's schema type
    ( lexspec members, the pattern facets behind LUnknown members, xsd:double literals ) within the
    class's length limit ( 4300: python int digit limit; 300 for universal measures: float overflow
    inside round ) is read by the attribute's reader *)
Theorem R_rows_custom : forall r c, In (r, c) (combine rows row_classes) -> r_custom_verdict r c = 0%N ->
  forall s, row_space r s = true -> (N.of_nat (length s) <= r_custom_limit c)%N ->
  exists v, ar_from_xml r (PStr s) = Ok v.
Proof. exact (R_rows_custom_gen rows row_classes rows_classes_ok). Qed.

(** the same in terms of lex_ok alone ( rows whose type is not xsd:double, where lex_ok is total ) *)
Corollary R_rows_custom_lex : forall r c, In (r, c) (combine rows row_classes) -> r_custom_verdict r c = 0%N ->
  is_double (ar_lex r) = false ->
  forall s, lex_ok (ar_lex r) s = true -> (N.of_nat (length s) <= r_custom_limit c)%N ->
  exists v, ar_from_xml r (PStr s) = Ok v.
Proof.
  intros r c Hin Hv Hd s Hs Hl. eapply R_rows_custom; eauto.
  unfold row_space, space_ok. rewrite (base_ok_lex _ _ Hd), Hs. reflexivity.
Qed.

(** ---- instance ---- *)
(** rows whose type also allows a geometry guide name ( ST_AdjCoordinate: an xsd:string alternative )
    read through ST_Coordinate: recorded finding r:ST_Coordinate:other *)
Fixpoint has_string (t : lexspec) : bool :=
  match t with
  | LString => true
  | LUnion l => (fix any (l : list lexspec) := match l with [] => false | t' :: l' => has_string t' || any l' end) l
  | _ => false
  end.

Lemma has_string_union l : has_string (LUnion l) = existsb has_string l.
Proof.
  induction l as [|t l IH]; [reflexivity|].
  change (has_string (LUnion (t :: l))) with (has_string t || has_string (LUnion l)). now rewrite IH.
Qed.

Lemma has_string_all t : has_string t = true -> forall s, lex_ok t s = true.
Proof.
  induction t using lexspec_ind'; intros Hh s; try discriminate Hh; [reflexivity|].
  rewrite has_string_union in Hh. rewrite lex_ok_union.
  apply existsb_exists in Hh as [t [Ht Hh]]. apply existsb_exists. exists t. split; [exact Ht|].
  rewrite Forall_forall in H. eapply H; eauto.
Qed.

Definition guide_name_row (p : attr_row * str) : bool := str_eqb (snd p) n_Coordinate && has_string (ar_lex (fst p)).
Definition guide_name_rows : list N := map (fun p => ar_id (fst p)) (filter guide_name_row (combine rows row_classes)).

(** those rows are genuine read failures: the guide name x is valid for them and is not read *)
Lemma guide_name_rows_refuted_gen rs cs : Forall2 row_is rs cs ->
  forall r c, In (r, c) (combine rs cs) -> guide_name_row (r, c) = true ->
  exists s, lex_ok (ar_lex r) s = true /\ ar_from_xml r (PStr s) = Err ValueErr.
Proof.
  induction 1 as [|r0 c0 rs cs H0 HF IH]; cbn [combine]; [intros ? ? []|].
  intros r c [E|Hin] Hg.
  - injection E as <- <-. unfold guide_name_row in Hg. cbn [fst snd] in Hg.
    apply andb_true_iff in Hg as [Hc Hs]. apply str_eqb_eq in Hc. subst c0.
    destruct H0 as [E0|[_ Hfrom]]; [discriminate E0|].
    exists [120%N]. split; [now apply has_string_all|]. rewrite Hfrom. vm_compute. reflexivity.
  - eapply IH; eauto.
Qed.

Theorem guide_name_rows_refuted : forall r c, In (r, c) (combine rows row_classes) -> guide_name_row (r, c) = true ->
  exists s, lex_ok (ar_lex r) s = true /\ ar_from_xml r (PStr s) = Err ValueErr.
Proof. exact (guide_name_rows_refuted_gen rows row_classes rows_classes_ok). Qed.

(** no attribute read by one of these classes has an uncovered form, except recorded findings *)
Lemma custom_read_failures_known :
  forallb (fun p => negb (snd p =? 1)%N || memN (fst p) known_read || memN (fst p) guide_name_rows)
          custom_read_verdicts = true.
Proof. vm_compute. reflexivity. Qed.

(** non-vacuity: rows are judged this way, and the recorded exception is not empty *)
Lemma custom_read_rows_judged : (0 < length (filter (fun p => N.eqb (snd p) 0) custom_read_verdicts))%nat.
Proof. vm_compute. lia. Qed.

Example R_rows_custom_nonvacuous :
  match nth_error (combine rows row_classes) 7 with
  | Some (r, c) =>
      r_custom_verdict r c = 0%N /\ row_space r [48; 48; 53; 37]%N = true
      /\ lex_ok (ar_lex r) [48; 48; 53; 37]%N = false /\ lex_ok (ar_lex r) [43; 51; 48; 48]%N = true
      /\ (4 <= r_custom_limit c)%N
  | None => False
  end.
Proof. vm_compute. repeat split; discriminate. Qed.
