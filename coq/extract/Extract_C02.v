From Coq Require Import Extraction ExtrOcamlBasic.
From V.model Require Import PkgOpsRun.
Extraction Language OCaml.
Cd "extract".
Extraction "c02.ml" run_c02.
Cd "..".
