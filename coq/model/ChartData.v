(** C07 model: chart data, the data-bearing skeleton of a chart part, the writers, the
    readers and replace_data, mirroring pptx/chart/xmlwriter.py, data.py, category.py,
    series.py, plot.py and pptx/oxml/chart/{series,plot,chart}.py.  Definitions only.

    Abstractions (see checks/c07.py for how the harness ties them):
    - a number is the text Python's str() gives for it ([num]); the readers hand the
      text of c:v back and the harness applies float() to it;
    - every child of c:ser other than idx, order, tx, cat, val, xVal, yVal, bubbleSize
      is [KOther tag payload] where [tag] is the position of its tag in the c:ser child
      sequence and [payload] identifies its serialised content; likewise the content of
      an xChart element other than its c:ser children ([p_payload]) and the content of
      the chart part outside the xChart elements ([ch_rest]);
    - c:f formula references are not modelled (they belong to C08). *)
From V.lib Require Import Prelude Wire Calendar.
Local Open Scope Z_scope.

(* ------------------------------------------------------------------ chart data *)

Notation num := str (only parsing).

Inductive label := LStr (s : str) | LNum (t : num) | LDate (y m d : Z).
Inductive cat_tree := CatNode (l : label) (subs : list cat_tree).

Record cat_series := mkCS { cs_name : str; cs_fmt : str; cs_vals : list (option num) }.
Record xy_series := mkXS { xs_name : str; xs_fmt : str; xs_pts : list (option num * option num) }.
Record bub_series := mkBS { bs_name : str; bs_fmt : str;
                            bs_pts : list (option num * option num * option num) }.

Inductive chart_data :=
| DCat (cats : list cat_tree) (fmt : option str) (sers : list cat_series)
| DXy (sers : list xy_series)
| DBub (sers : list bub_series).

Definition data_len (d : chart_data) : nat :=
  match d with DCat _ _ s => length s | DXy s => length s | DBub s => length s end.

(* ------------------------------------------------------------------ skeleton *)

Record pt := mkPt { pt_idx : Z; pt_v : str }.
(** A numeric cache: c:formatCode text, every c:ptCount val and every c:pt below the
    element, in document order. *)
Record cache := mkCache { ca_fmt : option str; ca_counts : list Z; ca_pts : list pt }.
(** c:cat.  [cx_kind]: 0 strRef, 1 numRef, 2 multiLvlStrRef, other values for literals
    and anything else.  [cx_flat]: the c:pt not below a c:lvl; [cx_lvls]: the c:pt of
    each c:lvl, document order. *)
Record catx := mkCatx { cx_kind : N; cx_fmt : option str; cx_counts : list Z;
                        cx_flat : list pt; cx_lvls : list (list pt) }.

Inductive child :=
| KTx (names : list str)     (* text nodes selected by ./c:tx//c:pt/c:v/text() *)
| KCat (c : catx)
| KVal (c : cache)
| KXVal (c : cache)
| KYVal (c : cache)
| KBub (c : cache)
| KOther (tag payload : N).

Record ser := mkSer { s_idx : Z; s_order : Z; s_kids : list child }.
Record plot := mkPlot { p_tag : N; p_payload : N; p_sers : list ser }.   (* sers in document order *)
Record chart := mkChart { ch_1904 : bool; ch_rest : N; ch_plots : list plot }.

(** Positions in CT_SeriesComposite._tag_seq. *)
Definition tg_tx : N := 2.      Definition tg_spPr : N := 3.
Definition tg_invert : N := 4.  Definition tg_marker : N := 6.
Definition tg_explosion : N := 7.
Definition tg_cat : N := 12.    Definition tg_val : N := 13.
Definition tg_xVal : N := 14.   Definition tg_yVal : N := 15.
Definition tg_smooth : N := 17. Definition tg_bubbleSize : N := 18.
Definition tg_bubble3D : N := 19.

Definition child_tag (k : child) : N :=
  match k with
  | KTx _ => tg_tx | KCat _ => tg_cat | KVal _ => tg_val | KXVal _ => tg_xVal
  | KYVal _ => tg_yVal | KBub _ => tg_bubbleSize | KOther t _ => t
  end.

(** Positions in the plot_tags tuple of CT_PlotArea.iter_xCharts. *)
Definition pt_area3D : N := 0.  Definition pt_area : N := 1.   Definition pt_bar : N := 3.
Definition pt_bubble : N := 4.  Definition pt_doughnut : N := 5. Definition pt_line : N := 7.
Definition pt_pie : N := 10.    Definition pt_radar : N := 11.  Definition pt_scatter : N := 12.

(* ------------------------------------------------------------------ text *)

Definition s_general : str := [71; 101; 110; 101; 114; 97; 108]%N.
Definition s_datefmt : str := [121; 121; 121; 121; 92; 45; 109; 109; 92; 45; 100; 100]%N. (* yyyy\-mm\-dd *)
Definition s_None : str := [78; 111; 110; 101]%N.
Definition s_dot0 : str := [46; 48]%N.

Definition pad_left (n : nat) (s : str) : str := repeat 48%N (n - length s) ++ s.

(** str() of a datetime.date. *)
Definition iso_date (y m d : Z) : str :=
  pad_left 4 (show_Z y) ++ [45%N] ++ pad_left 2 (show_Z m) ++ [45%N] ++ pad_left 2 (show_Z d).

(** Category._excel_date_number *)
Definition excel_serial (d1904 : bool) (y m d : Z) : Z :=
  if d1904 then ordinal (y, m, d) - ordinal (1904, 1, 1)
  else let n := ordinal (y, m, d) - ordinal (1899, 12, 31) in
       if 59 <? n then n + 1 else n.

(** str(label) as used for string and multi-level categories (label None is the empty
    string on the data side). *)
Definition label_str (l : label) : str :=
  match l with LStr s => s | LNum t => t | LDate y m d => iso_date y m d end.

(** Category.numeric_str_val *)
Definition label_numstr (d1904 : bool) (l : label) : str :=
  match l with
  | LStr s => s
  | LNum t => t
  | LDate y m d => show_Z (excel_serial d1904 y m d) ++ s_dot0
  end.

Definition is_numeric_label (l : label) : bool :=
  match l with LStr _ => false | _ => true end.
Definition is_date_label (l : label) : bool :=
  match l with LDate _ _ _ => true | _ => false end.

(* ------------------------------------------------------------------ category trees *)

Definition tree_label (t : cat_tree) : label := match t with CatNode l _ => l end.
Definition tree_subs (t : cat_tree) : list cat_tree := match t with CatNode _ s => s end.

(** Category.depth; [None] is the ValueError for a non-uniform hierarchy. *)
Fixpoint tree_depth (t : cat_tree) : option nat :=
  match t with
  | CatNode _ subs =>
      match subs with
      | [] => Some 1%nat
      | s0 :: rest =>
          match tree_depth s0 with
          | None => None
          | Some d0 =>
              if forallb (fun s => match tree_depth s with
                                   | Some d => Nat.eqb d d0
                                   | None => false
                                   end) rest
              then Some (S d0) else None
          end
      end
  end.

(** Categories.depth *)
Definition forest_depth (f : list cat_tree) : option nat :=
  match f with
  | [] => Some 0%nat
  | t0 :: rest =>
      match tree_depth t0 with
      | None => None
      | Some d0 =>
          if forallb (fun s => match tree_depth s with
                               | Some d => Nat.eqb d d0
                               | None => false
                               end) rest
          then Some d0 else None
      end
  end.

(** Category.leaf_count / Categories.leaf_count *)
Fixpoint leaves (t : cat_tree) : Z :=
  match t with
  | CatNode _ subs =>
      match subs with
      | [] => 1
      | _ => (fix go (l : list cat_tree) : Z :=
                match l with [] => 0 | s :: l' => leaves s + go l' end) subs
      end
  end.
Fixpoint leaves_f (f : list cat_tree) : Z :=
  match f with [] => 0 | s :: f' => leaves s + leaves_f f' end.

(** Number of levels of the forest (what the Categories.levels generator yields). *)
Fixpoint height (t : cat_tree) : nat :=
  match t with
  | CatNode _ subs =>
      S ((fix go (l : list cat_tree) : nat :=
            match l with [] => O | s :: l' => Nat.max (height s) (go l') end) subs)
  end.
Fixpoint height_f (f : list cat_tree) : nat :=
  match f with [] => O | s :: f' => Nat.max (height s) (height_f f') end.

(** The categories at depth [k] below (and including) [t], each with Category.idx: the
    offset of its first leaf in the overall leaf sequence; [off] is the offset of [t]. *)
Fixpoint level_t (k : nat) (off : Z) (t : cat_tree) : list (Z * label) :=
  match t with
  | CatNode l subs =>
      match k with
      | O => [(off, l)]
      | S k' =>
          (fix go (off : Z) (f : list cat_tree) : list (Z * label) :=
             match f with
             | [] => []
             | s :: f' => level_t k' off s ++ go (off + leaves s) f'
             end) off subs
      end
  end.
Fixpoint level_f (k : nat) (off : Z) (f : list cat_tree) : list (Z * label) :=
  match f with
  | [] => []
  | s :: f' => level_t k off s ++ level_f k (off + leaves s) f'
  end.

(** Categories.levels: leaf level first, root level last.  An empty collection still
    yields one (empty) level. *)
Definition levels (f : list cat_tree) : list (list (Z * label)) :=
  match f with
  | [] => [[]]
  | _ => map (fun k => level_f k 0 f) (rev (seq 0 (height_f f)))
  end.

(** Categories.number_format *)
Definition cats_number_format (f : list cat_tree) (explicit : option str) (depth : nat) : str :=
  match explicit with
  | Some s => s
  | None =>
      if negb (Nat.eqb depth 1) then s_general
      else match f with
           | t :: _ => if is_date_label (tree_label t) then s_datefmt else s_general
           | [] => s_general
           end
  end.

(* ------------------------------------------------------------------ series writers *)

Fixpoint pts_from (i : Z) (vals : list (option num)) : list pt :=
  match vals with
  | [] => []
  | None :: r => pts_from (i + 1) r
  | Some v :: r => mkPt i v :: pts_from (i + 1) r
  end.

(** numRef_xml / _val_tmpl: c:formatCode (the number format; the writer escapes markup
    characters and writes a carriage return as a character reference, so any text of XML
    characters survives verbatim), c:ptCount val = len(values), one c:pt per value that is not
    None, idx = its position. *)
Definition num_cache (fmt : str) (vals : list (option num)) : cache :=
  mkCache (Some fmt) [Z.of_nat (length vals)] (pts_from 0 vals).

Fixpoint enum_pts (i : Z) (l : list str) : list pt :=
  match l with [] => [] | s :: r => mkPt i s :: enum_pts (i + 1) r end.

(** tx: one c:pt with the series name (escaped, carriage return as a character reference:
    verbatim after parsing); an empty name leaves c:v without a text node. *)
Definition tx_names (name : str) : list str :=
  match name with [] => [] | n => [n] end.

(** _CategorySeriesXmlWriter.cat / cat_xml; [Err ValueErr] when the depth is not uniform. *)
Definition write_cat (d1904 : bool) (f : list cat_tree) (fmt : option str) : res catx :=
  match forest_depth f with
  | None => Err ValueErr
  | Some d =>
      let count := leaves_f f in
      let first_numeric := match f with t :: _ => is_numeric_label (tree_label t) | [] => false end in
      if Nat.eqb d 1 && first_numeric then
        Ok (mkCatx 1 (Some (cats_number_format f fmt d)) [count]
              (enum_pts 0 (map (fun t => label_numstr d1904 (tree_label t)) f)) [])
      else if Nat.eqb d 1 then
        Ok (mkCatx 0 None [count]
              (enum_pts 0 (map (fun t => label_str (tree_label t)) f)) [])
      else
        Ok (mkCatx 2 None [count] []
              (map (map (fun il => mkPt (fst il) (label_str (snd il)))) (levels f)))
  end.

Definition others (tags : list N) : list child := map (fun t => KOther t 0) tags.

Definition cat_ser_kids (pre post : list N) (cx : catx) (s : cat_series) : list child :=
  KTx (tx_names (cs_name s)) :: others pre
    ++ [KCat cx; KVal (num_cache (cs_fmt s) (cs_vals s))] ++ others post.

Definition xy_ser_kids (pre post : list N) (name fmt : str) (xs ys : list (option num)) : list child :=
  KTx (tx_names name) :: others pre
    ++ [KXVal (num_cache fmt xs); KYVal (num_cache fmt ys)] ++ others post.

Definition bub_ser_kids (name fmt : str) (xs ys zs : list (option num)) : list child :=
  KTx (tx_names name) :: others [tg_invert]
    ++ [KXVal (num_cache fmt xs); KYVal (num_cache fmt ys); KBub (num_cache fmt zs)]
    ++ others [tg_bubble3D].

Fixpoint mapi_from {A B} (i : Z) (f : Z -> A -> B) (l : list A) : list B :=
  match l with [] => [] | x :: r => f i x :: mapi_from (i + 1) f r end.

(* ------------------------------------------------------------------ chart writers *)

Inductive wkind := WCatPlain | WPie | WXy | WBubble.

(** ChartXmlWriter dispatch joined with each writer's _ser_xml: for the XL_CHART_TYPE
    value, the writer family, the xChart tag, and the c:ser children the template puts
    between c:tx and the data children ([pre]) and after them ([post]). *)
Definition writer_of (ct : Z) : option (wkind * N * list N * list N) :=
  if (ct =? 1) || (ct =? 76) || (ct =? 77) then Some (WCatPlain, pt_area, [], [])
  else if (ct =? 57) || (ct =? 58) || (ct =? 59) || (ct =? 51) || (ct =? 52) || (ct =? 53)
  then Some (WCatPlain, pt_bar, [], [])
  else if ct =? -4120 then Some (WCatPlain, pt_doughnut, [], [])
  else if ct =? 80 then Some (WCatPlain, pt_doughnut, [tg_explosion], [])
  else if (ct =? 4) || (ct =? 63) || (ct =? 64) then Some (WCatPlain, pt_line, [tg_marker], [tg_smooth])
  else if (ct =? 65) || (ct =? 66) || (ct =? 67) then Some (WCatPlain, pt_line, [], [tg_smooth])
  else if ct =? 5 then Some (WPie, pt_pie, [], [])
  else if ct =? 69 then Some (WPie, pt_pie, [tg_explosion], [])
  else if ct =? -4151 then Some (WCatPlain, pt_radar, [tg_marker], [tg_smooth])
  else if (ct =? 82) || (ct =? 81) then Some (WCatPlain, pt_radar, [], [tg_smooth])
  else if ct =? -4169 then Some (WXy, pt_scatter, [tg_spPr], [tg_smooth])
  else if (ct =? 74) || (ct =? 72) then Some (WXy, pt_scatter, [], [tg_smooth])
  else if (ct =? 75) || (ct =? 73) then Some (WXy, pt_scatter, [tg_marker], [tg_smooth])
  else if (ct =? 15) || (ct =? 87) then Some (WBubble, pt_bubble, [], [])
  else None.

(** The area, bar and line writers consult categories.are_dates for the category axis
    even when there is no series. *)
Definition has_cat_axis (ptag : N) : bool :=
  N.eqb ptag pt_area || N.eqb ptag pt_bar || N.eqb ptag pt_line.

(** The chart part a writer produces for chart data ([ChartXmlWriter(type, data).xml]
    parsed): one plot, series idx = order = position.  Errors: unknown type
    (NotImplementedError) and data of the wrong family (AttributeError) are [OtherErr];
    pie without a series is [IndexErr]; non-uniform category depth is [ValueErr]. *)
Definition write (ct : Z) (d : chart_data) : res chart :=
  match writer_of ct with
  | None => Err OtherErr
  | Some (wk, ptag, pre, post) =>
      let one_plot sers := Ok (mkChart false 0 [mkPlot ptag 0 sers]) in
      match wk, d with
      | WCatPlain, DCat f fmt sers =>
          match sers with
          | [] => (* categories.depth is evaluated for the category axis (area, bar,
                     line) or, failing that, by the workbook writer *)
                  bind (write_cat false f fmt) (fun _ => one_plot [])
          | _ => bind (write_cat false f fmt) (fun cx =>
                   one_plot (mapi_from 0 (fun i s => mkSer i i (cat_ser_kids pre post cx s)) sers))
          end
      | WPie, DCat f fmt sers =>
          match sers with
          | [] => Err IndexErr
          | s :: _ => bind (write_cat false f fmt) (fun cx =>
                        one_plot [mkSer 0 0 (cat_ser_kids pre post cx s)])
          end
      | WXy, DXy sers =>
          one_plot (mapi_from 0 (fun i s => mkSer i i
             (xy_ser_kids pre post (xs_name s) (xs_fmt s) (map fst (xs_pts s)) (map snd (xs_pts s)))) sers)
      | WXy, DBub sers =>
          one_plot (mapi_from 0 (fun i s => mkSer i i
             (xy_ser_kids pre post (bs_name s) (bs_fmt s)
                (map (fun p => fst (fst p)) (bs_pts s)) (map (fun p => snd (fst p)) (bs_pts s)))) sers)
      | WBubble, DBub sers =>
          one_plot (mapi_from 0 (fun i s => mkSer i i
             (bub_ser_kids (bs_name s) (bs_fmt s)
                (map (fun p => fst (fst p)) (bs_pts s)) (map (fun p => snd (fst p)) (bs_pts s))
                (map snd (bs_pts s)))) sers)
      | _, _ => match d with
                | DCat _ _ [] | DXy [] | DBub [] =>
                    (* no series: the per-series writer is never reached *)
                    match wk with
                    | WPie => Err IndexErr
                    | WCatPlain => if has_cat_axis ptag then Err OtherErr else one_plot []
                    | _ => one_plot []
                    end
                | _ => Err OtherErr
                end
      end
  end.

(* ------------------------------------------------------------------ series order *)

(** Stable insertion sort by an integer key (Python sorted(..., key=...)). *)
Fixpoint insert_by {A} (key : A -> Z) (x : A) (l : list A) : list A :=
  match l with
  | [] => [x]
  | y :: l' => if key x <=? key y then x :: l else y :: insert_by key x l'
  end.
Definition sort_by {A} (key : A -> Z) (l : list A) : list A := fold_right (insert_by key) [] l.

(** xChart.sers: c:ser children in c:order sequence. *)
Definition plot_sers (p : plot) : list ser := sort_by s_order (p_sers p).
(** plotArea.sers: by xChart in document order, then series order. *)
Definition area_sers_of (ps : list plot) : list ser := concat (map plot_sers ps).
Definition area_sers (c : chart) : list ser := area_sers_of (ch_plots c).

(** c:ser elements decorated with their document position. *)
Definition decorate (l : list ser) : list (nat * ser) := combine (seq 0 (length l)) l.
Definition dkey (d : nat * ser) : Z := s_order (snd d).
(** Document positions of a plot's series, in series order. *)
Definition order_positions (l : list ser) : list nat := map fst (sort_by dkey (decorate l)).

(** plotArea.next_idx / next_order *)
Definition next_val (vals : list Z) : Z :=
  match vals with [] => 0 | v :: r => fold_left Z.max r v + 1 end.
Definition next_idx (ps : list plot) : Z := next_val (map s_idx (area_sers_of ps)).
Definition next_order (ps : list plot) : Z := next_val (map s_order (area_sers_of ps)).

(* ------------------------------------------------------------------ readers *)

Definition find_pt (i : Z) (pts : list pt) : option pt := find (fun p => pt_idx p =? i) pts.

(** CT_NumDataSource.ptCount_val and pt_v over range(ptCount); the text of c:v is
    returned (the implementation applies float to it; empty text is a TypeError). *)
Definition cache_count (c : cache) : Z := hd 0 (ca_counts c).
Definition read_cache (c : cache) : list (option str) :=
  map (fun i => option_map pt_v (find_pt (Z.of_nat i) (ca_pts c)))
      (seq 0 (Z.to_nat (cache_count c))).
Definition values_res (l : list (option str)) : res (list (option str)) :=
  if existsb (fun o => match o with Some [] => true | _ => false end) l then Err TypeErr else Ok l.

Definition first_some {A B} (f : A -> option B) (l : list A) : option B :=
  fold_right (fun x acc => match f x with Some b => Some b | None => acc end) None l.

Definition kid_val (k : child) : option cache := match k with KVal c => Some c | _ => None end.
Definition kid_yval (k : child) : option cache := match k with KYVal c => Some c | _ => None end.
Definition kid_xval (k : child) : option cache := match k with KXVal c => Some c | _ => None end.
Definition kid_bub (k : child) : option cache := match k with KBub c => Some c | _ => None end.
Definition kid_cat (k : child) : option catx := match k with KCat c => Some c | _ => None end.
Definition kid_names (k : child) : list str := match k with KTx n => n | _ => [] end.

(** _BaseSeries.name *)
Definition ser_name (s : ser) : str := hd [] (concat (map kid_names (s_kids s))).

Definition is_xy_plot (ptag : N) : bool := N.eqb ptag pt_bubble || N.eqb ptag pt_scatter.

(** series.values: c:val for category series, c:yVal for XY and bubble series. *)
Definition ser_values_raw (ptag : N) (s : ser) : list (option str) :=
  match first_some (if is_xy_plot ptag then kid_yval else kid_val) (s_kids s) with
  | Some c => read_cache c
  | None => []
  end.
Definition ser_values (ptag : N) (s : ser) : res (list (option str)) :=
  values_res (ser_values_raw ptag s).

(** _SeriesFactory knows these xChart tags. *)
Definition series_cls_ok (ptag : N) : bool :=
  memN ptag [pt_area; pt_bar; pt_bubble; pt_doughnut; pt_line; pt_pie; pt_radar; pt_scatter].

(** Category label: the text of c:v, the empty string for an empty c:v (lxml gives None
    there and the reader takes [text or the empty string]). *)
Definition pt_label (p : pt) : str := pt_v p.

(** xChart.cat: c:cat of the first c:ser in document order. *)
Definition plot_cat (p : plot) : option catx :=
  match p_sers p with [] => None | s :: _ => first_some kid_cat (s_kids s) end.

Definition kid_cat_counts (k : child) : list Z := match k with KCat c => cx_counts c | _ => [] end.
(** xChart.cat_pt_count: first c:ptCount below any c:ser//c:cat. *)
Definition plot_cat_count (p : plot) : Z :=
  hd 0 (concat (map (fun s => concat (map kid_cat_counts (s_kids s))) (p_sers p))).

Definition all_cat_pts (c : catx) : list pt := cx_flat c ++ concat (cx_lvls c).
(** The c:pt elements xChart.cat_pts draws from: those of the first c:lvl, or when that
    selects nothing every c:pt below c:cat. *)
Definition cat_pts_src (c : catx) : list pt :=
  match cx_lvls c with
  | (_ :: _) as l0 :: _ => l0
  | _ => all_cat_pts c
  end.

(** dict((pt.idx, pt)): the last c:pt with a given idx wins. *)
Definition find_last_pt (i : Z) (pts : list pt) : option pt := find_pt i (rev pts).

(** list(plot.categories) *)
Definition plot_cat_labels (p : plot) : list str :=
  let src := match plot_cat p with Some c => cat_pts_src c | None => [] end in
  map (fun i => match find_last_pt (Z.of_nat i) src with Some q => pt_label q | None => [] end)
      (seq 0 (Z.to_nat (plot_cat_count p))).

(** Categories.depth *)
Definition plot_cat_depth (p : plot) : Z :=
  match plot_cat p with
  | None => 0
  | Some c => if N.eqb (cx_kind c) 2 then Z.of_nat (length (cx_lvls c)) else 1
  end.

(** Categories.levels as lists of (idx, label) *)
Definition plot_cat_levels (p : plot) : list (list (Z * str)) :=
  match plot_cat p with
  | None => []
  | Some c => map (map (fun q => (pt_idx q, pt_label q))) (cx_lvls c)
  end.

(** The loop of Categories._parentage over one level: the last category before the first
    one whose idx exceeds the idx of the leaf; [cur] starts as the first category. *)
Fixpoint scan_parent (x : Z) (lvl : list (Z * str)) (cur : Z * str) : Z * str :=
  match lvl with
  | [] => cur
  | c :: r => if x <? fst c then cur else scan_parent x r c
  end.

(** Categories._parentage: [acc] is in child to parent order. *)
Fixpoint parentage (leaf_idx : Z) (acc : list str) (lvls : list (list (Z * str))) : list str :=
  match lvls with
  | [] => acc
  | [] :: _ => acc
  | (c0 :: _) as lv :: rest => parentage leaf_idx (acc ++ [snd (scan_parent leaf_idx lv c0)]) rest
  end.

(** Categories.flattened_labels *)
Definition flattened_of_levels (lvls : list (list (Z * str))) : list (list str) :=
  match lvls with
  | [] => []
  | leaf :: rest => map (fun c => rev (parentage (fst c) [snd c] rest)) leaf
  end.
Definition plot_flattened (p : plot) : list (list str) :=
  match plot_cat p with
  | None => []
  | Some c => if N.eqb (cx_kind c) 2 then flattened_of_levels (plot_cat_levels p)
              else map (fun l => [l]) (plot_cat_labels p)
  end.

(* ------------------------------------------------------------------ replace_data *)

(** successors declared for the data children of c:ser, as tag positions *)
Record succs := mkSuccs { sc_tx : list N; sc_cat : list N; sc_val : list N;
                          sc_xVal : list N; sc_yVal : list N; sc_bub : list N }.

Definition tags_from (n : N) : list N := filter (fun t => N.leb n t) (map N.of_nat (seq 0 21)).
(** The declarations of CT_SeriesComposite in the pinned source. *)
Definition std_succs : succs :=
  mkSuccs (tags_from 3) (tags_from 13) (tags_from 14) (tags_from 15) (tags_from 16) (tags_from 19).

(** BaseOxmlElement.first_child_found_in: the first tag OF THE TUPLE that some child
    carries decides, not the first such child in document order. *)
Definition first_found (sc : list N) (kids : list child) : option N :=
  find (fun t => existsb (fun k => N.eqb (child_tag k) t) kids) sc.
Fixpoint insert_before_tag (t : N) (new : child) (kids : list child) : list child :=
  match kids with
  | [] => [new]
  | k :: r => if N.eqb (child_tag k) t then new :: k :: r else k :: insert_before_tag t new r
  end.
(** insert_element_before *)
Definition insert_before (sc : list N) (new : child) (kids : list child) : list child :=
  match first_found sc kids with
  | Some t => insert_before_tag t new kids
  | None => kids ++ [new]
  end.
(** remove_all *)
Definition remove_tag (t : N) (kids : list child) : list child :=
  filter (fun k => negb (N.eqb (child_tag k) t)) kids.

Inductive rkind := RCat | RXy | RBub.

Definition plot_factory_ok (ptag : N) : bool :=
  memN ptag [pt_area; pt_area3D; pt_bar; pt_bubble; pt_doughnut; pt_line; pt_pie; pt_radar; pt_scatter].

(** SeriesXmlRewriterFactory(chart.chart_type, ...): decided by the first plot. *)
Definition rewriter_kind (c : chart) : res rkind :=
  match ch_plots c with
  | [] => Err IndexErr
  | p :: _ =>
      if negb (plot_factory_ok (p_tag p)) then Err ValueErr
      else if N.eqb (p_tag p) pt_bubble then Ok RBub
      else if N.eqb (p_tag p) pt_scatter then Ok RXy
      else Ok RCat
  end.

(** The data one c:ser is rewritten from. *)
Inductive ser_data :=
| SDCat (cx : catx) (s : cat_series)
| SDXy (name fmt : str) (xs ys : list (option num))
| SDBub (name fmt : str) (xs ys zs : list (option num)).

Definition sd_name (sd : ser_data) : str :=
  match sd with SDCat _ s => cs_name s | SDXy n _ _ _ => n | SDBub n _ _ _ _ => n end.

(** _rewrite_ser_data of the three rewriters: remove, then insert one after the other. *)
Definition rewrite_ser (sc : succs) (s : ser) (sd : ser_data) : ser :=
  let k := s_kids s in
  let k' :=
    match sd with
    | SDCat cx cs =>
        let k := remove_tag tg_val (remove_tag tg_cat (remove_tag tg_tx k)) in
        let k := insert_before (sc_tx sc) (KTx (tx_names (cs_name cs))) k in
        let k := insert_before (sc_cat sc) (KCat cx) k in
        insert_before (sc_val sc) (KVal (num_cache (cs_fmt cs) (cs_vals cs))) k
    | SDXy name fmt xs ys =>
        let k := remove_tag tg_yVal (remove_tag tg_xVal (remove_tag tg_tx k)) in
        let k := insert_before (sc_tx sc) (KTx (tx_names name)) k in
        let k := insert_before (sc_xVal sc) (KXVal (num_cache fmt xs)) k in
        insert_before (sc_yVal sc) (KYVal (num_cache fmt ys)) k
    | SDBub name fmt xs ys zs =>
        let k := remove_tag tg_bubbleSize (remove_tag tg_yVal (remove_tag tg_xVal (remove_tag tg_tx k))) in
        let k := insert_before (sc_tx sc) (KTx (tx_names name)) k in
        let k := insert_before (sc_xVal sc) (KXVal (num_cache fmt xs)) k in
        let k := insert_before (sc_yVal sc) (KYVal (num_cache fmt ys)) k in
        insert_before (sc_bub sc) (KBub (num_cache fmt zs)) k
    end in
  mkSer (s_idx s) (s_order s) k'.

(** What each series of the chart data turns into for a rewriter of kind [rk]; data of
    another family fails inside the series writer (AttributeError). *)
Definition ser_datas (rk : rkind) (d1904 : bool) (d : chart_data) : res (list ser_data) :=
  match rk, d with
  | RCat, DCat f fmt sers =>
      (* without series no c:ser is rewritten, but the workbook writer still evaluates
         categories.depth *)
      bind (write_cat d1904 f fmt) (fun cx => Ok (map (SDCat cx) sers))
  | RXy, DXy sers =>
      Ok (map (fun s => SDXy (xs_name s) (xs_fmt s) (map fst (xs_pts s)) (map snd (xs_pts s))) sers)
  | RXy, DBub sers =>
      Ok (map (fun s => SDXy (bs_name s) (bs_fmt s) (map (fun p => fst (fst p)) (bs_pts s))
                          (map (fun p => snd (fst p)) (bs_pts s))) sers)
  | RBub, DBub sers =>
      Ok (map (fun s => SDBub (bs_name s) (bs_fmt s) (map (fun p => fst (fst p)) (bs_pts s))
                          (map (fun p => snd (fst p)) (bs_pts s)) (map snd (bs_pts s))) sers)
  | _, _ => match data_len d with O => Ok [] | _ => Err OtherErr end
  end.

Definition set_sers (p : plot) (l : list ser) : plot := mkPlot (p_tag p) (p_payload p) l.

(** clone_ser: a deep copy of the c:ser at document position [pos] with the given idx and
    order, added right after it (addnext). *)
Fixpoint clone_at (pos : nat) (i o : Z) (l : list ser) : list ser :=
  match l, pos with
  | [], _ => []
  | x :: l', O => x :: mkSer i o (s_kids x) :: l'
  | x :: l', S pos' => x :: clone_at pos' i o l'
  end.

Fixpoint upd_last {A} (f : A -> A) (l : list A) : list A :=
  match l with
  | [] => []
  | [x] => [f x]
  | x :: l' => x :: upd_last f l'
  end.

(** _add_cloned_sers: [pos] is the document position of last_ser in the last xChart. *)
Fixpoint add_cloned (count pos : nat) (ps : list plot) : list plot :=
  match count with
  | O => ps
  | S k =>
      let i := next_idx ps in
      let o := next_order ps in
      add_cloned k (S pos) (upd_last (fun p => set_sers p (clone_at pos i o (p_sers p))) ps)
  end.

Fixpoint remove_nth {A} (n : nat) (l : list A) : list A :=
  match l, n with
  | [], _ => []
  | _ :: l', O => l'
  | x :: l', S n' => x :: remove_nth n' l'
  end.

Definition has_sers (ps : list plot) : bool :=
  existsb (fun p => match p_sers p with [] => false | _ => true end) ps.

(** Remove from the tree the c:ser that is last in plotArea.sers. *)
Definition drop_last_ser (p : plot) : plot :=
  match rev (order_positions (p_sers p)) with
  | [] => p
  | pos :: _ => set_sers p (remove_nth pos (p_sers p))
  end.
Fixpoint remove_last_ser (ps : list plot) : list plot :=
  match ps with
  | [] => []
  | p :: ps' => if has_sers ps' then p :: remove_last_ser ps' else drop_last_ser p :: ps'
  end.

(** _trim_ser_count_by: the last [count] elements of plotArea.sers are removed (that
    sequence is computed once; taking its last element [count] times is the same set,
    see [area_sers_trim] in the proofs), then every xChart without c:ser is removed. *)
Definition trim (count : nat) (ps : list plot) : list plot :=
  filter (fun p => match p_sers p with [] => false | _ => true end)
         (Nat.iter count remove_last_ser ps).

(** _adjust_ser_count.  plotArea.xCharts[-1] on no plot is an IndexError; last_ser None
    (last plot without series) makes deepcopy return None: AttributeError. *)
Definition adjust (ps : list plot) (n : nat) : res (list plot) :=
  let cur := length (area_sers_of ps) in
  if Nat.ltb cur n then
    match rev ps with
    | [] => Err IndexErr
    | lastp :: _ =>
        match rev (order_positions (p_sers lastp)) with
        | [] => Err OtherErr
        | pos :: _ => Ok (add_cloned (n - cur) pos ps)
        end
    end
  else if Nat.ltb n cur then Ok (trim (cur - n) ps)
  else Ok ps.

Fixpoint index_of (q : nat) (l : list nat) : option nat :=
  match l with
  | [] => None
  | x :: r => if Nat.eqb x q then Some O
              else match index_of q r with Some i => Some (S i) | None => None end
  end.

(** zip(sers of this plot in series order, data): each c:ser, where it stands in the
    document, is rewritten from the data item whose rank it has in series order. *)
Definition rewrite_plot (sc : succs) (data : list ser_data) (p : plot) : plot :=
  let ord := order_positions (p_sers p) in
  set_sers p (map (fun qs : nat * ser =>
                     match index_of (fst qs) ord with
                     | Some r => match nth_error data r with
                                 | Some sd => rewrite_ser sc (snd qs) sd
                                 | None => snd qs
                                 end
                     | None => snd qs
                     end) (decorate (p_sers p))).

Fixpoint rewrite_plots (sc : succs) (data : list ser_data) (ps : list plot) : list plot :=
  match ps with
  | [] => []
  | p :: ps' => rewrite_plot sc data p :: rewrite_plots sc (skipn (length (p_sers p)) data) ps'
  end.

(** Chart.replace_data, XML side. *)
Definition replace (sc : succs) (d : chart_data) (c : chart) : res chart :=
  bind (rewriter_kind c) (fun rk =>
  bind (adjust (ch_plots c) (data_len d)) (fun ps =>
  bind (ser_datas rk (ch_1904 c) d) (fun sds =>
  Ok (mkChart (ch_1904 c) (ch_rest c) (rewrite_plots sc sds ps))))).
