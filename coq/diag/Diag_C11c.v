(** Diagnostics for C11, read side of the custom classes lifted to rows
    (proofs/C11_rows_custom_read.v): ids of the rows whose every schema-valid string is read by a
    class-level read theorem (7008) and of those whose type has a form the class theorem does not
    cover (7009).  No obligations here. *)
From V.lib Require Import Prelude PyFloat PyVal.
From V.model Require Import SimpleTypeLib.
From V.proofs Require Import C11_rows_custom_read.
From V.gen Require Import GenC11.
Eval vm_compute in (7008%N :: map fst (filter (fun p => N.eqb (snd p) 0) custom_read_verdicts)).
Eval vm_compute in (7009%N :: map fst (filter (fun p => N.eqb (snd p) 1) custom_read_verdicts)).
