(** Content models of XSD complex types (structural image: groups and extension
    bases inlined by the translator), their language of child-tag sequences, and the
    rank abstraction computed from them IN COQ (not by the translator).
    Definitions only. *)
From V.lib Require Import Prelude.

Definition tag := N.          (* tags are interned by the translator; 0 = xsd:any *)
Definition tag_any : tag := 0%N.

Inductive cm :=
| Elt (t : tag)
| Seq (l : list cm)
| Alt (l : list cm)
| Rep (mn : nat) (mx : option nat) (c : cm).    (* minOccurs / maxOccurs (None = unbounded) *)

(** The language of a content model: the child-tag sequences it accepts. *)
Inductive lang : cm -> list tag -> Prop :=
| L_elt t : lang (Elt t) [t]
| L_seq l w : lang_seq l w -> lang (Seq l) w
| L_alt l c w : In c l -> lang c w -> lang (Alt l) w
| L_rep mn mx c n w : lang_rep c n w -> mn <= n ->
    (match mx with Some m => n <= m | None => True end) -> lang (Rep mn mx c) w
with lang_seq : list cm -> list tag -> Prop :=
| LS_nil : lang_seq [] []
| LS_cons c l w1 w2 : lang c w1 -> lang_seq l w2 -> lang_seq (c :: l) (w1 ++ w2)
with lang_rep : cm -> nat -> list tag -> Prop :=
| LR_0 c : lang_rep c 0 []
| LR_S c n w1 w2 : lang c w1 -> lang_rep c n w2 -> lang_rep c (S n) (w1 ++ w2).

Fixpoint tags_of (c : cm) : list tag :=
  match c with
  | Elt t => [t]
  | Seq l => (fix go (l : list cm) := match l with [] => [] | c :: l' => tags_of c ++ go l' end) l
  | Alt l => (fix go (l : list cm) := match l with [] => [] | c :: l' => tags_of c ++ go l' end) l
  | Rep _ _ c => tags_of c
  end.

Definition is_elt (c : cm) : bool := match c with Elt _ => true | _ => false end.
Definition multi_rep (mx : option nat) : bool :=
  match mx with None => true | Some m => Nat.ltb 1 m end.

(** A flattened content model: consecutive rank groups; the flag says that several
    children of the group (of the same or of different tags) may coexist, in any order. *)
Definition flat := list (list tag * bool).

Fixpoint flatten (c : cm) : flat :=
  match c with
  | Elt t => [([t], false)]
  | Seq l => (fix go (l : list cm) := match l with [] => [] | c :: l' => flatten c ++ go l' end) l
  | Alt l =>
      if forallb is_elt l
      then [((fix go (l : list cm) := match l with [] => [] | c :: l' => tags_of c ++ go l' end) l, false)]
      else (fix go (l : list cm) := match l with [] => [] | c :: l' => flatten c ++ go l' end) l
  | Rep _ mx c => if multi_rep mx then [(tags_of c, true)] else flatten c
  end.

Definition memt (t : tag) (l : list tag) : bool := existsb (N.eqb t) l.

(** rank = index of the first group holding the tag; [length f] when unknown. *)
Fixpoint rank (f : flat) (t : tag) : nat :=
  match f with
  | [] => 0
  | (g, _) :: f' => if memt t g then 0 else S (rank f' t)
  end.
Definition known (f : flat) (t : tag) : bool := existsb (fun g => memt t (fst g)) f.
Definition multi (f : flat) (r : nat) : bool := snd (nth r f ([], false)).

(** Groups are pairwise disjoint (a tag has one rank). *)
Fixpoint disjoint_groups (f : flat) : bool :=
  match f with
  | [] => true
  | (g, _) :: f' => forallb (fun t => negb (known f' t)) g && disjoint_groups f'
  end.

(** Every element is ranked no later than everything after it. *)
Fixpoint ord (rk : tag -> nat) (l : list tag) : Prop :=
  match l with
  | [] => True
  | a :: l' => (forall b, In b l' -> rk a <= rk b) /\ ord rk l'
  end.
Fixpoint ordb (rk : tag -> nat) (l : list tag) : bool :=
  match l with
  | [] => true
  | a :: l' => forallb (fun b => Nat.leb (rk a) (rk b)) l' && ordb rk l'
  end.
