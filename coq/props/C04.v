(** C04 — text assigned is the text read back, with only the documented translations.
    Statements over model/Text.v; proofs in proofs/Text_proofs.v. *)
From V.lib Require Import Prelude.
From V.model Require Import Text Escape TextRun TextCodec.
From V.proofs Require Import Text_proofs Escape_proofs TextCodec_proofs.

(** The translations are the documented ones, character by character:
    frame / cell: TAB, LF, VT stay, any other C0 control becomes its escape;
    paragraph: LF and VT both read back as VT;  run: also VT is escaped. *)
Theorem C04_levels_agree : forall s,
  tr_frame s = flat_map doc_frame_char s /\
  tr_para s = flat_map doc_para_char s /\
  tr_run s = flat_map doc_run_char s.
Proof. exact levels_agree. Qed.
Print Assumptions C04_levels_agree.

Theorem C04_para_via_frame : forall s, tr_para s = tr_frame (map lf_to_vt s).
Proof. exact para_via_frame. Qed.
Print Assumptions C04_para_via_frame.

Theorem C04_levels_coincide : forall s, forallb (fun c => negb (is_brk c)) s = true ->
  tr_frame s = tr_run s /\ tr_para s = tr_run s.
Proof. exact levels_coincide. Qed.
Print Assumptions C04_levels_coincide.

(** the escape of a C0 control: underscore, x, 0, 0, two upper-case hex digits, underscore *)
Theorem C04_escape_format : forall c, (c < 32)%N ->
  esc_seq c = [95; 120; 48; 48; hex_digit (c / 16); hex_digit (c mod 16); 95]%N.
Proof. exact esc_seq_c0. Qed.
Print Assumptions C04_escape_format.

(** run level *)
Theorem C04_run : forall s x t,
  set_run s (R x t) = R x (tr_run s) /\ get_run (set_run s (R x t)) = tr_run s.
Proof. exact run_full. Qed.
Print Assumptions C04_run.

(** run level inside a paragraph: only that run's text changes *)
Theorem C04_run_in_paragraph : forall s j p p',
  update_run j (set_run s) p = Some p' ->
  exists pre x t post,
    p = pre ++ It (R x t) :: post /\
    p' = pre ++ It (R x (tr_run s)) :: post /\
    length (runs_of pre) = j.
Proof. exact update_run_exact. Qed.
Print Assumptions C04_run_in_paragraph.

(** paragraph level, any prior paragraph (children in any order): read-back; every
    non-content child (a:pPr, a:endParaRPr) stays, in place; one a:br per LF or VT;
    no empty run; the new content sits right before the first a:endParaRPr *)
Theorem C04_para : forall s p,
  get_para (set_para s p) = tr_para s /\
  clear_para (set_para s p) = clear_para p /\
  first_ppr (set_para s p) = first_ppr p /\
  first_endrpr (set_para s p) = first_endrpr p /\
  count_br (set_para s p) = count is_brk s /\
  Forall run_nonempty (content (set_para s p)) /\
  (exists pre post,
      clear_para p = pre ++ post /\
      set_para s p = pre ++ map It (content (set_para s p)) ++ post /\
      forallb (fun c => negb (is_end c)) pre = true /\
      (post = [] \/ exists x r, post = EndRPr x :: r)).
Proof. exact para_full. Qed.
Print Assumptions C04_para.

(** the runs of the paragraph are exactly the escaped non-empty pieces, in order *)
Theorem C04_para_runs : forall s p,
  map get_run (runs_of (set_para s p)) = map escape_ctrl (filter nonempty (split_by is_brk s)).
Proof. exact para_runs. Qed.
Print Assumptions C04_para_runs.

(** frame level, ANY prior body: read-back; 1 + number of LF paragraphs; the pieces
    are the LF-separated segments of s; each new paragraph (fresh_para_ok) reads back
    its segment, has one a:br per VT, no empty run, no a:pPr / a:endParaRPr;
    a:bodyPr untouched; nothing of the prior paragraphs survives *)
Theorem C04_frame : forall s b,
  get_frame (set_frame s b) = tr_frame s /\
  length (paras (set_frame s b)) = S (count is_lf s) /\
  join_with [c_lf] (split_by is_lf s) = s /\
  Forall2 fresh_para_ok (split_by is_lf s) (paras (set_frame s b)) /\
  bodypr (set_frame s b) = bodypr b /\
  (forall b', paras (set_frame s b') = paras (set_frame s b)).
Proof. exact frame_full. Qed.
Print Assumptions C04_frame.

(** cell level (also a cell that has no a:txBody yet) *)
Theorem C04_cell : forall s c,
  get_cell (set_cell s c) = tr_frame s /\
  (exists b', set_cell s c = Some b' /\
     length (paras b') = S (count is_lf s) /\
     Forall2 fresh_para_ok (split_by is_lf s) (paras b') /\
     bodypr b' = bodypr (cell_body c)).
Proof. exact cell_full. Qed.
Print Assumptions C04_cell.

(** whitespace (any text without controls and breaks) is kept verbatim, alone ... *)
Theorem C04_whitespace : forall s, plain s = true -> s <> [] ->
  (forall p, content (set_para s p) = [R None s]) /\
  (forall b, paras (set_frame s b) = [[It (R None s)]]) /\
  (forall x t, set_run s (R x t) = R x s).
Proof. exact whitespace_kept. Qed.
Print Assumptions C04_whitespace.

(** ... and on both sides of a break *)
Theorem C04_whitespace_around_break : forall u v brk, plain u = true -> plain v = true ->
  u <> [] -> v <> [] -> is_brk brk = true ->
  forall p, content (set_para (u ++ brk :: v) p) = [R None u; Br; R None v].
Proof. exact whitespace_around_break. Qed.
Print Assumptions C04_whitespace_around_break.

(** escaping twice changes nothing more; but the escape is ambiguous: a control
    character and the literal text of its escape read back the same, and a literal
    escape-shaped text is stored unchanged (not protected with _x005F_) *)
Theorem C04_escape_idempotent : forall s, tr_run (tr_run s) = tr_run s.
Proof. exact tr_run_idempotent. Qed.
Print Assumptions C04_escape_idempotent.

Theorem C04_escape_not_injective : exists s1 s2, s1 <> s2 /\ tr_run s1 = tr_run s2 /\
  tr_para s1 = tr_para s2 /\ tr_frame s1 = tr_frame s2.
Proof. exact escape_not_injective. Qed.
Print Assumptions C04_escape_not_injective.

Theorem C04_escape_shaped_literal_unchanged :
  tr_run lit_x000A = lit_x000A /\ tr_para lit_x000A = lit_x000A /\ tr_frame lit_x000A = lit_x000A.
Proof. exact escape_shaped_literal_unchanged. Qed.
Print Assumptions C04_escape_shaped_literal_unchanged.

(** histories: after ANY sequence of operations from ANY state, an assignment at each
    level reads back the documented text (or IndexError when the paragraph is absent) *)
Theorem C04_history : forall ops c0 s,
  let c := run_ops ops c0 in
  snd (apply_op (OFrame s) c) = Ok (tr_frame s) /\
  snd (apply_op (OCell s) c) = Ok (tr_frame s) /\
  (forall i, (i < length (paras (cell_body c)))%nat ->
     snd (apply_op (OPara i s) c) = Ok (tr_para s)) /\
  (forall i, (length (paras (cell_body c)) <= i)%nat ->
     snd (apply_op (OPara i s) c) = Err IndexErr) /\
  (forall i j p, nth_error (paras (cell_body c)) i = Some p -> (j < length (runs_of p))%nat ->
     snd (apply_op (ORun i j s) c) = Ok (tr_run s)).
Proof. exact history_readback. Qed.
Print Assumptions C04_history.

(** histories keep every paragraph in schema order (a:pPr, content, a:endParaRPr) *)
Theorem C04_history_wf : forall ops c, wf_cell c -> wf_cell (run_ops ops c).
Proof. exact wf_run_ops. Qed.
Print Assumptions C04_history_wf.

(** save / re-open: for any serialiser whose re-parse returns the body, any number of
    cycles reads the same text (the hypothesis is what the correspondence exercises) *)
Theorem C04_reopen : forall (X : Type) (ser : body -> X) (reparse : X -> body),
  (forall b, reparse (ser b) = b) ->
  forall n s b, get_frame (cycles X ser reparse n (set_frame s b)) = tr_frame s.
Proof. exact reopen_readback. Qed.
Print Assumptions C04_reopen.

(** the leaf level of that hypothesis, discharged against the parser model of C05 (model/Escape.v, which contains
    libxml2's blank-text removal): the text of an a:t, written with libxml2's text escaping (amp, lt, gt, and CR as
    a character reference -- tied to the real serialiser by the correspondence, op lx) is read back EXACTLY, for
    every string of XML characters: leading / trailing / only white space, CR, CR LF, TAB included *)
Theorem C04_reopen_text_leaf : forall s, xml_str s = true ->
  lex_text (lxml_text_escape s) = OneText s.
Proof. exact (fun s H => text_safe_r s false false false H). Qed.
Print Assumptions C04_reopen_text_leaf.

(** what a run setter stores is such a string whenever lxml accepts it at all *)
Theorem C04_reopen_run_text : forall s, xml_str (tr_run s) = true ->
  lex_text (lxml_text_escape (tr_run s)) = OneText (tr_run s).
Proof. exact (fun s H => text_safe_r (tr_run s) false false false H). Qed.
Print Assumptions C04_reopen_run_text.

Example C04_ex_reopen_leaf :
  lex_text (lxml_text_escape [32; 13; 10; 9; 60; 38; 62; 32]%N) = OneText [32; 13; 10; 9; 60; 38; 62; 32]%N /\
  xml_str (tr_run [32; 13; 7; 11]%N) = true.
Proof. vm_compute. split; reflexivity. Qed.

(** ---- save / re-open at the level of a whole text body ----
    model/TextCodec.v: enc_body writes the a:txBody the way lxml serialises the tree python-pptx built, dec_body reads
    such a text the way pptx.oxml.parse_xml does (element text through Escape.lex_text, which contains libxml2's
    blank-text removal); both tied to the real serialiser and parser by the correspondence (ops se / pa, signature
    correspondence-codec).  The hypothesis reparse (ser b) = b of C04_reopen is discharged for this codec on every body
    whose run and field texts are strings of XML characters (xml_body), and every body the setters produce from strings
    of XML characters and C0 controls (api_str: everything lxml accepts from the setters) is such a body. *)

(** the text escaping of the codec is the one of the leaf level (op lx) *)
Theorem C04_codec_text_escape : forall s, esc_text s = lxml_text_escape s.
Proof. exact (fun s => eq_refl). Qed.
Print Assumptions C04_codec_text_escape.

(** the reader gives back the body the writer was given: any number of paragraphs, children, characters *)
Theorem C04_codec_roundtrip : forall b, xml_body b = true -> dec_body (enc_body b) = Some b.
Proof. exact dec_enc_body. Qed.
Print Assumptions C04_codec_roundtrip.

(** ... also when every empty a:t is written with a start and an end tag (the empty text node that assigning the
    empty string to run.text leaves; the model of the tree does not tell the two apart) *)
Theorem C04_codec_roundtrip_empty_text_node : forall long b, xml_body b = true ->
  dec_body (enc_body_g long b) = Some b.
Proof. exact dec_enc_body_g. Qed.
Print Assumptions C04_codec_roundtrip_empty_text_node.

(** what a setter stores in an a:t is a string of XML characters EXACTLY when the assigned string is made of XML
    characters and C0 controls (every C0 control but TAB and LF is escaped before it reaches lxml) *)
Theorem C04_api_text_is_xml : forall s, xml_str (tr_run s) = api_str s.
Proof. exact xml_tr_run. Qed.
Print Assumptions C04_api_text_is_xml.

Theorem C04_api_frame_is_xml : forall s b, api_str s = true -> xml_body (set_frame s b) = true.
Proof. exact xml_set_frame. Qed.
Print Assumptions C04_api_frame_is_xml.

Theorem C04_api_para_is_xml : forall s p, api_str s = true -> xml_para (set_para s p) = true.
Proof. exact xml_set_para. Qed.
Print Assumptions C04_api_para_is_xml.

Theorem C04_api_run_is_xml : forall s i, api_str s = true -> xml_item i = true -> xml_item (set_run s i) = true.
Proof. exact xml_set_run. Qed.
Print Assumptions C04_api_run_is_xml.

(** any history of operations with such strings, from any state that was read from XML *)
Theorem C04_api_history_is_xml : forall ops c, forallb api_op ops = true -> xml_cell c = true ->
  xml_cell (run_ops ops c) = true.
Proof. exact xml_run_ops. Qed.
Print Assumptions C04_api_history_is_xml.

(** frame level, ANY prior body: the re-opened body is the saved one and its text is the documented translation *)
Theorem C04_reopen_frame : forall s b, api_str s = true ->
  dec_body (enc_body (set_frame s b)) = Some (set_frame s b) /\
  option_map get_frame (dec_body (enc_body (set_frame s b))) = Some (tr_frame s).
Proof. exact reopen_frame. Qed.
Print Assumptions C04_reopen_frame.

(** paragraph level: paragraphs[i].text = s in a body of XML characters, saved and re-opened *)
Theorem C04_reopen_para : forall s b i p, api_str s = true -> xml_body b = true -> nth_error (paras b) i = Some p ->
  let b' := mkBody (bodypr b) (replace_nth i (set_para s p) (paras b)) in
  fst (apply_op (OPara i s) (Some b)) = Some b' /\
  dec_body (enc_body b') = Some b' /\
  option_map (fun bb => option_map get_para (nth_error (paras bb) i)) (dec_body (enc_body b')) =
    Some (Some (tr_para s)).
Proof. exact reopen_para. Qed.
Print Assumptions C04_reopen_para.

(** run level: paragraphs[i].runs[j].text = s in a body of XML characters, saved and re-opened *)
Theorem C04_reopen_run : forall s b i j p p', api_str s = true -> xml_body b = true ->
  nth_error (paras b) i = Some p -> update_run j (set_run s) p = Some p' ->
  let b' := mkBody (bodypr b) (replace_nth i p' (paras b)) in
  fst (apply_op (ORun i j s) (Some b)) = Some b' /\
  dec_body (enc_body b') = Some b' /\
  option_map (fun bb => match nth_error (paras bb) i with
                        | Some q => option_map get_run (nth_error (runs_of q) j)
                        | None => None end) (dec_body (enc_body b')) = Some (Some (tr_run s)).
Proof. exact reopen_run. Qed.
Print Assumptions C04_reopen_run.

(** the body after ANY history of operations the interface accepts survives any number of save / re-open cycles *)
Theorem C04_reopen_history : forall n ops c, forallb api_op ops = true -> xml_cell c = true ->
  reopen_cycles n (cell_body (run_ops ops c)) = Some (cell_body (run_ops ops c)).
Proof. exact reopen_cycles_history. Qed.
Print Assumptions C04_reopen_history.

(** C04_reopen with its hypothesis discharged: n cycles through the concrete codec *)
Theorem C04_reopen_cycles : forall n s b, api_str s = true ->
  option_map get_frame (reopen_cycles n (set_frame s b)) = Some (tr_frame s).
Proof. exact reopen_cycles_frame. Qed.
Print Assumptions C04_reopen_cycles.

(* non-vacuity: a body with every kind of child (markup characters, CR, CR LF, TAB, blanks only, edge blanks, non-ASCII,
   astral, the CDATA-end sequence, empty run, empty field, empty paragraph, property numbers 0 and 1800) meets xml_body
   and is read back, three cycles included; a run text holding U+0000 is outside xml_body and is NOT read back; a string
   with BEL, CR, VT, markup and LF meets api_str without being a string of XML characters *)
Example C04_ex_codec :
  let b := mkBody 7 [[PPr 3; It (R (Some 1800) [32; 60; 38; 62; 13; 10; 9; 32]); It Br; It (Fld [49; 50]);
                      It (R None []); It (Fld []); It (R (Some 0) [32; 32]); It (R None [233; 128512; 93; 93; 62]); EndRPr 4];
                     []; [It (R None [13])]; [EndRPr 0; PPr 0]]%N in
  xml_body b = true /\ dec_body (enc_body b) = Some b /\ dec_body (enc_body_g true b) = Some b /\
  reopen_cycles 3 b = Some b.
Proof. vm_compute. repeat split; reflexivity. Qed.

Example C04_ex_codec_needs_xml_chars :
  let b := mkBody 0 [[It (R None [0%N])]] in xml_body b = false /\ dec_body (enc_body b) = None.
Proof. vm_compute. split; reflexivity. Qed.

Example C04_ex_api_str :
  api_str [97; 7; 13; 11; 60; 10; 38; 128512]%N = true /\ xml_str [97; 7; 13; 11; 60; 10; 38; 128512]%N = false /\
  api_op (OPara 0 [7]%N) = true /\ xml_cell None = true.
Proof. vm_compute. repeat split; reflexivity. Qed.

(* the hypotheses of C04_reopen_para / C04_reopen_run are met: second run of the first paragraph, VT and CR assigned *)
Example C04_ex_reopen_run :
  let p := [PPr 3; It (R None [97; 32]); It Br; It (R (Some 9) [98]); EndRPr 4]%N in
  let b := mkBody 7 [p; []]%N in
  xml_body b = true /\ nth_error (paras b) 0 = Some p /\ api_str [11; 13; 9]%N = true /\
  update_run 1 (set_run [11; 13; 9]%N) p =
    Some [PPr 3; It (R None [97; 32]); It Br;
          It (R (Some 9) [95; 120; 48; 48; 48; 66; 95; 95; 120; 48; 48; 48; 68; 95; 9]); EndRPr 4]%N.
Proof. vm_compute. repeat split; reflexivity. Qed.

(** ---- non-vacuity ---- *)
(* frame: a, LF, VT, b, space, BEL onto a body with two paragraphs and properties *)
Example C04_ex_frame :
  let b := mkBody 7 [[PPr 3; It (R (Some 5) [111]); It Br; It (Fld [49]); EndRPr 4]; [It (R None [50])]]%N in
  set_frame [97; 10; 11; 98; 32; 7]%N b =
    mkBody 7 [[It (R None [97])]; [It Br; It (R None [98; 32; 95; 120; 48; 48; 48; 55; 95])]]%N
  /\ get_frame (set_frame [97; 10; 11; 98; 32; 7]%N b) = [97; 10; 11; 98; 32; 95; 120; 48; 48; 48; 55; 95]%N.
Proof. split; vm_compute; reflexivity. Qed.

(* paragraph: leading blank, LF, trailing VT; misplaced a:endParaRPr in the prior state *)
Example C04_ex_para :
  set_para [32; 97; 10; 11]%N [PPr 3; EndRPr 4; It (R None [111]); It Br]%N =
    [PPr 3; It (R None [32; 97]); It Br; It Br; EndRPr 4]%N.
Proof. vm_compute; reflexivity. Qed.

(* run inside a paragraph: second run, VT escaped, a:rPr kept *)
Example C04_ex_run :
  update_run 1 (set_run [11; 9]%N) [It (R None [97]); It Br; It (R (Some 9) [98])]%N =
    Some [It (R None [97]); It Br; It (R (Some 9) [95; 120; 48; 48; 48; 66; 95; 9])]%N.
Proof. vm_compute; reflexivity. Qed.

(* plain text exists: blanks only; and a text with markup characters *)
Example C04_ex_plain : plain [32; 9; 32]%N = true /\ plain [60; 38; 62; 128512]%N = true.
Proof. split; reflexivity. Qed.

(* a history in which the hypotheses of C04_history are met at each level *)
Example C04_ex_history :
  let c := run_ops [OCell [97; 10; 98]; OAddRun 1; OPara 0 [120; 11; 121]; OAddBr 1; OClear 5]%N None in
  length (paras (cell_body c)) = 2%nat /\
  (exists p, nth_error (paras (cell_body c)) 1 = Some p /\ length (runs_of p) = 2%nat) /\
  wf_cell c.
Proof.
  split; [reflexivity|]. split.
  - eexists; split; reflexivity.
  - apply C04_history_wf. exact I.
Qed.

(* levels_coincide: a string without breaks but with a control *)
Example C04_ex_coincide : forallb (fun c => negb (is_brk c)) [97; 7; 9]%N = true.
Proof. reflexivity. Qed.
