(** A concrete codec for the text body of model/Text.v, at the level of code points
    (save / re-open of property C04 at the level of a whole a:txBody).

    Writer side (what lxml emits for the tree python-pptx builds; the text is the UTF-8
    decoding of the bytes of  etree.tostring(txBody, encoding=UTF-8)  without the XML
    declaration, the element being the root so that the only namespace declaration is its
    own xmlns:a):
      src/pptx/oxml/text.py   CT_TextBody.new_a_txBody (a:bodyPr, one a:p), add_p,
                              CT_TextParagraph.add_r / add_br (a:r with an a:t, a:br),
                              CT_RegularTextRun.text setter (the text of the a:t)
      libxml2 xmlNodeDumpOutput: a depth-first walk that writes a start tag, the content
      and an end tag per element, an empty-element tag for an element without any child
      node, nothing between the tags (no pretty printing); element text with the
      ampersand, less-than, greater-than and the carriage return (as the character
      reference with decimal 13) escaped: sax_escape_g false false false true of
      model/Escape.v is exactly that substitution (TextRun.lxml_text_escape, op lx).
    The serialiser below is that walk: [body_tags] lists the tags in document order (an
    a:t start tag carries the escaped text that follows it), [render] writes one tag
    without its opening less-than sign, [enc_body] puts them one after the other.

    What the opaque parts of model/Text.v become: a property element (a:bodyPr, a:pPr,
    a:endParaRPr, a:rPr) whose model identity is the number x is the empty element with
    one marker attribute (lIns, marL, sz, sz) holding x in decimal, and no attribute at all
    when x is 0 (the element python-pptx itself creates: the template a:bodyPr); an a:fld
    carries a fixed id and type and has an a:t child exactly when its text is not empty.
    The model does not tell an a:t without a text node (what the parser and add_run leave)
    from an a:t with an empty text node (what assigning the empty string to run.text
    leaves: lxml then writes a start tag and an end tag): [enc_body_g true] writes every
    empty a:t the second way, [enc_body] = [enc_body_g false] the first way; the reader
    takes both.

    Reader side (pptx.oxml.parse_xml, then the getters of model/Text.v): a recogniser for
    that document shape.  The text is cut at every less-than sign (element text holds
    none: it is escaped; a CDATA section or a comment is not part of the shape), every
    piece must be one of the tags above, the piece of an a:t start tag carries the raw
    element text, which is decoded by [lex_text] of model/Escape.v: references, line-end
    handling, rejection of non-characters, and the blank-text removal heuristic of libxml2
    under remove_blank_text=True.  Then the tag list is folded back into the tree by a
    structurally recursive function.  Any other text is answered None.

    Definitions only; proofs are in proofs/TextCodec_proofs.v. *)
From V.lib Require Import Prelude.
From V.model Require Import Escape Text.

(** ---- the literal pieces (without the opening less-than sign) ---- *)
Definition t_body_open : str := (* a:txBody xmlns:a=QUOTE http://schemas.openxmlformats.org/drawingml/2006/main QUOTE > *)
  [97; 58; 116; 120; 66; 111; 100; 121; 32; 120; 109; 108; 110; 115; 58; 97; 61; 34; 104; 116; 116; 112; 58; 47; 47; 115; 99; 104; 101; 109; 97; 115; 46; 111; 112; 101; 110; 120; 109; 108; 102; 111; 114; 109; 97; 116; 115; 46; 111; 114; 103; 47; 100; 114; 97; 119; 105; 110; 103; 109; 108; 47; 50; 48; 48; 54; 47; 109; 97; 105; 110; 34; 62]%N.
Definition t_body_close : str := (* /a:txBody> *)
  [47; 97; 58; 116; 120; 66; 111; 100; 121; 62]%N.
Definition n_bodypr : str := (* a:bodyPr *)
  [97; 58; 98; 111; 100; 121; 80; 114]%N.
Definition a_lins : str := (* blank lIns=QUOTE *)
  [32; 108; 73; 110; 115; 61; 34]%N.
Definition t_p_open : str := (* a:p> *)
  [97; 58; 112; 62]%N.
Definition t_p_empty : str := (* a:p/> *)
  [97; 58; 112; 47; 62]%N.
Definition t_p_close : str := (* /a:p> *)
  [47; 97; 58; 112; 62]%N.
Definition n_ppr : str := (* a:pPr *)
  [97; 58; 112; 80; 114]%N.
Definition a_marl : str := (* blank marL=QUOTE *)
  [32; 109; 97; 114; 76; 61; 34]%N.
Definition n_endrpr : str := (* a:endParaRPr *)
  [97; 58; 101; 110; 100; 80; 97; 114; 97; 82; 80; 114]%N.
Definition a_sz : str := (* blank sz=QUOTE *)
  [32; 115; 122; 61; 34]%N.
Definition t_br : str := (* a:br/> *)
  [97; 58; 98; 114; 47; 62]%N.
Definition t_r_open : str := (* a:r> *)
  [97; 58; 114; 62]%N.
Definition t_r_close : str := (* /a:r> *)
  [47; 97; 58; 114; 62]%N.
Definition n_rpr : str := (* a:rPr *)
  [97; 58; 114; 80; 114]%N.
Definition t_t_empty : str := (* a:t/> *)
  [97; 58; 116; 47; 62]%N.
Definition t_t_open : str := (* a:t> *)
  [97; 58; 116; 62]%N.
Definition t_t_close : str := (* /a:t> *)
  [47; 97; 58; 116; 62]%N.
Definition n_fld : str := (* a:fld id=QUOTE {B7B5B1C1-0000-4000-8000-000000000001} QUOTE type=QUOTE slidenum QUOTE *)
  [97; 58; 102; 108; 100; 32; 105; 100; 61; 34; 123; 66; 55; 66; 53; 66; 49; 67; 49; 45; 48; 48; 48; 48; 45; 52; 48; 48; 48; 45; 56; 48; 48; 48; 45; 48; 48; 48; 48; 48; 48; 48; 48; 48; 48; 48; 49; 125; 34; 32; 116; 121; 112; 101; 61; 34; 115; 108; 105; 100; 101; 110; 117; 109; 34]%N.
Definition t_fld_close : str := (* /a:fld> *)
  [47; 97; 58; 102; 108; 100; 62]%N.
Definition s_gt : str := [62]%N.            (* > *)
Definition s_end : str := [47; 62]%N.       (* /> *)

(** ---- tags ---- *)
(** One start tag, end tag or empty-element tag of the document shape; the start tag of an
    a:t comes with the raw (still escaped) text that follows it. *)
Inductive tag :=
| GBodyOpen | GBodyClose | GBodyPr (x : N)
| GPOpen | GPEmpty | GPClose
| GPPr (x : N) | GEndRPr (x : N) | GBr
| GROpen | GRClose | GRPr (x : N)
| GTEmpty | GTOpen (raw : str) | GTClose
| GFldOpen | GFldEmpty | GFldClose.

(** ---- writer ---- *)

(** libxml2's escaping of element text (xmlEscapeContent / xmlEscapeText) *)
Definition esc_text (s : str) : str := sax_escape_g false false false true s.

(** an empty property element: its name, then the marker attribute unless the number is 0 *)
Definition render_prop (name attr : str) (x : N) : str :=
  name ++ (if (x =? 0)%N then [] else attr ++ dec_of_N x ++ [c_quot]) ++ s_end.

Definition render (g : tag) : str :=
  match g with
  | GBodyOpen => t_body_open
  | GBodyClose => t_body_close
  | GBodyPr x => render_prop n_bodypr a_lins x
  | GPOpen => t_p_open
  | GPEmpty => t_p_empty
  | GPClose => t_p_close
  | GPPr x => render_prop n_ppr a_marl x
  | GEndRPr x => render_prop n_endrpr a_sz x
  | GBr => t_br
  | GROpen => t_r_open
  | GRClose => t_r_close
  | GRPr x => render_prop n_rpr a_sz x
  | GTEmpty => t_t_empty
  | GTOpen raw => t_t_open ++ raw
  | GTClose => t_t_close
  | GFldOpen => n_fld ++ s_gt
  | GFldEmpty => n_fld ++ s_end
  | GFldClose => t_fld_close
  end.

(** an a:t with its text; [long]: an empty a:t is written with a start and an end tag *)
Definition text_tags (long : bool) (t : str) : list tag :=
  match t, long with
  | [], false => [GTEmpty]
  | _, _ => [GTOpen (esc_text t); GTClose]
  end.

Definition item_tags (long : bool) (i : item) : list tag :=
  match i with
  | R x t =>
      GROpen :: (match x with Some v => [GRPr v] | None => [] end) ++ text_tags long t ++ [GRClose]
  | Br => [GBr]
  | Fld t =>
      match t with
      | [] => [GFldEmpty]
      | _ => GFldOpen :: text_tags long t ++ [GFldClose]
      end
  end.

Definition pchild_tags (long : bool) (c : pchild) : list tag :=
  match c with
  | PPr x => [GPPr x]
  | It i => item_tags long i
  | EndRPr x => [GEndRPr x]
  end.

Definition para_tags (long : bool) (p : para) : list tag :=
  match p with
  | [] => [GPEmpty]
  | _ => GPOpen :: flat_map (pchild_tags long) p ++ [GPClose]
  end.

Definition body_tags (long : bool) (b : body) : list tag :=
  GBodyOpen :: GBodyPr (bodypr b) :: flat_map (para_tags long) (paras b) ++ [GBodyClose].

Definition write_tag (g : tag) : str := c_lt :: render g.

Definition enc_body_g (long : bool) (b : body) : str := flat_map write_tag (body_tags long b).

(** etree.tostring of the a:txBody *)
Definition enc_body (b : body) : str := enc_body_g false b.

(** ---- reader ---- *)

(** [s] without its prefix [p], when it has that prefix *)
Fixpoint strip (p s : str) : option str :=
  match p, s with
  | [], _ => Some s
  | x :: p', y :: s' => if (x =? y)%N then strip p' s' else None
  | _ :: _, [] => None
  end.

(** decimal digits, the closing quote, the end of an empty-element tag *)
Definition dec_num (s : str) : option N :=
  match take_while is_digit s with
  | [] => None
  | ds => if str_eqb (drop_while is_digit s) (c_quot :: s_end) then Some (dec_value ds) else None
  end.

Definition dec_prop (name attr piece : str) : option N :=
  match strip name piece with
  | Some rest =>
      if str_eqb rest s_end then Some 0%N
      else match strip attr rest with Some r => dec_num r | None => None end
  | None => None
  end.

(** the tags without a variable part *)
Definition const_tags : list (str * tag) :=
  [(t_body_open, GBodyOpen); (t_body_close, GBodyClose);
   (t_p_open, GPOpen); (t_p_empty, GPEmpty); (t_p_close, GPClose); (t_br, GBr);
   (t_r_open, GROpen); (t_r_close, GRClose); (t_t_empty, GTEmpty); (t_t_close, GTClose);
   (n_fld ++ s_gt, GFldOpen); (n_fld ++ s_end, GFldEmpty); (t_fld_close, GFldClose)].

Fixpoint lookup_tag (piece : str) (l : list (str * tag)) : option tag :=
  match l with
  | [] => None
  | (k, g) :: r => if str_eqb piece k then Some g else lookup_tag piece r
  end.

(** what one piece (the text between two less-than signs) is *)
Definition tag_of (piece : str) : option tag :=
  match strip t_t_open piece with
  | Some raw => Some (GTOpen raw)
  | None =>
  match dec_prop n_bodypr a_lins piece with
  | Some x => Some (GBodyPr x)
  | None =>
  match dec_prop n_ppr a_marl piece with
  | Some x => Some (GPPr x)
  | None =>
  match dec_prop n_endrpr a_sz piece with
  | Some x => Some (GEndRPr x)
  | None =>
  match dec_prop n_rpr a_sz piece with
  | Some x => Some (GRPr x)
  | None => lookup_tag piece const_tags
  end end end end end.

Fixpoint map_opt {A B} (f : A -> option B) (l : list A) : option (list B) :=
  match l with
  | [] => Some []
  | x :: r =>
      match f x, map_opt f r with
      | Some y, Some ys => Some (y :: ys)
      | _, _ => None
      end
  end.

(** the raw text after an a:t start tag, as the oxml parser hands it over *)
Definition read_text (raw : str) : option str :=
  match lex_text raw with OneText v => Some v | BrokenText => None end.

(** a child put in front of the paragraph under construction (the head of the list) *)
Definition push (c : pchild) (o : option (list para)) : option (list para) :=
  match o with
  | Some (p :: ps) => Some ((c :: p) :: ps)
  | _ => None
  end.

Definition push_text (mk : str -> pchild) (raw : str) (o : option (list para)) : option (list para) :=
  match read_text raw with Some v => push (mk v) o | None => None end.

(** [inp = false]: between two paragraphs, the result is the list of the paragraphs that
    follow; [inp = true]: inside an a:p, the head of the result is that paragraph (its
    remaining children).  Nothing may follow the end tag of the root. *)
Fixpoint dec_go (inp : bool) (ts : list tag) : option (list para) :=
  match ts with
  | [] => None
  | g :: more =>
      if inp then
        match g with
        | GPClose => match dec_go false more with Some ps => Some ([] :: ps) | None => None end
        | GPPr x => push (PPr x) (dec_go true more)
        | GEndRPr x => push (EndRPr x) (dec_go true more)
        | GBr => push (It Br) (dec_go true more)
        | GFldEmpty => push (It (Fld [])) (dec_go true more)
        | GFldOpen =>
            match more with
            | GFldClose :: m => push (It (Fld [])) (dec_go true m)
            | GTEmpty :: GFldClose :: m => push (It (Fld [])) (dec_go true m)
            | GTOpen raw :: GTClose :: GFldClose :: m => push_text (fun v => It (Fld v)) raw (dec_go true m)
            | _ => None
            end
        | GROpen =>
            match more with
            | GTEmpty :: GRClose :: m => push (It (R None [])) (dec_go true m)
            | GTOpen raw :: GTClose :: GRClose :: m => push_text (fun v => It (R None v)) raw (dec_go true m)
            | GRPr x :: GTEmpty :: GRClose :: m => push (It (R (Some x) [])) (dec_go true m)
            | GRPr x :: GTOpen raw :: GTClose :: GRClose :: m =>
                push_text (fun v => It (R (Some x) v)) raw (dec_go true m)
            | _ => None
            end
        | _ => None
        end
      else
        match g with
        | GBodyClose => match more with [] => Some [] | _ => None end
        | GPEmpty => match dec_go false more with Some ps => Some ([] :: ps) | None => None end
        | GPOpen => dec_go true more
        | _ => None
        end
  end.

Definition dec_tags (ts : list tag) : option body :=
  match ts with
  | GBodyOpen :: GBodyPr x :: more =>
      match dec_go false more with Some ps => Some (mkBody x ps) | None => None end
  | _ => None
  end.

(** parse_xml of the text, read as a text body *)
Definition dec_body (s : str) : option body :=
  match split_on c_lt s with
  | [] :: pieces =>
      match map_opt tag_of pieces with Some ts => dec_tags ts | None => None end
  | _ => None
  end.

(** ---- the inputs on which the codec is exact ---- *)

(** every run text and field text is a string of XML characters (anything else lxml
    refuses to store in the tree, so it cannot be there when the body is saved) *)
Definition xml_item (i : item) : bool :=
  match i with R _ t => xml_str t | Br => true | Fld t => xml_str t end.
Definition xml_pchild (c : pchild) : bool := match c with It i => xml_item i | _ => true end.
Definition xml_para (p : para) : bool := forallb xml_pchild p.
Definition xml_body (b : body) : bool := forallb xml_para (paras b).
Definition xml_cell (c : cell) : bool := match c with Some b => xml_body b | None => true end.

(** the strings the setters can be given: XML characters and C0 controls (every C0 control
    except TAB and LF is turned into its seven-character escape before it reaches lxml,
    or, for LF and VT at the paragraph / frame level, into a break or a new paragraph) *)
Definition api_char (c : N) : bool := is_xml_char c || (c <? 32)%N.
Definition api_str (s : str) : bool := forallb api_char s.

Definition api_op (o : op) : bool :=
  match o with
  | OFrame s | OCell s | OPara _ s | ORun _ _ s => api_str s
  | _ => true
  end.

(** [n] save / re-open cycles: None as soon as one re-open does not recognise the text *)
Fixpoint reopen_cycles (n : nat) (b : body) : option body :=
  match n with
  | O => Some b
  | S n' => match dec_body (enc_body b) with Some b' => reopen_cycles n' b' | None => None end
  end.
